(* Executable boolean checker for the Greedy property (C07), generic over the
   law-free Num so that it can be extracted and run at NumQ; proved to be exactly
   the declarative property Greedy at NumZ. *)
From Coq Require Import List ZArith Lia Bool Arith.
From TW Require Import FirstFit Partition Greedy.
Import ListNotations.

Arguments N.add : simpl never. Arguments N.sub : simpl never. Arguments N.mul : simpl never.
Arguments N.leb : simpl never. Arguments N.ltb : simpl never. Arguments N.eqb : simpl never.
Local Arguments Z.add : simpl never. Local Arguments Z.gtb : simpl never.

Section GreedyB.
Variable Nm : Num.
Variable A : Type.
Variable m : A -> frag Nm.

(* accumulated width of a run of fragments, with the loop's association order *)
Definition run_width_n (l : list A) : T Nm :=
  fold_left (fun a x => add Nm a (add Nm (fw (m x)) (fws (m x)))) l (zero Nm).

(* the loop's test: fragment x does not fit after the run pre on a line of width lw *)
Definition overflows (lw : T Nm) (pre : list A) (x : A) : bool :=
  gtb Nm (add Nm (add Nm (run_width_n pre) (fw (m x))) (fpen (m x))) lw.

(* every fragment of the line that is not its first fitted when it was added;
   pre = fragments already on the line, in order; rest = fragments still to come *)
Fixpoint line_ok (lw : T Nm) (pre rest : list A) : bool :=
  match rest with
  | [] => true
  | x :: r =>
      match pre with [] => true | _ :: _ => negb (overflows lw pre x) end
      && line_ok lw (pre ++ [x]) r
  end.

(* lines, whose first line has number k, satisfy the Greedy conditions *)
Fixpoint greedy_from_b (lws : list (T Nm)) (k : nat) (lines : list (list A)) : bool :=
  match lines with
  | [] => true
  | l :: ls =>
      line_ok (nth_width lws k) [] l
      && match l, ls with
         | _ :: _, (y :: _) :: _ => overflows (nth_width lws k) l y
         | _, _ => true
         end
      && greedy_from_b lws (S k) ls
  end.

Definition greedy_b (lws : list (T Nm)) (lines : list (list A)) : bool :=
  greedy_from_b lws 0 lines.
End GreedyB.

(* ---- correctness at NumZ ---- *)
Section Correct.
Variable A : Type.
Variable m : A -> frag NumZ.
Local Open Scope Z_scope.

Lemma run_width_n_Z (l : list A) : run_width_n NumZ A m l = run_width A m l.
Proof. reflexivity. Qed.

Lemma overflows_Z lw pre x :
  overflows NumZ A m lw pre x = (run_width A m pre + fw (m x) + fpen (m x) >? lw).
Proof. reflexivity. Qed.

Lemma overflows_false lw pre x :
  negb (overflows NumZ A m lw pre x) = true <->
  run_width A m pre + fw (m x) + fpen (m x) <= lw.
Proof.
  rewrite overflows_Z.
  destruct (Z.gtb_spec (run_width A m pre + fw (m x) + fpen (m x)) lw) as [Hgt|Hle];
    cbn [negb]; split; intros H; try lia; try reflexivity; try discriminate.
Qed.

Lemma overflows_true lw pre x :
  overflows NumZ A m lw pre x = true <->
  run_width A m pre + fw (m x) + fpen (m x) > lw.
Proof.
  rewrite overflows_Z.
  destruct (Z.gtb_spec (run_width A m pre + fw (m x) + fpen (m x)) lw) as [Hgt|Hle];
    split; intros H; try lia; try reflexivity; try discriminate.
Qed.

Lemma line_ok_spec lw rest : forall pre,
  line_ok NumZ A m lw pre rest = true <->
  (forall p x post, rest = p ++ x :: post -> pre ++ p <> [] ->
     run_width A m (pre ++ p) + fw (m x) + fpen (m x) <= lw).
Proof.
  induction rest as [|x r IH]; intros pre; cbn [line_ok].
  - split; [|reflexivity]. intros _ p x post E. destruct p; discriminate.
  - rewrite andb_true_iff, IH. split.
    + intros [H1 H2] p x' post E Hne. destruct p as [|a p'].
      * cbn [app] in E. injection E as Ex Er. subst x'. rewrite app_nil_r in *.
        destruct pre as [|c pre']; [congruence|]. apply overflows_false. exact H1.
      * cbn [app] in E. injection E as Ea Er. subst a.
        specialize (H2 p' x' post Er). rewrite <- app_assoc in H2. cbn [app] in H2.
        apply H2. intros E. apply app_eq_nil in E. destruct E as [_ E]. discriminate.
    + intros H. split.
      * destruct pre as [|c pre'] eqn:Epre; [reflexivity|]. rewrite <- Epre in *.
        apply overflows_false. specialize (H [] x r eq_refl). rewrite app_nil_r in H.
        apply H. rewrite Epre. discriminate.
      * intros p x' post E Hne. rewrite <- app_assoc. cbn [app].
        apply (H (x :: p) x' post).
        -- cbn [app]. rewrite E. reflexivity.
        -- intros E'. apply app_eq_nil in E'. destruct E' as [_ E']. discriminate.
Qed.

Lemma line_ok_CurOK lws k l :
  line_ok NumZ A m (@nth_width NumZ lws k) [] l = true <-> CurOK A m lws k l.
Proof.
  rewrite line_ok_spec. unfold CurOK. cbn [app]. split.
  - intros H pre x post E Hne. exact (H pre x post E Hne).
  - intros H p x post E Hne. exact (H p x post E Hne).
Qed.

Lemma GreedyFrom_nil lws k : GreedyFrom A m lws k [].
Proof. intros j pre x post Hj. destruct j; discriminate. Qed.

Lemma greedy_from_b_spec lws lines : forall k,
  greedy_from_b NumZ A m lws k lines = true <-> GreedyFrom A m lws k lines.
Proof.
  induction lines as [|l ls IH]; intros k; cbn [greedy_from_b].
  - split; [intros _; apply GreedyFrom_nil|reflexivity].
  - rewrite !andb_true_iff, IH, line_ok_CurOK. split.
    + intros [[Hc Hn] Hg]. apply greedy_cons; [exact Hc| |exact Hg].
      intros y rest Hy Hl. destruct ls as [|l1 ls']; [discriminate|].
      cbn [nth_error] in Hy. injection Hy as Hy. subst l1.
      destruct l as [|c l'] eqn:El; [congruence|]. rewrite <- El in *.
      apply overflows_true. exact Hn.
    + intros Hg. split; [split|].
      * apply (greedy_head_ok A m lws k l ls Hg).
      * destruct l as [|c l'] eqn:El; [reflexivity|]. rewrite <- El in *.
        destruct ls as [|l1 ls']; [reflexivity|].
        destruct l1 as [|y r1]; [reflexivity|].
        apply overflows_true. apply (greedy_head_next A m lws k l y r1 ls'); [|exact Hg].
        rewrite El. discriminate.
      * apply (greedy_tail A m lws k l ls Hg).
Qed.

End Correct.

Theorem greedy_b_sound : forall (A : Type) (m : A -> frag NumZ) lws lines,
  greedy_b NumZ A m lws lines = true -> Greedy A m lws lines.
Proof.
  intros A m lws lines H. apply Greedy_from0. apply greedy_from_b_spec. exact H.
Qed.

Theorem greedy_b_complete : forall (A : Type) (m : A -> frag NumZ) lws lines,
  Greedy A m lws lines -> greedy_b NumZ A m lws lines = true.
Proof.
  intros A m lws lines H. apply greedy_from_b_spec. apply Greedy_from0. exact H.
Qed.

Corollary greedy_b_first_fit : forall (A : Type) (m : A -> frag NumZ) xs lws,
  greedy_b NumZ A m lws (first_fit m xs lws) = true.
Proof. intros A m xs lws. apply greedy_b_complete. apply first_fit_greedy. Qed.

(* ---- evaluation ---- *)
Section Example.
Local Open Scope Z_scope.
Let f1 : frag NumZ := mkFrag (Nm:=NumZ) 3 1 0.
Let f2 : frag NumZ := mkFrag (Nm:=NumZ) 2 1 0.
Let f3 : frag NumZ := mkFrag (Nm:=NumZ) 4 1 0.
Let f4 : frag NumZ := mkFrag (Nm:=NumZ) 1 1 1.
Let f5 : frag NumZ := mkFrag (Nm:=NumZ) 5 0 0.
Let idf : frag NumZ -> frag NumZ := fun f => f.

(* the fragments and widths of Greedy.greedy_example *)
Example greedy_b_example_true :
  greedy_b NumZ _ idf [6; 8] [[f1; f2]; [f3; f4]; [f5]] = true.
Proof. vm_compute. reflexivity. Qed.

Example greedy_b_example_first_fit :
  greedy_b NumZ _ idf [6; 8] (first_fit idf [f1; f2; f3; f4; f5] [6; 8]) = true.
Proof. vm_compute. reflexivity. Qed.

(* the non-greedy partition of Greedy.not_greedy_example *)
Example greedy_b_example_false :
  greedy_b NumZ _ idf [6; 8] [[f1]; [f2; f3; f4]; [f5]] = false.
Proof. vm_compute. reflexivity. Qed.

(* a line broken too late (f3 does not fit on line 0) is rejected as well *)
Example greedy_b_example_false2 :
  greedy_b NumZ _ idf [6; 8] [[f1; f2; f3]; [f4]; [f5]] = false.
Proof. vm_compute. reflexivity. Qed.

(* the same data at NumQ: the generic checker runs there too *)
Let q (w s p : N) : frag NumQ := mkFrag (Nm:=NumQ) (of_N NumQ w) (of_N NumQ s) (of_N NumQ p).
Let idq : frag NumQ -> frag NumQ := fun f => f.
Example greedy_b_example_Q :
  greedy_b NumQ _ idq [of_N NumQ 6; of_N NumQ 8]
    [[q 3 1 0; q 2 1 0]; [q 4 1 0; q 1 1 1]; [q 5 0 0]] = true /\
  greedy_b NumQ _ idq [of_N NumQ 6; of_N NumQ 8]
    [[q 3 1 0]; [q 2 1 0; q 4 1 0; q 1 1 1]; [q 5 0 0]] = false /\
  greedy_b NumQ _ idq [of_N NumQ 6; of_N NumQ 8]
    (first_fit idq [q 3 1 0; q 2 1 0; q 4 1 0; q 1 1 1; q 5 0 0] [of_N NumQ 6; of_N NumQ 8]) = true.
Proof. vm_compute. repeat split. Qed.
End Example.

Print Assumptions greedy_b_sound.
Print Assumptions greedy_b_complete.
Print Assumptions greedy_b_first_fit.
Print Assumptions greedy_b_example_true.
Print Assumptions greedy_b_example_false.
Print Assumptions greedy_b_example_Q.
