(* An executable recogniser for the well-formedness grammar [Parse] of C10, proved sound:
   used by the L2 check to decide which generated texts the theorem speaks about. *)
From Coq Require Import Lia.
From TW Require Import Esc EscFacts.

(* split at the first character satisfying p: (before, that char, after) *)
Fixpoint break_at (p : char -> bool) (t : str) : option (str * char * str) :=
  match t with
  | [] => None
  | c :: r => if p c then Some ([], c, r)
              else match break_at p r with
                   | Some (b, x, a) => Some (c :: b, x, a)
                   | None => None
                   end
  end.

Lemma break_at_spec p t b x a :
  break_at p t = Some (b, x, a) -> t = b ++ x :: a /\ p x = true /\ Forall (fun c => p c = false) b.
Proof.
  revert b x a; induction t as [|c r IH]; intros b x a H; cbn [break_at] in H; [discriminate|].
  destruct (p c) eqn:E.
  - injection H as <- <- <-. repeat split; auto.
  - destruct (break_at p r) as [[[b' x'] a']|]; [|discriminate]. injection H as <- <- <-.
    destruct (IH _ _ _ eq_refl) as [-> [Hx Hb]]. repeat split; auto.
Qed.

Lemma break_at_shorter p t b x a : break_at p t = Some (b, x, a) -> (length a < length t)%nat.
Proof.
  intros H. destruct (break_at_spec _ _ _ _ _ H) as [-> _]. rewrite app_length. cbn [length]. lia.
Qed.

(* fuel = length of the text suffices *)
Fixpoint parse_wf (fuel : nat) (t : str) : option str :=
  match fuel with
  | O => match t with [] => Some [] | _ => None end
  | S f =>
      match t with
      | [] => Some []
      | c :: r =>
          if c =? ESC then
            match r with
            | k :: r' =>
                if k =? LBRACK then
                  (* CSI: up to the first final byte; no ESC before it *)
                  match break_at (fun c => is_final c || (c =? ESC)) r' with
                  | Some (_, fin, rest) => if is_final fin then parse_wf f rest else None
                  | None => None
                  end
                else if k =? RBRACK then
                  (* OSC: up to the first BEL, or ESC which must be followed by '\' *)
                  match break_at (fun c => (c =? BEL) || (c =? ESC)) r' with
                  | Some (_, x, rest) =>
                      if x =? BEL then parse_wf f rest
                      else match rest with
                           | b :: rest' => if b =? BSLASH then parse_wf f rest' else None
                           | [] => None
                           end
                  | None => None
                  end
                else None
            | [] => None
            end
          else match parse_wf f r with Some v => Some (c :: v) | None => None end
      end
  end.

Lemma parse_wf_sound : forall fuel t v, parse_wf fuel t = Some v -> Parse t v.
Proof.
  induction fuel as [|f IH]; intros t v H; cbn [parse_wf] in H.
  - destruct t; [injection H as <-; constructor | discriminate].
  - destruct t as [|c r]; [injection H as <-; constructor|].
    destruct (c =? ESC) eqn:Ec.
    + apply N.eqb_eq in Ec. subst c.
      destruct r as [|k r']; [discriminate|].
      destruct (k =? LBRACK) eqn:Ek.
      * apply N.eqb_eq in Ek. subst k.
        destruct (break_at _ r') as [[[body fin] rest]|] eqn:Eb; [|discriminate].
        destruct (is_final fin) eqn:Ef; [|discriminate].
        destruct (break_at_spec _ _ _ _ _ Eb) as [-> [_ Hb]].
        apply P_csi; [|exact Ef|apply IH; exact H].
        eapply Forall_impl; [|exact Hb]. cbn beta. intros a Ha.
        apply orb_false_iff in Ha. destruct Ha as [Ha1 Ha2]. split; [exact Ha1|].
        apply N.eqb_neq. exact Ha2.
      * destruct (k =? RBRACK) eqn:Ek2; [|discriminate].
        apply N.eqb_eq in Ek2. subst k.
        destruct (break_at _ r') as [[[body x] rest]|] eqn:Eb; [|discriminate].
        destruct (break_at_spec _ _ _ _ _ Eb) as [-> [Hx Hb]].
        assert (Hbody : Forall osc_body_ok body).
        { eapply Forall_impl; [|exact Hb]. cbn beta. intros a Ha.
          apply orb_false_iff in Ha. destruct Ha as [Ha1 Ha2]. split; apply N.eqb_neq; assumption. }
        destruct (x =? BEL) eqn:Ex.
        -- apply N.eqb_eq in Ex. subst x. apply P_osc_bel; [exact Hbody|apply IH; exact H].
        -- cbn beta in Hx. cbn [orb] in Hx. apply N.eqb_eq in Hx. subst x.
           destruct rest as [|b rest']; [discriminate|].
           destruct (b =? BSLASH) eqn:Eb2; [|discriminate]. apply N.eqb_eq in Eb2. subst b.
           apply P_osc_st; [exact Hbody|apply IH; exact H].
    + destruct (parse_wf f r) as [v'|] eqn:Er; [|discriminate]. injection H as <-.
      apply P_char; [apply N.eqb_neq; exact Ec|apply IH; exact Er].
Qed.

Definition wf_strip (t : str) : option str := parse_wf (length t) t.
Lemma wf_strip_sound t v : wf_strip t = Some v -> Parse t v.
Proof. apply parse_wf_sound. Qed.
