(* everything the extracted driver needs from Checkers/ *)
From TW Require Export ParseWF GreedyB OptB.
