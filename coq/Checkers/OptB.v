(* A boolean checker for C03, proved sound: an arrangement that passes it has the minimum
   cost over ALL arrangements (<= 2 line widths).  The L2 check for C03 runs the extracted
   [optimal_b] on the arrangement the implementation returned whenever every quantity of
   the case is an integer. *)
From Coq Require Import ZArith Lia List Bool Arith.
From TW Require Import OptFit Partition Bellman.
Import ListNotations.

Fixpoint chain_b (b a : nat) (rs : list (nat * nat)) : bool :=
  match rs with
  | [] => Nat.eqb a b
  | (s, e) :: r => Nat.eqb s a && Nat.ltb s e && chain_b b e r
  end.

Lemma chain_b_spec b : forall rs a, chain_b b a rs = true <-> chain b a rs.
Proof.
  induction rs as [|[s e] r IH]; intros a; cbn [chain_b chain].
  - apply Nat.eqb_eq.
  - rewrite !andb_true_iff, Nat.eqb_eq, Nat.ltb_lt, IH. tauto.
Qed.

Definition optimal_b (P : penalties) (fs : list (frag NumZ)) (lws : list Z)
                     (rs : list (nat * nat)) : bool :=
  Nat.leb (length lws) 2 && chain_b (length fs) 0 rs &&
  Z.eqb (arrangement_cost NumZ P fs lws rs) (opt_cost NumZ P fs lws).

Theorem optimal_b_sound P fs lws rs : optimal_b P fs lws rs = true ->
  chain (length fs) 0 rs /\
  forall rs', chain (length fs) 0 rs' ->
    (arrangement_cost NumZ P fs lws rs <= arrangement_cost NumZ P fs lws rs')%Z.
Proof.
  unfold optimal_b. rewrite !andb_true_iff, Nat.leb_le, Z.eqb_eq, chain_b_spec.
  intros [[Hl Hc] He]. split; [exact Hc|]. intros rs' Hc'. rewrite He.
  apply bellman_lower; assumption.
Qed.

(* complete on the other side too: a chain of minimum cost passes *)
Theorem optimal_b_complete P fs lws rs : (length lws <= 2)%nat -> fs <> [] ->
  chain (length fs) 0 rs ->
  (forall rs', chain (length fs) 0 rs' ->
     (arrangement_cost NumZ P fs lws rs <= arrangement_cost NumZ P fs lws rs')%Z) ->
  optimal_b P fs lws rs = true.
Proof.
  intros Hl Hne Hc Hmin. unfold optimal_b.
  rewrite !andb_true_iff, Nat.leb_le, Z.eqb_eq, chain_b_spec. repeat split; try assumption.
  destruct (optimal_fit_minimal (frag NumZ) (fun f => f) P fs lws Hl Hne) as [r0 [_ [Hc0 [He0 _]]]].
  rewrite map_id in He0.
  pose proof (Hmin r0 Hc0). pose proof (bellman_lower P fs lws Hl rs Hc). lia.
Qed.
