(* The single extraction command.  Only the directives of ExtrOcamlBasic are in force. *)
Require Extraction.
Require ExtrOcamlBasic.
From Coq Require Import ZArith QArith.
From TW Require Import All.
From TW Require Import Pipeline.
From TW Require Import IdemUnicode IdemUnicodeOpt IdemLocal.
From TW Require Import WrapSmawk.
From TW Require Import Chars Esc Word Separators Splitters Num FirstFit OptFit Wrap Refill Indent Columns Custom.
Extraction Language OCaml.
Extraction "model.ml"
  N.add N.mul N.sub N.div_eucl N.eqb N.ltb N.leb N.of_nat N.to_nat
  Z.add Z.mul Z.sub Z.of_N Z.ltb Z.eqb Z.opp
  blen utf8_len str_eqb is_whitespace split_ws trim_end_sp split_lf split_crlf lines bslice
  step final_state dw strip
  word_from break_apart break_words
  find_words_ascii find_words_unicode idx_map
  hyphen_points sw_loop split_words
  NumZ NumQ first_fit optimal_fit optimal_fit_with dp_minima arrangement_cost opt_cost cost prefix_widths default_penalties
  find_words split_points run_alg ofit_dp word_frag slow_path wrap_single_line wrap fill fill_slow fill_inplace
  unfill refill non_empty_lines
  indent dedent
  wrap_columns custom3
  pipeline_words line_widths body lastw_pen
  ofit_smawk optimal_fit_smawk smawk_minima
  trim split_terminator_lf
  optimal_b chain_b refind_b refind_opt_b local_b no_forced_b o_nobreak wf_strip greedy_b take_ws has_nonws is_prefix_char split_terminator_lf trim_end ends_with join spaces.
