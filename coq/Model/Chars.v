(* Strings as lists of Unicode scalar values, byte lengths, and the std string
   primitives textwrap uses (split, lines, split_terminator, trim functions).
   Model only: no proofs live here. *)
From Coq Require Export List Arith NArith Bool.
Export ListNotations.
Open Scope N_scope.

Definition char := N.
Definition str := list char.

Definition SP : char := 32.
Definition LF : char := 10.
Definition CR : char := 13.
Definition ESC : char := 27.
Definition BEL : char := 7.
Definition HY : char := 45.    (* '-' *)
Definition SHY : char := 173.  (* soft hyphen *)
Definition LBRACK : char := 91. (* '[' *)
Definition RBRACK : char := 93. (* ']' *)
Definition BSLASH : char := 92. (* '\' *)

(* char::len_utf8 *)
Definition utf8_len (c : char) : N :=
  if c <? 128 then 1 else if c <? 2048 then 2 else if c <? 65536 then 3 else 4.

(* str::len *)
Fixpoint blen (s : str) : N :=
  match s with [] => 0 | c :: r => utf8_len c + blen r end.

Fixpoint str_eqb (a b : str) : bool :=
  match a, b with
  | [], [] => true
  | x :: a', y :: b' => (x =? y) && str_eqb a' b'
  | _, _ => false
  end.

(* char::is_whitespace : the 25 White_Space code points *)
Definition is_whitespace (c : char) : bool :=
  ((9 <=? c) && (c <=? 13)) || (c =? 32) || (c =? 133) || (c =? 160) || (c =? 5760)
  || ((8192 <=? c) && (c <=? 8202)) || (c =? 8232) || (c =? 8233) || (c =? 8239)
  || (c =? 8287) || (c =? 12288).

Definition is_sp (c : char) : bool := c =? SP.

(* (trim_end_matches(' '), the removed run of spaces) *)
Fixpoint split_ws (s : str) : str * str :=
  match s with
  | [] => ([], [])
  | c :: r =>
      let '(w, ws) := split_ws r in
      match w with
      | [] => if c =? SP then ([], c :: ws) else ([c], ws)
      | _ => (c :: w, ws)
      end
  end.
Definition trim_end_sp (s : str) : str := fst (split_ws s).

(* generic trim_end_matches / trim_start_matches for a char predicate *)
Fixpoint trim_end_by (p : char -> bool) (s : str) : str :=
  match s with
  | [] => []
  | c :: r => match trim_end_by p r with
              | [] => if p c then [] else [c]
              | r' => c :: r'
              end
  end.
Fixpoint trim_start_by (p : char -> bool) (s : str) : str :=
  match s with
  | [] => []
  | c :: r => if p c then trim_start_by p r else s
  end.
(* str::trim_end, str::trim *)
Definition trim_end (s : str) : str := trim_end_by is_whitespace s.
Definition trim (s : str) : str := trim_start_by is_whitespace (trim_end s).

Fixpoint starts_with (s p : str) : bool :=
  match p, s with
  | [], _ => true
  | y :: p', x :: s' => (x =? y) && starts_with s' p'
  | _ :: _, [] => false
  end.
Definition ends_with (s p : str) : bool := starts_with (rev s) (rev p).

Definition cons_first (c : char) (l : list str) : list str :=
  match l with [] => [[c]] | p :: ps => (c :: p) :: ps end.

(* str::split('\n')  — always at least one piece *)
Fixpoint split_lf (s : str) : list str :=
  match s with
  | [] => [[]]
  | c :: r => if c =? LF then [] :: split_lf r else cons_first c (split_lf r)
  end.

(* str::split("\r\n") *)
Fixpoint split_crlf (s : str) : list str :=
  match s with
  | [] => [[]]
  | c :: r =>
      match r with
      | d :: r' => if (c =? CR) && (d =? LF) then [] :: split_crlf r'
                   else cons_first c (split_crlf r)
      | [] => [[c]]
      end
  end.

(* str::split_terminator('\n') : split, minus a trailing empty piece *)
Fixpoint drop_last_empty (l : list str) : list str :=
  match l with
  | [] => []
  | [p] => match p with [] => [] | _ => [p] end
  | p :: ps => p :: drop_last_empty ps
  end.
Definition split_terminator_lf (s : str) : list str := drop_last_empty (split_lf s).

(* strip one trailing CR *)
Fixpoint strip_cr (s : str) : str :=
  match s with
  | [] => []
  | [c] => if c =? CR then [] else [c]
  | c :: r => c :: strip_cr r
  end.

(* str::lines(): pieces terminated by LF lose one trailing CR; the unterminated
   remainder is yielded only when non-empty and keeps a trailing CR *)
Fixpoint lines_of_pieces (l : list str) : list str :=
  match l with
  | [] => []
  | [p] => match p with [] => [] | _ => [p] end
  | p :: ps => strip_cr p :: lines_of_pieces ps
  end.
Definition lines (s : str) : list str := lines_of_pieces (split_lf s).

(* byte-indexed slicing &s[a..b]; None = panic (out of range or not a char boundary) *)
Fixpoint bdrop (s : str) (a : N) : option str :=
  if a =? 0 then Some s else
  match s with
  | [] => None
  | c :: r => if utf8_len c <=? a then bdrop r (a - utf8_len c) else None
  end.
Fixpoint btake (s : str) (n : N) : option str :=
  if n =? 0 then Some [] else
  match s with
  | [] => None
  | c :: r => if utf8_len c <=? n
              then match btake r (n - utf8_len c) with Some t => Some (c :: t) | None => None end
              else None
  end.
Definition bslice (s : str) (a b : N) : option str :=
  if b <? a then None else
  match bdrop s a with
  | None => None
  | Some r => btake r (b - a)
  end.

Fixpoint join (sep : str) (l : list str) : str :=
  match l with
  | [] => []
  | [x] => x
  | x :: r => x ++ sep ++ join sep r
  end.

Fixpoint repeat_sp (n : nat) : str := match n with O => [] | S k => SP :: repeat_sp k end.
Definition spaces (n : N) : str := repeat_sp (N.to_nat n).

Definition sum_N (l : list N) : N := fold_right N.add 0 l.
