(* indentation.rs: indent, dedent *)
From TW Require Export Chars.

Fixpoint indent_lines (ls : list str) (prefix tprefix : str) (first : bool) : str :=
  match ls with
  | [] => []
  | line :: r =>
      (if first then [] else [LF]) ++
      (match trim line with [] => tprefix | _ => prefix end) ++ line ++
      indent_lines r prefix tprefix false
  end.

Definition indent (s prefix : str) : str :=
  indent_lines (split_terminator_lf s) prefix (trim_end prefix) true ++
  (if ends_with s [LF] then [LF] else []).

Fixpoint take_ws (s : str) : str :=
  match s with [] => [] | c :: r => if is_whitespace c then c :: take_ws r else [] end.
Definition has_nonws (s : str) : bool := existsb (fun c => negb (is_whitespace c)) s.

(* first loop: the first line with a non-whitespace char gives the prefix; returns
   (prefix, remaining lines) *)
Fixpoint dedent_first (ls : list str) : str * list str :=
  match ls with
  | [] => ([], [])
  | line :: r => if has_nonws line then (take_ws line, r) else dedent_first r
  end.

(* line[..whitespace_idx] when a mismatch with the prefix is found along the zip *)
Fixpoint mismatch_prefix (line prefix : str) : option str :=
  match line, prefix with
  | a :: l', b :: p' => if a =? b then
                          match mismatch_prefix l' p' with Some q => Some (a :: q) | None => None end
                        else Some []
  | _, _ => None
  end.

Fixpoint dedent_narrow (ls : list str) (prefix : str) : str :=
  match ls with
  | [] => prefix
  | line :: r =>
      match mismatch_prefix line prefix with
      | Some q => if has_nonws line then dedent_narrow r q else dedent_narrow r prefix
      | None => dedent_narrow r prefix
      end
  end.

Fixpoint dedent_emit (ls : list str) (prefix : str) : str :=
  match ls with
  | [] => []
  | line :: r =>
      (if starts_with line prefix && has_nonws line then skipn (length prefix) line else [])
      ++ [LF] ++ dedent_emit r prefix
  end.

Definition dedent (s : str) : str :=
  let ls := lines s in
  let '(p0, rest) := dedent_first ls in
  let prefix := dedent_narrow rest p0 in
  let result := dedent_emit ls prefix in
  if ends_with result [LF] && negb (ends_with s [LF]) then removelast result else result.
