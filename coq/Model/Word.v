(* core::Word, Word::from, Word::break_apart, core::break_words *)
From TW Require Export Esc.

Record word := mkWord { w_word : str; w_ws : str; w_pen : str; w_width : N }.

Section W.
Variable cw : char -> N.

(* Word::from *)
Definition word_from (s : str) : word :=
  let '(w, ws) := split_ws s in mkWord w ws [] (dw cw w).

(* The from_fn loop of break_apart: pieces (text, cached width).  [cur] is the
   current piece reversed, i.e. word[offset..idx]. *)
Fixpoint ba_loop (lim : N) (s : st) (t : str) (cur : str) (width : N) : list (str * N) :=
  match t with
  | [] => match cur with [] => [] | _ => [(rev cur, width)] end
  | c :: r =>
      let '(s', v) := step s c in
      if v then
        if (0 <? width) && (lim <? width + cw c)
        then (rev cur, width) :: ba_loop lim s' r [c] (cw c)
        else ba_loop lim s' r (c :: cur) (width + cw c)
      else ba_loop lim s' r (c :: cur) width
  end.

(* whitespace and penalty go to the last piece only *)
Fixpoint ba_finish (ps : list (str * N)) (ws pen : str) : list word :=
  match ps with
  | [] => []
  | [(p, w)] => [mkWord p ws pen w]
  | (p, w) :: r => mkWord p [] [] w :: ba_finish r ws pen
  end.

Definition break_apart (lim : N) (w : word) : list word :=
  ba_finish (ba_loop lim Normal (w_word w) [] 0) (w_ws w) (w_pen w).

Definition break_words (lim : N) (ws : list word) : list word :=
  flat_map (fun w => if lim <? w_width w then break_apart lim w else [w]) ws.
End W.
