(* word_separators: AsciiSpace and UnicodeBreakProperties *)
From TW Require Export Word.

Section S.
Variable cw : char -> N.

(* find_words_ascii_space: [cur] = line[start..idx] reversed *)
Fixpoint fwa_loop (t : str) (cur : str) (in_ws : bool) : list word :=
  match t with
  | [] => match cur with [] => [] | _ => [word_from cw (rev cur)] end
  | c :: r =>
      if in_ws && negb (c =? SP)
      then word_from cw (rev cur) :: fwa_loop r [c] false
      else fwa_loop r (c :: cur) (c =? SP)
  end.
Definition find_words_ascii (line : str) : list word := fwa_loop line [] false.

(* idx_map: one (char position, stripped byte index) entry per character met by
   the outer char_indices().next(); characters swallowed by the skipper have none *)
Fixpoint idx_map_from (s : st) (t : str) (pos : nat) (sidx : N) : list (nat * N) :=
  match t with
  | [] => []
  | c :: r =>
      let '(s', v) := step s c in
      match s with
      | Normal => (pos, sidx) :: idx_map_from s' r (S pos) (if v then sidx + utf8_len c else sidx)
      | _ => idx_map_from s' r (S pos) sidx
      end
  end.
Definition idx_map (line : str) := idx_map_from Normal line 0%nat 0.

(* Iterator::find on the shared idx_map iterator: consumes up to and including the hit *)
Fixpoint find_idx (m : list (nat * N)) (idx : N) : option nat * list (nat * N) :=
  match m with
  | [] => (None, [])
  | (p, s) :: r => if s =? idx then (Some p, r) else find_idx r idx
  end.
Fixpoint cut_positions (opps : list N) (m : list (nat * N)) : list nat :=
  match opps with
  | [] => []
  | o :: r => match find_idx m o with
              | (Some p, m') => p :: cut_positions r m'
              | (None, m') => cut_positions r m'
              end
  end.

(* pieces of [t] (which starts at char position [start]) cut at the positions;
   the remainder only when non-empty (start < line.len()) *)
Fixpoint pieces (cuts : list nat) (start : nat) (t : str) : list str :=
  match cuts with
  | [] => match t with [] => [] | _ => [t] end
  | p :: r => firstn (p - start) t :: pieces r p (skipn (p - start) t)
  end.

(* the character that ends at byte offset b of s (stripped[..idx].chars().next_back()) *)
Fixpoint char_before (s : str) (b : N) (prev : option char) : option char :=
  if b =? 0 then prev else
  match s with
  | [] => None
  | c :: r => if utf8_len c <=? b then char_before r (b - utf8_len c) (Some c) else None
  end.

Definition keep_opportunity (stripped : str) (idx : N) : bool :=
  (idx <? blen stripped) &&
  match char_before stripped idx None with
  | Some c => negb ((c =? HY) || (c =? SHY))
  | None => true
  end.

(* lbc = unicode_linebreak::linebreaks, byte offsets into the stripped line *)
Variable lbc : str -> list N.

Definition find_words_unicode (line : str) : list word :=
  let stripped := strip line in
  let opps := filter (keep_opportunity stripped) (lbc stripped) in
  map (word_from cw) (pieces (cut_positions opps (idx_map line)) 0 line).
End S.
