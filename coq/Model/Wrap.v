(* wrap.rs: wrap, wrap_single_line, wrap_single_line_slow_path;
   WrapAlgorithm::wrap; fill.rs: fill, fill_slow_path, fill_inplace *)
From Coq Require Import ZArith.
From TW Require Export Separators Splitters OptFit.

Inductive line_ending := LE_LF | LE_CRLF.
Definition le_str (le : line_ending) : str :=
  match le with LE_LF => [LF] | LE_CRLF => [CR; LF] end.
Definition split_le (le : line_ending) (t : str) : list str :=
  match le with LE_LF => split_lf t | LE_CRLF => split_crlf t end.

Inductive algo := FirstFit | OptimalFit (p : penalties).
Inductive sepk := SepAscii | SepUnicode.
Inductive splk := SplNone | SplHyphen | SplCustom.

Record options := mkOptions {
  o_width : N; o_le : line_ending; o_ii : str; o_si : str; o_bw : bool;
  o_alg : algo; o_sep : sepk; o_spl : splk }.

(* How a Cow line refers to the caller's buffer *)
Inductive cow := Owned | Borrowed (off : N) | BorrowedStatic.
Record oline := mkLine { l_text : str; l_cow : cow }.

Definition nonempty (s : str) : bool := match s with [] => false | _ => true end.

(* impl Fragment for Word: usize -> f64 *)
Definition word_frag (w : word) : frag NumZ :=
  mkFrag (Nm:=NumZ) (Z.of_N (w_width w)) (Z.of_N (blen (w_ws w))) (Z.of_N (blen (w_pen w))).

(* the reference instance of the optimal-fit parameter *)
Definition ofit_dp (p : penalties) (ws : list word) (lws : list N) : option (list (list word)) :=
  optimal_fit word_frag p ws (map Z.of_N lws).

Section Wrap.
Variable cw : char -> N.
Variable alnum : char -> bool.
Variable lbc : str -> list N.
Variable custom_sp : str -> list N.
(* wrap_optimal_fit on Words: decided inside smawk, hence a parameter; [ofit_dp]
   below is the reference instance *)
Variable ofit : penalties -> list word -> list N -> option (list (list word)).

Definition find_words (k : sepk) (line : str) : list word :=
  match k with
  | SepAscii => find_words_ascii cw line
  | SepUnicode => find_words_unicode cw lbc line
  end.

Definition split_points (k : splk) (w : str) : list N :=
  match k with
  | SplNone => []
  | SplHyphen => hyphen_points alnum w
  | SplCustom => custom_sp w
  end.

(* WrapAlgorithm::wrap *)
Definition run_alg (a : algo) (ws : list word) (lws : list N) : option (list (list word)) :=
  match a with
  | FirstFit => Some (first_fit word_frag ws (map Z.of_N lws))
  | OptimalFit p => ofit p ws lws
  end.

(* the reassembly loop of wrap_single_line_slow_path; [first] = lines.is_empty() *)
Fixpoint reassemble (o : options) (line : str) (first : bool) (groups : list (list word)) (idx : N)
  : option (list oline) :=
  match groups with
  | [] => Some []
  | g :: rest =>
      let ind := if first then o_ii o else o_si o in
      match last (map Some g) None with
      | None =>
          match reassemble o line false rest idx with
          | Some r => Some (mkLine ind (if nonempty ind then Owned else BorrowedStatic) :: r)
          | None => None
          end
      | Some lw =>
          let total := sum_N (map (fun w => blen (w_word w) + blen (w_ws w)) g) in
          if total <? blen (w_ws lw) then None else
          let len := total - blen (w_ws lw) in
          match bslice line idx (idx + len) with
          | None => None
          | Some sl =>
              let k := if nonempty ind || nonempty (w_pen lw) then Owned else Borrowed idx in
              match reassemble o line false rest (idx + len + blen (w_ws lw)) with
              | Some r => Some (mkLine (ind ++ sl ++ w_pen lw) k :: r)
              | None => None
              end
          end
      end
  end.

Definition slow_path (o : options) (first : bool) (line : str) : option (list oline) :=
  let iw := o_width o - dw cw (o_ii o) in
  let sw := o_width o - dw cw (o_si o) in
  let fwid := if first then iw else sw in
  let find := if first then o_ii o else o_si o in
  let lws := [fwid; sw] in
  match split_words cw (split_points (o_spl o)) (find_words (o_sep o) line) with
  | None => None
  | Some sws =>
      let bws := if o_bw o
                 then (let b := break_words cw sw sws in
                       if nonempty find then word_from cw [] :: b else b)
                 else sws in
      match run_alg (o_alg o) bws lws with
      | None => None
      | Some groups => reassemble o line first groups 0
      end
  end.

Definition wrap_single_line (o : options) (first : bool) (line : str) : option (list oline) :=
  let ind := if first then o_ii o else o_si o in
  if (blen line <? o_width o) && negb (nonempty ind)
  then Some [mkLine (trim_end_sp line) (Borrowed 0)]
  else slow_path o first line.

Definition shift_cow (base : N) (l : oline) : oline :=
  match l_cow l with
  | Borrowed off => mkLine (l_text l) (Borrowed (base + off))
  | _ => l
  end.

(* the loop of wrap: [acc] = lines so far, [base] = byte offset of the paragraph *)
Fixpoint wrap_loop (o : options) (paras : list str) (acc : list oline) (base : N)
  : option (list oline) :=
  match paras with
  | [] => Some acc
  | p :: r =>
      match wrap_single_line o (match acc with [] => true | _ => false end) p with
      | None => None
      | Some ls => wrap_loop o r (acc ++ map (shift_cow base) ls)
                             (base + blen p + blen (le_str (o_le o)))
      end
  end.

Definition wrap (o : options) (text : str) : option (list oline) :=
  wrap_loop o (split_le (o_le o) text) [] 0.

Definition fill_slow (o : options) (text : str) : option str :=
  match wrap o text with
  | Some ls => Some (join (le_str (o_le o)) (map l_text ls))
  | None => None
  end.

Definition fill (o : options) (text : str) : option str :=
  if (blen text <? o_width o) && negb (existsb (N.eqb LF) text) && negb (nonempty (o_ii o))
  then Some (trim_end_sp text)
  else fill_slow o text.

(* fill_inplace *)
(* bytes[idx] = b'\n' followed by String::from_utf8(..).unwrap(): succeeds exactly
   when idx is the offset of a one-byte character *)
Fixpoint set_lf_at (s : str) (idx : N) : option str :=
  match s with
  | [] => None
  | c :: r =>
      if idx =? 0 then (if utf8_len c =? 1 then Some (LF :: r) else None)
      else if utf8_len c <=? idx then
        match set_lf_at r (idx - utf8_len c) with Some r' => Some (c :: r') | None => None end
      else None
  end.

(* inner loop over wrapped_words[..len-1] *)
Fixpoint inplace_lines (groups : list (list word)) (line_offset : N) : option (list N) :=
  match groups with
  | [] => None            (* wrapped_words.len() - 1 underflow: cannot happen *)
  | [_] => Some []
  | g :: rest =>
      let line_len := sum_N (map (fun w => blen (w_word w) + blen (w_ws w)) g) in
      let lo := line_offset + line_len in
      if lo =? 0 then None else
      match inplace_lines rest lo with
      | Some r => Some ((lo - 1) :: r)
      | None => None
      end
  end.

Fixpoint inplace_indices (width : N) (paras : list str) (offset : N) : option (list N) :=
  match paras with
  | [] => Some []
  | p :: r =>
      let words := find_words_ascii cw p in
      let groups := first_fit word_frag words [Z.of_N width] in
      match inplace_lines groups offset, inplace_indices width r (offset + blen p + 1) with
      | Some a, Some b => Some (a ++ b)
      | _, _ => None
      end
  end.

Fixpoint apply_indices (s : str) (idxs : list N) : option str :=
  match idxs with
  | [] => Some s
  | i :: r => match set_lf_at s i with Some s' => apply_indices s' r | None => None end
  end.

Definition fill_inplace (text : str) (width : N) : option str :=
  match inplace_indices width (split_lf text) 0 with
  | Some idxs => apply_indices text idxs
  | None => None
  end.
End Wrap.
