(* wrap_algorithms::optimal_fit::wrap_optimal_fit over a law-free Num.
   smawk::online_column_minima is a parameter ([minima]); [dp_minima] is the
   reference instance (leftmost column minima by direct search). *)
From TW Require Export FirstFit.

Record penalties := mkPen {
  p_nline : N; p_overflow : N; p_frac : N; p_short : N; p_hyphen : N }.
Definition default_penalties := mkPen 1000 2500 4 25 25.

Section OF.
Variable Nm : Num.
Notation T := (T Nm).
Variable P : penalties.

Definition dfrag : frag Nm := mkFrag (zero Nm) (zero Nm) (zero Nm).

(* widths[0..=n] : width += fragment.width() + fragment.whitespace_width() *)
Fixpoint prefix_widths (fs : list (frag Nm)) (acc : T) : list T :=
  acc :: match fs with
         | [] => []
         | f :: r => prefix_widths r (add Nm acc (add Nm (fw f) (fws f)))
         end.

(* the closure passed to online_column_minima; [lnum] is line_numbers.get(i),
   [mi] is minima[i].1 *)
Definition cost (fs : list (frag Nm)) (widths lws : list T) (lnum : nat) (mi : T) (i j : nat) : T :=
  let n := length fs in
  let lw := nth_width lws lnum in
  let target := max_ Nm lw (one Nm) in
  let lastf := nth (j - 1) fs dfrag in
  let line_w := add Nm (sub Nm (sub Nm (nth j widths (zero Nm)) (nth i widths (zero Nm))) (fws lastf)) (fpen lastf) in
  let c0 := add Nm mi (of_N Nm (p_nline P)) in
  let c1 :=
    if gtb Nm line_w target then
      add Nm c0 (mul Nm (sub Nm line_w target) (of_N Nm (p_overflow P)))
    else if (j <? n)%nat then
      let gap := sub Nm target line_w in add Nm c0 (mul Nm gap gap)
    else if (i + 1 =? j)%nat && lt_div Nm line_w target (of_N Nm (p_frac P)) then
      add Nm c0 (of_N Nm (p_short P))
    else c0 in
  if gtb Nm (fpen lastf) (zero Nm) then add Nm c1 (of_N Nm (p_hyphen P)) else c1.

(* leftmost minimum of column j over rows 0..j-1, given the finished prefix *)
Fixpoint col_min_loop (fs : list (frag Nm)) (widths lws : list T)
         (minima : list (nat * T)) (lnums : list nat) (j : nat)
         (rows : list nat) (best : option (nat * T)) : option (nat * T) :=
  match rows with
  | [] => best
  | i :: r =>
      let c := cost fs widths lws (nth i lnums 0%nat) (snd (nth i minima (0%nat, zero Nm))) i j in
      let best' := match best with
                   | None => Some (i, c)
                   | Some (_, bc) => if ltb Nm c bc then Some (i, c) else best
                   end in
      col_min_loop fs widths lws minima lnums j r best'
  end.

Fixpoint dp_loop (fs : list (frag Nm)) (widths lws : list T) (cols : list nat)
         (minima : list (nat * T)) (lnums : list nat) : list (nat * T) :=
  match cols with
  | [] => minima
  | j :: r =>
      match col_min_loop fs widths lws minima lnums j (seq 0 j) None with
      | Some (i, c) => dp_loop fs widths lws r (minima ++ [(i, c)]) (lnums ++ [S (nth i lnums 0%nat)])
      | None => minima
      end
  end.

Definition dp_minima (fs : list (frag Nm)) (lws : list T) : list (nat * T) :=
  dp_loop fs (prefix_widths fs (zero Nm)) lws (seq 1 (length fs)) [(0%nat, zero Nm)] [0%nat].

(* documented cost of an arbitrary arrangement (ranges in order), accumulated
   exactly as the closure accumulates it along a chain of minima *)
Fixpoint arr_cost (fs : list (frag Nm)) (widths lws : list T) (ranges : list (nat * nat))
         (lnum : nat) (acc : T) : T :=
  match ranges with
  | [] => acc
  | (i, j) :: r => arr_cost fs widths lws r (S lnum) (cost fs widths lws lnum acc i j)
  end.
Definition arrangement_cost (fs : list (frag Nm)) (lws : list T) (ranges : list (nat * nat)) : T :=
  arr_cost fs (prefix_widths fs (zero Nm)) lws ranges 0%nat (zero Nm).
Definition opt_cost (fs : list (frag Nm)) (lws : list T) : T :=
  snd (last (dp_minima fs lws) (0%nat, zero Nm)).

(* the back-tracking loop; (start, end) pairs; None = index/slice panic or no progress *)
Fixpoint backtrack (fuel : nat) (minima : list (nat * T)) (pos : nat) (acc : list (nat * nat))
  : option (list (nat * nat)) :=
  match fuel with
  | O => None
  | S f =>
      match nth_error minima pos with
      | None => None
      | Some (prev, _) =>
          if (pos <? prev)%nat then None else
          let acc' := (prev, pos) :: acc in
          if (prev =? 0)%nat then Some acc' else backtrack f minima prev acc'
      end
  end.
End OF.

Section OFA.
Variable Nm : Num.
Variable A : Type.
Variable m : A -> frag Nm.
Variable P : penalties.

Definition slice {X} (xs : list X) (a b : nat) : list X := firstn (b - a) (skipn a xs).

Definition optimal_fit_with (minima : list (nat * T Nm)) (xs : list A) : option (list (list A)) :=
  match backtrack Nm (S (length xs)) minima (length xs) [] with
  | Some ranges => Some (map (fun '(a, b) => slice xs a b) ranges)
  | None => None
  end.

Definition optimal_fit (xs : list A) (lws : list (T Nm)) : option (list (list A)) :=
  optimal_fit_with (dp_minima Nm P (map m xs) lws) xs.
End OFA.
Arguments optimal_fit {Nm A}.
Arguments optimal_fit_with {Nm A}.
