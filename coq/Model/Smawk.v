(* smawk 0.3.2: smawk_inner and online_column_minima, as used by
   wrap_algorithms::optimal_fit::wrap_optimal_fit.  An executable model of the external
   crate (not verified: that it returns column minima is hypothesis ColMin of C03); it
   replaces the oracle in the correspondence, ties included.  None = an assert!/index
   panic inside the crate. *)
From TW Require Export OptFit.

Section Smawk.
Variable Nm : Num.
Notation T := (T Nm).
Variable eqT : T -> T -> bool.               (* a == b *)
Variable mat : nat -> nat -> option T.        (* the matrix; None = the m! macro's asserts fail *)

Fixpoint set_nth (l : list nat) (k v : nat) : list nat :=
  match l, k with
  | [], _ => []
  | _ :: r, O => v :: r
  | x :: r, S k' => x :: set_nth r k' v
  end.

(* (a, r1) < (b, r2) on tuples *)
Definition pair_lt (a : T) (r1 : nat) (b : T) (r2 : nat) : bool :=
  ltb Nm a b || (eqT a b && (r1 <? r2)%nat).

(* REDUCE: the stack is kept reversed (top first).  Pops while the top row loses to r in
   column cols[len-1]. *)
Fixpoint reduce_pop (stack : list nat) (cols : list nat) (r : nat) : option (list nat) :=
  match stack with
  | [] => Some []
  | top :: rest =>
      let c := nth (length stack - 1) cols 0%nat in
      match mat top c, mat r c with
      | Some a, Some b => if gtb Nm a b then reduce_pop rest cols r else Some stack
      | _, _ => None
      end
  end.

Fixpoint reduce (rows cols : list nat) (stack : list nat) : option (list nat) :=
  match rows with
  | [] => Some (rev stack)
  | r :: rest =>
      match reduce_pop stack cols r with
      | None => None
      | Some st => reduce rest cols (if (length st =? length cols)%nat then st else r :: st)
      end
  end.

Fixpoint odd_elems (l : list nat) : list nat :=
  match l with
  | _ :: y :: r => y :: odd_elems r
  | _ => []
  end.

(* the inner while loop of INTERPOLATE for one column: advances r until rows[r] = last_row *)
Fixpoint interp_scan (fuel : nat) (rows : list nat) (col : nat) (r : nat) (row last_row : nat)
         (pa : T) (pr : nat) : option (nat * nat) :=          (* (new r, argmin row) *)
  if (row =? last_row)%nat then Some (r, pr) else
  match fuel with
  | O => None
  | S f =>
      match nth_error rows (S r) with
      | None => None                                            (* rows[r] out of range *)
      | Some row' =>
          match mat row' col with
          | None => None
          | Some v =>
              if pair_lt v row' pa pr then interp_scan f rows col (S r) row' last_row v row'
              else interp_scan f rows col (S r) row' last_row pa pr
          end
      end
  end.

(* even-indexed columns, left to right; c is the index of the column in cols *)
Fixpoint interpolate (rows cols : list nat) (rest : list nat) (c : nat) (r : nat) (minima : list nat)
  : option (list nat) :=
  match rest with
  | [] => Some minima
  | col :: tl =>
      match nth_error rows r with
      | None => None
      | Some row =>
          let last_row := if (c =? length cols - 1)%nat then last rows 0%nat
                          else nth (nth (S c) cols 0%nat) minima 0%nat in
          match mat row col with
          | None => None
          | Some v =>
              match interp_scan (length rows) rows col r row last_row v row with
              | None => None
              | Some (r', best) =>
                  let minima' := set_nth minima col best in
                  match tl with
                  | _ :: tl' => interpolate rows cols tl' (S (S c)) r' minima'
                  | [] => Some minima'
                  end
              end
          end
      end
  end.

Fixpoint smawk_inner (fuel : nat) (rows cols : list nat) (minima : list nat) : option (list nat) :=
  match cols with
  | [] => Some minima
  | _ =>
      match fuel with
      | O => None
      | S f =>
          match reduce rows cols [] with
          | None => None
          | Some rows' =>
              match smawk_inner f rows' (odd_elems cols) minima with
              | None => None
              | Some minima' => interpolate rows' cols cols 0 0 minima'
              end
          end
      end
  end.
End Smawk.

Section Online.
Variable Nm : Num.
Notation T := (T Nm).
Variable eqT : T -> T -> bool.
(* the closure: matrix(&result[..finished+1], i, j) *)
Variable closure : list (nat * T) -> nat -> nat -> T.

Definition m_at (size : nat) (result : list (nat * T)) (i j : nat) : option T :=
  if (i <? j)%nat && (i <? size)%nat && (j <? size)%nat then Some (closure result i j) else None.

Fixpoint set_res (l : list (nat * T)) (k : nat) (v : nat * T) : list (nat * T) :=
  match l, k with
  | [], _ => []
  | _ :: r, O => v :: r
  | x :: r, S k' => x :: set_res r k' v
  end.

(* case 1: fold the tentative minima of the new columns into result *)
Fixpoint merge_cols (size : nat) (cols : list nat) (minima : list nat) (result : list (nat * T))
  : option (list (nat * T)) :=
  match cols with
  | [] => Some result
  | col :: r =>
      let row := nth col minima 0%nat in
      match m_at size result row col with
      | None => None
      | Some v =>
          let result' :=
            if (length result <=? col)%nat then result ++ [(row, v)]
            else match nth_error result col with
                 | Some (_, old) => if ltb Nm v old then set_res result col (row, v) else result
                 | None => result
                 end in
          merge_cols size r minima result'
      end
  end.

(* one iteration of the while loop; finished goes up by exactly one each time *)
Definition online_step (size : nat) (st : list (nat * T) * nat * nat * nat)
  : option (list (nat * T) * nat * nat * nat) :=
  let '(result, finished, base, tentative) := st in
  let i := S finished in
  if (tentative <? i)%nat then
    let rows := seq base (S finished - base) in
    let tentative' := Nat.min (finished + length rows) (size - 1) in
    let cols := seq (S finished) (tentative' - finished) in
    match smawk_inner Nm eqT (m_at size result) (S (length cols)) rows cols (repeat 0%nat (S tentative')) with
    | None => None
    | Some minima =>
        match merge_cols size cols minima result with
        | None => None
        | Some result' => Some (result', i, base, tentative')
        end
    end
  else
    match m_at size result (i - 1) i, nth_error result i with
    | Some diag, Some (_, ri) =>
        if ltb Nm diag ri then Some (set_res result i ((i - 1)%nat, diag), i, (i - 1)%nat, i)
        else
          match m_at size result (i - 1) tentative, nth_error result tentative with
          | Some v, Some (_, rt) =>
              if geb Nm v rt then Some (result, i, base, tentative)
              else Some (result, i, (i - 1)%nat, i)
          | _, _ => None
          end
    | _, _ => None
    end.

Fixpoint online_loop (n : nat) (size : nat) (st : list (nat * T) * nat * nat * nat)
  : option (list (nat * T)) :=
  match n with
  | O => Some (fst (fst (fst st)))
  | S k => match online_step size st with
           | None => None
           | Some st' => online_loop k size st'
           end
  end.

(* smawk::online_column_minima(initial, size, matrix); size >= 1 *)
Definition online_column_minima (initial : T) (size : nat) : option (list (nat * T)) :=
  online_loop (size - 1) size ([(0%nat, initial)], 0%nat, 0%nat, 0%nat).
End Online.

Section OptFitSmawk.
Variable Nm : Num.
Variable eqT : T Nm -> T Nm -> bool.
Variable P : penalties.

(* LineNumbers::get, recomputed from the finished prefix (the cache only ever holds final values) *)
Fixpoint line_number (fuel : nat) (result : list (nat * T Nm)) (i : nat) : nat :=
  match fuel with
  | O => 0%nat
  | S f => match i with
           | O => 0%nat
           | S _ => S (line_number f result (fst (nth i result (0%nat, zero Nm))))
           end
  end.

Definition smawk_closure (fs : list (frag Nm)) (lws : list (T Nm)) (result : list (nat * T Nm)) (i j : nat) : T Nm :=
  cost Nm P fs (prefix_widths Nm fs (zero Nm)) lws (line_number (S i) result i)
       (snd (nth i result (0%nat, zero Nm))) i j.

Definition smawk_minima (fs : list (frag Nm)) (lws : list (T Nm)) : option (list (nat * T Nm)) :=
  online_column_minima Nm eqT (smawk_closure fs lws) (zero Nm) (S (length fs)).
End OptFitSmawk.

Section OFS.
Variable Nm : Num.
Variable eqT : T Nm -> T Nm -> bool.
Variable A : Type.
Variable m : A -> frag Nm.
Definition optimal_fit_smawk (P : penalties) (xs : list A) (lws : list (T Nm)) : option (list (list A)) :=
  match smawk_minima Nm eqT P (map m xs) lws with
  | None => None
  | Some minima => optimal_fit_with minima xs
  end.
End OFS.
Arguments optimal_fit_smawk {Nm} eqT {A}.
