(* wrap_algorithms::wrap_first_fit over a law-free Num *)
From TW Require Export Num.

Section FF.
Variable Nm : Num.
Variable A : Type.
Variable m : A -> frag Nm.
Notation T := (T Nm).

(* line_widths.get(k).copied().unwrap_or(line_widths.last().copied().unwrap_or(0.0)) *)
Definition nth_width (lws : list T) (k : nat) : T := nth k lws (last lws (zero Nm)).

(* State: finished lines (reversed), current line (reversed) = fragments[start..idx],
   accumulated width.  "idx > start" is "current line non-empty". *)
Fixpoint ff_loop (lws : list T) (xs : list A) (done : list (list A)) (cur : list A) (width : T)
  : list (list A) :=
  match xs with
  | [] => rev (rev cur :: done)
  | x :: rest =>
      let f := m x in
      let lw := nth_width lws (length done) in
      if gtb Nm (add Nm (add Nm width (fw f)) (fpen f)) lw
         && match cur with [] => false | _ => true end
      then ff_loop lws rest (rev cur :: done) [x] (add Nm (zero Nm) (add Nm (fw f) (fws f)))
      else ff_loop lws rest done (x :: cur) (add Nm width (add Nm (fw f) (fws f)))
  end.

Definition first_fit (xs : list A) (lws : list T) : list (list A) :=
  ff_loop lws xs [] [] (zero Nm).
End FF.
Arguments first_fit {Nm A}.
Arguments nth_width {Nm}.
