(* The custom word splitter the harness registers with WordSplitter::Custom:
   a split point before every third character (byte offsets). *)
From TW Require Export Chars.

Fixpoint c3_loop (t : str) (k : nat) (off : N) : list N :=
  match t with
  | [] => []
  | c :: r =>
      (if (0 <? k)%nat && (k mod 3 =? 0)%nat then [off] else []) ++ c3_loop r (S k) (off + utf8_len c)
  end.
Definition custom3 (w : str) : list N := c3_loop w 0%nat 0.
