(* core::skip_ansi_escape_sequence as a one-pass machine, display_width, strip. *)
From TW Require Export Chars.

Definition is_final (c : char) : bool := (64 <=? c) && (c <=? 126).

(* Where the Rust skipper is, seen from the outer loop *)
Inductive st := Normal | AfterEsc | Csi | Osc (last_is_esc : bool).

(* new state, and whether the character is visible (reaches ch_width / push) *)
Definition step (s : st) (c : char) : st * bool :=
  match s with
  | Normal => if c =? ESC then (AfterEsc, false) else (Normal, true)
  | AfterEsc => if c =? LBRACK then (Csi, false)
                else if c =? RBRACK then (Osc false, false)
                else (Normal, false)
  | Csi => if is_final c then (Normal, false) else (Csi, false)
  | Osc l => if (c =? BEL) || ((c =? BSLASH) && l) then (Normal, false)
             else (Osc (c =? ESC), false)
  end.

Fixpoint final_state (s : st) (t : str) : st :=
  match t with [] => s | c :: r => final_state (fst (step s c)) r end.

Definition st_eqb (a b : st) : bool :=
  match a, b with
  | Normal, Normal | AfterEsc, AfterEsc | Csi, Csi => true
  | Osc x, Osc y => Bool.eqb x y
  | _, _ => false
  end.

Section Width.
Variable cw : char -> N.

Fixpoint dw_from (s : st) (t : str) : N :=
  match t with
  | [] => 0
  | c :: r => let '(s', v) := step s c in (if v then cw c else 0) + dw_from s' r
  end.
(* core::display_width *)
Definition dw (t : str) : N := dw_from Normal t.
End Width.

Fixpoint strip_from (s : st) (t : str) : str :=
  match t with
  | [] => []
  | c :: r => let '(s', v) := step s c in
              if v then c :: strip_from s' r else strip_from s' r
  end.
(* word_separators::strip_ansi_escape_sequences *)
Definition strip (t : str) : str := strip_from Normal t.
