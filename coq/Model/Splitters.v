(* word_splitters: HyphenSplitter::split_points and split_words *)
From TW Require Export Word.

Section S.
Variable cw : char -> N.
Variable alnum : char -> bool.

Definition opt_alnum (o : option char) : bool :=
  match o with Some c => alnum c | None => false end.

(* byte offsets just after each '-' that has alphanumeric neighbours *)
Fixpoint hp_loop (t : str) (off : N) (prev : option char) : list N :=
  match t with
  | [] => []
  | c :: r =>
      let rest := hp_loop r (off + utf8_len c) (Some c) in
      if (c =? HY) && opt_alnum prev && opt_alnum (hd_error r)
      then (off + 1) :: rest else rest
  end.
Definition hyphen_points (w : str) : list N := hp_loop w 0 None.

(* the from_fn of split_words for one word; None = slice panic *)
Fixpoint sw_loop (w : word) (pts : list N) (prev : N) : option (list word) :=
  match pts with
  | idx :: r =>
      match bslice (w_word w) 0 idx, bslice (w_word w) prev idx with
      | Some pre, Some piece =>
          let pen := if ends_with pre [HY] then [] else [HY] in
          match sw_loop w r idx with
          | Some rest => Some (mkWord piece [] pen (dw cw piece) :: rest)
          | None => None
          end
      | _, _ => None
      end
  | [] =>
      if (prev <? blen (w_word w)) || (prev =? 0) then
        match bdrop (w_word w) prev with
        | Some piece => Some [mkWord piece (w_ws w) (w_pen w) (dw cw piece)]
        | None => None
        end
      else Some []
  end.

Variable sp : str -> list N.   (* WordSplitter::split_points *)

Fixpoint split_words (ws : list word) : option (list word) :=
  match ws with
  | [] => Some []
  | w :: r =>
      match sw_loop w (sp (w_word w)) 0, split_words r with
      | Some a, Some b => Some (a ++ b)
      | _, _ => None
      end
  end.
End S.
