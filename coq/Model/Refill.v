(* refill.rs: unfill, refill; line_ending.rs: NonEmptyLines *)
From TW Require Export Wrap.

Definition is_prefix_char (c : char) : bool :=
  (c =? 32) || (c =? 45) || (c =? 43) || (c =? 42) || (c =? 62) || (c =? 35) || (c =? 47).

Fixpoint take_while (p : char -> bool) (s : str) : str :=
  match s with [] => [] | c :: r => if p c then c :: take_while p r else [] end.

(* common prefix along prefix.char_indices().zip(si.chars()): the part of
   [prefix] before the first mismatch, or None when the zip ends without one *)
Fixpoint zip_mismatch (a b : str) : option str :=
  match a, b with
  | x :: a', y :: b' => if x =? y then
                          match zip_mismatch a' b' with Some p => Some (x :: p) | None => None end
                        else Some []
  | _, _ => None
  end.

(* NonEmptyLines: fuel bounds the skip loop; every step consumes at least one char *)
Fixpoint span_lf (s : str) : option (str * str) :=   (* (before first LF, after it) *)
  match s with
  | [] => None
  | c :: r => if c =? LF then Some ([], r)
              else match span_lf r with Some (a, b) => Some (c :: a, b) | None => None end
  end.

Fixpoint last_opt (s : str) : option char :=
  match s with [] => None | [c] => Some c | _ :: r => last_opt r end.

Fixpoint non_empty_lines (fuel : nat) (s : str) : option (list (str * option line_ending)) :=
  match fuel with
  | O => None
  | S f =>
      match span_lf s with
      | Some (before, after) =>
          match before with
          | [] => non_empty_lines f after                                  (* lf == 0 *)
          | [c] => if c =? CR then non_empty_lines f after                  (* "\r\n" alone *)
                   else match non_empty_lines f after with
                        | Some r => Some ((before, Some LE_LF) :: r) | None => None end
          | _ => match non_empty_lines f after with
                 | Some r =>
                     Some ((if match last_opt before with Some c => c =? CR | None => false end
                            then (removelast before, Some LE_CRLF)
                            else (before, Some LE_LF)) :: r)
                 | None => None
                 end
          end
      | None => match s with [] => Some [] | _ => Some [(s, None)] end
      end
  end.

Section Refill.
Variable cw : char -> N.
Variable alnum : char -> bool.
Variable lbc : str -> list N.
Variable custom_sp : str -> list N.
Variable ofit : penalties -> list word -> list N -> option (list (list word)).

Record unfilled := mkUnfilled {
  u_text : str; u_width : N; u_ii : str; u_si : str; u_le : line_ending }.

(* first loop of unfill over text.lines().enumerate(): (width, ii, si) *)
Fixpoint unfill_scan (ls : list str) (idx : nat) (width : N) (ii si : str) : N * str * str :=
  match ls with
  | [] => (width, ii, si)
  | line :: r =>
      let width' := N.max width (dw cw line) in
      let prefix := take_while is_prefix_char line in
      match idx with
      | O => unfill_scan r 1 width' prefix si
      | S O => unfill_scan r 2 width' ii prefix
      | _ =>
          let si1 := match zip_mismatch prefix si with Some p => p | None => si end in
          let si2 := if blen prefix <? blen si1 then prefix else si1 in
          unfill_scan r (S idx) width' ii si2
      end
  end.

(* second loop over NonEmptyLines(text).enumerate() *)
Fixpoint unfill_join (nls : list (str * option line_ending)) (first : bool) (ii si : str)
         (det : option line_ending) : option (str * option line_ending) :=
  match nls with
  | [] => Some ([], det)
  | (line, ending) :: r =>
      let det' := match det, ending with
                  | None, Some _ => ending
                  | Some LE_CRLF, Some LE_LF => ending
                  | _, _ => det
                  end in
      match bdrop line (blen (if first then ii else si)), unfill_join r false ii si det' with
      | Some body, Some (rest, d) => Some ((if first then body else SP :: body) ++ rest, d)
      | _, _ => None
      end
  end.

Definition unfill (text : str) : option unfilled :=
  let '(width, ii, si) := unfill_scan (lines text) 0 0 [] [] in
  match non_empty_lines (S (length text)) text with
  | None => None
  | Some nls =>
      match unfill_join nls true ii si None with
      | None => None
      | Some (body, det) =>
          let tail := match det with
                      | Some le => if ends_with text (le_str le) then le_str le else []
                      | None => []
                      end in
          Some (mkUnfilled (body ++ tail) width ii si (match det with Some le => le | None => LE_LF end))
      end
  end.

(* str::strip_suffix *)
Definition strip_suffix (s suf : str) : option str :=
  if ends_with s suf then Some (firstn (length s - length suf) s) else None.

Definition refill (o : options) (filled : str) : option str :=
  match unfill filled with
  | None => None
  | Some u =>
      let stripped := strip_suffix (u_text u) (le_str (u_le u)) in
      let o' := mkOptions (o_width o) (o_le o) (u_ii u) (u_si u) (o_bw o) (o_alg o) (o_sep o) (o_spl o) in
      match fill cw alnum lbc custom_sp ofit o' (match stripped with Some s => s | None => u_text u end) with
      | None => None
      | Some r => Some (match stripped with Some _ => r ++ le_str (o_le o) | None => r end)
      end
  end.
End Refill.
