(* the optimal-fit parameter of Model/Wrap.v instantiated with the model of smawk *)
From Coq Require Import ZArith.
From TW Require Export Wrap Smawk.

Definition ofit_smawk (p : penalties) (ws : list word) (lws : list N) : option (list (list word)) :=
  optimal_fit_smawk (Nm:=NumZ) Z.eqb word_frag p ws (map Z.of_N lws).
