(* columns.rs: wrap_columns.  None = panic (zero columns, arithmetic overflow in a
   debug build, capacity overflow) *)
From TW Require Export Wrap.

Definition USIZE_MAX : N := 18446744073709551615.

Section Columns.
Variable cw : char -> N.
Variable alnum : char -> bool.
Variable lbc : str -> list N.
Variable custom_sp : str -> list N.
Variable ofit : penalties -> list word -> list N -> option (list (list word)).

Fixpoint cells (o : options) (lines : list str) (rows : nat) (cols : list nat) (ncols : nat)
         (line_no : nat) (mid last_pad : str) : str :=
  match cols with
  | [] => []
  | column_no :: r =>
      (match nth_error lines (line_no + column_no * rows) with
       | Some l => l ++ spaces (o_width o - dw cw l)
       | None => spaces (o_width o)
       end) ++
      (if (column_no =? ncols - 1)%nat then last_pad else mid) ++
      cells o lines rows r ncols line_no mid last_pad
  end.

Definition wrap_columns (o : options) (text : str) (columns : N) (left mid right : str)
  : option (list str) :=
  if columns =? 0 then None else
  let midw := dw cw mid * (columns - 1) in
  if USIZE_MAX <? midw then None else
  let inner := o_width o - dw cw left - dw cw right - midw in
  let colw := N.max (inner / columns) 1 in
  let o' := mkOptions colw (o_le o) (o_ii o) (o_si o) (o_bw o) (o_alg o) (o_sep o) (o_spl o) in
  let last_pad := spaces (inner mod colw) in
  match wrap cw alnum lbc custom_sp ofit o' text with
  | None => None
  | Some ls =>
      let lines := map l_text ls in
      let n := N.of_nat (length lines) in
      let rows := N.to_nat (n / columns + (if 0 <? n mod columns then 1 else 0)) in
      let ncols := N.to_nat columns in
      Some (map (fun line_no =>
                   left ++ cells o' lines rows (seq 0 ncols) ncols line_no mid last_pad ++ right)
                (seq 0 rows))
  end.
End Columns.
