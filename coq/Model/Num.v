(* A law-free numeric structure standing for f64: the two line-breaking
   algorithms are written over it; instances Z (exact integers) and Q. *)
From Coq Require Import ZArith QArith.
From TW Require Export Chars.

Record Num := mkNum {
  T : Type;
  zero : T; one : T;
  add : T -> T -> T; sub : T -> T -> T; mul : T -> T -> T; max_ : T -> T -> T;
  gtb : T -> T -> bool; ltb : T -> T -> bool;
  geb : T -> T -> bool;               (* a >= b: NOT the negation of a < b for a NaN *)
  lt_div : T -> T -> T -> bool;      (* a < b / c *)
  is_inf : T -> bool;
  of_N : N -> T
}.

Definition NumZ : Num := {|
  T := Z; zero := 0%Z; one := 1%Z;
  add := Z.add; sub := Z.sub; mul := Z.mul; max_ := Z.max;
  gtb := Z.gtb; ltb := Z.ltb; geb := Z.geb;
  (* exact for integers: a < b/c <-> a*c < b when c > 0; b/0 = +inf for b > 0 *)
  lt_div := fun a b c => if (c =? 0)%Z then (0 <? b)%Z else if (0 <? c)%Z then (a * c <? b)%Z else (b <? a * c)%Z;
  is_inf := fun _ => false;
  of_N := Z.of_N
|}.

Definition Qltb (a b : Q) : bool := match Qcompare a b with Lt => true | _ => false end.
Definition Qmax (a b : Q) : Q := if Qltb a b then b else a.  (* f64::max on non-NaN *)
Definition NumQ : Num := {|
  T := Q; zero := 0%Q; one := 1%Q;
  add := fun a b => Qred (Qplus a b); sub := fun a b => Qred (Qminus a b);
  mul := fun a b => Qred (Qmult a b); max_ := Qmax;
  gtb := fun a b => Qltb b a; ltb := Qltb; geb := fun a b => negb (Qltb a b);
  lt_div := fun a b c => if Qeq_bool c 0 then Qltb 0 b else Qltb a (Qdiv b c);
  is_inf := fun _ => false;
  of_N := fun n => inject_Z (Z.of_N n)
|}.

Record frag (Nm : Num) := mkFrag { fw : T Nm; fws : T Nm; fpen : T Nm }.
Arguments mkFrag {Nm}. Arguments fw {Nm}. Arguments fws {Nm}. Arguments fpen {Nm}.
