(* C02: first-fit lines fit the width unless the line is one unbreakable fragment.
   W1 additivity of display_width over a group of fragments cut at top level,
   W2 the same number as first-fit computes it, W3 the property for one paragraph
   (slow path), W4 what a single fragment can be, W5 the text level. *)
From Coq Require Import Lia ZArith.
From TW Require Import Wrap Custom.
From TW Require Import EscFacts Partition Greedy Lossless SplitBreak Bellman Paragraphs Pipeline.
From TW Require Import WidthTableFacts.

Arguments N.add : simpl never.
Arguments N.sub : simpl never.
Arguments N.mul : simpl never.
Arguments N.leb : simpl never.
Arguments N.ltb : simpl never.
Arguments N.eqb : simpl never.

(* every fragment handed to the algorithm is self-contained with respect to escape
   sequences: all cuts are at top level.  Its negation is finding D6 (CutInsideEscape). *)
Definition TopLevelCuts (bws : list word) : Prop :=
  Forall (fun w => final_state Normal (w_word w) = Normal) bws.

Lemma TopLevelCuts_app a b : TopLevelCuts (a ++ b) <-> TopLevelCuts a /\ TopLevelCuts b.
Proof. apply Forall_app. Qed.

Lemma TopLevelCuts_concat gs : TopLevelCuts (concat gs) -> Forall TopLevelCuts gs.
Proof. intros H. apply Forall_concat. exact H. Qed.

Lemma TopLevelCuts_forall bws :
  TopLevelCuts bws <-> forall w, In w bws -> final_state Normal (w_word w) = Normal.
Proof. apply Forall_forall. Qed.

Section Width.
Variable cw : char -> N.
Variable alnum : char -> bool.
Variable lbc : str -> list N.
Variable custom_sp : str -> list N.
Variable ofit : penalties -> list word -> list N -> option (list (list word)).

Hypothesis cw_SP : cw SP = 1.
Hypothesis cw_HY : cw HY = 1.

(* ================================================================== *)
(* W1: additivity                                                       *)
(* ================================================================== *)

Lemma step_SP : step Normal SP = (Normal, true).
Proof. reflexivity. Qed.

(* spaces are ESC-free, one byte and one column each *)
Lemma allsp_normal s : allsp s -> final_state Normal s = Normal.
Proof.
  induction 1 as [|c r Hc _ IH]; [reflexivity|]. subst c.
  cbn [final_state]. rewrite step_SP. cbn [fst]. exact IH.
Qed.

Lemma allsp_dw s : allsp s -> dw cw s = blen s.
Proof.
  unfold dw. induction 1 as [|c r Hc _ IH]; [reflexivity|]. subst c.
  cbn [dw_from blen]. rewrite step_SP, IH, cw_SP. reflexivity.
Qed.

Lemma pen_dw p : p = [] \/ p = [HY] -> dw cw p = blen p.
Proof.
  intros [->| ->]; [reflexivity|].
  unfold dw. cbn [dw_from blen]. change (step Normal HY) with (Normal, true).
  cbn [dw_from]. rewrite cw_HY. reflexivity.
Qed.

Lemma pen_normal p : p = [] \/ p = [HY] -> final_state Normal p = Normal.
Proof. intros [->| ->]; reflexivity. Qed.

(* the per-word facts of [pipeline_words_spec], packaged as Pipeline.PW *)
Lemma PW_of_facts bws :
  Forall (fun w => Forall (fun c => c = SP) (w_ws w)) bws ->
  Forall (fun w => w_pen w = [] \/ w_pen w = [HY]) bws ->
  Forall (fun w => w_width w = dw cw (w_word w)) bws ->
  Forall (PW cw) bws.
Proof.
  intros H1 H2 H3. rewrite Forall_forall in H1, H2, H3 |- *.
  intros w Hw. split; [exact (H1 w Hw)|]. split; [exact (H2 w Hw)|exact (H3 w Hw)].
Qed.

(* the cached numbers of a run of fragments *)
Definition cached (g : list word) : N := sum_N (map (fun w => w_width w + blen (w_ws w)) g).

Lemma cached_nil : cached [] = 0.
Proof. reflexivity. Qed.

Lemma cached_cons x g : cached (x :: g) = w_width x + blen (w_ws x) + cached g.
Proof. reflexivity. Qed.

Lemma cached_app a b : cached (a ++ b) = cached a + cached b.
Proof.
  clear cw_SP cw_HY.
  induction a as [|x a IH]; cbn [app]; [rewrite cached_nil; lia|].
  rewrite !cached_cons, IH. lia.
Qed.

(* a run of well-formed fragments cut at top level: the machine is back at top level
   and the display width is the sum of the cached numbers *)
Lemma gtext_normal_dw g : Forall (PW cw) g -> TopLevelCuts g ->
  final_state Normal (gtext g) = Normal /\ dw cw (gtext g) = cached g.
Proof.
  intros Hp Ht. induction g as [|x g IH]; [split; reflexivity|].
  inversion Hp as [|x0 g0 [Hws [_ Hwd]] Hp']; subst x0 g0.
  inversion Ht as [|x0 g0 Hx Ht']; subst x0 g0.
  destruct (IH Hp' Ht') as [IH1 IH2].
  rewrite gtext_cons, cached_cons. split.
  - rewrite !final_state_app, Hx, (allsp_normal _ Hws). exact IH1.
  - rewrite (dw_cut cw _ _ Hx), (dw_cut cw _ _ (allsp_normal _ Hws)).
    rewrite (allsp_dw _ Hws), IH2, Hwd. lia.
Qed.

(* the same for a line: everything but the whitespace of the last fragment, plus its penalty *)
Lemma line_normal_dw init lw : Forall (PW cw) (init ++ [lw]) -> TopLevelCuts (init ++ [lw]) ->
  final_state Normal (body (init ++ [lw])) = Normal /\
  dw cw (body (init ++ [lw])) = cached init + w_width lw /\
  dw cw (body (init ++ [lw]) ++ lastw_pen (init ++ [lw])) =
    cached init + w_width lw + blen (w_pen lw).
Proof.
  intros Hp Ht. apply Forall_app in Hp. destruct Hp as [Hpi Hpl].
  apply TopLevelCuts_app in Ht. destruct Ht as [Hti Htl].
  inversion Hpl as [|x0 g0 [_ [Hpen Hwd]] _]; subst x0 g0.
  inversion Htl as [|x0 g0 Hx _]; subst x0 g0.
  destruct (gtext_normal_dw init Hpi Hti) as [G1 G2].
  rewrite body_snoc, lastw_pen_snoc.
  assert (Hb : final_state Normal (gtext init ++ w_word lw) = Normal).
  { rewrite final_state_app, G1. exact Hx. }
  assert (Hd : dw cw (gtext init ++ w_word lw) = cached init + w_width lw).
  { rewrite (dw_cut cw _ _ G1), G2, Hwd. reflexivity. }
  split; [exact Hb|]. split; [exact Hd|].
  rewrite (dw_cut cw _ _ Hb), Hd, (pen_dw _ Hpen). reflexivity.
Qed.

(* W1 *)
Theorem line_width_additive g : g <> [] -> Forall (PW cw) g -> TopLevelCuts g ->
  dw cw (body g ++ lastw_pen g) =
  sum_N (map (fun w => w_width w + blen (w_ws w)) g) - blen (lastw_ws g) + blen (lastw_pen g).
Proof.
  intros Hne Hp Ht. destruct (exists_last Hne) as [init [lw E]]. subst g.
  destruct (line_normal_dw init lw Hp Ht) as [_ [_ H]]. rewrite H.
  fold (cached (init ++ [lw])).
  rewrite cached_app, cached_cons, cached_nil, lastw_ws_snoc, lastw_pen_snoc. lia.
Qed.

(* ================================================================== *)
(* W2: the number first-fit sees                                        *)
(* ================================================================== *)

Lemma run_width_cached g : run_width word word_frag g = Z.of_N (cached g).
Proof.
  clear cw_SP cw_HY.
  induction g as [|x g IH] using rev_ind; [reflexivity|].
  rewrite run_width_snoc, IH, cached_app, cached_cons, cached_nil.
  cbn [word_frag fw fws]. lia.
Qed.

Theorem line_width_first_fit init lw :
  Z.of_N (sum_N (map (fun w => w_width w + blen (w_ws w)) (init ++ [lw]))
          - blen (lastw_ws (init ++ [lw])) + blen (lastw_pen (init ++ [lw]))) =
  (run_width word word_frag (removelast (init ++ [lw]))
   + fw (word_frag lw) + fpen (word_frag lw))%Z.
Proof.
  clear cw_SP cw_HY.
  rewrite removelast_last, run_width_cached.
  fold (cached (init ++ [lw])).
  rewrite cached_app, cached_cons, cached_nil, lastw_ws_snoc, lastw_pen_snoc.
  cbn [word_frag fw fpen]. lia.
Qed.

(* W1 and W2 together: the display width of a line is the number first-fit compares
   with the line width *)
Corollary line_dw_first_fit init lw :
  Forall (PW cw) (init ++ [lw]) -> TopLevelCuts (init ++ [lw]) ->
  Z.of_N (dw cw (body (init ++ [lw]) ++ lastw_pen (init ++ [lw]))) =
  (run_width word word_frag init + fw (word_frag lw) + fpen (word_frag lw))%Z.
Proof.
  intros Hp Ht. destruct (line_normal_dw init lw Hp Ht) as [_ [_ H]]. rewrite H.
  rewrite run_width_cached. cbn [word_frag fw fpen]. lia.
Qed.

(* ================================================================== *)
(* W3: C02 for one paragraph (slow path)                                *)
(* ================================================================== *)

Notation pwords := (pipeline_words cw alnum lbc custom_sp).
Notation spath := (slow_path cw alnum lbc custom_sp ofit).
Notation wsl := (wrap_single_line cw alnum lbc custom_sp ofit).

(* the groups of the first-fit algorithm for the paragraph *)
Definition ff_groups (o : options) (first : bool) (bws : list word) : list (list word) :=
  first_fit word_frag bws (map Z.of_N (line_widths cw o first)).

(* the line width first-fit uses for line k is measured with the indent that line k
   is rendered with (this is the repaired D1) *)
Lemma nth_width_line_widths o first k :
  @nth_width NumZ (map Z.of_N (line_widths cw o first)) k =
  Z.of_N (o_width o - dw cw (nth_indent o first k)).
Proof.
  unfold nth_width, line_widths, nth_indent. cbn [map last].
  destruct k as [|[|[|k']]]; destruct first; reflexivity.
Qed.

Lemma nth_indent_cases o first k : nth_indent o first k = o_ii o \/ nth_indent o first k = o_si o.
Proof. unfold nth_indent. destruct (first && (k =? 0)%nat); [left|right]; reflexivity. Qed.

Definition IndentsOK (o : options) : Prop :=
  final_state Normal (o_ii o) = Normal /\ final_state Normal (o_si o) = Normal.

Lemma nth_indent_normal o first k : IndentsOK o -> final_state Normal (nth_indent o first k) = Normal.
Proof. intros [H1 H2]. destruct (nth_indent_cases o first k) as [-> | ->]; assumption. Qed.

(* the three ways a line can be: it fits; the part after the indent is one fragment;
   the indent alone is wider than the width and the rest has no width (finding D7) *)
Definition C02_line (o : options) (ind : str) (g : list word) : Prop :=
  dw cw (ind ++ body g ++ lastw_pen g) <= o_width o \/
  (exists w, g = [w]) \/
  (o_width o < dw cw ind /\ dw cw (body g) = 0 /\ lastw_pen g = []).

Lemma pen_zero_nil p : p = [] \/ p = [HY] -> blen p = 0 -> p = [].
Proof.
  clear cw_SP cw_HY. intros [->| ->] H; [reflexivity|]. cbn [blen] in H. change (utf8_len HY) with 1 in H. lia. Qed.

(* W3 on the groups *)
Theorem first_fit_line_width o first bws k g :
  IndentsOK o -> Forall (PW cw) bws -> TopLevelCuts bws ->
  nth_error (ff_groups o first bws) k = Some g ->
  C02_line o (nth_indent o first k) g.
Proof.
  intros HI Hp Ht Hk. unfold C02_line.
  set (ind := nth_indent o first k).
  assert (Hind : final_state Normal ind = Normal) by (apply nth_indent_normal; exact HI).
  assert (Hin : In g (ff_groups o first bws)) by (eapply nth_error_In; exact Hk).
  assert (Hc : concat (ff_groups o first bws) = bws) by apply first_fit_concat.
  assert (Hpg : Forall (PW cw) g).
  { rewrite <- Hc in Hp. apply Forall_concat in Hp. rewrite Forall_forall in Hp. exact (Hp g Hin). }
  assert (Htg : TopLevelCuts g).
  { rewrite <- Hc in Ht. apply TopLevelCuts_concat in Ht. rewrite Forall_forall in Ht.
    exact (Ht g Hin). }
  rewrite (dw_cut cw _ _ Hind).
  destruct (nil_or_last _ g) as [Eg|[init [lw Eg]]].
  - (* no fragment at all: the line is the indent *)
    subst g. cbn [body lastw_pen rev app]. change (dw cw []) with 0.
    destruct (N.le_gt_cases (dw cw ind) (o_width o)) as [Hle|Hgt].
    + left. lia.
    + right. right. split; [lia|]. split; reflexivity.
  - destruct init as [|x0 init'] eqn:Ei.
    + right. left. exists lw. exact Eg.
    + rewrite <- Ei in *. assert (Hne : init <> []) by (rewrite Ei; discriminate).
      subst g.
      destruct (first_fit_greedy word word_frag bws (map Z.of_N (line_widths cw o first))
                  k init lw [] Hk) as [Hfit _].
      specialize (Hfit Hne). rewrite nth_width_line_widths in Hfit. fold ind in Hfit.
      rewrite <- (line_dw_first_fit init lw Hpg Htg) in Hfit.
      destruct (line_normal_dw init lw Hpg Htg) as [Hb [Hd Hdp]].
      destruct (N.le_gt_cases (dw cw ind) (o_width o)) as [Hle|Hgt].
      * left. lia.
      * right. right. split; [lia|].
        assert (H0 : dw cw (body (init ++ [lw]) ++ lastw_pen (init ++ [lw])) = 0) by lia.
        rewrite Hdp in H0. rewrite Hd. split; [lia|].
        rewrite lastw_pen_snoc.
        apply Forall_app in Hpg. destruct Hpg as [_ Hpl].
        inversion Hpl as [|x1 g1 [_ [Hpen _]] _]; subst x1 g1.
        apply (pen_zero_nil _ Hpen). lia.
Qed.

(* the slow path with first-fit, explicitly (no oracle hypothesis is needed) *)
Theorem slow_path_first_fit o first line : o_alg o = FirstFit -> SplitterOK custom_sp ->
  exists bws, pwords o first line = Some bws /\ gtext bws = line /\ Forall (PW cw) bws /\
    spath o first line =
    Some (match bws with
          | [] => [indent_line o first]
          | _ => lines_of o first (ff_groups o first bws) 0
          end).
Proof.
  intros Ha HS.
  destruct (pipeline_words_spec cw alnum lbc custom_sp o first line HS)
    as [bws [E1 [E2 [P1 [P2 P3]]]]].
  exists bws. split; [exact E1|]. split; [exact E2|]. split; [exact (PW_of_facts bws P1 P2 P3)|].
  rewrite slow_path_unfold, E1, Ha. cbn [run_alg]. fold (ff_groups o first bws).
  destruct bws as [|w0 bws'] eqn:Eb.
  - unfold ff_groups. rewrite first_fit_nil. apply reassemble_degenerate.
  - rewrite <- Eb in *. assert (Hne : bws <> []) by (rewrite Eb; discriminate).
    change 0 with (blen []).
    apply (reassemble_spec o line (ff_groups o first bws) [] [] first).
    + apply first_fit_nonempty. exact Hne.
    + unfold ff_groups. rewrite first_fit_concat, E2, app_nil_r. reflexivity.
Qed.

(* line k of [lines_of] is made from group k, with the indent of line k *)
Lemma lines_of_nth o : forall groups first off k l,
  nth_error (lines_of o first groups off) k = Some l ->
  exists g, nth_error groups k = Some g /\
            l_text l = nth_indent o first k ++ body g ++ lastw_pen g.
Proof.
  induction groups as [|g r IH]; intros first off k l H; cbn [lines_of] in H.
  - destruct k; discriminate.
  - destruct k as [|j]; cbn [nth_error] in H.
    + injection H as <-. exists g. split; [reflexivity|]. cbn [l_text].
      unfold nth_indent. change (0 =? 0)%nat with true. rewrite andb_true_r. reflexivity.
    + destruct (IH false _ j l H) as [g' [Hg Ht]]. exists g'. split; [exact Hg|].
      rewrite Ht. unfold nth_indent. change (S j =? 0)%nat with false.
      rewrite andb_false_r. reflexivity.
Qed.

Lemma ff_groups_incl o first bws k g : nth_error (ff_groups o first bws) k = Some g -> incl g bws.
Proof.
  intros Hg x Hx. rewrite <- (first_fit_concat _ _ word_frag bws (map Z.of_N (line_widths cw o first))).
  apply in_concat. exists g. split; [|exact Hx]. eapply nth_error_In. exact Hg.
Qed.

(* W3 (C02, one paragraph): every line of the slow path is  indent ++ body g ++ penalty
   for the k-th group [g] of the fragments handed to first-fit, the indent being the one
   the line is rendered with, and it fits the width unless [g] is a single fragment or
   the indent alone is too wide and the rest is invisible.  (For the paragraph without
   words first-fit returns the single empty group and the line is the indent.) *)
Theorem slow_path_width o first line ls :
  o_alg o = FirstFit -> SplitterOK custom_sp -> IndentsOK o ->
  spath o first line = Some ls ->
  exists bws, pwords o first line = Some bws /\ gtext bws = line /\ Forall (PW cw) bws /\
    (TopLevelCuts bws ->
     forall k l, nth_error ls k = Some l ->
     exists g, nth_error (ff_groups o first bws) k = Some g /\
       l_text l = nth_indent o first k ++ body g ++ lastw_pen g /\
       C02_line o (nth_indent o first k) g).
Proof.
  intros Ha HS HI Hsp.
  destruct (slow_path_first_fit o first line Ha HS) as [bws [E1 [E2 [Hp E3]]]].
  exists bws. split; [exact E1|]. split; [exact E2|]. split; [exact Hp|]. intros Ht k l Hk.
  rewrite Hsp in E3. injection E3 as ->.
  assert (H : exists g, nth_error (ff_groups o first bws) k = Some g /\
                        l_text l = nth_indent o first k ++ body g ++ lastw_pen g).
  { destruct bws as [|w0 bws'] eqn:Eb.
    - (* no words: the single line is the indent *)
      destruct k as [|j]; [|destruct j; discriminate].
      cbn [nth_error] in Hk. injection Hk as <-. exists [].
      split; [reflexivity|].
      unfold indent_line, nth_indent. cbn [l_text body lastw_pen rev].
      change (0 =? 0)%nat with true. rewrite andb_true_r, !app_nil_r. reflexivity.
    - rewrite <- Eb in *. exact (lines_of_nth o _ first 0 k l Hk). }
  destruct H as [g [Hg Htxt]]. exists g. split; [exact Hg|]. split; [exact Htxt|].
  exact (first_fit_line_width o first bws k g HI Hp Ht Hg).
Qed.

(* ================================================================== *)
(* W4: what a single fragment can be (break_words on)                   *)
(* ================================================================== *)

Lemma break_words_bound lim ws :
  Forall (fun w => w_width w <= lim \/ nzv cw (w_word w) = 1%nat) (break_words cw lim ws).
Proof.
  induction ws as [|w r IH]; [constructor|].
  unfold break_words in *. cbn [flat_map]. apply Forall_app. split; [|exact IH].
  destruct (N.ltb_spec lim (w_width w)) as [Hlt|Hge].
  - apply break_apart_bound.
  - constructor; [left; exact Hge|constructor].
Qed.

(* the width pieces are broken to: the width left by the SUBSEQUENT indent *)
Definition sub_width (o : options) : N := o_width o - dw cw (o_si o).

(* every fragment is at most [sub_width] wide, or has a single character of non-zero
   width (which cannot be broken).  The sentinel (empty word of width 0) is covered by
   the first alternative. *)
Theorem pipeline_words_bound o first line bws : o_bw o = true ->
  pwords o first line = Some bws ->
  Forall (fun w => w_width w <= sub_width o \/ nzv cw (w_word w) = 1%nat) bws.
Proof.
  clear cw_SP cw_HY.
  intros Hbw H. unfold pipeline_words in H. rewrite Hbw in H.
  destruct (split_words cw (split_points alnum custom_sp (o_spl o)) (find_words cw lbc (o_sep o) line))
    as [sws|]; [|discriminate].
  injection H as <-. fold (sub_width o).
  destruct (nonempty (if first then o_ii o else o_si o)).
  - constructor; [|apply break_words_bound]. left. rewrite sentinel_eq. cbn [w_width]. lia.
  - apply break_words_bound.
Qed.

(* with a non-empty indent on line 0 of the paragraph the word list starts with the
   zero-width sentinel *)
Lemma pipeline_words_sentinel o first line bws : o_bw o = true ->
  nth_indent o first 0 <> [] -> pwords o first line = Some bws ->
  exists b, bws = mkWord [] [] [] 0 :: b.
Proof.
  intros Hbw Hne H. unfold pipeline_words in H. rewrite Hbw in H.
  destruct (split_words cw (split_points alnum custom_sp (o_spl o)) (find_words cw lbc (o_sep o) line))
    as [sws|]; [|discriminate].
  injection H as <-.
  assert (E : nth_indent o first 0 = if first then o_ii o else o_si o).
  { unfold nth_indent. change (0 =? 0)%nat with true. rewrite andb_true_r. reflexivity. }
  rewrite E in Hne.
  destruct (if first then o_ii o else o_si o) as [|c r]; [congruence|].
  cbn [nonempty]. rewrite sentinel_eq. eexists. reflexivity.
Qed.

(* the first group of first-fit starts with the first fragment *)
Lemma first_fit_head (x : word) xs lws :
  exists l0 ls, first_fit word_frag (x :: xs) lws = (x :: l0) :: ls.
Proof.
  rewrite first_fit_ffr. cbn [ffr]. rewrite andb_false_r. cbn [app].
  exact (ffr_head word word_frag lws xs 0%nat [x] (0 + (fw (word_frag x) + fws (word_frag x)))%Z).
Qed.

Lemma body_single w : body [w] = w_word w.
Proof. reflexivity. Qed.

Lemma lastw_pen_single w : lastw_pen [w] = w_pen w.
Proof. reflexivity. Qed.

(* W4, every line, with break_words: the exemption "single fragment" of W3 is only ever
   needed for a fragment with one non-zero-width character, or for a fragment that fits
   [sub_width] but carries a penalty hyphen (inserted by a splitter) -- and never on
   line 0 of a paragraph rendered with a non-empty indent: there the sentinel takes the
   place of the single fragment, the line is the indent alone and the first real
   fragment moves to the next line, which is measured with the subsequent indent, the
   one the pieces were broken for.  So the case "initial indent wider than the
   subsequent one" (line 0 narrower than the pieces) produces no over-long line. *)
Definition C02_line_bw (o : options) (first : bool) (k : nat) (g : list word) : Prop :=
  let ind := nth_indent o first k in
  dw cw (ind ++ body g ++ lastw_pen g) <= o_width o \/
  (exists w, g = [w] /\ (k = 0%nat -> ind = []) /\
     (nzv cw (w_word w) = 1%nat \/ (w_width w <= sub_width o /\ w_pen w = [HY]))) \/
  (o_width o < dw cw ind /\ dw cw (body g) = 0 /\ lastw_pen g = []).

Theorem slow_path_width_bw o first line ls :
  o_alg o = FirstFit -> SplitterOK custom_sp -> IndentsOK o -> o_bw o = true ->
  spath o first line = Some ls ->
  exists bws, pwords o first line = Some bws /\ gtext bws = line /\ Forall (PW cw) bws /\
    (TopLevelCuts bws ->
     forall k l, nth_error ls k = Some l ->
     exists g, nth_error (ff_groups o first bws) k = Some g /\
       l_text l = nth_indent o first k ++ body g ++ lastw_pen g /\
       C02_line_bw o first k g).
Proof.
  intros Ha HS HI Hbw Hsp.
  destruct (slow_path_width o first line ls Ha HS HI Hsp) as [bws [E1 [E2 [Hp H]]]].
  exists bws. split; [exact E1|]. split; [exact E2|]. split; [exact Hp|]. intros Ht k l Hk.
  destruct (H Ht k l Hk) as [g [Hg [Htxt HC]]].
  exists g. split; [exact Hg|]. split; [exact Htxt|].
  unfold C02_line_bw. cbn zeta. set (ind := nth_indent o first k) in *.
  assert (Hind : final_state Normal ind = Normal) by (apply nth_indent_normal; exact HI).
  destruct HC as [Hfit|[[w Ew]|H7]]; [left; exact Hfit| |right; right; exact H7].
  subst g. rewrite body_single, lastw_pen_single.
  assert (Hw : In w bws) by (apply (ff_groups_incl o first bws k [w] Hg); left; reflexivity).
  rewrite Forall_forall in Hp. destruct (Hp w Hw) as [_ [Hpen Hwd]].
  assert (Hdw : dw cw (ind ++ w_word w ++ w_pen w) = dw cw ind + w_width w + blen (w_pen w)).
  { rewrite (dw_cut cw _ _ Hind).
    rewrite TopLevelCuts_forall in Ht.
    rewrite (dw_cut cw _ _ (Ht w Hw)), (pen_dw _ Hpen), Hwd. lia. }
  (* line 0 with a non-empty indent: the single fragment is the sentinel *)
  assert (Hsent : k = 0%nat -> ind <> [] -> w = mkWord [] [] [] 0).
  { intros -> Hne.
    destruct (pipeline_words_sentinel o first line bws Hbw Hne E1) as [b Eb].
    rewrite Eb in Hg. unfold ff_groups in Hg.
    destruct (first_fit_head (mkWord [] [] [] 0) b (map Z.of_N (line_widths cw o first)))
      as [l0 [ls0 Ef]].
    rewrite Ef in Hg. cbn [nth_error] in Hg. injection Hg as Hg _. symmetry. exact Hg. }
  pose proof (pipeline_words_bound o first line bws Hbw E1) as Hb.
  rewrite Forall_forall in Hb. specialize (Hb w Hw).
  assert (Hcase : (k = 0%nat /\ ind <> []) \/ (k = 0%nat -> ind = [])).
  { destruct k as [|j]; [|right; intros; discriminate].
    destruct ind as [|c r]; [right; reflexivity|left; split; [reflexivity|discriminate]]. }
  destruct Hcase as [[Hk0 Hne]|Hk0].
  - rewrite (Hsent Hk0 Hne) in Hdw |- *. cbn [w_word w_pen w_width blen app] in Hdw |- *.
    rewrite app_nil_r in *.
    destruct (N.le_gt_cases (dw cw ind) (o_width o)) as [Hle|Hgt].
    + left. lia.
    + right. right. split; [lia|]. split; reflexivity.
  - destruct Hb as [Hle|Hnz].
    + destruct Hpen as [Hpn|Hpy].
      * (* no penalty: the fragment fits the line, or the indent is too wide *)
        rewrite Hdw, Hpn. cbn [blen]. rewrite <- Hwd.
        assert (Hind2 : ind = [] \/ ind = o_si o).
        { destruct k as [|j]; [left; apply Hk0; reflexivity|right].
          unfold ind, nth_indent. change (S j =? 0)%nat with false.
          rewrite andb_false_r. reflexivity. }
        unfold sub_width in Hle.
        destruct Hind2 as [Ei|Ei].
        -- left. rewrite Ei. change (dw cw []) with 0. lia.
        -- rewrite Ei in *.
           destruct (N.le_gt_cases (dw cw (o_si o)) (o_width o)) as [Hle2|Hgt].
           ++ left. lia.
           ++ right. right. split; [lia|]. split; [lia|reflexivity].
      * right. left. exists w. split; [reflexivity|]. split; [exact Hk0|]. right. split; assumption.
    + right. left. exists w. split; [reflexivity|]. split; [exact Hk0|]. left. exact Hnz.
Qed.

(* W4, line 0: with break_words and a non-empty indent on the first line of the paragraph
   (in particular whenever that line is narrower than the pieces, i.e. the initial indent
   is wider than the subsequent one) line 0 needs no single-fragment exemption at all *)
Corollary slow_path_line0 o first line ls :
  o_alg o = FirstFit -> SplitterOK custom_sp -> IndentsOK o -> o_bw o = true ->
  nth_indent o first 0 <> [] ->
  spath o first line = Some ls ->
  exists bws, pwords o first line = Some bws /\
    (TopLevelCuts bws -> forall l, nth_error ls 0 = Some l ->
     dw cw (l_text l) <= o_width o \/
     (o_width o < dw cw (nth_indent o first 0) /\
      exists b, l_text l = nth_indent o first 0 ++ b /\ dw cw b = 0)).
Proof.
  intros Ha HS HI Hbw Hne Hsp.
  destruct (slow_path_width_bw o first line ls Ha HS HI Hbw Hsp) as [bws [E1 [_ [_ H]]]].
  exists bws. split; [exact E1|]. intros Ht l Hl.
  destruct (H Ht 0%nat l Hl) as [g [_ [Htxt HC]]].
  destruct HC as [Hfit|[[w [_ [Hk _]]]|[H1 [H2 H3]]]].
  - left. rewrite Htxt. exact Hfit.
  - exfalso. exact (Hne (Hk eq_refl)).
  - right. split; [exact H1|]. exists (body g). rewrite Htxt, H3, app_nil_r.
    split; [reflexivity|exact H2].
Qed.

(* ================================================================== *)
(* Penalties: only the custom splitter inserts hyphens                  *)
(* ================================================================== *)

Lemma hyphen_pre_ends w idx pre :
  In idx (hyphen_points alnum w) -> bslice w 0 idx = Some pre -> ends_with pre [HY] = true.
Proof.
  clear cw_SP cw_HY.
  intros Hin Hs. apply hyphen_points_spec in Hin.
  destruct Hin as (pre0 & c1 & c2 & post & E & _ & _ & Ho).
  destruct (bslice_some _ _ _ _ Hs) as [p [q [E2 [Hp0 Hb]]]].
  apply blen_nil_iff in Hp0. subst p. cbn [app] in E2, Hb.
  assert (Epre : pre = pre0 ++ [c1; HY]).
  { apply (blen_prefix_unique pre q (pre0 ++ [c1; HY]) (c2 :: post)).
    - rewrite <- E2, E, <- app_assoc. reflexivity.
    - lia. }
  subst pre. unfold ends_with. rewrite rev_app_distr. cbn [rev app starts_with].
  rewrite N.eqb_refl. reflexivity.
Qed.

Lemma sw_loop_pen_nil w : w_pen w = [] -> forall pts prev ps,
  (forall idx pre, In idx pts -> bslice (w_word w) 0 idx = Some pre -> ends_with pre [HY] = true) ->
  sw_loop cw w pts prev = Some ps -> Forall (fun p => w_pen p = []) ps.
Proof.
  intros Hpen. induction pts as [|idx r IH]; intros prev ps Hpts H; cbn [sw_loop] in H.
  - destruct ((prev <? blen (w_word w)) || (prev =? 0)).
    + destruct (bdrop (w_word w) prev) as [piece|]; [|discriminate].
      injection H as <-. constructor; [exact Hpen|constructor].
    + injection H as <-. constructor.
  - destruct (bslice (w_word w) 0 idx) as [pre|] eqn:Epre; [|discriminate].
    destruct (bslice (w_word w) prev idx) as [piece|]; [|discriminate].
    destruct (sw_loop cw w r idx) as [rest|] eqn:E; [|discriminate].
    injection H as <-. constructor.
    + cbn [w_pen]. rewrite (Hpts idx pre (or_introl eq_refl) Epre). reflexivity.
    + apply (IH idx rest); [|exact E]. intros i p Hi. apply Hpts. right. exact Hi.
Qed.

Lemma split_words_pen_nil k : k <> SplCustom -> forall ws ps,
  Forall (fun w => w_pen w = []) ws ->
  split_words cw (split_points alnum custom_sp k) ws = Some ps ->
  Forall (fun w => w_pen w = []) ps.
Proof.
  intros Hk. induction ws as [|w r IH]; intros ps Hws H; cbn [split_words] in H.
  - injection H as <-. constructor.
  - inversion Hws as [|w0 r0 Hw Hr]; subst w0 r0.
    destruct (sw_loop cw w (split_points alnum custom_sp k (w_word w)) 0) as [a|] eqn:Ea; [|discriminate].
    destruct (split_words cw (split_points alnum custom_sp k) r) as [b|] eqn:Eb; [|discriminate].
    injection H as <-. apply Forall_app. split; [|exact (IH b Hr eq_refl)].
    apply (sw_loop_pen_nil w Hw _ _ _ ) with (2 := Ea).
    intros idx pre Hin Hs. destruct k; cbn [split_points] in Hin.
    + contradiction.
    + exact (hyphen_pre_ends _ _ _ Hin Hs).
    + congruence.
Qed.

Lemma break_words_pen_nil lim ws : Forall (fun w => w_pen w = []) ws ->
  Forall (fun w => w_pen w = []) (break_words cw lim ws).
Proof.
  induction 1 as [|w r Hw _ IH]; [constructor|].
  unfold break_words in *. cbn [flat_map]. apply Forall_app. split; [|exact IH].
  destruct (lim <? w_width w); [|constructor; [exact Hw|constructor]].
  destruct (break_apart_cases cw lim w) as [[E _]|[init [l [E [Hinit [_ Hpen]]]]]]; rewrite E.
  - constructor.
  - apply Forall_app. split.
    + eapply Forall_impl; [|exact Hinit]. intros x [_ Hx]. exact Hx.
    + constructor; [congruence|constructor].
Qed.

(* without the custom splitter no fragment carries a penalty *)
Theorem pipeline_words_pen_nil o first line bws : o_spl o <> SplCustom ->
  pwords o first line = Some bws -> Forall (fun w => w_pen w = []) bws.
Proof.
  intros Hk H. unfold pipeline_words in H.
  destruct (split_words cw (split_points alnum custom_sp (o_spl o)) (find_words cw lbc (o_sep o) line))
    as [sws|] eqn:Es; [|discriminate].
  injection H as <-.
  assert (Hf : Forall (fun w => w_pen w = []) (find_words cw lbc (o_sep o) line)).
  { destruct (find_words_spec cw lbc (o_sep o) line) as [_ Hok].
    eapply Forall_impl; [|exact Hok]. intros w [_ [_ [Hw _]]]. exact Hw. }
  pose proof (split_words_pen_nil (o_spl o) Hk _ sws Hf Es) as Hs.
  destruct (o_bw o); [|exact Hs].
  pose proof (break_words_pen_nil (o_width o - dw cw (o_si o)) sws Hs) as Hb.
  destruct (nonempty (if first then o_ii o else o_si o)); [|exact Hb].
  constructor; [reflexivity|exact Hb].
Qed.

(* ================================================================== *)
(* W5: the text level                                                   *)
(* ================================================================== *)

(* both width functions satisfy this (WidthTableFacts.cw_simple_le, cw_table_le); it is
   only needed for the fast path of wrap_single_line, which compares BYTE length and width *)
Hypothesis cw_le : forall c, cw c <= utf8_len c.

Notation wrp := (wrap cw alnum lbc custom_sp ofit).
Notation wloop := (wrap_loop cw alnum lbc custom_sp ofit).

(* a paragraph all of whose fragments are cut at top level *)
Definition ParaTop (o : options) (p : str) : Prop :=
  forall first bws, pwords o first p = Some bws -> TopLevelCuts bws.

(* fast path: the paragraph is shorter (in bytes) than the width and there is no indent *)
Lemma wsl_cases o first p ls : wsl o first p = Some ls ->
  (forall k l, nth_error ls k = Some l -> dw cw (l_text l) <= o_width o) \/
  spath o first p = Some ls.
Proof.
  clear cw_SP cw_HY.
  unfold wrap_single_line.
  destruct ((blen p <? o_width o) && negb (nonempty (if first then o_ii o else o_si o))) eqn:Ef;
    [|intros H; right; exact H].
  intros H. injection H as <-. left. intros k l Hk.
  destruct k as [|j]; [|destruct j; discriminate].
  cbn [nth_error] in Hk. injection Hk as <-. cbn [l_text].
  apply andb_true_iff in Ef. destruct Ef as [Hlt _]. apply N.ltb_lt in Hlt.
  pose proof (dw_le_blen cw cw_le (trim_end_sp p)) as Hd.
  unfold trim_end_sp in *. destruct (split_ws p) as [w ws] eqn:E.
  destruct (split_ws_spec p w ws E) as [S1 _]. cbn [fst] in *.
  rewrite S1, SplitBreak.blen_app in Hlt. lia.
Qed.

(* the paragraph loop: a property of (indent, text of the line) that holds for the lines
   of every paragraph, with the indent of the line within the paragraph, holds for
   every line of the result, with the indent of the line within the text *)
Lemma wrap_loop_lines o (P : str -> str -> Prop) (paras : list str) :
  (forall p first ls, In p paras -> wsl o first p = Some ls ->
     forall k l, nth_error ls k = Some l -> P (nth_indent o first k) (l_text l)) ->
  forall ps acc base out, incl ps paras ->
  wloop o ps acc base = Some out ->
  (forall i l, nth_error acc i = Some l -> P (nth_indent o true i) (l_text l)) ->
  forall i l, nth_error out i = Some l -> P (nth_indent o true i) (l_text l).
Proof.
  clear cw_SP cw_HY cw_le.
  intros HP. induction ps as [|p r IH]; intros acc base out Hin Hw Hacc i l Hi; cbn [wrap_loop] in Hw.
  - injection Hw as <-. exact (Hacc i l Hi).
  - destruct (wsl o (match acc with [] => true | _ => false end) p) as [pl|] eqn:Ep; [|discriminate].
    assert (Hp : In p paras) by (apply Hin; left; reflexivity).
    assert (Hr : incl r paras) by (intros x Hx; apply Hin; right; exact Hx).
    apply (IH _ _ out Hr Hw); [|exact Hi].
    intros i' l' Hi'.
    destruct (Nat.lt_ge_cases i' (length acc)) as [Hlt|Hge].
    + rewrite nth_error_app1 in Hi' by exact Hlt. exact (Hacc i' l' Hi').
    + rewrite nth_error_app2 in Hi' by exact Hge. rewrite nth_error_map in Hi'.
      destruct (nth_error pl (i' - length acc)) as [l0|] eqn:E0; [|discriminate].
      cbn [option_map] in Hi'. injection Hi' as <-. rewrite shift_cow_text.
      pose proof (HP p _ pl Hp Ep _ l0 E0) as H.
      replace (nth_indent o true i')
        with (nth_indent o (match acc with [] => true | _ => false end) (i' - length acc));
        [exact H|].
      destruct acc as [|a acc'].
      * cbn [length]. rewrite Nat.sub_0_r. reflexivity.
      * cbn [length] in Hge. unfold nth_indent. cbn [andb].
        destruct i' as [|j]; [lia|]. change (S j =? 0)%nat with false. reflexivity.
Qed.

Lemma wrap_lines o (P : str -> str -> Prop) text ls :
  (forall p first pl, In p (split_le (o_le o) text) -> wsl o first p = Some pl ->
     forall k l, nth_error pl k = Some l -> P (nth_indent o first k) (l_text l)) ->
  wrp o text = Some ls ->
  forall i l, nth_error ls i = Some l ->
  P (if (i =? 0)%nat then o_ii o else o_si o) (l_text l).
Proof.
  intros HP Hw i l Hi. unfold wrap in Hw.
  apply (wrap_loop_lines o P _ HP _ [] 0 ls (incl_refl _) Hw); [|exact Hi].
  intros j l' Hj. destruct j; discriminate.
Qed.

(* a line of the text: it fits, or it is  indent ++ body g ++ penalty  for the k-th
   first-fit group [g] of one of the paragraphs and [E ind k g] says why it is exempt *)
Definition LineSpec (o : options) (paras : list str) (E : str -> nat -> list word -> Prop)
  (ind t : str) : Prop :=
  dw cw t <= o_width o \/
  exists p first bws k g, In p paras /\ pwords o first p = Some bws /\
    nth_error (ff_groups o first bws) k = Some g /\
    t = ind ++ body g ++ lastw_pen g /\ E ind k g.

(* W5 (C02): every line returned by [wrap] with first-fit fits the width, or the part
   after its indent is a single fragment, or its indent alone is wider than the width
   and the rest has no width.  [ind] is the indent the line is rendered with. *)
Theorem wrap_width o text ls :
  o_alg o = FirstFit -> SplitterOK custom_sp -> IndentsOK o ->
  (forall p, In p (split_le (o_le o) text) -> ParaTop o p) ->
  wrp o text = Some ls ->
  forall i l, nth_error ls i = Some l ->
  let ind := if (i =? 0)%nat then o_ii o else o_si o in
  dw cw (l_text l) <= o_width o \/
  exists p first bws k g, In p (split_le (o_le o) text) /\ pwords o first p = Some bws /\
    nth_error (ff_groups o first bws) k = Some g /\
    l_text l = ind ++ body g ++ lastw_pen g /\
    ((exists w, g = [w]) \/
     (o_width o < dw cw ind /\ dw cw (body g) = 0 /\ lastw_pen g = [])).
Proof.
  intros Ha HS HI HT Hw i l Hi.
  apply (wrap_lines o (LineSpec o (split_le (o_le o) text)
           (fun ind _ g => (exists w, g = [w]) \/
              (o_width o < dw cw ind /\ dw cw (body g) = 0 /\ lastw_pen g = []))) text ls);
    [|exact Hw|exact Hi].
  intros p first pl Hp Hpl k l0 Hk. unfold LineSpec.
  destruct (wsl_cases o first p pl Hpl) as [Hfast|Hslow]; [left; exact (Hfast k l0 Hk)|].
  destruct (slow_path_width o first p pl Ha HS HI Hslow) as [bws [E1 [_ [_ H]]]].
  destruct (H (HT p Hp first bws E1) k l0 Hk) as [g [Hg [Htxt HC]]].
  destruct HC as [Hfit|Hex].
  - left. rewrite Htxt. exact Hfit.
  - right. exists p, first, bws, k, g. auto.
Qed.

(* the same with break_words: what the single fragment can be *)
Theorem wrap_width_bw o text ls :
  o_alg o = FirstFit -> SplitterOK custom_sp -> IndentsOK o -> o_bw o = true ->
  (forall p, In p (split_le (o_le o) text) -> ParaTop o p) ->
  wrp o text = Some ls ->
  forall i l, nth_error ls i = Some l ->
  let ind := if (i =? 0)%nat then o_ii o else o_si o in
  dw cw (l_text l) <= o_width o \/
  exists p first bws k g, In p (split_le (o_le o) text) /\ pwords o first p = Some bws /\
    nth_error (ff_groups o first bws) k = Some g /\
    l_text l = ind ++ body g ++ lastw_pen g /\
    ((exists w, g = [w] /\ (k = 0%nat -> ind = []) /\
        (nzv cw (w_word w) = 1%nat \/ (w_width w <= sub_width o /\ w_pen w = [HY]))) \/
     (o_width o < dw cw ind /\ dw cw (body g) = 0 /\ lastw_pen g = [])).
Proof.
  intros Ha HS HI Hbw HT Hw i l Hi.
  apply (wrap_lines o (LineSpec o (split_le (o_le o) text)
           (fun ind k g => (exists w, g = [w] /\ (k = 0%nat -> ind = []) /\
                (nzv cw (w_word w) = 1%nat \/ (w_width w <= sub_width o /\ w_pen w = [HY]))) \/
              (o_width o < dw cw ind /\ dw cw (body g) = 0 /\ lastw_pen g = []))) text ls);
    [|exact Hw|exact Hi].
  intros p first pl Hp Hpl k l0 Hk. unfold LineSpec.
  destruct (wsl_cases o first p pl Hpl) as [Hfast|Hslow]; [left; exact (Hfast k l0 Hk)|].
  destruct (slow_path_width_bw o first p pl Ha HS HI Hbw Hslow) as [bws [E1 [_ [_ H]]]].
  destruct (H (HT p Hp first bws E1) k l0 Hk) as [g [Hg [Htxt HC]]].
  destruct HC as [Hfit|Hex].
  - left. rewrite Htxt. exact Hfit.
  - right. exists p, first, bws, k, g. auto.
Qed.

(* C02 in the form of the design: break_words on and no custom splitter.  A line that
   does not fit is a single fragment with exactly one character of non-zero width (and it
   is not line 0 of a paragraph with a non-empty indent), or it is of the class D7. *)
Theorem wrap_width_unbreakable o text ls :
  o_alg o = FirstFit -> SplitterOK custom_sp -> IndentsOK o -> o_bw o = true ->
  o_spl o <> SplCustom ->
  (forall p, In p (split_le (o_le o) text) -> ParaTop o p) ->
  wrp o text = Some ls ->
  forall i l, nth_error ls i = Some l ->
  let ind := if (i =? 0)%nat then o_ii o else o_si o in
  dw cw (l_text l) <= o_width o \/
  (exists b, l_text l = ind ++ b /\ nzv cw b = 1%nat) \/
  (o_width o < dw cw ind /\ exists b, l_text l = ind ++ b /\ dw cw b = 0).
Proof.
  intros Ha HS HI Hbw Hspl HT Hw i l Hi. cbn zeta.
  destruct (wrap_width_bw o text ls Ha HS HI Hbw HT Hw i l Hi)
    as [Hfit|[p [first [bws [k [g [Hp [E1 [Hg [Htxt Hex]]]]]]]]]]; [left; exact Hfit|].
  right. destruct Hex as [[w [Eg [_ Hw']]]|[H1 [H2 H3]]].
  - left. subst g. rewrite body_single, lastw_pen_single in Htxt.
    assert (Hin : In w bws) by (apply (ff_groups_incl o first bws k [w] Hg); left; reflexivity).
    pose proof (pipeline_words_pen_nil o first p bws Hspl E1) as Hpn.
    rewrite Forall_forall in Hpn. specialize (Hpn w Hin).
    destruct Hw' as [Hnz|[_ Hy]]; [|congruence].
    exists (w_word w). rewrite Htxt, Hpn, app_nil_r. split; [reflexivity|exact Hnz].
  - right. split; [exact H1|]. exists (body g). rewrite Htxt, H3, app_nil_r.
    split; [reflexivity|exact H2].
Qed.

(* ---- text without escape sequences: every cut is at top level ---- *)

Lemma esc_free_normal t : Forall (fun c => c <> ESC) t -> final_state Normal t = Normal.
Proof. intros H. exact (proj1 (parse_machine t t (esc_free_parse t H))). Qed.

Lemma esc_free_top bws : Forall (fun c => c <> ESC) (gtext bws) -> TopLevelCuts bws.
Proof.
  induction bws as [|x g IH]; intros H; [constructor|].
  rewrite gtext_cons in H. apply Forall_app in H. destruct H as [H1 H2].
  apply Forall_app in H2. destruct H2 as [_ H2].
  constructor; [exact (esc_free_normal _ H1)|exact (IH H2)].
Qed.

Lemma esc_free_ParaTop o p : SplitterOK custom_sp -> Forall (fun c => c <> ESC) p -> ParaTop o p.
Proof.
  intros HS Hp first bws E.
  destruct (pipeline_words_spec cw alnum lbc custom_sp o first p HS) as [bws' [E1 [E2 _]]].
  rewrite E in E1. injection E1 as <-. apply esc_free_top. rewrite E2. exact Hp.
Qed.

Lemma Forall_join_pieces (P : char -> Prop) sep : forall l,
  Forall P (join sep l) -> forall x, In x l -> Forall P x.
Proof.
  induction l as [|y r IH]; intros H x Hx; [contradiction|].
  destruct r as [|z r'].
  - destruct Hx as [<-|[]]. exact H.
  - change (join sep (y :: z :: r')) with (y ++ sep ++ join sep (z :: r')) in H.
    apply Forall_app in H. destruct H as [H1 H2]. apply Forall_app in H2. destruct H2 as [_ H2].
    destruct Hx as [<-|Hx]; [exact H1|exact (IH H2 x Hx)].
Qed.

Lemma esc_free_paras o text : SplitterOK custom_sp -> Forall (fun c => c <> ESC) text ->
  forall p, In p (split_le (o_le o) text) -> ParaTop o p.
Proof.
  intros HS Ht p Hp. apply (esc_free_ParaTop o p HS).
  rewrite <- (join_split_le (o_le o) text) in Ht.
  exact (Forall_join_pieces _ _ _ Ht p Hp).
Qed.

(* C02 for text and indents without ESC: no side condition left *)
Corollary wrap_width_esc_free o text ls :
  o_alg o = FirstFit -> SplitterOK custom_sp ->
  Forall (fun c => c <> ESC) (o_ii o) -> Forall (fun c => c <> ESC) (o_si o) ->
  Forall (fun c => c <> ESC) text ->
  wrp o text = Some ls ->
  forall i l, nth_error ls i = Some l ->
  let ind := if (i =? 0)%nat then o_ii o else o_si o in
  dw cw (l_text l) <= o_width o \/
  exists p first bws k g, In p (split_le (o_le o) text) /\ pwords o first p = Some bws /\
    nth_error (ff_groups o first bws) k = Some g /\
    l_text l = ind ++ body g ++ lastw_pen g /\
    ((exists w, g = [w]) \/
     (o_width o < dw cw ind /\ dw cw (body g) = 0 /\ lastw_pen g = [])).
Proof.
  intros Ha HS H1 H2 Ht. apply (wrap_width o text ls Ha HS).
  - split; apply esc_free_normal; assumption.
  - exact (esc_free_paras o text HS Ht).
Qed.

End Width.

(* ================================================================== *)
(* The two width functions of the crate: no hypothesis on cw left      *)
(* ================================================================== *)

Lemma cw_simple_SP : cw_simple SP = 1. Proof. reflexivity. Qed.
Lemma cw_simple_HY : cw_simple HY = 1. Proof. reflexivity. Qed.
Lemma cw_table_SP : cw_table SP = 1. Proof. vm_compute. reflexivity. Qed.
Lemma cw_table_HY : cw_table HY = 1. Proof. vm_compute. reflexivity. Qed.

Corollary wrap_width_simple alnum lbc ofit o text ls :
  o_alg o = FirstFit -> IndentsOK o ->
  (forall p, In p (split_le (o_le o) text) -> ParaTop cw_simple alnum lbc custom3 o p) ->
  wrap cw_simple alnum lbc custom3 ofit o text = Some ls ->
  forall i l, nth_error ls i = Some l ->
  let ind := if (i =? 0)%nat then o_ii o else o_si o in
  dw cw_simple (l_text l) <= o_width o \/
  exists p first bws k g, In p (split_le (o_le o) text) /\
    pipeline_words cw_simple alnum lbc custom3 o first p = Some bws /\
    nth_error (ff_groups cw_simple o first bws) k = Some g /\
    l_text l = ind ++ body g ++ lastw_pen g /\
    ((exists w, g = [w]) \/
     (o_width o < dw cw_simple ind /\ dw cw_simple (body g) = 0 /\ lastw_pen g = [])).
Proof.
  intros Ha. apply (wrap_width cw_simple alnum lbc custom3 ofit cw_simple_SP cw_simple_HY cw_simple_le);
    [exact Ha|exact custom3_splitter_ok].
Qed.

Corollary wrap_width_table alnum lbc ofit o text ls :
  o_alg o = FirstFit -> IndentsOK o ->
  (forall p, In p (split_le (o_le o) text) -> ParaTop cw_table alnum lbc custom3 o p) ->
  wrap cw_table alnum lbc custom3 ofit o text = Some ls ->
  forall i l, nth_error ls i = Some l ->
  let ind := if (i =? 0)%nat then o_ii o else o_si o in
  dw cw_table (l_text l) <= o_width o \/
  exists p first bws k g, In p (split_le (o_le o) text) /\
    pipeline_words cw_table alnum lbc custom3 o first p = Some bws /\
    nth_error (ff_groups cw_table o first bws) k = Some g /\
    l_text l = ind ++ body g ++ lastw_pen g /\
    ((exists w, g = [w]) \/
     (o_width o < dw cw_table ind /\ dw cw_table (body g) = 0 /\ lastw_pen g = [])).
Proof.
  intros Ha. apply (wrap_width cw_table alnum lbc custom3 ofit cw_table_SP cw_table_HY cw_table_le);
    [exact Ha|exact custom3_splitter_ok].
Qed.

(* ================================================================== *)
(* Non-vacuity and counterexamples                                      *)
(* ================================================================== *)

Definition wb_lines (r : option (list oline)) : list str :=
  match r with Some ls => map l_text ls | None => [] end.

(* the input of the repaired defect D1:  "a" LF "bb cc dd", width 6, subsequent indent of
   four spaces, first-fit, ASCII separator.  Paragraph 2 is measured with the indent it is
   rendered with: one word per line, every line at most 6 wide (the unrepaired code gave
   "    bb cc", 9 columns). *)
Definition wb_oD1 := mkOptions 6 LE_LF [] [32;32;32;32] true FirstFit SepAscii SplHyphen.
Definition wb_tD1 : str := [97;10;98;98;32;99;99;32;100;100].

Example ex_D1 :
  wb_lines (wrap cw_simple pipe_alnum pipe_lbc custom3 ofit_dp wb_oD1 wb_tD1) =
    [[97]; [32;32;32;32;98;98]; [32;32;32;32;99;99]; [32;32;32;32;100;100]] /\
  Forall (fun t => dw cw_simple t <= 6)
    (wb_lines (wrap cw_simple pipe_alnum pipe_lbc custom3 ofit_dp wb_oD1 wb_tD1)).
Proof.
  split; [vm_compute; reflexivity|].
  repeat constructor; vm_compute; discriminate.
Qed.

(* the hypotheses of the text-level theorem hold for this input, so the theorem applies *)
Example ex_D1_by_theorem : forall ls,
  wrap cw_simple pipe_alnum pipe_lbc custom3 ofit_dp wb_oD1 wb_tD1 = Some ls ->
  forall i l, nth_error ls i = Some l ->
  dw cw_simple (l_text l) <= 6 \/
  exists b, l_text l = (if (i =? 0)%nat then [] else [32;32;32;32]) ++ b /\ nzv cw_simple b = 1%nat.
Proof.
  intros ls Hw i l Hi.
  assert (HE : forall t : str, forallb (fun c => negb (c =? ESC)) t = true ->
                               Forall (fun c => c <> ESC) t).
  { intros t H. rewrite forallb_forall in H. apply Forall_forall. intros c Hc E.
    specialize (H c Hc). rewrite E in H. discriminate. }
  destruct (wrap_width_unbreakable cw_simple pipe_alnum pipe_lbc custom3 ofit_dp
              cw_simple_SP cw_simple_HY cw_simple_le wb_oD1 wb_tD1 ls eq_refl custom3_splitter_ok)
    with (i := i) (l := l) as [H|[H|[H _]]].
  - split; reflexivity.
  - reflexivity.
  - discriminate.
  - apply esc_free_paras; [exact custom3_splitter_ok|]. apply HE. reflexivity.
  - exact Hw.
  - exact Hi.
  - left. exact H.
  - right. exact H.
  - exfalso. cbn [wb_oD1 o_width o_ii o_si] in H.
    destruct (i =? 0)%nat; vm_compute in H; discriminate H.
Qed.

(* W4, line 0 narrower than the pieces: initial indent ">>>>" (first line 2 columns),
   no subsequent indent (pieces are broken for 6 columns).  The sentinel keeps "abcde"
   off line 0: the first line is the indent alone. *)
Definition wb_o2 := mkOptions 6 LE_LF [62;62;62;62] [] true FirstFit SepAscii SplNone.
Example ex_wide_initial_indent :
  wb_lines (wrap cw_simple pipe_alnum pipe_lbc custom3 ofit_dp wb_o2 [97;98;99;100;101;32;98]) =
    [[62;62;62;62]; [97;98;99;100;101]; [98]].
Proof. vm_compute. reflexivity. Qed.

(* the exemption "single fragment" is needed: without break_words "abcdef" stays whole *)
Definition wb_o3 := mkOptions 3 LE_LF [] [] false FirstFit SepAscii SplHyphen.
Example ex_single_fragment :
  wb_lines (wrap cw_simple pipe_alnum pipe_lbc custom3 ofit_dp wb_o3 [97;98;99;100;101;102;32;103]) =
    [[97;98;99;100;101;102]; [103]].
Proof. vm_compute. reflexivity. Qed.

(* ... and with break_words for a character wider than the line: U+FF28 has width 2 *)
Definition wb_o4 := mkOptions 1 LE_LF [] [] true FirstFit SepAscii SplHyphen.
Example ex_wide_char :
  wb_lines (wrap cw_simple pipe_alnum pipe_lbc custom3 ofit_dp wb_o4 [97;65320;98]) =
    [[97]; [65320]; [98]] /\ dw cw_simple [65320] = 2 /\ nzv cw_simple [65320] = 1%nat.
Proof. vm_compute. repeat split; reflexivity. Qed.

(* the class D7 is needed: the indent alone is wider than the width *)
Definition wb_o5 := mkOptions 1 LE_LF [32;32] [] true FirstFit SepAscii SplHyphen.
Example ex_indent_too_wide :
  wb_lines (wrap cw_simple pipe_alnum pipe_lbc custom3 ofit_dp wb_o5 [97]) = [[32;32]; [97]].
Proof. vm_compute. reflexivity. Qed.

(* COUNTEREXAMPLE (custom splitter): with break_words a line that does not fit need NOT be
   a fragment of one non-zero-width character.  The splitter cuts "abcdef" into "abc"
   (penalty "-") and "def"; "abc" is 3 wide and is not broken, but alone on its line it is
   rendered "abc-", 4 columns at width 3.  This is the alternative
   [w_width w <= sub_width o /\ w_pen w = [HY]] of [wrap_width_bw], and the reason for the
   hypothesis [o_spl o <> SplCustom] of [wrap_width_unbreakable]. *)
Definition wb_o6 := mkOptions 3 LE_LF [] [] true FirstFit SepAscii SplCustom.
Example ex_penalty_overshoot :
  wb_lines (wrap cw_simple pipe_alnum pipe_lbc custom3 ofit_dp wb_o6 [97;98;99;100;101;102]) =
    [[97;98;99;45]; [100;101;102]] /\
  dw cw_simple [97;98;99;45] = 4 /\ nzv cw_simple [97;98;99] = 3%nat.
Proof. vm_compute. repeat split; reflexivity. Qed.

(* COUNTEREXAMPLE (finding D6): the hypothesis TopLevelCuts is needed.  The custom
   splitter cuts  a b ESC | ESC [ m | c d ; measured alone the pieces are 2, 0 and 2 wide,
   so first-fit puts all three on one line of width 4; in context the second ESC is
   swallowed by the first and "[m" is visible: 6 columns, three fragments. *)
Definition wb_o7 := mkOptions 4 LE_LF [] [] true FirstFit SepAscii SplCustom.
Definition wb_t7 : str := [97;98;27;27;91;109;99;100].
Example ex_cut_inside_escape :
  wb_lines (wrap cw_simple pipe_alnum pipe_lbc custom3 ofit_dp wb_o7 wb_t7) = [wb_t7] /\
  dw cw_simple wb_t7 = 6 /\
  option_map (map w_width) (pipeline_words cw_simple pipe_alnum pipe_lbc custom3 wb_o7 true wb_t7)
    = Some [2; 0; 2] /\
  ~ (forall bws, pipeline_words cw_simple pipe_alnum pipe_lbc custom3 wb_o7 true wb_t7 = Some bws ->
                 TopLevelCuts bws).
Proof.
  split; [vm_compute; reflexivity|]. split; [vm_compute; reflexivity|].
  split; [vm_compute; reflexivity|].
  intros H. specialize (H _ eq_refl). inversion H as [|w r Hw _]. vm_compute in Hw. discriminate.
Qed.

Print Assumptions line_width_additive.
Print Assumptions line_width_first_fit.
Print Assumptions line_dw_first_fit.
Print Assumptions first_fit_line_width.
Print Assumptions slow_path_first_fit.
Print Assumptions slow_path_width.
Print Assumptions pipeline_words_bound.
Print Assumptions pipeline_words_pen_nil.
Print Assumptions slow_path_width_bw.
Print Assumptions slow_path_line0.
Print Assumptions wrap_width.
Print Assumptions wrap_width_bw.
Print Assumptions wrap_width_unbreakable.
Print Assumptions wrap_width_esc_free.
Print Assumptions wrap_width_simple.
Print Assumptions wrap_width_table.
Print Assumptions ex_D1.
Print Assumptions ex_D1_by_theorem.
Print Assumptions ex_penalty_overshoot.
Print Assumptions ex_cut_inside_escape.
