(* The per-character widths: the crude rule (no unicode-width feature) and the table
   read off the implementation; both satisfy cw c <= utf8_len c. *)
From Coq Require Import Lia.
From TW Require Import Chars.
From TW.gen Require Import WidthTable.

Definition cw_simple (c : char) : N := if c <? 4352 then 1 else 2.

Fixpoint lookup (rs : list (N * N * N)) (c : char) : N :=
  match rs with
  | [] => 0
  | (lo, hi, w) :: r => if (lo <=? c) && (c <=? hi) then w else lookup r c
  end.
Definition cw_table (c : char) : N := lookup cw_ranges c.

Lemma utf8_len_mono a b : a <= b -> utf8_len a <= utf8_len b.
Proof.
  unfold utf8_len. intros H.
  destruct (N.ltb_spec a 128), (N.ltb_spec b 128), (N.ltb_spec a 2048), (N.ltb_spec b 2048),
           (N.ltb_spec a 65536), (N.ltb_spec b 65536); lia.
Qed.

Lemma cw_simple_le c : cw_simple c <= utf8_len c.
Proof.
  unfold cw_simple, utf8_len.
  destruct (N.ltb_spec c 4352), (N.ltb_spec c 128), (N.ltb_spec c 2048), (N.ltb_spec c 65536); lia.
Qed.

Definition range_ok (r : N * N * N) : bool := let '(lo, _, w) := r in w <=? utf8_len lo.

Lemma lookup_le rs : forallb range_ok rs = true -> forall c, lookup rs c <= utf8_len c.
Proof.
  induction rs as [|[[lo hi] w] r IH]; intros H c; cbn [lookup].
  - pose proof (utf8_len_mono 0 c). unfold utf8_len in *. destruct (c <? 128), (c <? 2048), (c <? 65536); lia.
  - cbn [forallb] in H. apply andb_true_iff in H. destruct H as [H1 H2].
    destruct ((lo <=? c) && (c <=? hi)) eqn:E.
    + apply andb_true_iff in E. destruct E as [E1 _]. apply N.leb_le in E1.
      unfold range_ok in H1. apply N.leb_le in H1. pose proof (utf8_len_mono lo c E1). lia.
    + apply IH; assumption.
Qed.

(* finite and complete: every range of the generated table is checked *)
Lemma cw_ranges_ok : forallb range_ok cw_ranges = true.
Proof. vm_compute. reflexivity. Qed.

Lemma cw_table_le c : cw_table c <= utf8_len c.
Proof. apply lookup_le. exact cw_ranges_ok. Qed.
