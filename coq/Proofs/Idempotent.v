(* C14: filling is idempotent (ASCII separator, empty indents, built-in splitters).

   I0  string facts: trim_end_sp on strings without trailing space, texts that do not
       contain the line ending, split_le (join ..) = id on such texts
   I1  the paragraph loop of [wrap] on texts
   I2  one line: a fragment list that passes the greedy test is kept on one line
   I3  the generic text-level theorem (first-fit), from a "refind" hypothesis on one line
   I4  S1: refind for whole words (no splitter, no break_words)
   I5  S2: break_words
   I6  hyphen_points is local (hp_loop over a concatenation)
   I7  the fragments of a paragraph with their hyphen context (FragSeq)
   I8  the second pass on one run of fragments / on one line
   I9  S3: the hyphen splitter; theorem [fill_idempotent]
   S4  the optimal-fit reference oracle [ofit_dp]; theorem [fill_idempotent_optimal]
   Examples by vm_compute at the end. *)
From Coq Require Import Lia ZArith.
From TW Require Import Wrap Custom.
From TW Require Import EscFacts Partition Greedy Lossless SplitBreak Bellman Paragraphs Pipeline WidthBound.
From TW Require InplaceFacts.

Arguments N.add : simpl never.
Arguments N.sub : simpl never.
Arguments N.mul : simpl never.
Arguments N.leb : simpl never.
Arguments N.ltb : simpl never.
Arguments N.eqb : simpl never.

(* ================================================================== *)
(* I0: string facts                                                     *)
(* ================================================================== *)

Lemma no_trailing_tl c r : no_trailing_sp (c :: r) -> no_trailing_sp r.
Proof. intros H u E. apply (H (c :: u)). rewrite E. reflexivity. Qed.

Lemma split_ws_no_trailing s : no_trailing_sp s -> split_ws s = (s, []).
Proof.
  induction s as [|c r IH]; intros H; [reflexivity|].
  cbn [split_ws]. rewrite (IH (no_trailing_tl c r H)).
  destruct r as [|d r'].
  - destruct (N.eqb_spec c SP) as [->|Hc]; [|reflexivity].
    exfalso. apply (H []). reflexivity.
  - reflexivity.
Qed.

Lemma trim_end_sp_no_trailing s : no_trailing_sp s -> trim_end_sp s = s.
Proof. intros H. unfold trim_end_sp. rewrite (split_ws_no_trailing s H). reflexivity. Qed.

Lemma split_ws_fst_no_trailing s : no_trailing_sp (fst (split_ws s)).
Proof.
  induction s as [|c r IH]; [exact no_trailing_nil|].
  cbn [split_ws]. destruct (split_ws r) as [w ws] eqn:E. cbn [fst] in IH.
  destruct w as [|d w'].
  - destruct (N.eqb_spec c SP) as [->|Hc]; cbn [fst]; [exact no_trailing_nil|].
    intros u Eu. destruct u as [|x u'].
    + injection Eu as Eu. contradiction.
    + destruct u'; discriminate.
  - cbn [fst]. change (c :: d :: w') with ([c] ++ d :: w').
    apply no_trailing_app; [discriminate|exact IH].
Qed.

Lemma trim_end_sp_idem s : trim_end_sp (trim_end_sp s) = trim_end_sp s.
Proof. apply trim_end_sp_no_trailing. apply split_ws_fst_no_trailing. Qed.

Lemma trim_end_sp_decomp s : s = trim_end_sp s ++ snd (split_ws s).
Proof. symmetry. apply split_ws_app. Qed.

Lemma trim_end_sp_blen s : blen (trim_end_sp s) <= blen s.
Proof. rewrite (trim_end_sp_decomp s) at 2. rewrite blen_app. lia. Qed.

(* texts that do not contain the line-ending sequence *)
Definition le_free (le : line_ending) (s : str) : Prop :=
  forall a b, s <> a ++ le_str le ++ b.

Lemma le_free_sub le a s b : le_free le (a ++ s ++ b) -> le_free le s.
Proof.
  intros H x y E. apply (H (a ++ x) (y ++ b)). rewrite E.
  rewrite <- !app_assoc. reflexivity.
Qed.

Lemma le_free_nil le : le_free le [].
Proof. intros a b E. destruct a, le; discriminate. Qed.

Lemma le_free_lf s : le_free LE_LF s <-> lf_free s.
Proof.
  split.
  - intros H Hin. destruct (in_split _ _ Hin) as [a [b E]]. exact (H a b E).
  - intros H a b E. apply H. rewrite E. apply in_or_app. right. left. reflexivity.
Qed.

Lemma split_crlf_free s : le_free LE_CRLF s -> split_crlf s = [s].
Proof.
  induction s as [|c r IH]; intros H; [reflexivity|].
  assert (Hr : le_free LE_CRLF r).
  { apply (le_free_sub LE_CRLF [c] r []). rewrite app_nil_r. exact H. }
  destruct r as [|d r']; [reflexivity|].
  rewrite split_crlf_cons2.
  destruct ((c =? CR) && (d =? LF)) eqn:E.
  - apply andb_true_iff in E. destruct E as [E1 E2].
    apply N.eqb_eq in E1. apply N.eqb_eq in E2. subst c d.
    exfalso. apply (H [] r'). reflexivity.
  - rewrite (IH Hr). reflexivity.
Qed.

Lemma split_le_free le s : le_free le s -> split_le le s = [s].
Proof.
  destruct le; cbn [split_le].
  - intros H. apply split_lf_lf_free. apply le_free_lf. exact H.
  - apply split_crlf_free.
Qed.

Lemma split_crlf_hd d r p ps : split_crlf (d :: r) = p :: ps -> p = [] \/ exists p', p = d :: p'.
Proof.
  destruct r as [|e r'].
  - cbn [split_crlf]. intros E. injection E as <- _. right. exists []. reflexivity.
  - rewrite split_crlf_cons2. destruct ((d =? CR) && (e =? LF)).
    + intros E. injection E as <- _. left. reflexivity.
    + destruct (split_crlf (e :: r')) as [|q qs]; cbn [cons_first]; intros E;
        injection E as <- _; right; eexists; reflexivity.
Qed.

Lemma split_crlf_pieces_free s : Forall (le_free LE_CRLF) (split_crlf s).
Proof.
  induction s as [| x | x y l IH1 IH2] using list_ind2.
  - constructor; [apply le_free_nil|constructor].
  - constructor; [|constructor]. intros a b E.
    destruct a as [|a0 a']; [discriminate|]. destruct a'; discriminate.
  - rewrite split_crlf_cons2. destruct ((x =? CR) && (y =? LF)) eqn:E.
    + constructor; [apply le_free_nil|exact IH1].
    + destruct (split_crlf (y :: l)) as [|p ps] eqn:Ep.
      { exfalso. exact (split_crlf_nonnil _ Ep). }
      cbn [cons_first]. inversion IH2 as [|p0 ps0 Hp Hps]; subst.
      constructor; [|exact Hps].
      intros a b Eab. destruct a as [|a0 a'].
      * cbn [app le_str] in Eab. injection Eab as E1 E2.
        destruct (split_crlf_hd _ _ _ _ Ep) as [->|[p' ->]]; [discriminate|].
        injection E2 as E2 _. subst x y.
        change ((CR =? CR) && (LF =? LF)) with true in E. discriminate.
      * injection Eab as _ E2. exact (Hp a' b E2).
Qed.

Lemma split_le_pieces_free le t : Forall (le_free le) (split_le le t).
Proof.
  destruct le; cbn [split_le].
  - eapply Forall_impl; [|apply split_lf_pieces_lf_free].
    intros a Ha. apply le_free_lf. exact Ha.
  - apply split_crlf_pieces_free.
Qed.

Lemma split_join_free le : forall ls, ls <> [] -> Forall (le_free le) ls ->
  split_le le (join (le_str le) ls) = ls.
Proof.
  induction ls as [|x r IH]; intros Hne Hf; [congruence|].
  inversion Hf as [|x0 r0 Hx Hr]; subst.
  destruct r as [|y r'].
  - cbn [join]. apply split_le_free. exact Hx.
  - rewrite join_cons by discriminate. rewrite split_le_app.
    rewrite (split_le_free le x Hx). rewrite IH; [reflexivity|discriminate|exact Hr].
Qed.

Section Idem.
Variable cw : char -> N.
Variable alnum : char -> bool.
Variable lbc : str -> list N.
Variable custom_sp : str -> list N.
Variable ofit : penalties -> list word -> list N -> option (list (list word)).

Notation pwords := (pipeline_words cw alnum lbc custom_sp).
Notation spath := (slow_path cw alnum lbc custom_sp ofit).
Notation wsl := (wrap_single_line cw alnum lbc custom_sp ofit).
Notation wloop := (wrap_loop cw alnum lbc custom_sp ofit).
Notation wrp := (wrap cw alnum lbc custom_sp ofit).
Notation fil := (fill cw alnum lbc custom_sp ofit).

(* ================================================================== *)
(* I1: the paragraph loop on texts                                      *)
(* ================================================================== *)

(* the line texts of one paragraph *)
Definition ptexts (o : options) (p : str) : option (list str) :=
  option_map (map l_text) (wsl o false p).

Lemma wloop_texts_fwd o : (forall p, wsl o true p = wsl o false p) ->
  forall ps acc base out, wloop o ps acc base = Some out ->
  exists tss, Forall2 (fun p ts => ptexts o p = Some ts) ps tss /\
              map l_text out = map l_text acc ++ concat tss.
Proof.
  intros Hirr. induction ps as [|p r IH]; intros acc base out H; cbn [wrap_loop] in H.
  - injection H as <-. exists []. split; [constructor|]. cbn [concat]. rewrite app_nil_r. reflexivity.
  - assert (E : wsl o (match acc with [] => true | _ :: _ => false end) p = wsl o false p).
    { destruct acc; [apply Hirr|reflexivity]. }
    rewrite E in H. destruct (wsl o false p) as [ls|] eqn:El; [|discriminate].
    destruct (IH _ _ _ H) as [tss [Hf Ht]].
    exists (map l_text ls :: tss). split.
    + constructor; [|exact Hf]. unfold ptexts. rewrite El. reflexivity.
    + rewrite Ht, map_app, map_shift_cow_text. cbn [concat]. rewrite app_assoc. reflexivity.
Qed.

Lemma wloop_texts_bwd o : (forall p, wsl o true p = wsl o false p) ->
  forall ps tss, Forall2 (fun p ts => ptexts o p = Some ts) ps tss ->
  forall acc base, exists out, wloop o ps acc base = Some out /\
                               map l_text out = map l_text acc ++ concat tss.
Proof.
  intros Hirr ps tss HF. induction HF as [|p ts r tss' Hp _ IH]; intros acc base.
  - exists acc. split; [reflexivity|]. cbn [concat]. rewrite app_nil_r. reflexivity.
  - cbn [wrap_loop].
    assert (E : wsl o (match acc with [] => true | _ :: _ => false end) p = wsl o false p).
    { destruct acc; [apply Hirr|reflexivity]. }
    rewrite E. unfold ptexts in Hp. destruct (wsl o false p) as [ls|] eqn:El; [|discriminate].
    cbn [option_map] in Hp. injection Hp as Hp.
    destruct (IH (acc ++ map (shift_cow base) ls) (base + blen p + blen (le_str (o_le o))))
      as [out [Ho Ht]].
    exists out. split; [exact Ho|].
    rewrite Ht, map_app, map_shift_cow_text, Hp. cbn [concat]. rewrite app_assoc. reflexivity.
Qed.

(* ================================================================== *)
(* I2: one line                                                         *)
(* ================================================================== *)

(* every fragment but the first passes the first-fit test of a line of width W *)
Definition fits1 (W : N) (fs : list word) : Prop :=
  forall pre x post, fs = pre ++ x :: post -> pre <> [] ->
    cached pre + w_width x + blen (w_pen x) <= W.

Lemma fits1_CurOK W lws k fs : @nth_width NumZ lws k = Z.of_N W ->
  fits1 W fs <-> CurOK word word_frag lws k fs.
Proof.
  intros Hw. unfold fits1, CurOK. split; intros H pre x post E Hne.
  - rewrite Hw, run_width_cached. specialize (H pre x post E Hne).
    unfold word_frag. cbn [fw fpen]. lia.
  - specialize (H pre x post E Hne). rewrite Hw, run_width_cached in H.
    unfold word_frag in H. cbn [fw fpen] in H. lia.
Qed.

Lemma lastw_pen_nil g : Forall (fun x => w_pen x = []) g -> lastw_pen g = [].
Proof.
  intros H. destruct (nil_or_last _ g) as [->|[g' [z ->]]]; [reflexivity|].
  rewrite lastw_pen_snoc. apply Forall_app in H. destruct H as [_ H].
  inversion H; assumption.
Qed.

Definition EmptyIndents (o : options) : Prop := o_ii o = [] /\ o_si o = [].

Lemma nth_indent_empty o first k : EmptyIndents o -> nth_indent o first k = [].
Proof. intros [H1 H2]. destruct (nth_indent_cases o first k) as [E|E]; rewrite E; assumption. Qed.

Lemma nth_width_empty o first k : EmptyIndents o ->
  @nth_width NumZ (map Z.of_N (line_widths cw o first)) k = Z.of_N (o_width o).
Proof.
  intros He. rewrite nth_width_line_widths, (nth_indent_empty o first k He).
  change (dw cw []) with 0. rewrite N.sub_0_r. reflexivity.
Qed.

Lemma greedy_single lws (fs : list word) :
  CurOK word word_frag lws 0 fs -> Greedy word word_frag lws [fs].
Proof.
  intros H k pre x post Hn. destruct k as [|k]; cbn [nth_error] in Hn.
  - injection Hn as Hn. split.
    + intros Hne. exact (H pre x post Hn Hne).
    + intros _ y rest Hy. cbn [nth_error] in Hy. discriminate.
  - destruct k; discriminate.
Qed.

Theorem one_line o first L fs :
  o_alg o = FirstFit -> SplitterOK custom_sp -> EmptyIndents o ->
  pwords o first L = Some fs -> fs <> [] -> fits1 (o_width o) fs ->
  lastw_ws fs = [] -> lastw_pen fs = [] ->
  spath o first L = Some [mkLine L (Borrowed 0)].
Proof.
  intros Ha Hs He Hp Hne Hfit Hws Hpen.
  destruct (slow_path_first_fit cw alnum lbc custom_sp ofit o first L Ha Hs)
    as [bws [Hp' [Hg [_ Hsp]]]].
  rewrite Hp in Hp'. injection Hp' as <-. rewrite Hsp.
  destruct fs as [|f0 fs'] eqn:Efs; [congruence|]. rewrite <- Efs in *.
  assert (Hgr : [fs] = ff_groups cw o first fs).
  { unfold ff_groups. apply greedy_unique.
    - exact Hne.
    - cbn [concat]. apply app_nil_r.
    - constructor; [exact Hne|constructor].
    - apply greedy_single. apply (fits1_CurOK (o_width o)); [|exact Hfit].
      apply nth_width_empty. exact He. }
  rewrite <- Hgr. cbn [lines_of].
  assert (Ei : (if first then o_ii o else o_si o) = []).
  { destruct He as [H1 H2]. destruct first; assumption. }
  rewrite Ei, Hpen. cbn [nonempty orb app]. rewrite app_nil_r.
  assert (Eb : body fs = L).
  { rewrite <- Hg, (gtext_body fs), Hws, app_nil_r. reflexivity. }
  rewrite Eb. reflexivity.
Qed.

(* ================================================================== *)
(* I3: the text level, from a hypothesis on one line                    *)
(* ================================================================== *)

(* wrapping the text [l] as a paragraph gives back the single line [l] *)
Definition LineFix (o : options) (l : str) : Prop :=
  forall first, option_map (map l_text) (wsl o first l) = Some [l].

(* the second pass finds, in the body of a first-pass line, fragments that pass the
   greedy test of one line and end without whitespace *)
Definition Refind (o : options) : Prop :=
  forall (first : bool) (p : str) (bws : list word) (k : nat) (g : list word) (first' : bool),
    pwords o first p = Some bws -> bws <> [] ->
    nth_error (ff_groups cw o first bws) k = Some g -> body g <> [] ->
    exists fs, pwords o first' (body g) = Some fs /\ fs <> [] /\
               fits1 (o_width o) fs /\ lastw_ws fs = [].

(* the same for any contiguous part [g] of the fragments that passes the greedy test,
   whatever algorithm formed the lines; the line keeps its width *)
Definition RefindCore (o : options) : Prop :=
  forall (first : bool) (p : str) (bws A g B : list word) (first' : bool),
    pwords o first p = Some bws -> bws = A ++ g ++ B ->
    fits1 (o_width o) g -> body g <> [] ->
    exists fs, pwords o first' (body g) = Some fs /\ fs <> [] /\
               fits1 (o_width o) fs /\ lastw_ws fs = [] /\
               cached fs + blen (lastw_ws g) = cached g.

Section Generic.
Variable o : options.
Hypothesis Ha : o_alg o = FirstFit.
Hypothesis Hs : SplitterOK custom_sp.
Hypothesis He : EmptyIndents o.
Hypothesis Hsep : o_sep o = SepAscii.
Hypothesis Hspl : o_spl o <> SplCustom.
Hypothesis HR : Refind o.

Lemma ind_empty (first : bool) : (if first then o_ii o else o_si o) = [] :> str.
Proof. destruct He as [H1 H2]. destruct first; assumption. Qed.

Lemma wsl_irr p : wsl o true p = wsl o false p.
Proof. apply wrap_single_line_first_irrelevant. destruct He as [H1 H2]. congruence. Qed.

Lemma wsl_unfold first p :
  wsl o first p = if blen p <? o_width o then Some [mkLine (trim_end_sp p) (Borrowed 0)]
                  else spath o first p.
Proof.
  unfold wrap_single_line. rewrite (ind_empty first). cbn [nonempty negb].
  rewrite andb_true_r. reflexivity.
Qed.

Lemma pwords_nil first : pwords o first [] = Some [].
Proof.
  unfold pipeline_words. rewrite Hsep. cbn [find_words]. unfold find_words_ascii.
  cbn [fwa_loop split_words]. rewrite (ind_empty first).
  destruct (o_bw o); reflexivity.
Qed.

Lemma LineFix_nil : LineFix o [].
Proof.
  intros first. rewrite wsl_unfold. destruct (blen [] <? o_width o); [reflexivity|].
  destruct (slow_path_first_fit cw alnum lbc custom_sp ofit o first [] Ha Hs)
    as [bws [Hp [_ [_ Hsp]]]].
  rewrite pwords_nil in Hp. injection Hp as <-. rewrite Hsp.
  unfold indent_line. rewrite (ind_empty first). reflexivity.
Qed.

Lemma LineFix_trim p : blen p < o_width o -> LineFix o (trim_end_sp p).
Proof.
  intros Hb first. rewrite wsl_unfold.
  assert (E : blen (trim_end_sp p) <? o_width o = true).
  { apply N.ltb_lt. pose proof (trim_end_sp_blen p). lia. }
  rewrite E. cbn [option_map map l_text]. rewrite trim_end_sp_idem. reflexivity.
Qed.

Lemma wsl_lines first p ls : wsl o first p = Some ls ->
  ls <> [] /\ forall l, In l ls ->
    LineFix o (l_text l) /\ exists a b, p = a ++ l_text l ++ b.
Proof.
  intros H. rewrite wsl_unfold in H. destruct (blen p <? o_width o) eqn:Eb.
  - injection H as <-. split; [discriminate|]. intros l [<-|[]]. cbn [l_text]. split.
    + apply LineFix_trim. apply N.ltb_lt. exact Eb.
    + exists [], (snd (split_ws p)). cbn [app]. apply trim_end_sp_decomp.
  - destruct (slow_path_first_fit cw alnum lbc custom_sp ofit o first p Ha Hs)
      as [bws [Hp [Hg [_ Hsp]]]].
    rewrite Hsp in H. injection H as <-.
    destruct bws as [|w0 bws'] eqn:Ebws.
    + split; [discriminate|]. intros l [<-|[]]. unfold indent_line.
      rewrite (ind_empty first). cbn [nonempty l_text]. split; [apply LineFix_nil|].
      exists [], p. reflexivity.
    + rewrite <- Ebws in *. assert (Hne : bws <> []) by (rewrite Ebws; discriminate).
      clear Ebws w0 bws'.
      assert (Hc : concat (ff_groups cw o first bws) = bws) by apply first_fit_concat.
      split.
      * destruct (ff_groups cw o first bws) as [|g0 gr]; [cbn [concat] in Hc; congruence|].
        cbn [lines_of]. discriminate.
      * intros l Hin. destruct (In_nth_error _ _ Hin) as [k Hk].
        destruct (lines_of_nth o _ _ _ _ _ Hk) as [g [Hgk Ht]].
        rewrite (nth_indent_empty o first k He) in Ht. cbn [app] in Ht.
        assert (Hpen : lastw_pen g = []).
        { apply lastw_pen_nil. apply Forall_forall. intros x Hx.
          pose proof (pipeline_words_pen_nil cw alnum lbc custom_sp o first p bws Hspl Hp) as HP.
          rewrite Forall_forall in HP. apply HP.
          exact (ff_groups_incl cw o first bws k g Hgk x Hx). }
        rewrite Hpen, app_nil_r in Ht. rewrite Ht. split.
        -- destruct (body g) as [|c0 b0] eqn:Ebody; [apply LineFix_nil|].
           rewrite <- Ebody in *. assert (Hbne : body g <> []) by (rewrite Ebody; discriminate).
           clear Ebody c0 b0.
           intros first'. rewrite wsl_unfold.
           destruct (blen (body g) <? o_width o) eqn:Eb2.
           ++ cbn [option_map map l_text]. rewrite trim_end_sp_no_trailing; [reflexivity|].
              pose proof (slow_path_ascii_no_trailing_sp cw alnum lbc custom_sp o first p bws
                            (ff_groups cw o first bws) Hs Hsep Hp Hc) as HT.
              rewrite Forall_forall in HT. apply HT. eapply nth_error_In. exact Hgk.
           ++ destruct (HR first p bws k g first' Hp Hne Hgk Hbne) as [fs [Hf1 [Hf2 [Hf3 Hf4]]]].
              assert (Hfp : lastw_pen fs = []).
              { apply lastw_pen_nil.
                exact (pipeline_words_pen_nil cw alnum lbc custom_sp o first' _ fs Hspl Hf1). }
              rewrite (one_line o first' (body g) fs Ha Hs He Hf1 Hf2 Hf3 Hf4 Hfp).
              reflexivity.
        -- destruct (nth_error_split _ _ Hgk) as [G1 [G2 [EG _]]].
           exists (gtext (concat G1)), (lastw_ws g ++ gtext (concat G2)).
           rewrite <- Hg, <- Hc, EG, concat_app, gtext_app. cbn [concat].
           rewrite gtext_app, (gtext_body g), <- !app_assoc. reflexivity.
Qed.

(* one first-pass line, wrapped again as a paragraph of its own, is that line, borrowed
   from offset 0 (the empty line of a zero-width wrap is the static "") *)
Theorem wsl_line_generic first p bws k g first' :
  pwords o first p = Some bws -> bws <> [] ->
  nth_error (ff_groups cw o first bws) k = Some g -> body g <> [] ->
  wsl o first' (body g) = Some [mkLine (body g) (Borrowed 0)].
Proof.
  intros Hp Hne Hgk Hbne. rewrite wsl_unfold.
  destruct (blen (body g) <? o_width o) eqn:Eb2.
  - rewrite trim_end_sp_no_trailing; [reflexivity|].
    pose proof (slow_path_ascii_no_trailing_sp cw alnum lbc custom_sp o first p bws
                  (ff_groups cw o first bws) Hs Hsep Hp
                  (first_fit_concat _ _ word_frag bws _)) as HT.
    rewrite Forall_forall in HT. apply HT. eapply nth_error_In. exact Hgk.
  - destruct (HR first p bws k g first' Hp Hne Hgk Hbne) as [fs [Hf1 [Hf2 [Hf3 Hf4]]]].
    assert (Hfp : lastw_pen fs = []).
    { apply lastw_pen_nil.
      exact (pipeline_words_pen_nil cw alnum lbc custom_sp o first' _ fs Hspl Hf1). }
    exact (one_line o first' (body g) fs Ha Hs He Hf1 Hf2 Hf3 Hf4 Hfp).
Qed.

Theorem wsl_line_empty first :
  wsl o first [] = Some [mkLine [] (if 0 <? o_width o then Borrowed 0 else BorrowedStatic)].
Proof.
  rewrite wsl_unfold. change (blen []) with 0. destruct (0 <? o_width o); [reflexivity|].
  destruct (slow_path_first_fit cw alnum lbc custom_sp ofit o first [] Ha Hs)
    as [bws [Hp [_ [_ Hsp]]]].
  rewrite pwords_nil in Hp. injection Hp as <-. rewrite Hsp.
  unfold indent_line. rewrite (ind_empty first). reflexivity.
Qed.

Lemma paras_lines le : forall ps tss,
  Forall2 (fun p ts => ptexts o p = Some ts) ps tss -> Forall (le_free le) ps ->
  Forall (fun l => LineFix o l /\ le_free le l) (concat tss) /\ (ps <> [] -> concat tss <> []).
Proof.
  intros ps tss HF. induction HF as [|p ts r tss' Hp _ IH]; intros Hfree.
  - split; [constructor|congruence].
  - inversion Hfree as [|p0 r0 Hpf Hrf]; subst. destruct (IH Hrf) as [IH1 _].
    unfold ptexts in Hp. destruct (wsl o false p) as [ls|] eqn:El; [|discriminate].
    cbn [option_map] in Hp. injection Hp as <-.
    destruct (wsl_lines false p ls El) as [Hne Hall].
    cbn [concat]. split.
    + apply Forall_app. split; [|exact IH1]. apply Forall_forall. intros t Ht.
      apply in_map_iff in Ht. destruct Ht as [l [<- Hl]].
      destruct (Hall l Hl) as [HL [a [b Eab]]]. split; [exact HL|].
      apply (le_free_sub le a (l_text l) b). rewrite <- Eab. exact Hpf.
    + intros _ E. apply app_eq_nil in E. destruct E as [E _].
      destruct ls; [congruence|discriminate].
Qed.

Theorem fill_idem_generic t r : fil o t = Some r -> fil o r = Some r.
Proof.
  intros H. rewrite fill_is_join in H.
  destruct (wrp o t) as [ls|] eqn:Ew; [|discriminate]. injection H as <-.
  unfold wrap in Ew.
  destruct (wloop_texts_fwd o wsl_irr _ _ _ _ Ew) as [tss [HF Ht]].
  cbn [map app] in Ht.
  destruct (paras_lines (o_le o) _ _ HF (split_le_pieces_free (o_le o) t)) as [Hall Hne].
  specialize (Hne (split_le_nonnil (o_le o) t)).
  rewrite Ht. set (lines := concat tss) in *.
  rewrite fill_is_join. unfold wrap.
  rewrite split_join_free; [|exact Hne|].
  2:{ eapply Forall_impl; [|exact Hall]. intros a [_ Ha']. exact Ha'. }
  assert (HF2 : Forall2 (fun p ts => ptexts o p = Some ts) lines (map (fun l => [l]) lines)).
  { clear -Hall. induction Hall as [|l r [HL _] _ IH]; [constructor|].
    cbn [map]. constructor; [|exact IH]. exact (HL false). }
  destruct (wloop_texts_bwd o wsl_irr _ _ HF2 [] 0) as [out [Ho Hto]].
  rewrite Ho. cbn [map app] in Hto. rewrite Hto.
  assert (Ec : concat (map (fun l : str => [l]) lines) = lines).
  { clear. induction lines as [|l r IH]; [reflexivity|]. cbn [map concat app]. rewrite IH. reflexivity. }
  rewrite Ec. reflexivity.
Qed.

End Generic.

(* ================================================================== *)
(* I4: S1 -- whole words                                                *)
(* ================================================================== *)

(* consecutive fragments that find_words_ascii keeps apart: whitespace between them *)
Definition sepR (x y : word) : Prop := w_ws x <> [] /\ w_word y <> [].

Lemma adj_ok_adj l : InplaceFacts.adj_ok l -> adj sepR l.
Proof.
  induction l as [|x r IH]; intros H; [exact I|].
  destruct r as [|y r']; [exact I|]. split.
  - exact (H [] x y r' eq_refl).
  - apply IH. apply (InplaceFacts.adj_ok_app_r [x]). exact H.
Qed.

Lemma adj_app_l {A} (R : A -> A -> Prop) (a b : list A) : adj R (a ++ b) -> adj R a.
Proof.
  induction a as [|x r IH]; intros H; [exact I|].
  destruct r as [|y r']; [exact I|].
  cbn [app] in H. destruct H as [H1 H2]. split; [exact H1|]. apply IH. exact H2.
Qed.

Lemma adj_app_r {A} (R : A -> A -> Prop) (a b : list A) : adj R (a ++ b) -> adj R b.
Proof.
  induction a as [|x r IH]; intros H; [exact H|].
  apply IH. destruct r as [|y r'].
  - cbn [app] in H |- *. destruct b; [exact I|]. destruct H as [_ H]. exact H.
  - cbn [app] in H |- *. destruct H as [_ H]. exact H.
Qed.

Lemma fwa_word w : forall t cur, nosp w ->
  fwa_loop cw (w ++ t) cur false = fwa_loop cw t (rev w ++ cur) false.
Proof.
  induction w as [|c r IH]; intros t cur Hw; [reflexivity|].
  inversion Hw as [|c0 r0 Hc Hr]; subst.
  cbn [app fwa_loop andb]. apply N.eqb_neq in Hc. rewrite Hc.
  rewrite IH by exact Hr. cbn [rev]. rewrite <- app_assoc. reflexivity.
Qed.

Lemma fwa_sp_true sp : forall t cur, allsp sp ->
  fwa_loop cw (sp ++ t) cur true = fwa_loop cw t (rev sp ++ cur) true.
Proof.
  induction sp as [|c r IH]; intros t cur Hs; [reflexivity|].
  inversion Hs as [|c0 r0 Hc Hr]; subst.
  cbn [app fwa_loop]. change (SP =? SP) with true. cbn [negb andb].
  rewrite IH by exact Hr. cbn [rev]. rewrite <- app_assoc. reflexivity.
Qed.

Lemma fwa_sp sp t cur : allsp sp -> sp <> [] ->
  fwa_loop cw (sp ++ t) cur false = fwa_loop cw t (rev sp ++ cur) true.
Proof.
  intros Hs Hne. destruct sp as [|c r]; [congruence|].
  inversion Hs as [|c0 r0 Hc Hr]; subst.
  cbn [app fwa_loop andb]. change (SP =? SP) with true.
  rewrite fwa_sp_true by exact Hr. cbn [rev]. rewrite <- app_assoc. reflexivity.
Qed.

Lemma fwa_canon : forall rest u0 u sp,
  nosp u0 -> nosp u -> allsp sp -> u0 ++ u ++ sp <> [] ->
  Forall (InplaceFacts.wordlike cw) rest ->
  adj sepR (mkWord (u0 ++ u) sp [] (dw cw (u0 ++ u)) :: rest) ->
  fwa_loop cw (u ++ sp ++ gtext rest) (rev u0) false =
  mkWord (u0 ++ u) sp [] (dw cw (u0 ++ u)) :: rest.
Proof.
  induction rest as [|y rest' IH]; intros u0 u sp Hu0 Hu Hsp Hne Hwl Hadj.
  - rewrite gtext_nil, app_nil_r, fwa_word by exact Hu.
    assert (Erev : rev u ++ rev u0 = rev (u0 ++ u)) by (rewrite rev_app_distr; reflexivity).
    destruct sp as [|c sp'].
    + cbn [fwa_loop]. rewrite Erev.
      destruct (rev (u0 ++ u)) as [|a b] eqn:E.
      * exfalso. apply Hne. rewrite app_nil_r.
        apply (f_equal (@rev char)) in E. rewrite rev_involutive in E. exact E.
      * rewrite <- E, rev_involutive.
        rewrite <- (app_nil_r (u0 ++ u)) at 1.
        rewrite InplaceFacts.word_from_spec; [reflexivity| |constructor].
        apply nosp_app. split; assumption.
    + rewrite <- (app_nil_r (c :: sp')) at 1.
      rewrite fwa_sp; [|exact Hsp|discriminate].
      cbn [fwa_loop].
      destruct (rev (c :: sp') ++ rev u ++ rev u0) as [|a b] eqn:E.
      * exfalso. apply app_eq_nil in E. destruct E as [E _].
        cbn [rev] in E. apply app_eq_nil in E. destruct E as [_ E]. discriminate.
      * rewrite <- E. rewrite Erev, <- rev_app_distr, rev_involutive.
        rewrite InplaceFacts.word_from_spec; [reflexivity| |exact Hsp].
        apply nosp_app. split; assumption.
  - inversion Hwl as [|y0 r0 Hy Hr]; subst.
    destruct Hy as [Hyn [Hys [Hyp Hyw]]].
    cbn [adj] in Hadj. destruct Hadj as [[Hspne Hyne] Hadj]. cbn [w_ws] in Hspne.
    destruct y as [yu ys yp yw]. cbn [w_word w_ws w_pen w_width] in *. subst yp yw.
    destruct yu as [|c yu']; [congruence|].
    inversion Hyn as [|c0 r0 Hc Hyn']; subst.
    rewrite gtext_cons. cbn [w_word w_ws].
    rewrite fwa_word by exact Hu. rewrite fwa_sp by assumption.
    cbn [app fwa_loop]. apply N.eqb_neq in Hc. rewrite Hc. cbn [negb andb].
    assert (Erev : rev (rev sp ++ rev u ++ rev u0) = (u0 ++ u) ++ sp).
    { rewrite !rev_app_distr, !rev_involutive. reflexivity. }
    rewrite Erev. rewrite InplaceFacts.word_from_spec; [| |exact Hsp].
    2:{ apply nosp_app. split; assumption. }
    f_equal.
    change [c] with (rev [c]).
    apply (IH [c] yu' ys).
    + constructor; [|constructor]. apply N.eqb_neq. exact Hc.
    + exact Hyn'.
    + exact Hys.
    + discriminate.
    + exact Hr.
    + exact Hadj.
Qed.

(* find_words_ascii recovers a list of space-free words separated by whitespace *)
Theorem find_words_canon fs :
  Forall (InplaceFacts.wordlike cw) fs -> adj sepR fs -> gtext fs <> [] ->
  find_words_ascii cw (gtext fs) = fs.
Proof.
  intros Hwl Hadj Hne. destruct fs as [|x rest]; [exfalso; apply Hne; reflexivity|].
  inversion Hwl as [|x0 r0 Hx Hr]; subst.
  destruct Hx as [Hxn [Hxs [Hxp Hxw]]].
  destruct x as [xu xs xp xw]. cbn [w_word w_ws w_pen w_width] in *. subst xp xw.
  unfold find_words_ascii. rewrite gtext_cons. cbn [w_word w_ws].
  change (@nil char) with (rev (@nil char)) at 1.
  apply (fwa_canon rest [] xu xs).
  - constructor.
  - exact Hxn.
  - exact Hxs.
  - cbn [app]. intros E. destruct rest as [|y r].
    + apply Hne. rewrite gtext_single. exact E.
    + cbn [adj] in Hadj. destruct Hadj as [[Hs' _] _]. cbn [w_ws] in Hs'.
      apply app_eq_nil in E. destruct E as [_ E]. congruence.
  - exact Hr.
  - exact Hadj.
Qed.

(* the last fragment of a line without its whitespace *)
Definition nows (w : word) : word := mkWord (w_word w) [] (w_pen w) (w_width w).

Lemma gtext_nows init lw : gtext (init ++ [nows lw]) = body (init ++ [lw]).
Proof. rewrite gtext_snoc, body_snoc. cbn [nows w_word w_ws]. rewrite app_nil_r. reflexivity. Qed.

Lemma lastw_ws_nows init lw : lastw_ws (init ++ [nows lw]) = [].
Proof. rewrite lastw_ws_snoc. reflexivity. Qed.

Lemma cached_ge_last pre x : w_width x <= cached (pre ++ [x]).
Proof. rewrite cached_app, cached_cons, cached_nil. lia. Qed.

Lemma fits1_nows W init lw : fits1 W (init ++ [lw]) -> fits1 W (init ++ [nows lw]).
Proof.
  intros H pre x post E Hne.
  destruct (nil_or_last _ post) as [->|[post' [z ->]]].
  - apply app_inj_tail in E. destruct E as [-> <-].
    exact (H pre lw [] eq_refl Hne).
  - change (pre ++ x :: post' ++ [z]) with (pre ++ (x :: post') ++ [z]) in E.
    rewrite app_assoc in E. apply app_inj_tail in E. destruct E as [-> _].
    apply (H pre x (post' ++ [lw])); [|exact Hne].
    rewrite <- app_assoc. reflexivity.
Qed.

Lemma adj_sepR_nows init lw : adj sepR (init ++ [lw]) -> adj sepR (init ++ [nows lw]).
Proof.
  induction init as [|x r IH]; intros H; [exact I|].
  destruct r as [|y r'].
  - cbn [app adj] in H |- *. destruct H as [[H1 H2] _]. split; [|exact I]. split; assumption.
  - cbn [app adj] in H |- *. destruct H as [H1 H2]. split; [exact H1|]. apply IH. exact H2.
Qed.

(* every group of the first pass passes the greedy test of one line *)
Lemma group_fits o first bws k g : EmptyIndents o ->
  nth_error (ff_groups cw o first bws) k = Some g -> fits1 (o_width o) g.
Proof.
  intros He Hg pre x post E Hne. subst g.
  pose proof (first_fit_greedy word word_frag bws (map Z.of_N (line_widths cw o first))) as HG.
  destruct (HG k pre x post Hg) as [H1 _]. specialize (H1 Hne).
  rewrite (nth_width_empty o first k He), run_width_cached in H1.
  unfold word_frag in H1. cbn [fw fpen] in H1. lia.
Qed.

Lemma group_sublist o first bws k g :
  nth_error (ff_groups cw o first bws) k = Some g -> exists A B, bws = A ++ g ++ B.
Proof.
  intros Hg. destruct (nth_error_split _ _ Hg) as [G1 [G2 [EG _]]].
  exists (concat G1), (concat G2).
  rewrite <- (first_fit_concat _ _ word_frag bws (map Z.of_N (line_widths cw o first))).
  fold (ff_groups cw o first bws). rewrite EG, concat_app. reflexivity.
Qed.

Lemma RefindCore_Refind o : EmptyIndents o -> RefindCore o -> Refind o.
Proof.
  intros He HC first p bws k g first' Hp Hne Hg Hb.
  destruct (group_sublist _ _ _ _ _ Hg) as [A [B E]].
  destruct (HC first p bws A g B first' Hp E (group_fits o first bws k g He Hg) Hb)
    as [fs [H1 [H2 [H3 [H4 _]]]]].
  exists fs. split; [exact H1|]. split; [exact H2|]. split; assumption.
Qed.

Lemma cached_nows init lw :
  cached (init ++ [nows lw]) + blen (w_ws lw) = cached (init ++ [lw]).
Proof.
  rewrite !cached_app, !cached_cons, cached_nil. cbn [nows w_width w_ws].
  change (blen []) with 0. lia.
Qed.

Section S1.
Variable o : options.
Hypothesis Ha : o_alg o = FirstFit.
Hypothesis He : EmptyIndents o.
Hypothesis Hsep : o_sep o = SepAscii.
Hypothesis Hspl : o_spl o = SplNone.
Hypothesis Hbw : o_bw o = false.

Lemma wordlike_widths ws : Forall (InplaceFacts.wordlike cw) ws ->
  Forall (fun w => w_width w = dw cw (w_word w)) ws.
Proof. apply Forall_impl. intros w [_ [_ [_ H]]]. exact H. Qed.

Lemma pwords_S1 first line : pwords o first line = Some (find_words_ascii cw line).
Proof.
  unfold pipeline_words. rewrite Hsep, Hspl, Hbw. cbn [find_words].
  change (split_points alnum custom_sp SplNone) with (fun _ : str => @nil N).
  rewrite split_words_nosplit; [reflexivity|].
  apply wordlike_widths. apply InplaceFacts.find_words_ascii_spec.
Qed.

(* S1, fragments: the words found in the body of a first-pass line are the words of
   the line, the last one without its trailing whitespace *)
Theorem refind_words_S1 first p bws A init lw B first' :
  pwords o first p = Some bws -> bws = A ++ (init ++ [lw]) ++ B ->
  body (init ++ [lw]) <> [] ->
  pwords o first' (body (init ++ [lw])) = Some (init ++ [nows lw]).
Proof.
  intros Hp E Hb. rewrite pwords_S1 in Hp. injection Hp as <-.
  destruct (InplaceFacts.find_words_ascii_spec cw p) as [Hwl [_ Hadj]].
  rewrite E in Hwl, Hadj.
  apply Forall_app in Hwl. destruct Hwl as [_ Hwl].
  apply Forall_app in Hwl. destruct Hwl as [Hwl _].
  apply adj_ok_adj in Hadj. apply adj_app_r, adj_app_l in Hadj.
  rewrite pwords_S1. f_equal.
  rewrite <- gtext_nows. apply find_words_canon.
  - apply Forall_app in Hwl. destruct Hwl as [Hi Hl]. apply Forall_app. split; [exact Hi|].
    inversion Hl as [|l0 r0 [H1 [H2 [H3 H4]]] _]; subst.
    constructor; [|constructor]. split; [exact H1|]. split; [constructor|]. split; assumption.
  - apply adj_sepR_nows. exact Hadj.
  - rewrite gtext_nows. exact Hb.
Qed.

Theorem refind_core_S1 : RefindCore o.
Proof.
  intros first p bws A g B first' Hp E Hfit Hb.
  destruct (nil_or_last _ g) as [->|[init [lw ->]]]; [exfalso; apply Hb; reflexivity|].
  exists (init ++ [nows lw]). split; [|split; [|split; [|split]]].
  - exact (refind_words_S1 first p bws A init lw B first' Hp E Hb).
  - intros E'. apply app_eq_nil in E'. destruct E' as [_ E']. discriminate.
  - apply fits1_nows. exact Hfit.
  - apply lastw_ws_nows.
  - rewrite lastw_ws_snoc. apply cached_nows.
Qed.

Theorem refind_S1 : Refind o.
Proof. apply RefindCore_Refind; [exact He|exact refind_core_S1]. Qed.

(* S1, one paragraph *)
Theorem wsl_line_S1 first p bws k g first' : SplitterOK custom_sp ->
  pwords o first p = Some bws -> bws <> [] ->
  nth_error (ff_groups cw o first bws) k = Some g -> body g <> [] ->
  wsl o first' (body g) = Some [mkLine (body g) (Borrowed 0)].
Proof.
  intros Hs. apply wsl_line_generic; try assumption.
  - rewrite Hspl. discriminate.
  - exact refind_S1.
Qed.

(* S1, text level (for a well-behaved custom-splitter argument, which is never called) *)
Theorem fill_idem_S1_ok t r : SplitterOK custom_sp -> fil o t = Some r -> fil o r = Some r.
Proof.
  intros Hs. apply fill_idem_generic; try assumption.
  - rewrite Hspl. discriminate.
  - exact refind_S1.
Qed.

End S1.

(* ================================================================== *)
(* I5: S2 -- break_words                                                *)
(* ================================================================== *)

Lemma wordlike_iff w : InplaceFacts.wordlike cw w <-> nospw w /\ PW cw w /\ w_pen w = [].
Proof.
  unfold InplaceFacts.wordlike, nospw, PW. split.
  - intros [H1 [H2 [H3 H4]]]. split; [exact H1|]. split; [|exact H3].
    split; [exact H2|]. split; [left; exact H3|exact H4].
  - intros [H1 [[H2 [_ H4]] H3]]. split; [exact H1|]. split; [exact H2|]. split; assumption.
Qed.

Lemma break_words_wordlike W sws : Forall (InplaceFacts.wordlike cw) sws ->
  Forall (InplaceFacts.wordlike cw) (break_words cw W sws).
Proof.
  intros H.
  assert (H1 : Forall nospw sws).
  { eapply Forall_impl; [|exact H]. intros w Hw. apply wordlike_iff in Hw. tauto. }
  assert (H2 : Forall (PW cw) sws).
  { eapply Forall_impl; [|exact H]. intros w Hw. apply wordlike_iff in Hw. tauto. }
  assert (H3 : Forall (fun w => w_pen w = []) sws).
  { eapply Forall_impl; [|exact H]. intros w Hw. apply wordlike_iff in Hw. tauto. }
  destruct (break_words_AW cw W sws H1) as [K1 _].
  destruct (break_words_spec cw W sws H2) as [_ K2].
  pose proof (break_words_pen_nil cw W sws H3) as K3.
  rewrite Forall_forall in K1, K2, K3. apply Forall_forall. intros w Hw.
  apply wordlike_iff. split; [exact (K1 w Hw)|]. split; [exact (K2 w Hw)|exact (K3 w Hw)].
Qed.

(* break_words leaves the fragment alone *)
Definition stable (W : N) (f : word) : Prop :=
  w_width f <= W \/ break_apart cw W f = [f].

Lemma break_words_cons W w r :
  break_words cw W (w :: r) =
  (if W <? w_width w then break_apart cw W w else [w]) ++ break_words cw W r.
Proof. reflexivity. Qed.

Lemma break_words_stable W : forall sws, Forall (stable W) (break_words cw W sws).
Proof.
  induction sws as [|w r IH]; [constructor|].
  rewrite break_words_cons. apply Forall_app. split; [|exact IH].
  destruct (N.ltb_spec W (w_width w)) as [Hlt|Hge].
  - apply Forall_forall. intros p Hp. right. exact (break_apart_idem cw W w p Hp).
  - constructor; [|constructor]. left. exact Hge.
Qed.

Lemma break_words_fix W : forall fs, Forall (stable W) fs -> break_words cw W fs = fs.
Proof.
  induction fs as [|f r IH]; intros H; [reflexivity|].
  inversion H as [|f0 r0 Hf Hr]; subst.
  rewrite break_words_cons, (IH Hr).
  destruct (N.ltb_spec W (w_width f)) as [Hlt|Hge]; [|reflexivity].
  destruct Hf as [Hf|Hf]; [lia|]. rewrite Hf. reflexivity.
Qed.

Lemma break_apart_single_nows W f :
  break_apart cw W f = [f] -> break_apart cw W (nows f) = [nows f].
Proof.
  unfold break_apart. cbn [nows w_word w_ws w_pen].
  destruct (ba_loop cw W Normal (w_word f) [] 0) as [|[p wd] [|q r]].
  - discriminate.
  - cbn [ba_finish]. intros H. injection H as H.
    pose proof (f_equal w_word H) as H1. pose proof (f_equal w_width H) as H2.
    cbn [w_word w_width] in H1, H2. unfold nows. rewrite <- H1, <- H2. reflexivity.
  - rewrite ba_finish_cons2. intros H. apply (f_equal (@tl word)) in H. cbn [tl] in H.
    apply ba_finish_nil_iff in H. discriminate.
Qed.

Lemma stable_nows W f : stable W f -> stable W (nows f).
Proof.
  intros [H|H]; [left; exact H|right]. apply break_apart_single_nows. exact H.
Qed.

(* consecutive fragments: whitespace between them, or two pieces of one broken word *)
Definition R2 (W : N) (x y : word) : Prop :=
  w_word y <> [] /\ (w_ws x <> [] \/ W < w_width x + w_width y).

Lemma adj_intro {A} (R : A -> A -> Prop) : forall l,
  (forall l1 a b l2, l = l1 ++ a :: b :: l2 -> R a b) -> adj R l.
Proof.
  induction l as [|x r IH]; intros H; [exact I|].
  destruct r as [|y r']; [exact I|]. split.
  - exact (H [] x y r' eq_refl).
  - apply IH. intros l1 a b l2 E. apply (H (x :: l1) a b l2). rewrite E. reflexivity.
Qed.

Lemma adj_app_intro {A} (R : A -> A -> Prop) : forall a b,
  adj R a -> adj R b ->
  (forall a' x y b', a = a' ++ [x] -> b = y :: b' -> R x y) ->
  adj R (a ++ b).
Proof.
  induction a as [|x r IH]; intros b Ha Hb Hj; [exact Hb|].
  destruct r as [|x' r'].
  - cbn [app]. destruct b as [|y b']; [exact I|]. split; [|exact Hb].
    exact (Hj [] x y b' eq_refl eq_refl).
  - cbn [app] in *. destruct Ha as [H1 H2]. split; [exact H1|].
    apply IH; [exact H2|exact Hb|].
    intros a' u v b' E1 E2. apply (Hj (x :: a') u v b'); [|exact E2].
    rewrite E1. reflexivity.
Qed.

Lemma dw_cons_vis c r : c <> ESC -> dw cw (c :: r) = cw c + dw cw r.
Proof.
  intros Hc. unfold dw. cbn [dw_from]. rewrite (step_normal_vis c Hc). reflexivity.
Qed.

Lemma break_apart_adj W w : adj (R2 W) (break_apart cw W w).
Proof.
  apply adj_intro. intros l1 a b l2 E.
  destruct (break_apart_maximal cw W w l1 a b l2 E) as [_ [c [r [Eb [Hc [_ Hlt]]]]]].
  split; [rewrite Eb; discriminate|]. right.
  pose proof (break_apart_width cw W w) as HW. rewrite Forall_forall in HW.
  assert (Hin : In b (break_apart cw W w)).
  { rewrite E. apply in_or_app. right. right. left. reflexivity. }
  rewrite (HW b Hin), Eb, (dw_cons_vis c r Hc). lia.
Qed.

Lemma break_words_hd W w r : w_word w <> [] ->
  exists y rest, break_words cw W (w :: r) = y :: rest /\ w_word y <> [].
Proof.
  intros Hne. rewrite break_words_cons. destruct (W <? w_width w).
  - destruct (break_apart cw W w) as [|y ys] eqn:E.
    + apply break_apart_nil_iff in E. contradiction.
    + exists y, (ys ++ break_words cw W r). split; [reflexivity|].
      pose proof (break_apart_nonempty cw W w) as HN. rewrite E in HN.
      inversion HN; assumption.
  - exists w, (break_words cw W r). split; [reflexivity|exact Hne].
Qed.

Lemma break_words_adj W : forall ws, adj sepR ws -> adj (R2 W) (break_words cw W ws).
Proof.
  induction ws as [|w r IH]; intros Hadj; [exact I|].
  rewrite break_words_cons.
  assert (Hr : adj sepR r).
  { destruct r as [|w2 r']; [exact I|]. destruct Hadj as [_ H]. exact H. }
  apply adj_app_intro.
  - destruct (W <? w_width w); [apply break_apart_adj|exact I].
  - exact (IH Hr).
  - intros a' x y b' E1 E2.
    destruct r as [|w2 r']; [discriminate|].
    destruct Hadj as [[Hws Hw2] _].
    destruct (break_words_hd W w2 r' Hw2) as [y' [rest [E3 Hy']]].
    rewrite E3 in E2. injection E2 as <- _.
    split; [exact Hy'|]. left.
    destruct (W <? w_width w).
    + destruct (break_apart_ws_pen cw W w a' x E1) as [_ [Hx _]]. rewrite Hx. exact Hws.
    + destruct a' as [|z a'']; [|destruct a''; discriminate].
      injection E1 as <-. exact Hws.
Qed.

(* on one first-fit line the second alternative is impossible *)
Lemma group_sepR W g : adj (R2 W) g -> fits1 W g -> adj sepR g.
Proof.
  intros Hadj Hfit. apply adj_intro. intros l1 a b l2 E.
  destruct (adj_spec (R2 W) l1 g a b l2 Hadj E) as [Hb [Hws|Hlt]].
  - split; assumption.
  - exfalso.
    assert (Hf : cached (l1 ++ [a]) + w_width b + blen (w_pen b) <= W).
    { apply (Hfit (l1 ++ [a]) b l2).
      - rewrite E, <- app_assoc. reflexivity.
      - intros E'. apply app_eq_nil in E'. destruct E' as [_ E']. discriminate. }
    pose proof (cached_ge_last l1 a). lia.
Qed.

Section S2.
Variable o : options.
Hypothesis Ha : o_alg o = FirstFit.
Hypothesis He : EmptyIndents o.
Hypothesis Hsep : o_sep o = SepAscii.
Hypothesis Hspl : o_spl o = SplNone.
Hypothesis Hbw : o_bw o = true.

Lemma sub_width_empty : o_width o - dw cw (o_si o) = o_width o.
Proof. destruct He as [_ H]. rewrite H. change (dw cw []) with 0. apply N.sub_0_r. Qed.

Lemma pwords_S2 first line :
  pwords o first line = Some (break_words cw (o_width o) (find_words_ascii cw line)).
Proof.
  unfold pipeline_words. rewrite Hsep, Hspl, Hbw. cbn [find_words].
  change (split_points alnum custom_sp SplNone) with (fun _ : str => @nil N).
  rewrite split_words_nosplit.
  2:{ apply wordlike_widths. apply InplaceFacts.find_words_ascii_spec. }
  rewrite sub_width_empty.
  assert (Ei : (if first then o_ii o else o_si o) = []).
  { destruct He as [H1 H2]. destruct first; assumption. }
  rewrite Ei. reflexivity.
Qed.

(* S2, fragments: the body of a first-pass line is split into the same fragments *)
Theorem refind_words_S2 first p bws A init lw B first' :
  pwords o first p = Some bws -> bws = A ++ (init ++ [lw]) ++ B ->
  fits1 (o_width o) (init ++ [lw]) ->
  body (init ++ [lw]) <> [] ->
  pwords o first' (body (init ++ [lw])) = Some (init ++ [nows lw]).
Proof.
  intros Hp E Hfit Hb. rewrite pwords_S2 in Hp. injection Hp as <-.
  set (W := o_width o) in *. set (ws := find_words_ascii cw p) in *.
  destruct (InplaceFacts.find_words_ascii_spec cw p) as [Hwl0 [_ Hadj0]].
  fold ws in Hwl0, Hadj0.
  pose proof (break_words_wordlike W ws Hwl0) as Hwl.
  pose proof (break_words_stable W ws) as Hst.
  pose proof (break_words_adj W ws (adj_ok_adj ws Hadj0)) as Hadj.
  rewrite E in Hwl, Hst, Hadj.
  apply Forall_app in Hwl. destruct Hwl as [_ Hwl].
  apply Forall_app in Hwl. destruct Hwl as [Hwl _].
  apply Forall_app in Hst. destruct Hst as [_ Hst].
  apply Forall_app in Hst. destruct Hst as [Hst _].
  apply adj_app_r, adj_app_l in Hadj.
  pose proof (group_sepR W _ Hadj Hfit) as Hsep'.
  rewrite pwords_S2. f_equal. fold W.
  rewrite <- gtext_nows. rewrite find_words_canon.
  - apply break_words_fix.
    apply Forall_app in Hst. destruct Hst as [Hi Hl]. apply Forall_app. split; [exact Hi|].
    inversion Hl as [|l0 r0 Hl0 _]; subst. constructor; [|constructor].
    apply stable_nows. exact Hl0.
  - apply Forall_app in Hwl. destruct Hwl as [Hi Hl]. apply Forall_app. split; [exact Hi|].
    inversion Hl as [|l0 r0 [H1 [H2 [H3 H4]]] _]; subst.
    constructor; [|constructor]. split; [exact H1|]. split; [constructor|]. split; assumption.
  - apply adj_sepR_nows. exact Hsep'.
  - rewrite gtext_nows. exact Hb.
Qed.

Theorem refind_core_S2 : RefindCore o.
Proof.
  intros first p bws A g B first' Hp E Hfit Hb.
  destruct (nil_or_last _ g) as [->|[init [lw ->]]]; [exfalso; apply Hb; reflexivity|].
  exists (init ++ [nows lw]). split; [|split; [|split; [|split]]].
  - exact (refind_words_S2 first p bws A init lw B first' Hp E Hfit Hb).
  - intros E'. apply app_eq_nil in E'. destruct E' as [_ E']. discriminate.
  - apply fits1_nows. exact Hfit.
  - apply lastw_ws_nows.
  - rewrite lastw_ws_snoc. apply cached_nows.
Qed.

Theorem refind_S2 : Refind o.
Proof. apply RefindCore_Refind; [exact He|exact refind_core_S2]. Qed.

(* S2, one paragraph *)
Theorem wsl_line_S2 first p bws k g first' : SplitterOK custom_sp ->
  pwords o first p = Some bws -> bws <> [] ->
  nth_error (ff_groups cw o first bws) k = Some g -> body g <> [] ->
  wsl o first' (body g) = Some [mkLine (body g) (Borrowed 0)].
Proof.
  intros Hs. apply wsl_line_generic; try assumption.
  - rewrite Hspl. discriminate.
  - exact refind_S2.
Qed.

Theorem fill_idem_S2_ok t r : SplitterOK custom_sp -> fil o t = Some r -> fil o r = Some r.
Proof.
  intros Hs. apply fill_idem_generic; try assumption.
  - rewrite Hspl. discriminate.
  - exact refind_S2.
Qed.

End S2.

(* ================================================================== *)
(* I6: hyphen_points is local                                           *)
(* ================================================================== *)

(* the character before the position after [a] (in a word whose text before [a]
   ends in [prev]) *)
Fixpoint lastc (prev : option char) (a : str) : option char :=
  match a with [] => prev | c :: r => lastc (Some c) r end.

(* is the end of [a] a hyphen split point, [nx] being the character after it *)
Fixpoint jn (prev : option char) (a : str) (nx : option char) : bool :=
  match a with
  | [] => false
  | c :: r => match r with
              | [] => (c =? HY) && opt_alnum alnum prev && opt_alnum alnum nx
              | _ :: _ => jn (Some c) r nx
              end
  end.

Lemma lastc_app a : forall prev b, lastc prev (a ++ b) = lastc (lastc prev a) b.
Proof. induction a as [|c r IH]; intros prev b; [reflexivity|]. cbn [app lastc]. apply IH. Qed.

Lemma lastc_nonnil a : a <> [] -> forall p q, lastc p a = lastc q a.
Proof. destruct a as [|c r]; [congruence|]. intros _ p q. reflexivity. Qed.

Lemma jn_app a : forall prev b nx, b <> [] -> jn prev (a ++ b) nx = jn (lastc prev a) b nx.
Proof.
  induction a as [|c r IH]; intros prev b nx Hb; [reflexivity|].
  cbn [app jn lastc]. destruct (r ++ b) as [|d rb] eqn:E.
  - apply app_eq_nil in E. destruct E as [_ E]. congruence.
  - rewrite <- E. apply IH. exact Hb.
Qed.

Lemma jn_ends prev a nx : jn prev a nx = true -> exists a', a = a' ++ [HY].
Proof.
  revert prev. induction a as [|c r IH]; intros prev H; [discriminate|].
  cbn [jn] in H. destruct r as [|d r'].
  - apply andb_true_iff in H. destruct H as [H _]. apply andb_true_iff in H. destruct H as [H _].
    apply N.eqb_eq in H. subst c. exists []. reflexivity.
  - destruct (IH _ H) as [a' E]. exists (c :: a'). rewrite E. reflexivity.
Qed.

(* the start of the word is the only thing the second pass may see differently *)
Lemma jn_None prev a nx : jn prev a nx = true -> jn None a nx = true \/ a = [HY].
Proof.
  destruct a as [|c r]; [discriminate|]. cbn [jn]. destruct r as [|d r'].
  - intros H. right. apply andb_true_iff in H. destruct H as [H _].
    apply andb_true_iff in H. destruct H as [H _]. apply N.eqb_eq in H. subst c. reflexivity.
  - intros H. left. exact H.
Qed.

Lemma utf8_len_HY : utf8_len HY = 1.
Proof. reflexivity. Qed.

Lemma hp_loop_app a : forall off prev b,
  hp_loop alnum (a ++ b) off prev =
  hp_loop alnum a off prev ++ (if jn prev a (hd_error b) then [off + blen a] else [])
  ++ hp_loop alnum b (off + blen a) (lastc prev a).
Proof.
  induction a as [|c r IH]; intros off prev b.
  - cbn [app hp_loop jn blen lastc]. rewrite N.add_0_r. reflexivity.
  - cbn [app hp_loop jn blen lastc]. rewrite IH. destruct r as [|d r'].
    + cbn [app hd_error hp_loop jn blen lastc]. rewrite !N.add_0_r, andb_false_r. cbn [app].
      destruct (N.eqb_spec c HY) as [->|Hc].
      * rewrite utf8_len_HY. cbn [andb].
        destruct (opt_alnum alnum prev && opt_alnum alnum (hd_error b)); reflexivity.
      * reflexivity.
    + cbn [app hd_error].
      rewrite !N.add_assoc.
      destruct ((c =? HY) && opt_alnum alnum prev && opt_alnum alnum (Some d)); reflexivity.
Qed.

Lemma hp_loop_bounds t : forall off prev o,
  In o (hp_loop alnum t off prev) -> off < o /\ o < off + blen t.
Proof.
  induction t as [|c r IH]; intros off prev o Hin; [contradiction|].
  cbn [hp_loop] in Hin. cbn [blen].
  assert (Hrest : In o (hp_loop alnum r (off + utf8_len c) (Some c)) -> off < o /\ o < off + (utf8_len c + blen r)).
  { intros H. destruct (IH _ _ _ H) as [H1 H2]. pose proof (utf8_len_ge1 c). lia. }
  destruct ((c =? HY) && opt_alnum alnum prev && opt_alnum alnum (hd_error r)) eqn:E.
  - destruct Hin as [<-|Hin]; [|exact (Hrest Hin)].
    apply andb_true_iff in E. destruct E as [E E3]. apply andb_true_iff in E. destruct E as [E1 _].
    apply N.eqb_eq in E1. subst c. rewrite utf8_len_HY.
    destruct r as [|d r']; [discriminate|]. cbn [blen]. pose proof (utf8_len_ge1 d). lia.
  - exact (Hrest Hin).
Qed.

Lemma hp_loop_nil_off t : forall off off' prev,
  hp_loop alnum t off prev = [] -> hp_loop alnum t off' prev = [].
Proof.
  induction t as [|c r IH]; intros off off' prev H; [reflexivity|].
  cbn [hp_loop] in *.
  destruct ((c =? HY) && opt_alnum alnum prev && opt_alnum alnum (hd_error r)); [discriminate|].
  exact (IH _ _ _ H).
Qed.

Lemma hp_loop_nil_None t off prev : hp_loop alnum t off prev = [] -> hp_loop alnum t off None = [].
Proof.
  destruct t as [|c r]; [reflexivity|]. cbn [hp_loop].
  destruct ((c =? HY) && opt_alnum alnum prev && opt_alnum alnum (hd_error r)); [discriminate|].
  intros H. cbn [opt_alnum]. rewrite andb_false_r. cbn [andb]. exact H.
Qed.

(* [ys] are the pieces of a word cut at exactly its hyphen points *)
Fixpoint HySeq (prev : option char) (ys : list str) : Prop :=
  match ys with
  | [] => True
  | y :: r => hp_loop alnum y 0 prev = [] /\
              (r <> [] -> jn prev y (hd_error (concat r)) = true) /\
              HySeq (lastc prev y) r
  end.

Lemma cum_ge acc l o : In o (cum acc l) -> acc <= o.
Proof.
  revert acc. induction l as [|x r IH]; intros acc H; [contradiction|].
  cbn [cum] in H. destruct H as [<-|H]; [lia|]. specialize (IH _ H). lia.
Qed.

Lemma HySeq_intro : forall ys prev off, Forall (fun y => y <> []) ys ->
  hp_loop alnum (concat ys) off prev = cum off (removelast ys) -> HySeq prev ys.
Proof.
  induction ys as [|y r IH]; intros prev off Hne H; [exact I|].
  inversion Hne as [|y0 r0 Hy Hr]; subst.
  destruct r as [|y' r'].
  - cbn [concat removelast cum] in H. rewrite app_nil_r in H. cbn [HySeq].
    split; [exact (hp_loop_nil_off _ _ 0 _ H)|]. split; [intros Hc; exfalso; apply Hc; reflexivity|exact I].
  - change (concat (y :: y' :: r')) with (y ++ concat (y' :: r')) in H.
    change (removelast (y :: y' :: r')) with (y :: removelast (y' :: r')) in H.
    cbn [cum] in H. rewrite hp_loop_app in H.
    destruct (hp_loop alnum y off prev) as [|o os] eqn:E1.
    2:{ exfalso. cbn [app] in H. injection H as H _.
        destruct (hp_loop_bounds y off prev o) as [_ Hb]; [rewrite E1; left; reflexivity|]. lia. }
    cbn [app] in H.
    destruct (jn prev y (hd_error (concat (y' :: r')))) eqn:E2.
    2:{ exfalso. cbn [app] in H.
        destruct (hp_loop_bounds (concat (y' :: r')) (off + blen y) (lastc prev y) (off + blen y))
          as [Hb _]; [rewrite H; left; reflexivity|]. lia. }
    cbn [app] in H. injection H as H.
    cbn [HySeq]. split; [exact (hp_loop_nil_off _ _ 0 _ E1)|]. split; [intros _; exact E2|].
    exact (IH _ _ Hr H).
Qed.

Lemma HySeq_elim : forall ys prev off,
  HySeq prev ys -> hp_loop alnum (concat ys) off prev = cum off (removelast ys).
Proof.
  induction ys as [|y r IH]; intros prev off H; [reflexivity|].
  destruct H as [H1 [H2 H3]]. destruct r as [|y' r'].
  - cbn [concat removelast cum]. rewrite app_nil_r. exact (hp_loop_nil_off _ _ off _ H1).
  - change (concat (y :: y' :: r')) with (y ++ concat (y' :: r')).
    change (removelast (y :: y' :: r')) with (y :: removelast (y' :: r')).
    cbn [cum]. rewrite hp_loop_app, (hp_loop_nil_off _ _ off _ H1), H2 by discriminate.
    cbn [app]. rewrite (IH _ _ H3). reflexivity.
Qed.

(* ================================================================== *)
(* I7: the fragments of a paragraph, with the hyphen context            *)
(* ================================================================== *)

(* the character before the next fragment, if it belongs to the same word *)
Definition nextprev (prev : option char) (f : word) : option char :=
  match w_ws f with [] => lastc prev (w_word f) | _ :: _ => None end.

Fixpoint runprev (prev : option char) (fs : list word) : option char :=
  match fs with [] => prev | f :: r => runprev (nextprev prev f) r end.

(* consecutive fragments: whitespace between them, two pieces of one broken piece, or
   a hyphen split point *)
Definition R3 (W : N) (prev : option char) (x y : word) : Prop :=
  w_word y <> [] /\
  (w_ws x <> [] \/ W < w_width x + w_width y \/
   (w_ws x = [] /\ jn prev (w_word x) (hd_error (w_word y)) = true)).

Fixpoint FragSeq (W : N) (prev : option char) (fs : list word) : Prop :=
  match fs with
  | [] => True
  | f :: r => hp_loop alnum (w_word f) 0 prev = [] /\
              match r with [] => True | f' :: _ => R3 W prev f f' end /\
              FragSeq W (nextprev prev f) r
  end.

Lemma runprev_app a : forall prev b, runprev prev (a ++ b) = runprev (runprev prev a) b.
Proof. induction a as [|f r IH]; intros prev b; [reflexivity|]. cbn [app runprev]. apply IH. Qed.

Lemma FragSeq_app_l W a : forall prev b, FragSeq W prev (a ++ b) -> FragSeq W prev a.
Proof.
  induction a as [|f r IH]; intros prev b H; [exact I|].
  cbn [app FragSeq] in H |- *. destruct H as [H1 [H2 H3]].
  split; [exact H1|]. split; [|exact (IH _ _ H3)].
  destruct r as [|f' r']; [exact I|exact H2].
Qed.

Lemma FragSeq_app_r W a : forall prev b, FragSeq W prev (a ++ b) -> FragSeq W (runprev prev a) b.
Proof.
  induction a as [|f r IH]; intros prev b H; [exact H|].
  cbn [app FragSeq] in H. destruct H as [_ [_ H3]]. cbn [runprev]. exact (IH _ _ H3).
Qed.

Lemma FragSeq_app_intro W a : forall prev b,
  FragSeq W prev a -> FragSeq W (runprev prev a) b ->
  (forall a' x y b', a = a' ++ [x] -> b = y :: b' -> R3 W (runprev prev a') x y) ->
  FragSeq W prev (a ++ b).
Proof.
  induction a as [|f r IH]; intros prev b Ha Hb Hj; [exact Hb|].
  cbn [FragSeq] in Ha. destruct Ha as [H1 [H2 H3]]. cbn [app FragSeq].
  split; [exact H1|]. split.
  - destruct r as [|f' r'].
    + cbn [app]. destruct b as [|y b']; [exact I|]. exact (Hj [] f y b' eq_refl eq_refl).
    + exact H2.
  - apply IH; [exact H3|exact Hb|].
    intros a' x y b' E1 E2. apply (Hj (f :: a') x y b'); [|exact E2]. rewrite E1. reflexivity.
Qed.

(* R3 at the pair (a, b) inside a FragSeq *)
Lemma FragSeq_pair W l1 : forall prev a b l2,
  FragSeq W prev (l1 ++ a :: b :: l2) -> R3 W (runprev prev l1) a b.
Proof.
  induction l1 as [|f r IH]; intros prev a b l2 H.
  - cbn [app FragSeq] in H. destruct H as [_ [H _]]. exact H.
  - cbn [app FragSeq] in H. destruct H as [_ [_ H]]. cbn [runprev]. exact (IH _ _ _ _ H).
Qed.

Lemma hp_loop_app_nil a b off prev : hp_loop alnum (a ++ b) off prev = [] ->
  hp_loop alnum a 0 prev = [] /\ hp_loop alnum b 0 (lastc prev a) = [].
Proof.
  rewrite hp_loop_app. intros H. apply app_eq_nil in H. destruct H as [H1 H2].
  apply app_eq_nil in H2. destruct H2 as [_ H2].
  split; [exact (hp_loop_nil_off _ _ 0 _ H1)|exact (hp_loop_nil_off _ _ 0 _ H2)].
Qed.

(* the pieces of one broken piece *)
Lemma FS_pieces W : forall ps prev,
  allbutlast (fun p => w_ws p = []) ps -> adj (R2 W) ps ->
  hp_loop alnum (concat (map w_word ps)) 0 prev = [] -> FragSeq W prev ps.
Proof.
  induction ps as [|p r IH]; intros prev Hab Hadj H; [exact I|].
  cbn [map concat] in H. destruct (hp_loop_app_nil _ _ _ _ H) as [H1 H2].
  cbn [FragSeq]. split; [exact H1|]. destruct r as [|q r'].
  - split; exact I.
  - cbn [allbutlast] in Hab. destruct Hab as [Hp Hab].
    cbn [adj] in Hadj. destruct Hadj as [[Hq Hr] Hadj].
    split.
    + split; [exact Hq|]. destruct Hr as [Hr|Hr]; [left; exact Hr|right; left; exact Hr].
    + unfold nextprev. rewrite Hp. apply IH; assumption.
Qed.

Lemma runprev_pieces : forall ps prev, allbutlast (fun p => w_ws p = []) ps ->
  runprev prev (removelast ps) = lastc prev (concat (map w_word (removelast ps))).
Proof.
  induction ps as [|p r IH]; intros prev Hab; [reflexivity|].
  destruct r as [|q r']; [reflexivity|].
  cbn [allbutlast] in Hab. destruct Hab as [Hp Hab].
  change (removelast (p :: q :: r')) with (p :: removelast (q :: r')).
  cbn [runprev map concat]. rewrite lastc_app. unfold nextprev at 1. rewrite Hp.
  apply IH. exact Hab.
Qed.

(* break_words on one piece, or not at all *)
Definition brkb (b : bool) (W : N) (S : word) : list word :=
  if b && (W <? w_width S) then break_apart cw W S else [S].

Lemma brkb_facts b W S : w_word S <> [] ->
  exists init l, brkb b W S = init ++ [l] /\
    concat (map w_word (init ++ [l])) = w_word S /\
    allbutlast (fun p => w_ws p = []) (init ++ [l]) /\ w_ws l = w_ws S /\
    adj (R2 W) (init ++ [l]) /\ Forall (fun p => w_word p <> []) (init ++ [l]).
Proof.
  intros Hne. unfold brkb. destruct (b && (W <? w_width S)).
  - destruct (break_apart_cases cw W S) as [[_ E]|[init [l [E [Hi [Hl _]]]]]]; [contradiction|].
    exists init, l. split; [exact E|]. rewrite <- E.
    split; [apply break_apart_concat|]. split.
    + rewrite E. clear -Hi. induction init as [|x r IH]; [exact I|].
      inversion Hi as [|x0 r0 [Hx _] Hr]; subst. cbn [app].
      apply allbutlast_cons; [destruct r; discriminate|exact Hx|exact (IH Hr)].
    + split; [exact Hl|]. split; [apply break_apart_adj|apply break_apart_nonempty].
  - exists [], S. cbn [app map concat]. rewrite app_nil_r.
    split; [reflexivity|]. split; [reflexivity|]. split; [exact I|]. split; [reflexivity|].
    split; [exact I|]. constructor; [exact Hne|constructor].
Qed.

Lemma FS_brk b W S prev : w_word S <> [] -> hp_loop alnum (w_word S) 0 prev = [] ->
  FragSeq W prev (brkb b W S).
Proof.
  intros Hne H. destruct (brkb_facts b W S Hne) as [init [l [E [Hc [Hab [_ [Hadj _]]]]]]].
  rewrite E. apply FS_pieces; [exact Hab|exact Hadj|]. rewrite Hc. exact H.
Qed.

Lemma runprev_snoc prev a x : runprev prev (a ++ [x]) = nextprev (runprev prev a) x.
Proof. rewrite runprev_app. reflexivity. Qed.

Lemma runprev_init init l prev : allbutlast (fun p => w_ws p = []) (init ++ [l]) ->
  runprev prev init = lastc prev (concat (map w_word init)).
Proof.
  intros Hab. pose proof (runprev_pieces (init ++ [l]) prev Hab) as H.
  rewrite removelast_last in H. exact H.
Qed.

Lemma runprev_brk b W S prev : w_word S <> [] -> runprev prev (brkb b W S) = nextprev prev S.
Proof.
  intros Hne. destruct (brkb_facts b W S Hne) as [init [l [E [Hc [Hab [Hl _]]]]]].
  rewrite E, runprev_snoc, (runprev_init init l prev Hab).
  unfold nextprev. rewrite Hl. destruct (w_ws S); [|reflexivity].
  rewrite <- lastc_app. rewrite map_app, concat_app in Hc. cbn [map concat] in Hc.
  rewrite app_nil_r in Hc. rewrite Hc. reflexivity.
Qed.

Lemma brkb_last_R3 b W S prev a' x y : w_word S <> [] ->
  brkb b W S = a' ++ [x] -> w_word y <> [] ->
  (w_ws S <> [] \/ jn prev (w_word S) (hd_error (w_word y)) = true) ->
  R3 W (runprev prev a') x y.
Proof.
  intros Hne E Hy Hj. destruct (brkb_facts b W S Hne) as [init [l [E' [Hc [Hab [Hl [_ Hnn]]]]]]].
  rewrite E in E'. apply app_inj_tail in E'. destruct E' as [-> ->].
  split; [exact Hy|]. destruct (w_ws S) as [|s0 sr] eqn:Ews.
  - right. right. split; [exact Hl|].
    destruct Hj as [Hj|Hj]; [congruence|].
    rewrite (runprev_init init l prev Hab).
    rewrite map_app, concat_app in Hc. cbn [map concat] in Hc. rewrite app_nil_r in Hc.
    rewrite <- jn_app.
    + rewrite Hc. exact Hj.
    + apply Forall_app in Hnn. destruct Hnn as [_ Hnn]. inversion Hnn; assumption.
  - left. rewrite Hl. discriminate.
Qed.

Lemma brkb_hd b W S : w_word S <> [] ->
  exists y rest, brkb b W S = y :: rest /\ w_word y <> [] /\
                 hd_error (w_word y) = hd_error (w_word S).
Proof.
  intros Hne. destruct (brkb_facts b W S Hne) as [init [l [E [Hc [_ [_ [_ Hnn]]]]]]].
  rewrite E. rewrite <- Hc. destruct init as [|y r]; cbn [app].
  - exists l, []. split; [reflexivity|]. inversion Hnn as [|l0 r0 Hl _]; subst.
    split; [exact Hl|]. cbn [map concat]. rewrite app_nil_r. reflexivity.
  - exists y, (r ++ [l]). split; [reflexivity|]. inversion Hnn as [|y0 r0 Hy _]; subst.
    split; [exact Hy|]. cbn [map concat]. destruct (w_word y); [congruence|reflexivity].
Qed.

Lemma brkb_last_ws b W S a' x : w_word S <> [] -> brkb b W S = a' ++ [x] -> w_ws x = w_ws S.
Proof.
  intros Hne E. destruct (brkb_facts b W S Hne) as [init [l [E' [_ [_ [Hl _]]]]]].
  rewrite E in E'. apply app_inj_tail in E'. destruct E' as [_ ->]. exact Hl.
Qed.

(* the fragments of one word, from its hyphen pieces *)
Lemma FS_word b W : forall ps prev,
  Forall (fun p => w_word p <> []) ps -> allbutlast (fun p => w_ws p = []) ps ->
  HySeq prev (map w_word ps) -> FragSeq W prev (flat_map (brkb b W) ps).
Proof.
  induction ps as [|S r IH]; intros prev Hne Hab Hhy; [exact I|].
  inversion Hne as [|S0 r0 HS Hr]; subst.
  cbn [map HySeq] in Hhy. destruct Hhy as [H1 [H2 H3]].
  cbn [flat_map]. apply FragSeq_app_intro.
  - apply FS_brk; assumption.
  - rewrite runprev_brk by exact HS. destruct r as [|S' r']; [exact I|].
    cbn [allbutlast] in Hab. destruct Hab as [Hws Hab].
    unfold nextprev. rewrite Hws. apply IH; assumption.
  - intros a' x y b' E1 E2. destruct r as [|S' r']; [discriminate|].
    inversion Hr as [|S1 r1 HS' _]; subst.
    destruct (brkb_hd b W S' HS') as [y0 [rest0 [E3 [Hy0 Hhd]]]].
    cbn [flat_map] in E2. rewrite E3 in E2. injection E2 as <- _.
    apply (brkb_last_R3 b W S prev a' x y0 HS E1 Hy0). right.
    rewrite Hhd. specialize (H2 ltac:(discriminate)).
    cbn [map concat] in H2. destruct (w_word S') as [|c t]; [congruence|]. exact H2.
Qed.

Lemma cum_removelast : forall l acc, cum acc (removelast l) = removelast (cum acc l).
Proof.
  induction l as [|x r IH]; intros acc; [reflexivity|].
  destruct r as [|y r']; [reflexivity|].
  change (removelast (x :: y :: r')) with (x :: removelast (y :: r')).
  cbn [cum]. rewrite (IH (acc + blen x)). reflexivity.
Qed.

Lemma allbutlast_intro {A} (P : A -> Prop) : forall l,
  (forall l1 p l2, l = l1 ++ p :: l2 -> l2 <> [] -> P p) -> allbutlast P l.
Proof.
  induction l as [|x r IH]; intros H; [exact I|].
  destruct r as [|y r']; [exact I|]. split.
  - apply (H [] x (y :: r') eq_refl). discriminate.
  - apply IH. intros l1 p l2 E Hne. apply (H (x :: l1) p l2); [|exact Hne].
    rewrite E. reflexivity.
Qed.

(* the fragments of one word *)
Lemma word_frags b W w : InplaceFacts.wordlike cw w ->
  exists ps, sw_loop cw w (hyphen_points alnum (w_word w)) 0 = Some ps /\
    FragSeq W None (flat_map (brkb b W) ps) /\
    (exists X l, flat_map (brkb b W) ps = X ++ [l] /\ w_ws l = w_ws w) /\
    (w_word w <> [] -> exists y rest, flat_map (brkb b W) ps = y :: rest /\ w_word y <> []).
Proof.
  intros [Hn [Hs [Hp Hw]]].
  destruct (w_word w) as [|c0 t0] eqn:Et.
  - exists [w]. split.
    + change (hyphen_points alnum []) with (@nil N).
      apply sw_loop_nil_id. rewrite Et. exact Hw.
    + assert (Eb : brkb b W w = [w]).
      { unfold brkb. rewrite Hw. change (dw cw []) with 0.
        destruct (N.ltb_spec W 0) as [H|H]; [lia|]. rewrite andb_false_r. reflexivity. }
      cbn [flat_map]. rewrite Eb. cbn [app]. split.
      * cbn [FragSeq]. rewrite Et. split; [reflexivity|]. split; exact I.
      * split; [exists [], w; split; reflexivity|]. intros H. congruence.
  - rewrite <- Et in *. assert (Hne : w_word w <> []) by (rewrite Et; discriminate).
    clear Et c0 t0.
    destruct (sw_loop_valid cw w _ (hyphen_points_valid alnum (w_word w)))
      as [ps [E [Hc [Hcum [Hlen [Hnn [Hmid [Hlast _]]]]]]]].
    specialize (Hnn Hne). exists ps. split; [exact E|].
    assert (Hab : allbutlast (fun p => w_ws p = []) ps).
    { apply allbutlast_intro. intros l1 p l2 E1 Hl2. exact (proj1 (Hmid l1 p l2 E1 Hl2)). }
    assert (Hhy : HySeq None (map w_word ps)).
    { apply (HySeq_intro _ None 0).
      - apply Forall_forall. intros y Hy. apply in_map_iff in Hy. destruct Hy as [p [<- Hp']].
        rewrite Forall_forall in Hnn. exact (Hnn p Hp').
      - rewrite Hc, cum_removelast, Hcum, removelast_last. reflexivity. }
    split; [exact (FS_word b W ps None Hnn Hab Hhy)|].
    destruct ps as [|p0 pr] eqn:Eps; [discriminate|]. rewrite <- Eps in *.
    assert (Hpn : ps <> []) by (rewrite Eps; discriminate).
    split.
    + destruct (exists_last Hpn) as [init [l El]].
      assert (Hl : w_word l <> []).
      { rewrite Forall_forall in Hnn. apply Hnn. rewrite El. apply in_or_app. right. left. reflexivity. }
      destruct (brkb_facts b W l Hl) as [i [l' [E' [_ [_ [Hl' _]]]]]].
      exists (flat_map (brkb b W) init ++ i), l'. split.
      * rewrite El, flat_map_app. cbn [flat_map]. rewrite app_nil_r, E', app_assoc. reflexivity.
      * rewrite Hl'. exact (proj1 (Hlast init l El)).
    + intros _. rewrite Eps. inversion Hnn as [|q qs Hq _]; [congruence|]. subst.
      injection H as -> ->.
      destruct (brkb_hd b W p0 Hq) as [y [rest [E3 [Hy _]]]].
      exists y, (rest ++ flat_map (brkb b W) pr). split; [|exact Hy].
      cbn [flat_map]. rewrite E3. reflexivity.
Qed.

Lemma runprev_last_ws prev X l : w_ws l <> [] -> runprev prev (X ++ [l]) = None.
Proof. intros H. rewrite runprev_snoc. unfold nextprev. destruct (w_ws l); [congruence|reflexivity]. Qed.

(* the fragments of a paragraph *)
Lemma FS_para b W : forall ws sws,
  Forall (InplaceFacts.wordlike cw) ws -> adj sepR ws ->
  split_words cw (hyphen_points alnum) ws = Some sws ->
  FragSeq W None (flat_map (brkb b W) sws) /\
  (forall w r, ws = w :: r -> w_word w <> [] ->
     exists y rest, flat_map (brkb b W) sws = y :: rest /\ w_word y <> []).
Proof.
  induction ws as [|w r IH]; intros sws Hwl Hadj H; cbn [split_words] in H.
  - injection H as <-. split; [exact I|]. intros w r E. discriminate.
  - inversion Hwl as [|w0 r0 Hw Hr]; subst.
    destruct (word_frags b W w Hw) as [ps [E [HF [[X [l [EX Hl]]] Hhd]]]].
    rewrite E in H.
    destruct (split_words cw (hyphen_points alnum) r) as [sr|] eqn:Er; [|discriminate].
    injection H as <-.
    assert (Hadjr : adj sepR r).
    { destruct r as [|w2 r']; [exact I|]. destruct Hadj as [_ Ha']. exact Ha'. }
    destruct (IH sr Hr Hadjr eq_refl) as [IH1 IH2].
    rewrite flat_map_app. split.
    + apply FragSeq_app_intro.
      * exact HF.
      * destruct r as [|w2 r'].
        { cbn [split_words] in Er. injection Er as <-. exact I. }
        destruct Hadj as [[Hws _] _].
        rewrite EX, runprev_last_ws; [exact IH1|]. rewrite Hl. exact Hws.
      * intros a' x y b' E1 E2. destruct r as [|w2 r'].
        { cbn [split_words] in Er. injection Er as <-. discriminate. }
        destruct Hadj as [[Hws Hw2] _].
        destruct (IH2 w2 r' eq_refl Hw2) as [y0 [rest0 [E3 Hy0]]].
        rewrite E3 in E2. injection E2 as <- _.
        rewrite EX in E1. apply app_inj_tail in E1. destruct E1 as [_ <-].
        split; [exact Hy0|]. left. rewrite Hl. exact Hws.
    + intros w' r' E' Hne. injection E' as <- <-.
      destruct (Hhd Hne) as [y [rest [E3 Hy]]].
      exists y, (rest ++ flat_map (brkb b W) sr). split; [|exact Hy].
      rewrite E3. reflexivity.
Qed.

(* ================================================================== *)
(* I8: the second pass on one run of fragments (one word of the line)    *)
(* ================================================================== *)

(* at the start of a line the context before the first fragment is lost: either the
   split points stay, or the first fragment is a lone '-' and is glued to the second *)
Lemma HySeq_None_or_merge pv ys : Forall (fun y => y <> []) ys -> HySeq pv ys ->
  HySeq None ys \/ exists y2 r, ys = [HY] :: y2 :: r /\ HySeq None ((HY :: y2) :: r).
Proof.
  intros Hne H. destruct ys as [|y r]; [left; exact I|].
  inversion Hne as [|y0 r0 Hy Hr]; subst.
  cbn [HySeq] in H. destruct H as [H1 [H2 H3]].
  rewrite (lastc_nonnil y Hy pv None) in H3.
  pose proof (hp_loop_nil_None _ _ _ H1) as H1'.
  destruct r as [|y2 r'].
  - left. cbn [HySeq]. split; [exact H1'|]. split; [intros Hc; exfalso; apply Hc; reflexivity|exact I].
  - specialize (H2 ltac:(discriminate)).
    destruct (jn_None _ _ _ H2) as [Hj | ->].
    + left. cbn [HySeq]. split; [exact H1'|]. split; [intros _; exact Hj|exact H3].
    + right. exists y2, r'. split; [reflexivity|].
      inversion Hr as [|y20 r0 Hy2 _]; subst.
      cbn [lastc] in H3. cbn [HySeq] in H3. destruct H3 as [K1 [K2 K3]].
      cbn [HySeq]. split; [|split].
      * change (HY :: y2) with ([HY] ++ y2). rewrite hp_loop_app.
        cbn [hp_loop jn opt_alnum lastc]. rewrite andb_false_r. cbn [andb app].
        exact (hp_loop_nil_off _ _ _ _ K1).
      * intros Hr'. specialize (K2 Hr'). destruct y2 as [|c t]; [congruence|]. exact K2.
      * destruct y2 as [|c t]; [congruence|]. exact K3.
Qed.

Lemma ends_with_HY pre a : ends_with (pre ++ a ++ [HY]) [HY] = true.
Proof.
  unfold ends_with. rewrite app_assoc, rev_app_distr. cbn [rev app starts_with].
  rewrite N.eqb_refl. destruct (rev (pre ++ a)); reflexivity.
Qed.

(* HySeq pieces (all but the last) end in '-' *)
Lemma HySeq_ends : forall ys pv, HySeq pv ys ->
  Forall (fun y => exists a, y = a ++ [HY]) (removelast ys).
Proof.
  induction ys as [|y r IH]; intros pv H; [constructor|].
  destruct r as [|y' r']; [constructor|].
  change (removelast (y :: y' :: r')) with (y :: removelast (y' :: r')).
  cbn [HySeq] in H. destruct H as [_ [H2 H3]].
  constructor; [|exact (IH _ H3)].
  exact (jn_ends _ _ _ (H2 ltac:(discriminate))).
Qed.

Lemma sw_spec_frs wd last : forall frs pre,
  Forall (fun f => w_ws f = [] /\ w_pen f = [] /\ w_width f = dw cw (w_word f) /\
                   exists a, w_word f = a ++ [HY]) frs ->
  sw_spec cw wd pre (map w_word frs) last =
  frs ++ [mkWord last (w_ws wd) (w_pen wd) (dw cw last)].
Proof.
  induction frs as [|f r IH]; intros pre H; [reflexivity|].
  inversion H as [|f0 r0 [H1 [H2 [H3 [a H4]]]] Hr]; subst.
  cbn [map sw_spec app]. rewrite (IH _ Hr). f_equal.
  assert (Ee : ends_with (pre ++ w_word f) [HY] = true) by (rewrite H4; apply ends_with_HY).
  rewrite Ee. destruct f as [fw fws fpen fwd]. cbn [w_word w_ws w_pen w_width] in *.
  subst fws fpen fwd. reflexivity.
Qed.

(* a run: fragments of one word, the last one carrying the whitespace *)
Definition ctext (fs : list word) : str := concat (map w_word fs).
Definition runword (rn : list word) : word :=
  mkWord (ctext rn) (lastw_ws rn) [] (dw cw (ctext rn)).

Lemma removelast_snoc_map (frs : list word) fl :
  removelast (map w_word (frs ++ [fl])) = map w_word frs.
Proof. rewrite map_app. cbn [map]. apply removelast_last. Qed.

Theorem run_resplit frs fl :
  Forall (InplaceFacts.wordlike cw) (frs ++ [fl]) ->
  Forall (fun f => w_ws f = []) frs ->
  (frs <> [] -> w_word fl <> []) ->
  HySeq None (map w_word (frs ++ [fl])) ->
  sw_loop cw (runword (frs ++ [fl])) (hyphen_points alnum (ctext (frs ++ [fl]))) 0 =
  Some (frs ++ [fl]).
Proof.
  intros Hwl Hws Hfl Hhy.
  unfold hyphen_points, ctext. rewrite (HySeq_elim _ None 0 Hhy), removelast_snoc_map.
  change 0 with (blen []) at 1 2.
  rewrite (sw_loop_spec cw (runword (frs ++ [fl])) (map w_word frs) [] (w_word fl)).
  - f_equal. rewrite sw_spec_frs.
    + f_equal. unfold runword. cbn [w_ws w_pen]. rewrite lastw_ws_snoc.
      apply Forall_app in Hwl. destruct Hwl as [_ Hl]. inversion Hl as [|l0 r0 [_ [_ [H3 H4]]] _]; subst.
      rewrite <- H3, <- H4. destruct fl; reflexivity.
    + pose proof (HySeq_ends _ _ Hhy) as He. rewrite removelast_snoc_map in He.
      apply Forall_app in Hwl. destruct Hwl as [Hi _].
      rewrite Forall_forall in Hi, Hws, He. apply Forall_forall. intros f Hf.
      destruct (Hi f Hf) as [_ [_ [H3 H4]]].
      split; [exact (Hws f Hf)|]. split; [exact H3|]. split; [exact H4|].
      apply He. apply in_map. exact Hf.
  - unfold runword, ctext. cbn [w_word app]. rewrite map_app, concat_app. cbn [map concat].
    rewrite app_nil_r. reflexivity.
  - cbn [app]. destruct frs as [|f r]; [right; reflexivity|left].
    apply Hfl. discriminate.
Qed.

(* no two neighbours are pieces of one broken piece *)
Definition NoSib (W : N) (fs : list word) : Prop :=
  forall l1 a b l2, fs = l1 ++ a :: b :: l2 -> w_width a + w_width b <= W.

Lemma fits1_NoSib W fs : fits1 W fs -> NoSib W fs.
Proof.
  intros Hfit l1 a b l2 E.
  assert (Hf : cached (l1 ++ [a]) + w_width b + blen (w_pen b) <= W).
  { apply (Hfit (l1 ++ [a]) b l2).
    - rewrite E, <- app_assoc. reflexivity.
    - intros E'. apply app_eq_nil in E'. destruct E' as [_ E']. discriminate. }
  pose proof (cached_ge_last l1 a). lia.
Qed.

Lemma NoSib_app_l W a b : NoSib W (a ++ b) -> NoSib W a.
Proof. intros H l1 x y l2 E. apply (H l1 x y (l2 ++ b)). rewrite E, <- app_assoc. reflexivity. Qed.

Lemma NoSib_app_r W a b : NoSib W (a ++ b) -> NoSib W b.
Proof. intros H l1 x y l2 E. apply (H (a ++ l1) x y l2). rewrite E, <- app_assoc. reflexivity. Qed.

Lemma NoSib_tl W f r : NoSib W (f :: r) -> NoSib W r.
Proof. apply (NoSib_app_r W [f] r). Qed.

(* the lone '-' glued to the fragment after it *)
Definition merge (f1 f2 : word) : word :=
  mkWord (w_word f1 ++ w_word f2) (w_ws f2) [] (dw cw (w_word f1 ++ w_word f2)).

Lemma merge_width f1 f2 : w_word f1 = [HY] ->
  w_width f1 = dw cw (w_word f1) -> w_width f2 = dw cw (w_word f2) ->
  w_width (merge f1 f2) = w_width f1 + w_width f2.
Proof.
  intros E H1 H2. unfold merge. cbn [w_width]. rewrite H1, H2, E. cbn [app].
  rewrite !dw_cons_vis by discriminate. change (dw cw []) with 0. lia.
Qed.

(* R3 with the sibling alternative excluded *)
Lemma R3_nosib W pv x y : R3 W pv x y -> w_width x + w_width y <= W ->
  w_word y <> [] /\ (w_ws x <> [] \/ (w_ws x = [] /\ jn pv (w_word x) (hd_error (w_word y)) = true)).
Proof. intros [H1 [H2|[H2|H2]]] Hle; (split; [exact H1|]); [left; exact H2|lia|right; exact H2]. Qed.

(* the line starts a fresh word in the second pass *)
Lemma start_None W pv fs :
  FragSeq W pv fs -> NoSib W fs ->
  Forall (fun f => w_width f = dw cw (w_word f)) fs ->
  FragSeq W None fs \/
  exists f1 f2 rest, fs = f1 :: f2 :: rest /\ w_word f1 = [HY] /\ w_ws f1 = [] /\
                     FragSeq W None (merge f1 f2 :: rest).
Proof.
  intros HF HN Hwd. destruct fs as [|f1 r]; [left; exact I|].
  cbn [FragSeq] in HF. destruct HF as [H1 [H2 H3]].
  pose proof (hp_loop_nil_None _ _ _ H1) as H1'.
  destruct r as [|f2 rest].
  - left. cbn [FragSeq]. split; [exact H1'|]. split; exact I.
  - pose proof (HN [] f1 f2 rest eq_refl) as Hle.
    destruct (R3_nosib W pv f1 f2 H2 Hle) as [Hy [Hws|[Hws Hj]]].
    + left. cbn [FragSeq]. split; [exact H1'|]. split.
      * split; [exact Hy|]. left. exact Hws.
      * unfold nextprev in H3 |- *. destruct (w_ws f1); [congruence|exact H3].
    + assert (Ht1 : w_word f1 <> []).
      { intros E0. rewrite E0 in Hj. discriminate. }
      assert (Enp : nextprev pv f1 = nextprev None f1).
      { unfold nextprev. rewrite Hws. apply lastc_nonnil. exact Ht1. }
      destruct (jn_None _ _ _ Hj) as [Hj'|E1].
      * left. cbn [FragSeq]. split; [exact H1'|]. split.
        -- split; [exact Hy|]. right. right. split; assumption.
        -- rewrite <- Enp. exact H3.
      * right. exists f1, f2, rest. split; [reflexivity|]. split; [exact E1|]. split; [exact Hws|].
        unfold nextprev in H3. rewrite Hws, E1 in H3. cbn [lastc] in H3.
        cbn [FragSeq] in H3. destruct H3 as [K1 [K2 K3]].
        assert (Ht2 : w_word f2 <> []) by exact Hy.
        cbn [FragSeq]. split; [|split].
        -- unfold merge. cbn [w_word]. rewrite E1. rewrite hp_loop_app.
           cbn [hp_loop jn opt_alnum lastc]. rewrite andb_false_r. cbn [andb app].
           exact (hp_loop_nil_off _ _ _ _ K1).
        -- destruct rest as [|f3 rest']; [exact I|].
           destruct K2 as [Hy3 K2]. split; [exact Hy3|].
           unfold merge. cbn [w_word w_ws w_width].
           destruct K2 as [K2|[K2|[K2a K2b]]].
           ++ left. exact K2.
           ++ right. left.
              inversion Hwd as [|? ? Hw1 Hwd']; subst. inversion Hwd' as [|? ? Hw2 _]; subst.
              pose proof (merge_width f1 f2 E1 Hw1 Hw2) as Em. unfold merge in Em.
              cbn [w_width] in Em. rewrite Em. lia.
           ++ right. right. split; [exact K2a|]. rewrite E1.
              rewrite jn_app by exact Ht2. exact K2b.
        -- unfold nextprev in K3 |- *. unfold merge. cbn [w_ws w_word].
           destruct (w_ws f2); [|exact K3]. rewrite E1, lastc_app. exact K3.
Qed.

(* runs: maximal groups of fragments without whitespace between them *)
Definition OpenRun (rn : list word) : Prop :=
  exists frs fl, rn = frs ++ [fl] /\ Forall (fun f => w_ws f = []) frs.
Definition ClosedRun (rn : list word) : Prop :=
  exists frs fl, rn = frs ++ [fl] /\ Forall (fun f => w_ws f = []) frs /\ w_ws fl <> [].

Fixpoint RunsOK (rns : list (list word)) : Prop :=
  match rns with
  | [] => True
  | rn :: rest => match rest with [] => OpenRun rn | _ :: _ => ClosedRun rn end /\ RunsOK rest
  end.

Lemma Closed_Open rn : ClosedRun rn -> OpenRun rn.
Proof. intros [frs [fl [E [H _]]]]. exists frs, fl. split; assumption. Qed.

Lemma runs_exist : forall fs, exists rns, concat rns = fs /\ RunsOK rns.
Proof.
  induction fs as [|f r [rns [Ec Hok]]]; [exists []; split; [reflexivity|exact I]|].
  destruct (w_ws f) as [|s0 sr] eqn:Ews.
  - destruct rns as [|rn rest].
    + exists [[f]]. cbn [concat] in Ec |- *. subst r. split; [reflexivity|].
      split; [|exact I]. exists [], f. split; [reflexivity|constructor].
    + exists ((f :: rn) :: rest). split; [cbn [concat app] in Ec |- *; rewrite Ec; reflexivity|].
      cbn [RunsOK] in Hok |- *. destruct Hok as [H1 H2]. split; [|exact H2].
      destruct rest as [|rn2 rest'].
      * destruct H1 as [frs [fl [E H]]]. exists (f :: frs), fl. rewrite E.
        split; [reflexivity|]. constructor; assumption.
      * destruct H1 as [frs [fl [E [H H']]]]. exists (f :: frs), fl. rewrite E.
        split; [reflexivity|]. split; [constructor; assumption|exact H'].
  - exists ([f] :: rns). split; [cbn [concat app]; rewrite Ec; reflexivity|].
    cbn [RunsOK]. split; [|exact Hok].
    destruct rns as [|rn rest].
    + exists [], f. split; [reflexivity|constructor].
    + exists [], f. split; [reflexivity|]. split; [constructor|]. rewrite Ews. discriminate.
Qed.

Lemma gtext_run frs fl : Forall (fun f => w_ws f = []) frs ->
  gtext (frs ++ [fl]) = ctext (frs ++ [fl]) ++ w_ws fl.
Proof.
  intros H. unfold ctext. induction H as [|f r Hf _ IH].
  - cbn [app map concat]. rewrite gtext_single, app_nil_r. reflexivity.
  - cbn [app map concat]. rewrite gtext_cons, Hf, IH. cbn [app]. rewrite app_assoc. reflexivity.
Qed.

Lemma gtext_runword rn : OpenRun rn -> gtext [runword rn] = gtext rn.
Proof.
  intros [frs [fl [-> H]]]. rewrite gtext_single. unfold runword. cbn [w_word w_ws].
  rewrite lastw_ws_snoc. symmetry. apply gtext_run. exact H.
Qed.

Lemma RunsOK_open : forall rns, RunsOK rns -> Forall OpenRun rns.
Proof.
  induction rns as [|rn rest IH]; intros H; [constructor|].
  cbn [RunsOK] in H. destruct H as [H1 H2]. constructor; [|exact (IH H2)].
  destruct rest; [exact H1|exact (Closed_Open _ H1)].
Qed.

Lemma gtext_runwords : forall rns, Forall OpenRun rns ->
  gtext (map runword rns) = gtext (concat rns).
Proof.
  induction 1 as [|rn rest Hrn _ IH]; [reflexivity|].
  cbn [map concat]. change (runword rn :: map runword rest) with ([runword rn] ++ map runword rest).
  rewrite !gtext_app, IH, (gtext_runword rn Hrn). reflexivity.
Qed.

Lemma nosp_ctext fs : Forall (InplaceFacts.wordlike cw) fs -> nosp (ctext fs).
Proof.
  intros H. unfold ctext. apply nosp_concat. apply Forall_forall. intros y Hy.
  apply in_map_iff in Hy. destruct Hy as [f [<- Hf]].
  rewrite Forall_forall in H. exact (proj1 (H f Hf)).
Qed.

Lemma runword_wordlike rn : rn <> [] -> Forall (InplaceFacts.wordlike cw) rn ->
  InplaceFacts.wordlike cw (runword rn).
Proof.
  intros Hne H. unfold runword. split; [exact (nosp_ctext rn H)|]. split; [|split; reflexivity].
  cbn [w_ws]. destruct (nil_or_last _ rn) as [->|[init [l ->]]]; [congruence|].
  rewrite lastw_ws_snoc. apply Forall_app in H. destruct H as [_ H].
  inversion H as [|l0 r0 [_ [Hs _]] _]; subst. exact Hs.
Qed.

(* the second pass on a line that starts a fresh word: the same fragments *)
Theorem line_resplit W : forall rns,
  RunsOK rns -> Forall (InplaceFacts.wordlike cw) (concat rns) ->
  FragSeq W None (concat rns) -> NoSib W (concat rns) ->
  split_words cw (hyphen_points alnum) (map runword rns) = Some (concat rns) /\
  adj sepR (map runword rns).
Proof.
  induction rns as [|rn rest IH]; intros Hok Hwl HF HN; [split; [reflexivity|exact I]|].
  cbn [RunsOK] in Hok. destruct Hok as [Hrn Hok'].
  cbn [concat] in Hwl, HF, HN. apply Forall_app in Hwl. destruct Hwl as [Hwl1 Hwl2].
  assert (Hopen : OpenRun rn) by (destruct rest; [exact Hrn|exact (Closed_Open _ Hrn)]).
  destruct Hopen as [frs [fl [Ern Hfrs]]].
  (* this run *)
  pose proof (FragSeq_app_l W rn None (concat rest) HF) as HF1.
  pose proof (NoSib_app_l W rn (concat rest) HN) as HN1.
  assert (Hrun : forall frs0 pv, Forall (fun f => w_ws f = []) frs0 ->
            FragSeq W pv (frs0 ++ [fl]) -> NoSib W (frs0 ++ [fl]) ->
            HySeq pv (map w_word (frs0 ++ [fl])) /\ (frs0 <> [] -> w_word fl <> [])).
  { clear. induction frs0 as [|f r IHr]; intros pv Hws HFr HNr.
    - cbn [app map HySeq FragSeq] in *. destruct HFr as [K _].
      split; [|congruence]. split; [exact K|]. split; [intros Hc; exfalso; apply Hc; reflexivity|exact I].
    - inversion Hws as [|f0 r0 Hf Hr]; subst.
      cbn [app FragSeq] in HFr. destruct HFr as [K1 [K2 K3]].
      unfold nextprev in K3. rewrite Hf in K3.
      destruct (IHr _ Hr K3 (NoSib_tl W _ _ HNr)) as [IH1 IH2].
      destruct (r ++ [fl]) as [|f' r'] eqn:Er; [destruct r; discriminate|].
      pose proof (HNr [] f f' r' ltac:(cbn [app]; rewrite Er; reflexivity)) as Hle.
      destruct (R3_nosib W pv f f' K2 Hle) as [Hy [Hc|[_ Hj]]]; [congruence|].
      split.
      + cbn [app map HySeq]. rewrite Er. split; [exact K1|]. split; [|exact IH1].
        intros _. cbn [map concat]. destruct (w_word f') as [|c t]; [congruence|]. exact Hj.
      + intros _. destruct r as [|f2 r2].
        * cbn [app] in Er. injection Er as <- _. exact Hy.
        * apply IH2. discriminate. }
  rewrite Ern in HF1, HN1.
  destruct (Hrun frs None Hfrs HF1 HN1) as [Hhy Hfl].
  assert (Esw : sw_loop cw (runword rn) (hyphen_points alnum (w_word (runword rn))) 0 = Some rn).
  { rewrite Ern. apply run_resplit; [rewrite <- Ern; exact Hwl1|exact Hfrs|exact Hfl|exact Hhy]. }
  (* the rest *)
  assert (HFr : rest <> [] -> FragSeq W None (concat rest)).
  { intros Hne. pose proof (FragSeq_app_r W rn None (concat rest) HF) as H.
    destruct rest as [|rn2 rest']; [congruence|].
    destruct Hrn as [frs' [fl' [E' [_ Hc]]]]. rewrite E', runprev_last_ws in H; assumption. }
  destruct rest as [|rn2 rest'].
  - cbn [map split_words concat]. rewrite Esw, app_nil_r. split; [reflexivity|exact I].
  - destruct (IH Hok' Hwl2 (HFr ltac:(discriminate)) (NoSib_app_r W rn _ HN)) as [IH1 IH2].
    change (map runword (rn :: rn2 :: rest')) with (runword rn :: map runword (rn2 :: rest')).
    cbn [split_words]. rewrite Esw, IH1. split; [reflexivity|].
    change (map runword (rn2 :: rest')) with (runword rn2 :: map runword rest') in IH2 |- *.
    split; [|exact IH2].
    destruct Hrn as [frs' [fl' [E' [_ Hc]]]]. split.
    + unfold runword. cbn [w_ws]. rewrite E', lastw_ws_snoc. exact Hc.
    + (* the next run starts with a non-empty fragment *)
      cbn [RunsOK] in Hok'. destruct Hok' as [Hrn2 _].
      assert (Ho2 : OpenRun rn2) by (destruct rest'; [exact Hrn2|exact (Closed_Open _ Hrn2)]).
      destruct Ho2 as [frs2 [fl2 [E2 _]]].
      assert (Hpair : exists y r2, rn2 = y :: r2) by (rewrite E2; destruct frs2; eexists; eexists; reflexivity).
      destruct Hpair as [y [r2 Ey]].
      cbn [concat] in HF. rewrite E', Ey, <- app_assoc in HF. cbn [app] in HF.
      destruct (FragSeq_pair W frs' None fl' y _ HF) as [Hy _].
      unfold runword, ctext. cbn [w_word]. rewrite Ey. cbn [map concat].
      destruct (w_word y); [congruence|discriminate].
Qed.

(* ================================================================== *)
(* I9: S3 -- the hyphen splitter                                        *)
(* ================================================================== *)

Lemma brkb_true W sws : flat_map (brkb true W) sws = break_words cw W sws.
Proof. unfold break_words. apply flat_map_ext. intros a. reflexivity. Qed.

Lemma brkb_false W : forall sws, flat_map (brkb false W) sws = sws.
Proof. induction sws as [|a r IH]; [reflexivity|]. cbn [flat_map]. rewrite IH. reflexivity. Qed.

Lemma flat_brkb_wordlike b W sws : Forall (InplaceFacts.wordlike cw) sws ->
  Forall (InplaceFacts.wordlike cw) (flat_map (brkb b W) sws).
Proof.
  intros H. destruct b.
  - rewrite brkb_true. apply break_words_wordlike. exact H.
  - rewrite brkb_false. exact H.
Qed.

Lemma split_hy_wordlike ws sws : Forall (InplaceFacts.wordlike cw) ws ->
  split_words cw (hyphen_points alnum) ws = Some sws -> Forall (InplaceFacts.wordlike cw) sws.
Proof.
  intros H E.
  assert (H1 : Forall nospw ws).
  { eapply Forall_impl; [|exact H]. intros w Hw. apply wordlike_iff in Hw. tauto. }
  assert (H2 : Forall (PW cw) ws).
  { eapply Forall_impl; [|exact H]. intros w Hw. apply wordlike_iff in Hw. tauto. }
  assert (H3 : Forall (fun w => w_pen w = []) ws).
  { eapply Forall_impl; [|exact H]. intros w Hw. apply wordlike_iff in Hw. tauto. }
  destruct (split_words_AW cw _ (hyphen_points_valid alnum) ws sws E H1) as [K1 _].
  pose proof (split_words_PW cw _ ws sws H2 E) as K2.
  assert (K3 : Forall (fun w => w_pen w = []) sws).
  { apply (split_words_pen_nil cw alnum custom_sp SplHyphen ltac:(discriminate) ws sws H3).
    exact E. }
  rewrite Forall_forall in K1, K2, K3. apply Forall_forall. intros w Hw.
  apply wordlike_iff. split; [exact (K1 w Hw)|]. split; [exact (K2 w Hw)|exact (K3 w Hw)].
Qed.

Lemma FragSeq_nows W : forall init pv lw,
  FragSeq W pv (init ++ [lw]) -> FragSeq W pv (init ++ [nows lw]).
Proof.
  induction init as [|f r IH]; intros pv lw H.
  - cbn [app FragSeq] in *. destruct H as [H _]. split; [exact H|]. split; exact I.
  - cbn [app FragSeq] in H |- *. destruct H as [H1 [H2 H3]].
    split; [exact H1|]. split; [|exact (IH _ _ H3)].
    destruct r as [|f' r']; [|exact H2]. cbn [app] in H2 |- *. exact H2.
Qed.

Lemma lastw_ws_merge f1 f2 rest : lastw_ws (merge f1 f2 :: rest) = lastw_ws (f1 :: f2 :: rest).
Proof.
  destruct (nil_or_last _ rest) as [->|[r' [z ->]]].
  - change [merge f1 f2] with ([] ++ [merge f1 f2]). change [f1; f2] with ([f1] ++ [f2]).
    rewrite !lastw_ws_snoc. reflexivity.
  - change (merge f1 f2 :: r' ++ [z]) with ((merge f1 f2 :: r') ++ [z]).
    change (f1 :: f2 :: r' ++ [z]) with ((f1 :: f2 :: r') ++ [z]).
    rewrite !lastw_ws_snoc. reflexivity.
Qed.

Lemma fits1_merge W f1 f2 rest : w_ws f1 = [] ->
  w_width (merge f1 f2) = w_width f1 + w_width f2 ->
  fits1 W (f1 :: f2 :: rest) -> fits1 W (merge f1 f2 :: rest).
Proof.
  intros Hws Hw H pre x post E Hne.
  destruct pre as [|m pre']; [congruence|]. injection E as <- E.
  specialize (H (f1 :: f2 :: pre') x post).
  rewrite E in H. specialize (H eq_refl ltac:(discriminate)).
  rewrite (cached_cons f1), (cached_cons f2) in H. rewrite cached_cons, Hw.
  rewrite Hws in H. change (w_ws (merge f1 f2)) with (w_ws f2).
  change (blen []) with 0 in H. lia.
Qed.

Lemma gtext_merge f1 f2 rest : w_ws f1 = [] ->
  gtext (merge f1 f2 :: rest) = gtext (f1 :: f2 :: rest).
Proof.
  intros H. rewrite !gtext_cons, H. unfold merge. cbn [w_word w_ws app].
  rewrite <- !app_assoc. reflexivity.
Qed.

Lemma merge_wordlike f1 f2 : InplaceFacts.wordlike cw f1 -> InplaceFacts.wordlike cw f2 ->
  InplaceFacts.wordlike cw (merge f1 f2).
Proof.
  intros [A1 _] [B1 [B2 _]]. unfold merge. split; [|split; [exact B2|split; reflexivity]].
  cbn [w_word]. apply nosp_app. split; assumption.
Qed.

Section S3.
Variable o : options.
Hypothesis Ha : o_alg o = FirstFit.
Hypothesis He : EmptyIndents o.
Hypothesis Hsep : o_sep o = SepAscii.
Hypothesis Hspl : o_spl o = SplHyphen.

Lemma pwords_S3 first line :
  pwords o first line =
  match split_words cw (hyphen_points alnum) (find_words_ascii cw line) with
  | None => None
  | Some sws => Some (flat_map (brkb (o_bw o) (o_width o)) sws)
  end.
Proof.
  unfold pipeline_words. rewrite Hsep, Hspl. cbn [find_words].
  change (split_points alnum custom_sp SplHyphen) with (hyphen_points alnum).
  destruct (split_words cw (hyphen_points alnum) (find_words_ascii cw line)) as [sws|]; [|reflexivity].
  rewrite (sub_width_empty o He).
  assert (Ei : (if first then o_ii o else o_si o) = []).
  { destruct He as [H1 H2]. destruct first; assumption. }
  rewrite Ei. cbn [nonempty]. destruct (o_bw o).
  - rewrite brkb_true. reflexivity.
  - rewrite brkb_false. reflexivity.
Qed.

(* the second pass on a list of fragments that starts a fresh word *)
Lemma pwords_ready first fs :
  Forall (InplaceFacts.wordlike cw) fs -> FragSeq (o_width o) None fs -> NoSib (o_width o) fs ->
  (o_bw o = true -> Forall (stable (o_width o)) fs) -> gtext fs <> [] ->
  pwords o first (gtext fs) = Some fs.
Proof.
  intros Hwl HF HN Hst Hne.
  destruct (runs_exist fs) as [rns [Ec Hok]]. subst fs.
  destruct (line_resplit (o_width o) rns Hok Hwl HF HN) as [Hsw Hadj].
  pose proof (RunsOK_open rns Hok) as Hopen.
  assert (Efw : find_words_ascii cw (gtext (concat rns)) = map runword rns).
  { rewrite <- (gtext_runwords rns Hopen). apply find_words_canon.
    - clear -Hopen Hwl. induction Hopen as [|rn rest Hrn _ IH]; [constructor|].
      cbn [concat] in Hwl. apply Forall_app in Hwl. destruct Hwl as [H1 H2].
      cbn [map]. constructor; [|exact (IH H2)].
      apply runword_wordlike; [|exact H1].
      destruct Hrn as [frs [fl [-> _]]]. destruct frs; discriminate.
    - exact Hadj.
    - rewrite (gtext_runwords rns Hopen). exact Hne. }
  rewrite pwords_S3, Efw, Hsw. f_equal.
  destruct (o_bw o) eqn:Eb.
  - rewrite brkb_true. apply break_words_fix. apply Hst. reflexivity.
  - apply brkb_false.
Qed.

Theorem refind_core_S3 : RefindCore o.
Proof.
  intros first p bws A g B first' Hp E Hfit Hb.
  rewrite pwords_S3 in Hp.
  destruct (split_words cw (hyphen_points alnum) (find_words_ascii cw p)) as [sws|] eqn:Esw;
    [|discriminate].
  injection Hp as <-.
  set (W := o_width o) in *.
  destruct (InplaceFacts.find_words_ascii_spec cw p) as [Hwl0 [_ Hadj0]].
  pose proof (split_hy_wordlike _ _ Hwl0 Esw) as Hwls.
  pose proof (flat_brkb_wordlike (o_bw o) W sws Hwls) as Hwl.
  destruct (FS_para (o_bw o) W _ sws Hwl0 (adj_ok_adj _ Hadj0) Esw) as [HFS _].
  assert (Hst : o_bw o = true -> Forall (stable W) (flat_map (brkb (o_bw o) W) sws)).
  { intros Eb. rewrite Eb, brkb_true. apply break_words_stable. }
  rewrite E in Hwl, HFS, Hst.
  apply Forall_app in Hwl. destruct Hwl as [_ Hwl].
  apply Forall_app in Hwl. destruct Hwl as [Hwl _].
  apply FragSeq_app_r, FragSeq_app_l in HFS.
  assert (Hstg : o_bw o = true -> Forall (stable W) g).
  { intros Eb. specialize (Hst Eb). apply Forall_app in Hst. destruct Hst as [_ Hst].
    apply Forall_app in Hst. destruct Hst as [Hst _]. exact Hst. }
  clear Hst E.
  destruct (nil_or_last _ g) as [->|[init [lw ->]]]; [exfalso; apply Hb; reflexivity|].
  set (fs := init ++ [nows lw]).
  assert (Hwlf : Forall (InplaceFacts.wordlike cw) fs).
  { apply Forall_app in Hwl. destruct Hwl as [Hi Hl]. apply Forall_app. split; [exact Hi|].
    inversion Hl as [|l0 r0 [H1 [H2 [H3 H4]]] _]; subst.
    constructor; [|constructor]. split; [exact H1|]. split; [constructor|]. split; assumption. }
  assert (HFf : FragSeq W (runprev None A) fs) by (apply FragSeq_nows; exact HFS).
  assert (Hfitf : fits1 W fs) by (apply fits1_nows; exact Hfit).
  assert (Hstf : o_bw o = true -> Forall (stable W) fs).
  { intros Eb. specialize (Hstg Eb). apply Forall_app in Hstg. destruct Hstg as [Hi Hl].
    apply Forall_app. split; [exact Hi|]. inversion Hl as [|l0 r0 Hl0 _]; subst.
    constructor; [|constructor]. apply stable_nows. exact Hl0. }
  assert (Hgt : gtext fs = body (init ++ [lw])) by apply gtext_nows.
  assert (Hlws : lastw_ws fs = []) by apply lastw_ws_nows.
  assert (Hwd : Forall (fun f => w_width f = dw cw (w_word f)) fs).
  { apply wordlike_widths. exact Hwlf. }
  destruct (start_None W _ fs HFf (fits1_NoSib W fs Hfitf) Hwd)
    as [HF0|[f1 [f2 [rest [Efs [E1 [Ews HF0]]]]]]].
  - exists fs. split; [|split; [|split; [|split]]].
    + rewrite <- Hgt. apply pwords_ready; try assumption.
      * apply fits1_NoSib. exact Hfitf.
      * rewrite Hgt. exact Hb.
    + unfold fs. intros Ec. apply app_eq_nil in Ec. destruct Ec as [_ Ec]. discriminate.
    + exact Hfitf.
    + exact Hlws.
    + rewrite lastw_ws_snoc. apply cached_nows.
  - pose proof (cached_nows init lw) as Hcn. fold fs in Hcn.
    rewrite Efs in Hwlf, Hfitf, Hstf, Hgt, Hlws, Hwd, Hcn.
    inversion Hwlf as [|? ? Hw1 Hwlf']; subst. inversion Hwlf' as [|? ? Hw2 Hwlr]; subst.
    inversion Hwd as [|? ? Hd1 Hwd']; subst. inversion Hwd' as [|? ? Hd2 _]; subst.
    pose proof (merge_width f1 f2 E1 Hd1 Hd2) as Em.
    pose proof (fits1_merge W f1 f2 rest Ews Em Hfitf) as Hfitm.
    exists (merge f1 f2 :: rest). split; [|split; [|split; [|split]]].
    + rewrite <- Hgt, <- (gtext_merge f1 f2 rest Ews). apply pwords_ready.
      * constructor; [apply merge_wordlike; assumption|exact Hwlr].
      * exact HF0.
      * apply fits1_NoSib. exact Hfitm.
      * intros Eb. specialize (Hstf Eb).
        inversion Hstf as [|? ? _ Hs']; subst. inversion Hs' as [|? ? _ Hsr]; subst.
        constructor; [|exact Hsr]. left. rewrite Em.
        exact (fits1_NoSib W _ Hfitf [] f1 f2 rest eq_refl).
      * rewrite (gtext_merge f1 f2 rest Ews), Hgt. exact Hb.
    + discriminate.
    + exact Hfitm.
    + rewrite lastw_ws_merge. exact Hlws.
    + rewrite lastw_ws_snoc, <- Hcn. f_equal.
      rewrite !cached_cons, Em, Ews. change (w_ws (merge f1 f2)) with (w_ws f2).
      change (blen []) with 0. lia.
Qed.

Theorem refind_S3 : Refind o.
Proof. apply RefindCore_Refind; [exact He|exact refind_core_S3]. Qed.

(* S3, one paragraph *)
Theorem wsl_line_S3 first p bws k g first' : SplitterOK custom_sp ->
  pwords o first p = Some bws -> bws <> [] ->
  nth_error (ff_groups cw o first bws) k = Some g -> body g <> [] ->
  wsl o first' (body g) = Some [mkLine (body g) (Borrowed 0)].
Proof.
  intros Hs. apply wsl_line_generic; try assumption.
  - rewrite Hspl. discriminate.
  - exact refind_S3.
Qed.

Theorem fill_idem_S3_ok t r : SplitterOK custom_sp -> fil o t = Some r -> fil o r = Some r.
Proof.
  intros Hs. apply fill_idem_generic; try assumption.
  - rewrite Hspl. discriminate.
  - exact refind_S3.
Qed.

End S3.

End Idem.

(* ================================================================== *)
(* the custom-splitter argument is irrelevant for the built-in splitters *)
(* ================================================================== *)

Section Ext.
Variable cw : char -> N.
Variable alnum : char -> bool.
Variable lbc : str -> list N.
Variable sp1 sp2 : str -> list N.
Variable ofit : penalties -> list word -> list N -> option (list (list word)).
Variable o : options.
Hypothesis Hspl : o_spl o <> SplCustom.

Lemma slow_path_sp_ext first line :
  slow_path cw alnum lbc sp1 ofit o first line = slow_path cw alnum lbc sp2 ofit o first line.
Proof.
  unfold slow_path.
  assert (E : split_points alnum sp1 (o_spl o) = split_points alnum sp2 (o_spl o)).
  { destruct (o_spl o); [reflexivity|reflexivity|congruence]. }
  rewrite E. reflexivity.
Qed.

Lemma wsl_sp_ext first line :
  wrap_single_line cw alnum lbc sp1 ofit o first line =
  wrap_single_line cw alnum lbc sp2 ofit o first line.
Proof. unfold wrap_single_line. rewrite slow_path_sp_ext. reflexivity. Qed.

Lemma wrap_loop_sp_ext : forall ps acc base,
  wrap_loop cw alnum lbc sp1 ofit o ps acc base = wrap_loop cw alnum lbc sp2 ofit o ps acc base.
Proof.
  induction ps as [|p r IH]; intros acc base; [reflexivity|].
  cbn [wrap_loop]. rewrite wsl_sp_ext.
  destruct (wrap_single_line cw alnum lbc sp2 ofit o _ p); [apply IH|reflexivity].
Qed.

Lemma fill_sp_ext t : fill cw alnum lbc sp1 ofit o t = fill cw alnum lbc sp2 ofit o t.
Proof. unfold fill, fill_slow, wrap. rewrite wrap_loop_sp_ext. reflexivity. Qed.

End Ext.

Lemma nosplit_ok : SplitterOK (fun _ => []).
Proof. intros w. split; [exact I|constructor]. Qed.

(* ================================================================== *)
(* C14, stage S1                                                        *)
(* ================================================================== *)

Theorem fill_idempotent_S1 cw alnum lbc custom_sp ofit o :
  o_alg o = FirstFit -> o_ii o = [] -> o_si o = [] -> o_sep o = SepAscii ->
  o_spl o = SplNone -> o_bw o = false ->
  forall t r, fill cw alnum lbc custom_sp ofit o t = Some r ->
              fill cw alnum lbc custom_sp ofit o r = Some r.
Proof.
  intros Ha Hii Hsi Hsep Hspl Hbw t r.
  assert (Hn : o_spl o <> SplCustom) by (rewrite Hspl; discriminate).
  rewrite !(fill_sp_ext cw alnum lbc custom_sp (fun _ => []) ofit o Hn).
  apply fill_idem_S1_ok; try assumption.
  - split; assumption.
  - exact nosplit_ok.
Qed.

Print Assumptions fill_idempotent_S1.

(* ================================================================== *)
(* C14, stage S2: no splitter, break_words on or off                    *)
(* ================================================================== *)

Theorem fill_idempotent_S2 cw alnum lbc custom_sp ofit o :
  o_alg o = FirstFit -> o_ii o = [] -> o_si o = [] -> o_sep o = SepAscii ->
  o_spl o = SplNone ->
  forall t r, fill cw alnum lbc custom_sp ofit o t = Some r ->
              fill cw alnum lbc custom_sp ofit o r = Some r.
Proof.
  intros Ha Hii Hsi Hsep Hspl t r.
  destruct (o_bw o) eqn:Hbw.
  - assert (Hn : o_spl o <> SplCustom) by (rewrite Hspl; discriminate).
    rewrite !(fill_sp_ext cw alnum lbc custom_sp (fun _ => []) ofit o Hn).
    apply fill_idem_S2_ok; try assumption.
    + split; assumption.
    + exact nosplit_ok.
  - apply fill_idempotent_S1; assumption.
Qed.

Print Assumptions fill_idempotent_S2.

(* ================================================================== *)
(* C14: first-fit, ASCII separator, empty indents, built-in splitter    *)
(* ================================================================== *)

Theorem fill_idempotent cw alnum lbc custom_sp ofit o :
  o_alg o = FirstFit -> o_ii o = [] -> o_si o = [] -> o_sep o = SepAscii ->
  o_spl o <> SplCustom ->
  forall t r, fill cw alnum lbc custom_sp ofit o t = Some r ->
              fill cw alnum lbc custom_sp ofit o r = Some r.
Proof.
  intros Ha Hii Hsi Hsep Hn t r.
  destruct (o_spl o) eqn:Hspl.
  - apply fill_idempotent_S2; assumption.
  - rewrite <- Hspl in Hn.
    rewrite !(fill_sp_ext cw alnum lbc custom_sp (fun _ => []) ofit o Hn).
    apply fill_idem_S3_ok; try assumption.
    + split; assumption.
    + exact nosplit_ok.
  - congruence.
Qed.

Print Assumptions fill_idempotent.

(* ================================================================== *)
(* S4: the optimal-fit reference oracle                                 *)
(* ================================================================== *)

(* D1: when all fragments fit on one line, the reference dynamic program returns that
   line (every line costs at least p_nline > 0, the single line costs exactly that) *)
Section DPFit.
Variable P : penalties.
Variable fs : list (frag NumZ).
Variable lws : list Z.
Notation n := (length fs).
Notation widths := (prefix_widths NumZ fs 0%Z).
Notation d := (0%nat, 0%Z).
Notation costZ := (cost NumZ P fs widths lws).

Lemma cost0_ge l i j : (Z.of_N (p_nline P) <= costZ l 0%Z i j)%Z.
Proof.
  unfold cost. cbn [NumZ T add sub mul max_ gtb ltb zero one of_N].
  set (lastf := nth (j - 1) fs (dfrag NumZ)).
  set (lw := Z.max _ _).
  set (line_w := (_ - _ - _ + _)%Z).
  set (sh := (i + 1 =? j)%nat && lt_div NumZ line_w lw (Z.of_N (p_frac P))).
  pose proof (N2Z.is_nonneg (p_overflow P)). pose proof (N2Z.is_nonneg (p_short P)).
  pose proof (N2Z.is_nonneg (p_hyphen P)).
  destruct (fpen lastf >? 0)%Z; destruct (line_w >? lw)%Z eqn:E; destruct (j <? length fs)%nat;
    destruct sh; try (apply Z.gtb_lt in E); nia.
Qed.

Lemma minima_lower lnums : Inv P fs lws (S n) (dp_minima NumZ P fs lws) lnums ->
  forall j, (j <= n)%nat ->
    (0 <= snd (nth j (dp_minima NumZ P fs lws) d))%Z /\
    ((1 <= j)%nat -> (Z.of_N (p_nline P) <= snd (nth j (dp_minima NumZ P fs lws) d))%Z).
Proof.
  intros [_ [_ [_ [H0 [_ Hent]]]]].
  induction j as [j IH] using lt_wf_ind. intros Hj.
  destruct j as [|j'].
  - replace (nth 0 (dp_minima NumZ P fs lws) d) with (0%nat, 0%Z) by (symmetry; exact H0).
    cbn [snd]. split; [lia|lia].
  - destruct (Hent (S j') ltac:(lia)) as [H1 [H2 _]].
    unfold cst in H2. rewrite cost_shift in H2.
    destruct (IH _ H1 ltac:(lia)) as [IH1 _].
    pose proof (cost0_ge (nth (fst (nth (S j') (dp_minima NumZ P fs lws) d)) lnums 0%nat)
                  (fst (nth (S j') (dp_minima NumZ P fs lws) d)) (S j')) as Hc.
    pose proof (N2Z.is_nonneg (p_nline P)) as Hnn.
    revert H2 IH1 Hc Hnn. cbn [T NumZ].
    generalize (snd (nth (S j') (dp_minima NumZ P fs lws) d)).
    generalize (snd (nth (fst (nth (S j') (dp_minima NumZ P fs lws) d)) (dp_minima NumZ P fs lws) d)).
    generalize (costZ (nth (fst (nth (S j') (dp_minima NumZ P fs lws) d)) lnums 0%nat) 0%Z
                  (fst (nth (S j') (dp_minima NumZ P fs lws) d)) (S j')).
    cbn [T NumZ]. intros c m' m H2 IH1 Hc Hnn. split; [lia|intros _; lia].
Qed.
End DPFit.

Definition ftotal (fs : list (frag NumZ)) : Z :=
  fold_right (fun (f : frag NumZ) (a : Z) => (fw f + fws f + a)%Z) 0%Z fs.

Lemma prefix_widths_last : forall fs acc,
  nth (length fs) (prefix_widths NumZ fs acc) 0%Z = (acc + ftotal fs)%Z.
Proof.
  induction fs as [|f r IH]; intros acc.
  - cbn [length prefix_widths nth ftotal fold_right]. lia.
  - cbn [length prefix_widths nth]. rewrite IH. cbn [ftotal fold_right NumZ add]. 
    fold (ftotal r). lia.
Qed.

Lemma prefix_widths_0 fs acc : nth 0 (prefix_widths NumZ fs acc) 0%Z = acc.
Proof. destruct fs; reflexivity. Qed.

Lemma ftotal_words xs : ftotal (map word_frag xs) = Z.of_N (cached xs).
Proof.
  induction xs as [|x r IH]; [reflexivity|].
  cbn [map ftotal fold_right]. fold (ftotal (map word_frag r)). rewrite IH, cached_cons.
  unfold word_frag. cbn [fw fws]. lia.
Qed.

Section OneLine.
Variable P : penalties.
Hypothesis Hnl : 0 < p_nline P.
Variable W : N.
Variable init : list word.
Variable lw : word.
Hypothesis Hpen : w_pen lw = [].
Hypothesis Hfit : cached init + w_width lw <= W.

Let xs := init ++ [lw].
Let fs := map word_frag xs.
Let lws := map Z.of_N [W; W].

Lemma len_fs : length fs = S (length init).
Proof. unfold fs, xs. rewrite map_length, app_length. cbn [length]. lia. Qed.

Lemma cost_fit : (2 <= length fs)%nat ->
  (cost NumZ P fs (prefix_widths NumZ fs 0%Z) lws 0 0%Z 0 (length fs) <= Z.of_N (p_nline P))%Z.
Proof.
  intros Hn. unfold cost. rewrite prefix_widths_last, prefix_widths_0.
  assert (El : nth (length fs - 1) fs (dfrag NumZ) = word_frag lw).
  { unfold fs, xs. rewrite map_app. cbn [map].
    rewrite app_nth2 by (rewrite !app_length, !map_length; cbn [length]; lia).
    rewrite app_length, map_length. cbn [length].
    replace (length init + 1 - 1 - length init)%nat with 0%nat by lia. reflexivity. }
  assert (Et : ftotal fs = Z.of_N (cached init + (w_width lw + blen (w_ws lw) + 0))).
  { unfold fs. rewrite ftotal_words. unfold xs. rewrite cached_app, cached_cons, cached_nil. reflexivity. }
  rewrite El, Et. unfold word_frag. cbn [fw fws fpen]. rewrite Hpen. change (blen []) with 0.
  cbn [NumZ T add sub mul max_ gtb ltb zero one of_N lws map nth_width nth].
  match goal with |- context [(?a >? Z.max ?b 1)%Z] =>
    assert (E1 : (a >? Z.max b 1)%Z = false) by (rewrite Z.gtb_ltb; apply Z.ltb_ge; lia);
    rewrite E1 end.
  rewrite Nat.ltb_irrefl.
  assert (E2 : (0 + 1 =? length fs)%nat = false) by (apply Nat.eqb_neq; lia).
  rewrite E2. cbn [andb]. change (Z.of_N 0 >? 0)%Z with false. lia.
Qed.

Theorem ofit_dp_one_line : ofit_dp P xs [W; W] = Some [xs].
Proof.
  unfold ofit_dp, optimal_fit, optimal_fit_with. fold fs. fold lws.
  destruct (dp_minima_inv P fs lws) as [lnums HI].
  pose proof (minima_lower P fs lws lnums HI) as Hlow.
  destruct HI as [Hlen [_ [_ [H0 [Hl0 Hent]]]]].
  assert (Elen : length xs = length fs) by (unfold fs; rewrite map_length; reflexivity).
  rewrite Elen.
  set (minima := dp_minima NumZ P fs lws) in *.
  assert (Hn1 : (1 <= length fs)%nat) by (rewrite len_fs; lia).
  destruct (Hent (length fs) ltac:(lia)) as [H1 [H2 [H3 _]]].
  assert (Hfst : fst (nth (length fs) minima (0%nat, 0%Z)) = 0%nat).
  { destruct (Nat.eq_dec (fst (nth (length fs) minima (0%nat, 0%Z))) 0) as [E|Hne]; [exact E|exfalso].
    set (i := fst (nth (length fs) minima (0%nat, 0%Z))) in *.
    assert (Hilt : (i < length fs)%nat) by exact H1.
    assert (Hn2 : (2 <= length fs)%nat) by lia.
    specialize (H3 0%nat ltac:(lia)).
    unfold cst in H2, H3. rewrite Hl0 in H3. rewrite cost_shift in H2, H3.
    pose (mn := snd (nth (length fs) minima (0%nat, 0%Z)) : Z).
    pose (mi := snd (nth i minima (0%nat, 0%Z)) : Z).
    pose (m0 := snd (nth 0 minima (0%nat, 0%Z)) : Z).
    pose (ci := cost NumZ P fs (prefix_widths NumZ fs 0%Z) lws (nth i lnums 0%nat) 0%Z i (length fs) : Z).
    pose (c0 := cost NumZ P fs (prefix_widths NumZ fs 0%Z) lws 0 0%Z 0 (length fs) : Z).
    assert (A1 : (mn = mi + ci)%Z) by exact H2.
    assert (A2 : (mn <= m0 + c0)%Z) by exact H3.
    assert (A0 : m0 = 0%Z) by exact (f_equal snd H0).
    assert (A3 : (c0 <= Z.of_N (p_nline P))%Z) by exact (cost_fit Hn2).
    destruct (Hlow i ltac:(lia)) as [_ Hi]. specialize (Hi ltac:(lia)).
    assert (A4 : (Z.of_N (p_nline P) <= mi)%Z) by exact Hi.
    assert (A5 : (Z.of_N (p_nline P) <= ci)%Z)
      by exact (cost0_ge P fs lws (nth i lnums 0%nat) i (length fs)).
    clearbody mn mi m0 ci c0. lia. }
  assert (Enth : nth_error minima (length fs) = Some (nth (length fs) minima (0%nat, 0%Z))).
  { apply nth_error_nth'. apply Nat.lt_le_trans with (S (length fs)); [lia|].
    apply Nat.eq_le_incl. symmetry. exact Hlen. }
  cbn [backtrack]. rewrite Enth.
  destruct (nth (length fs) minima (0%nat, 0%Z)) as [pv c]. cbn [fst] in Hfst. subst pv.
  change (length fs <? 0)%nat with false. cbn [Nat.eqb map].
  rewrite <- Elen, slice_all. reflexivity.
Qed.
End OneLine.

Section OptIdem.
Variable cw : char -> N.
Variable alnum : char -> bool.
Variable lbc : str -> list N.
Variable custom_sp : str -> list N.
Hypothesis cw_SP : cw SP = 1.
Variable o : options.
Variable pen : penalties.
Hypothesis Ha : o_alg o = OptimalFit pen.
Hypothesis Hnl : 0 < p_nline pen.
Hypothesis Hs : SplitterOK custom_sp.
Hypothesis He : EmptyIndents o.
Hypothesis Hsep : o_sep o = SepAscii.
Hypothesis Hspl : o_spl o <> SplCustom.
Hypothesis HRC : RefindCore cw alnum lbc custom_sp o.

Notation pwords := (pipeline_words cw alnum lbc custom_sp).
Notation spath := (slow_path cw alnum lbc custom_sp ofit_dp).
Notation wsl := (wrap_single_line cw alnum lbc custom_sp ofit_dp).
Notation wloop := (wrap_loop cw alnum lbc custom_sp ofit_dp).
Notation fil := (fill cw alnum lbc custom_sp ofit_dp).
Notation LFix := (LineFix cw alnum lbc custom_sp ofit_dp o).

Lemma line_widths_empty first : line_widths cw o first = [o_width o; o_width o].
Proof.
  unfold line_widths. destruct He as [H1 H2]. rewrite H1, H2.
  change (dw cw []) with 0. rewrite N.sub_0_r. destruct first; reflexivity.
Qed.

Lemma LineFix_nil_opt : LFix [].
Proof.
  intros first. rewrite (wsl_unfold _ _ _ _ _ o He).
  destruct (blen [] <? o_width o); [reflexivity|].
  rewrite slow_path_unfold, (pwords_nil cw alnum lbc custom_sp o He Hsep first), Ha.
  cbn [run_alg].
  destruct (ofit_dp_ok pen [] (line_widths cw o first)) as [g [Eg [_ [_ Hg]]]].
  rewrite Eg, (Hg eq_refl), reassemble_degenerate.
  unfold indent_line. rewrite (ind_empty o He first). reflexivity.
Qed.

Lemma one_line_opt first L fs :
  pwords o first L = Some fs -> fs <> [] -> Forall (fun x => w_pen x = []) fs ->
  lastw_ws fs = [] -> cached fs <= o_width o ->
  spath o first L = Some [mkLine L (Borrowed 0)].
Proof.
  intros Hp Hne Hpen Hws Hfit.
  destruct (pipeline_words_spec cw alnum lbc custom_sp o first L Hs) as [bws [Hp' [Hg _]]].
  rewrite Hp in Hp'. injection Hp' as <-.
  rewrite slow_path_unfold, Hp, Ha. cbn [run_alg]. rewrite line_widths_empty.
  destruct (nil_or_last _ fs) as [->|[init [lw Efs]]]; [congruence|]. subst fs.
  rewrite lastw_ws_snoc in Hws.
  rewrite cached_app, cached_cons, cached_nil, Hws in Hfit. change (blen []) with 0 in Hfit.
  rewrite (ofit_dp_one_line pen Hnl (o_width o) init lw).
  - change 0 with (blen []) at 1.
    rewrite (reassemble_spec o L [init ++ [lw]] [] [] first).
    + cbn [lines_of blen]. rewrite (ind_empty o He first).
      rewrite (lastw_pen_nil _ Hpen). cbn [nonempty orb app]. rewrite app_nil_r.
      rewrite body_snoc. rewrite <- Hg, gtext_snoc, Hws, app_nil_r. reflexivity.
    + constructor; [|constructor]. intros E. apply app_eq_nil in E. destruct E as [_ E]. discriminate.
    + cbn [concat app]. rewrite !app_nil_r. symmetry. exact Hg.
  - apply Forall_app in Hpen. destruct Hpen as [_ Hl]. inversion Hl; assumption.
  - lia.
Qed.

Lemma total_fits1 W init lw : Forall (fun x => w_pen x = []) (init ++ [lw]) ->
  cached init + w_width lw <= W -> fits1 W (init ++ [lw]).
Proof.
  intros Hpen Hfit pre x post E Hne.
  assert (Hx : w_pen x = []).
  { rewrite Forall_forall in Hpen. apply Hpen. rewrite E. apply in_or_app. right. left. reflexivity. }
  rewrite Hx. change (blen []) with 0.
  destruct (nil_or_last _ post) as [->|[post' [z ->]]].
  - apply app_inj_tail in E. destruct E as [-> ->]. lia.
  - change (pre ++ x :: post' ++ [z]) with (pre ++ (x :: post') ++ [z]) in E.
    rewrite app_assoc in E. apply app_inj_tail in E. destruct E as [-> ->].
    rewrite cached_app, cached_cons in Hfit. lia.
Qed.

Lemma dw_gtext_cached : forall g, Forall (PW cw) g -> TopLevelCuts g ->
  final_state Normal (gtext g) = Normal /\ dw cw (gtext g) = cached g.
Proof.
  induction g as [|x r IH]; intros HP HT; [split; reflexivity|].
  inversion HP as [|x0 r0 [Hsp [_ Hw]] HPr]; subst.
  inversion HT as [|x1 r1 Hx HTr]; subst.
  destruct (IH HPr HTr) as [IH1 IH2].
  assert (Hs1 : final_state Normal (w_ws x) = Normal).
  { clear -Hsp. induction Hsp as [|c t Hc _ IHs]; [reflexivity|]. subst c. exact IHs. }
  assert (Hs2 : dw cw (w_ws x) = blen (w_ws x)).
  { clear -Hsp cw_SP. unfold dw. induction Hsp as [|c t Hc _ IHs]; [reflexivity|]. subst c.
    cbn [dw_from blen]. change (step Normal SP) with (Normal, true). cbn [dw_from].
    rewrite IHs, cw_SP. reflexivity. }
  rewrite gtext_cons. split.
  - rewrite !final_state_app, Hx, Hs1. exact IH1.
  - rewrite (dw_cut cw _ _ Hx), (dw_cut cw _ _ Hs1), Hs2, IH2, cached_cons, Hw. lia.
Qed.

Lemma dw_body init lw : Forall (PW cw) (init ++ [lw]) -> TopLevelCuts (init ++ [lw]) ->
  dw cw (body (init ++ [lw])) = cached init + w_width lw.
Proof.
  intros HP HT. apply Forall_app in HP. destruct HP as [HPi HPl].
  apply TopLevelCuts_app in HT. destruct HT as [HTi _].
  destruct (dw_gtext_cached init HPi HTi) as [H1 H2].
  rewrite body_snoc, (dw_cut cw _ _ H1), H2.
  inversion HPl as [|l0 r0 [_ [_ Hw]] _]; subst. rewrite Hw. reflexivity.
Qed.

(* the lines of one paragraph: each is a fixed point provided it is not too wide *)
Lemma wsl_lines_opt first p ls : Forall (fun c => c <> ESC) p -> wsl o first p = Some ls ->
  ls <> [] /\ forall l, In l ls ->
    (dw cw (l_text l) <= o_width o -> LFix (l_text l)) /\ exists a b, p = a ++ l_text l ++ b.
Proof.
  intros Hesc H. rewrite (wsl_unfold _ _ _ _ _ o He) in H.
  destruct (blen p <? o_width o) eqn:Eb.
  - injection H as <-. split; [discriminate|]. intros l [<-|[]]. cbn [l_text]. split.
    + intros _. apply (LineFix_trim _ _ _ _ _ o He). apply N.ltb_lt. exact Eb.
    + exists [], (snd (split_ws p)). cbn [app]. apply trim_end_sp_decomp.
  - destruct (slow_path_spec cw alnum lbc custom_sp ofit_dp o first p ofit_dp_ok Hs)
      as [bws [ls' [Hp [Hg [Hsp Hcases]]]]].
    rewrite Hsp in H. injection H as ->.
    destruct Hcases as [[_ ->]|[groups [Hc [Hgne [Hgall ->]]]]].
    + split; [discriminate|]. intros l [<-|[]]. unfold indent_line.
      rewrite (ind_empty o He first). cbn [nonempty l_text]. split; [intros _; apply LineFix_nil_opt|].
      exists [], p. reflexivity.
    + split.
      * destruct groups as [|g0 gr]; [congruence|]. cbn [lines_of]. discriminate.
      * intros l Hin. destruct (In_nth_error _ _ Hin) as [k Hk].
        destruct (lines_of_nth o _ _ _ _ _ Hk) as [g [Hgk Ht]].
        rewrite (nth_indent_empty o first k He) in Ht. cbn [app] in Ht.
        destruct (nth_error_split _ _ Hgk) as [G1 [G2 [EG _]]].
        assert (Esub : bws = concat G1 ++ g ++ concat G2).
        { rewrite <- Hc, EG, concat_app. reflexivity. }
        pose proof (pipeline_words_pen_nil cw alnum lbc custom_sp o first p bws Hspl Hp) as HPen.
        assert (HPg : Forall (fun x => w_pen x = []) g).
        { rewrite Esub in HPen. apply Forall_app in HPen. destruct HPen as [_ HPen].
          apply Forall_app in HPen. destruct HPen as [HPen _]. exact HPen. }
        rewrite (lastw_pen_nil g HPg), app_nil_r in Ht. rewrite Ht. split.
        -- intros Hdw.
           destruct (body g) as [|c0 b0] eqn:Ebody; [apply LineFix_nil_opt|].
           rewrite <- Ebody in *. assert (Hbne : body g <> []) by (rewrite Ebody; discriminate).
           clear Ebody c0 b0.
           destruct (nil_or_last _ g) as [->|[init [lw Eg]]]; [exfalso; apply Hbne; reflexivity|].
           destruct (pipeline_words_spec cw alnum lbc custom_sp o first p Hs)
             as [bws' [Hp' [_ [F1 [F2 F3]]]]].
           rewrite Hp in Hp'. injection Hp' as <-.
           pose proof (PW_of_facts cw bws F1 F2 F3) as HPW.
           assert (HTop : TopLevelCuts bws) by (apply esc_free_top; rewrite Hg; exact Hesc).
           rewrite Esub in HPW, HTop.
           apply Forall_app in HPW. destruct HPW as [_ HPW].
           apply Forall_app in HPW. destruct HPW as [HPW _].
           apply TopLevelCuts_app in HTop. destruct HTop as [_ HTop].
           apply TopLevelCuts_app in HTop. destruct HTop as [HTop _].
           subst g. rewrite (dw_body init lw HPW HTop) in Hdw.
           pose proof (total_fits1 (o_width o) init lw HPg Hdw) as Hfit.
           intros first'. rewrite (wsl_unfold _ _ _ _ _ o He).
           destruct (blen (body (init ++ [lw])) <? o_width o) eqn:Eb2.
           ++ cbn [option_map map l_text]. rewrite trim_end_sp_no_trailing; [reflexivity|].
              pose proof (slow_path_ascii_no_trailing_sp cw alnum lbc custom_sp o first p bws
                            groups Hs Hsep Hp Hc) as HT.
              rewrite Forall_forall in HT. apply HT. eapply nth_error_In. exact Hgk.
           ++ destruct (HRC first p bws _ _ _ first' Hp Esub Hfit Hbne)
                as [fs [Hf1 [Hf2 [_ [Hf4 Hf5]]]]].
              rewrite (one_line_opt first' _ fs Hf1 Hf2); [reflexivity| |exact Hf4|].
              ** exact (pipeline_words_pen_nil cw alnum lbc custom_sp o first' _ fs Hspl Hf1).
              ** rewrite lastw_ws_snoc, cached_app, cached_cons, cached_nil in Hf5. lia.
        -- exists (gtext (concat G1)), (lastw_ws g ++ gtext (concat G2)).
           rewrite <- Hg, Esub, !gtext_app, (gtext_body g), <- !app_assoc. reflexivity.
Qed.

Lemma paras_lines_opt le : forall ps tss,
  Forall2 (fun p ts => ptexts cw alnum lbc custom_sp ofit_dp o p = Some ts) ps tss ->
  Forall (le_free le) ps -> Forall (Forall (fun c => c <> ESC)) ps ->
  Forall (fun l => (dw cw l <= o_width o -> LFix l) /\ le_free le l) (concat tss) /\
  (ps <> [] -> concat tss <> []).
Proof.
  intros ps tss HF. induction HF as [|p ts r tss' Hp _ IH]; intros Hfree Hesc.
  - split; [constructor|congruence].
  - inversion Hfree as [|p0 r0 Hpf Hrf]; subst. inversion Hesc as [|p1 r1 Hpe Hre]; subst.
    destruct (IH Hrf Hre) as [IH1 _].
    unfold ptexts in Hp. destruct (wsl o false p) as [ls|] eqn:El; [|discriminate].
    cbn [option_map] in Hp. injection Hp as <-.
    destruct (wsl_lines_opt false p ls Hpe El) as [Hne Hall].
    cbn [concat]. split.
    + apply Forall_app. split; [|exact IH1]. apply Forall_forall. intros t Ht.
      apply in_map_iff in Ht. destruct Ht as [l [<- Hl]].
      destruct (Hall l Hl) as [HL [a [b Eab]]]. split; [exact HL|].
      apply (le_free_sub le a (l_text l) b). rewrite <- Eab. exact Hpf.
    + intros _ E. apply app_eq_nil in E. destruct E as [E _].
      destruct ls; [congruence|discriminate].
Qed.

Theorem fill_idem_opt_generic t r : Forall (fun c => c <> ESC) t ->
  fil o t = Some r ->
  (forall l, In l (split_le (o_le o) r) -> dw cw l <= o_width o) ->
  fil o r = Some r.
Proof.
  intros Hesc H Hw. rewrite fill_is_join in H.
  destruct (wrap cw alnum lbc custom_sp ofit_dp o t) as [ls|] eqn:Ew; [|discriminate].
  injection H as <-. unfold wrap in Ew.
  pose proof (wsl_irr cw alnum lbc custom_sp ofit_dp o He) as Hirr.
  destruct (wloop_texts_fwd _ _ _ _ _ o Hirr _ _ _ _ Ew) as [tss [HF Ht]].
  cbn [map app] in Ht.
  assert (Hpe : Forall (Forall (fun c => c <> ESC)) (split_le (o_le o) t)).
  { apply Forall_forall. intros p Hp.
    apply (Forall_join_pieces _ (le_str (o_le o)) (split_le (o_le o) t)); [|exact Hp].
    rewrite join_split_le. exact Hesc. }
  destruct (paras_lines_opt (o_le o) _ _ HF (split_le_pieces_free (o_le o) t) Hpe) as [Hall Hne].
  specialize (Hne (split_le_nonnil (o_le o) t)).
  rewrite Ht in Hw |- *. set (lines := concat tss) in *.
  assert (Esplit : split_le (o_le o) (join (le_str (o_le o)) lines) = lines).
  { apply split_join_free; [exact Hne|].
    eapply Forall_impl; [|exact Hall]. intros a [_ Ha']. exact Ha'. }
  rewrite Esplit in Hw.
  rewrite fill_is_join. unfold wrap. rewrite Esplit.
  assert (HF2 : Forall2 (fun p ts => ptexts cw alnum lbc custom_sp ofit_dp o p = Some ts)
                  lines (map (fun l => [l]) lines)).
  { clear -Hall Hw. induction Hall as [|l r' [HL _] _ IH]; [constructor|].
    cbn [map]. constructor.
    - exact (HL (Hw l (or_introl eq_refl)) false).
    - apply IH. intros l' Hl'. apply Hw. right. exact Hl'. }
  destruct (wloop_texts_bwd _ _ _ _ _ o Hirr _ _ HF2 [] 0) as [out [Ho Hto]].
  rewrite Ho. cbn [map app] in Hto. rewrite Hto.
  assert (Ec : concat (map (fun l : str => [l]) lines) = lines).
  { clear. induction lines as [|l r' IH]; [reflexivity|]. cbn [map concat app]. rewrite IH. reflexivity. }
  rewrite Ec. reflexivity.
Qed.

End OptIdem.

(* C14, stage S4: the optimal-fit reference oracle, for escape-free text whose first
   result has no line wider than the width.  Extra hypotheses: cw ' ' = 1 (so that the
   width of a line is the sum the algorithm computes) and p_nline > 0. *)
Theorem fill_idempotent_optimal cw alnum lbc custom_sp o pen :
  cw SP = 1 -> o_alg o = OptimalFit pen -> 0 < p_nline pen ->
  o_ii o = [] -> o_si o = [] -> o_sep o = SepAscii -> o_spl o <> SplCustom ->
  forall t r, Forall (fun c => c <> ESC) t ->
    fill cw alnum lbc custom_sp ofit_dp o t = Some r ->
    (forall l, In l (split_le (o_le o) r) -> dw cw l <= o_width o) ->
    fill cw alnum lbc custom_sp ofit_dp o r = Some r.
Proof.
  intros Hsp Ha Hnl Hii Hsi Hsep Hn t r Hesc.
  assert (He : EmptyIndents o) by (split; assumption).
  rewrite !(fill_sp_ext cw alnum lbc custom_sp (fun _ => []) ofit_dp o Hn).
  apply (fill_idem_opt_generic cw alnum lbc (fun _ => []) Hsp o pen Ha Hnl nosplit_ok He Hsep Hn);
    [|exact Hesc].
  destruct (o_spl o) eqn:Hspl.
  - destruct (o_bw o) eqn:Hbw.
    + apply refind_core_S2; assumption.
    + apply refind_core_S1; assumption.
  - apply refind_core_S3; assumption.
  - congruence.
Qed.

Print Assumptions fill_idempotent_optimal.

(* ================================================================== *)
(* Examples (non-vacuity)                                               *)
(* ================================================================== *)

Module IdemExamples.
Definition xcw : char -> N := fun _ => 1.
Definition xan : char -> bool := fun c => (97 <=? c) && (c <=? 122).
Definition xlbc : str -> list N := fun _ => [].
Definition xfill o t := fill xcw xan xlbc custom3 ofit_dp o t.
Definition xo w le bw spl := mkOptions w le [] [] bw FirstFit SepAscii spl.

(* two paragraphs: "aa bb cc" LF "dd ee", width 5 *)
Definition t_two : str := [97;97;32;98;98;32;99;99;10;100;100;32;101;101].
Definition r_two : str := [97;97;32;98;98;10;99;99;10;100;100;32;101;101].
Example ex_two_paragraphs :
  xfill (xo 5 LE_LF false SplNone) t_two = Some r_two /\
  xfill (xo 5 LE_LF false SplNone) r_two = Some r_two.
Proof. split; vm_compute; reflexivity. Qed.

(* CRLF mode, a line that ends in CR: "ab" CR " cd" CR LF "ef gh", width 3 *)
Definition t_crlf : str := [97;98;13;32;99;100;13;10;101;102;32;103;104].
Definition r_crlf : str := [97;98;13;13;10;99;100;13;10;101;102;13;10;103;104].
Example ex_crlf :
  xfill (xo 3 LE_CRLF false SplNone) t_crlf = Some r_crlf /\
  xfill (xo 3 LE_CRLF false SplNone) r_crlf = Some r_crlf.
Proof. split; vm_compute; reflexivity. Qed.

(* a word longer than the width, break_words on: "abcdefgh ij", width 3 *)
Definition t_long : str := [97;98;99;100;101;102;103;104;32;105;106].
Definition r_long : str := [97;98;99;10;100;101;102;10;103;104;10;105;106].
Example ex_break_words :
  xfill (xo 3 LE_LF true SplNone) t_long = Some r_long /\
  xfill (xo 3 LE_LF true SplNone) r_long = Some r_long.
Proof. split; vm_compute; reflexivity. Qed.

(* leading spaces: "  foo bar" at width 4 gives "", "foo", "bar" *)
Definition t_lead : str := [32;32;102;111;111;32;98;97;114].
Definition r_lead : str := [10;102;111;111;10;98;97;114].
Example ex_leading_spaces :
  xfill (xo 4 LE_LF false SplNone) t_lead = Some r_lead /\
  xfill (xo 4 LE_LF false SplNone) r_lead = Some r_lead.
Proof. split; vm_compute; reflexivity. Qed.

(* hyphen splitter and break_words: "abc-d ef" at width 3 gives "abc", "-d", "ef".
   The second pass does NOT find the fragments "-" and "d" of the first pass in the
   line "-d" (the split point after '-' needs the 'c' before it): it finds the one
   fragment "-d", which still fits. *)
Definition t_hy : str := [97;98;99;45;100;32;101;102].
Definition r_hy : str := [97;98;99;10;45;100;10;101;102].
Example ex_hyphen :
  xfill (xo 3 LE_LF true SplHyphen) t_hy = Some r_hy /\
  xfill (xo 3 LE_LF true SplHyphen) r_hy = Some r_hy /\
  pipeline_words xcw xan xlbc custom3 (xo 3 LE_LF true SplHyphen) true t_hy =
    Some [mkWord [97;98;99] [] [] 3; mkWord [45] [] [] 1; mkWord [100] [32] [] 1;
          mkWord [101;102] [] [] 2] /\
  pipeline_words xcw xan xlbc custom3 (xo 3 LE_LF true SplHyphen) true [45;100] =
    Some [mkWord [45;100] [] [] 2].
Proof. repeat split; vm_compute; reflexivity. Qed.

(* the empty line of a zero-width wrap is the static "", not a borrow *)
Example ex_empty_line_width0 :
  wrap_single_line xcw xan xlbc custom3 ofit_dp (xo 0 LE_LF false SplNone) true [] =
  Some [mkLine [] BorrowedStatic].
Proof. vm_compute. reflexivity. Qed.

(* the theorem, instantiated *)
Example ex_theorem_instance : forall t r,
  xfill (xo 3 LE_CRLF true SplHyphen) t = Some r -> xfill (xo 3 LE_CRLF true SplHyphen) r = Some r.
Proof.
  intros t r. apply fill_idempotent; try reflexivity. discriminate.
Qed.

(* S4: the optimal-fit oracle on the two-paragraph text *)
Definition xoo w le bw spl :=
  mkOptions w le [] [] bw (OptimalFit default_penalties) SepAscii spl.
Example ex_optimal :
  xfill (xoo 5 LE_LF true SplHyphen) t_two = Some r_two /\
  xfill (xoo 5 LE_LF true SplHyphen) r_two = Some r_two /\
  forallb (fun l => dw xcw l <=? 5) (split_lf r_two) = true.
Proof. repeat split; vm_compute; reflexivity. Qed.

Example ex_optimal_instance : forall t r,
  Forall (fun c => c <> ESC) t ->
  xfill (xoo 5 LE_CRLF true SplHyphen) t = Some r ->
  (forall l, In l (split_crlf r) -> dw xcw l <= 5) ->
  xfill (xoo 5 LE_CRLF true SplHyphen) r = Some r.
Proof.
  intros t r.
  apply (fill_idempotent_optimal xcw xan xlbc custom3 (xoo 5 LE_CRLF true SplHyphen)
           default_penalties); try reflexivity. discriminate.
Qed.

End IdemExamples.

Print Assumptions wsl_line_S1.
Print Assumptions wsl_line_S2.
Print Assumptions wsl_line_S3.
Print Assumptions wsl_line_empty.
Print Assumptions refind_words_S1.
Print Assumptions refind_words_S2.
Print Assumptions refind_core_S3.
Print Assumptions ofit_dp_one_line.
