(* C06: both algorithms return an ordered partition, for every Num (no laws). *)
From Coq Require Import Lia.
From TW Require Import FirstFit OptFit.

Section FF.
Variable Nm : Num.
Variable A : Type.
Variable m : A -> frag Nm.

Lemma ff_loop_concat lws xs : forall done cur w,
  concat (ff_loop Nm A m lws xs done cur w) = concat (rev done) ++ rev cur ++ xs.
Proof.
  induction xs as [|x rest IH]; intros done cur w; cbn [ff_loop].
  - cbn [rev]. rewrite concat_app. cbn [concat]. now rewrite !app_nil_r.
  - destruct (_ && _).
    + rewrite IH. cbn [rev]. rewrite concat_app. cbn [concat app]. rewrite ?app_nil_r.
      now rewrite <- !app_assoc.
    + rewrite IH. cbn [rev]. now rewrite <- !app_assoc.
Qed.

Theorem first_fit_concat xs lws : concat (first_fit m xs lws) = xs.
Proof. unfold first_fit. rewrite ff_loop_concat. reflexivity. Qed.

Lemma rev_nonnil (l : list A) : l <> [] -> rev l <> [].
Proof. intros H E. apply H. rewrite <- (rev_involutive l), E. reflexivity. Qed.

Lemma ff_loop_nonempty lws xs : forall done cur w,
  Forall (fun l => l <> []) done -> (cur <> [] \/ xs <> []) ->
  Forall (fun l => l <> []) (ff_loop Nm A m lws xs done cur w).
Proof.
  induction xs as [|x rest IH]; intros done cur w Hd Hne; cbn [ff_loop].
  - apply Forall_rev. constructor; [|exact Hd].
    destruct Hne as [H|H]; [|congruence]. apply rev_nonnil; exact H.
  - destruct cur as [|c cur'].
    + rewrite andb_false_r. apply IH; [exact Hd| left; discriminate].
    + destruct (gtb _ _ _); cbn [andb].
      * apply IH; [|left; discriminate]. constructor; [|exact Hd]. apply rev_nonnil. discriminate.
      * apply IH; [exact Hd|left; discriminate].
Qed.

Theorem first_fit_nonempty xs lws : xs <> [] -> Forall (fun l => l <> []) (first_fit m xs lws).
Proof. intros H. apply ff_loop_nonempty; [constructor|right; exact H]. Qed.

Theorem first_fit_nil lws : first_fit m [] lws = [[]].
Proof. reflexivity. Qed.
End FF.

(* ---- optimal fit: the back-tracking loop ---- *)
Section OF.
Variable Nm : Num.
Variable A : Type.

(* what smawk structurally guarantees about its answer: one entry per column,
   entry 0 is (0, initial), and every later entry names a row above the diagonal
   (its macro m![row, col] asserts row < col) *)
Definition minima_ok (minima : list (nat * T Nm)) (n : nat) : Prop :=
  length minima = S n /\
  (exists c0, nth_error minima 0 = Some (0%nat, c0)) /\
  forall j p c, (1 <= j)%nat -> nth_error minima j = Some (p, c) -> (p < j)%nat.

(* rs is a chain a = s0 < e0 = s1 < e1 ... = b *)
Fixpoint chain (b a : nat) (rs : list (nat * nat)) : Prop :=
  match rs with
  | [] => a = b
  | (s, e) :: r => s = a /\ (s < e)%nat /\ chain b e r
  end.

Lemma chain_snoc b b' : forall rs a, chain b a rs -> (b < b')%nat -> chain b' a (rs ++ [(b, b')]).
Proof.
  induction rs as [|[s e] r IH]; intros a H Hlt; cbn [chain app] in *.
  - subst a. repeat split; lia.
  - destruct H as [Hs [Hse Hr]]. repeat split; auto.
Qed.

Lemma backtrack_chain minima n :
  minima_ok minima n ->
  forall fuel pos acc, (1 <= pos <= n)%nat -> (pos < fuel)%nat ->
  exists rs, backtrack Nm fuel minima pos acc = Some (rs ++ acc) /\ chain pos 0%nat rs.
Proof.
  intros [Hlen [_ Hlt]] fuel. induction fuel as [|f IH]; intros pos acc Hpos Hf; [lia|].
  cbn [backtrack].
  destruct (nth_error minima pos) as [[prev c]|] eqn:E.
  2:{ apply nth_error_None in E. lia. }
  pose proof (Hlt pos prev c ltac:(lia) E) as Hp.
  destruct (pos <? prev)%nat eqn:Hcmp; [apply Nat.ltb_lt in Hcmp; lia|].
  destruct (prev =? 0)%nat eqn:Hz.
  - apply Nat.eqb_eq in Hz. subst prev. exists [(0%nat, pos)]. split; [reflexivity|].
    cbn. repeat split; lia.
  - apply Nat.eqb_neq in Hz.
    destruct (IH prev ((prev, pos) :: acc) ltac:(lia) ltac:(lia)) as [rs [Hrs Hch]].
    exists (rs ++ [(prev, pos)]). split.
    + rewrite Hrs. rewrite <- app_assoc. reflexivity.
    + apply chain_snoc; assumption.
Qed.

Lemma firstn_add (l : list A) : forall n k,
  firstn (n + k) l = firstn n l ++ firstn k (skipn n l).
Proof.
  induction l as [|x l IH]; intros n k.
  - rewrite !firstn_nil, skipn_nil, firstn_nil. reflexivity.
  - destruct n as [|n]; cbn [Nat.add firstn skipn app]; [reflexivity|]. rewrite IH. reflexivity.
Qed.

Lemma skipn_add (l : list A) : forall n k, skipn (n + k) l = skipn k (skipn n l).
Proof.
  induction l as [|x l IH]; intros n k.
  - rewrite !skipn_nil. reflexivity.
  - destruct n as [|n]; cbn [Nat.add skipn]; [reflexivity|]. apply IH.
Qed.

Lemma slice_split (xs : list A) a e b :
  (a <= e <= b)%nat -> slice xs a b = slice xs a e ++ slice xs e b.
Proof.
  intros H. unfold slice.
  replace (b - a)%nat with ((e - a) + (b - e))%nat by lia.
  rewrite firstn_add. f_equal. f_equal.
  rewrite <- skipn_add. f_equal. lia.
Qed.

Lemma slice_nonempty (xs : list A) a e : (a < e <= length xs)%nat -> slice xs a e <> [].
Proof.
  intros H E. apply (f_equal (@length A)) in E. unfold slice in E.
  rewrite firstn_length, skipn_length in E. cbn [length] in E. lia.
Qed.

Lemma slice_all (xs : list A) : slice xs 0 (length xs) = xs.
Proof. unfold slice. cbn [skipn]. rewrite Nat.sub_0_r. apply firstn_all. Qed.

Lemma slice_chain_concat (xs : list A) : forall rs a b,
  chain b a rs -> (b <= length xs)%nat ->
  (a <= b)%nat /\
  concat (map (fun '(s, e) => slice xs s e) rs) = slice xs a b /\
  Forall (fun l => l <> []) (map (fun '(s, e) => slice xs s e) rs).
Proof.
  induction rs as [|[s e] r IH]; intros a b Hch Hb; cbn in Hch.
  - subst b. cbn [map concat]. unfold slice. rewrite Nat.sub_diag. cbn [firstn]. repeat split; auto.
  - destruct Hch as [Hs [Hse Hr]]. subst s.
    destruct (IH e b Hr Hb) as [Hle [Hc Hne]].
    cbn [map concat]. rewrite Hc. split; [lia|]. split.
    + symmetry. apply slice_split. lia.
    + constructor; [|exact Hne]. apply slice_nonempty. lia.
Qed.

(* C06 for optimal fit: for whatever minima the oracle returns, provided they have the
   structural property smawk asserts *)
Theorem optimal_fit_with_partition (minima : list (nat * T Nm)) (xs : list A) :
  minima_ok minima (length xs) ->
  exists groups,
    optimal_fit_with minima xs = Some groups /\
    concat groups = xs /\
    (xs <> [] -> Forall (fun l => l <> []) groups) /\
    (xs = [] -> groups = [[]]).
Proof.
  intros Hok. unfold optimal_fit_with.
  destruct xs as [|x xs'] eqn:Exs.
  - destruct Hok as [_ [[c0 H0] _]]. cbn [length backtrack]. rewrite H0.
    cbn. exists [[]]. split; [reflexivity|]. split; [reflexivity|]. split; [congruence|reflexivity].
  - rewrite <- Exs in *. assert (Hn : (1 <= length xs)%nat) by (rewrite Exs; cbn; lia).
    destruct (backtrack_chain minima (length xs) Hok (S (length xs)) (length xs) [] ltac:(lia) ltac:(lia))
      as [rs [Hbt Hch]].
    rewrite Hbt, app_nil_r.
    destruct (slice_chain_concat xs rs 0%nat (length xs) Hch ltac:(lia)) as [_ [Hc Hne]].
    eexists. split; [reflexivity|]. split; [rewrite Hc; apply slice_all|].
    split; [intros _; exact Hne|]. intros E; rewrite E in Exs; discriminate.
Qed.
End OF.
