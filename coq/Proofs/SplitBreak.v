(* C12: byte slicing, split_words (hyphen splitter) and Word::break_apart. *)
From Coq Require Import Lia.
From TW Require Import Splitters.
From TW Require Import EscFacts.

Arguments N.add : simpl never.
Arguments N.sub : simpl never.
Arguments N.mul : simpl never.
Arguments N.leb : simpl never.
Arguments N.ltb : simpl never.
Arguments N.eqb : simpl never.

(* ================================================================== *)
(* Part 1 : byte slicing                                               *)
(* ================================================================== *)

Lemma utf8_len_ge1 c : utf8_len c >= 1.
Proof. pose proof (utf8_len_pos c). lia. Qed.

Lemma blen_app a b : blen (a ++ b) = blen a + blen b.
Proof. induction a as [|c a IH]; cbn [app blen]; lia. Qed.

Lemma blen_nil_iff s : blen s = 0 <-> s = [].
Proof.
  split; intros H; [|subst; reflexivity].
  destruct s as [|c r]; [reflexivity|]. cbn [blen] in H. pose proof (utf8_len_pos c). lia.
Qed.

Lemma blen_pos s : s <> [] -> 0 < blen s.
Proof. intros H. destruct (N.eq_dec (blen s) 0) as [E|E]; [apply blen_nil_iff in E; contradiction|lia]. Qed.

Lemma bdrop_0 s : bdrop s 0 = Some s.
Proof. destruct s; reflexivity. Qed.

Lemma btake_0 s : btake s 0 = Some [].
Proof. destruct s; reflexivity. Qed.

Lemma bdrop_nil a : a <> 0 -> bdrop [] a = None.
Proof. intros H. cbn [bdrop]. destruct (N.eqb_spec a 0); [contradiction|reflexivity]. Qed.

Lemma btake_nil a : a <> 0 -> btake [] a = None.
Proof. intros H. cbn [btake]. destruct (N.eqb_spec a 0); [contradiction|reflexivity]. Qed.

Lemma bdrop_cons c r a : a <> 0 ->
  bdrop (c :: r) a = if utf8_len c <=? a then bdrop r (a - utf8_len c) else None.
Proof. intros H. cbn [bdrop]. destruct (N.eqb_spec a 0); [contradiction|reflexivity]. Qed.

Lemma btake_cons c r n : n <> 0 ->
  btake (c :: r) n =
  if utf8_len c <=? n
  then match btake r (n - utf8_len c) with Some t => Some (c :: t) | None => None end
  else None.
Proof. intros H. cbn [btake]. destruct (N.eqb_spec n 0); [contradiction|reflexivity]. Qed.

Lemma bdrop_app a b : bdrop (a ++ b) (blen a) = Some b.
Proof.
  induction a as [|c a IH]; cbn [app blen]; [apply bdrop_0|].
  pose proof (utf8_len_pos c) as Hc.
  rewrite bdrop_cons by lia.
  destruct (N.leb_spec (utf8_len c) (utf8_len c + blen a)) as [_|Hlt]; [|lia].
  replace (utf8_len c + blen a - utf8_len c) with (blen a) by lia. exact IH.
Qed.

Lemma btake_app a b : btake (a ++ b) (blen a) = Some a.
Proof.
  induction a as [|c a IH]; cbn [app blen]; [apply btake_0|].
  pose proof (utf8_len_pos c) as Hc.
  rewrite btake_cons by lia.
  destruct (N.leb_spec (utf8_len c) (utf8_len c + blen a)) as [_|Hlt]; [|lia].
  replace (utf8_len c + blen a - utf8_len c) with (blen a) by lia. rewrite IH. reflexivity.
Qed.

Lemma bslice_app a b c : bslice (a ++ b ++ c) (blen a) (blen a + blen b) = Some b.
Proof.
  unfold bslice.
  destruct (N.ltb_spec (blen a + blen b) (blen a)) as [Hlt|_]; [lia|].
  rewrite bdrop_app.
  replace (blen a + blen b - blen a) with (blen b) by lia. apply btake_app.
Qed.

Lemma bdrop_some s : forall a x, bdrop s a = Some x -> exists p, s = p ++ x /\ blen p = a.
Proof.
  induction s as [|c r IH]; intros a x H.
  - destruct (N.eq_dec a 0) as [E|E].
    + subst a. rewrite bdrop_0 in H. injection H as <-. exists []. split; reflexivity.
    + rewrite bdrop_nil in H by exact E. discriminate.
  - destruct (N.eq_dec a 0) as [E|E].
    + subst a. rewrite bdrop_0 in H. injection H as <-. exists []. split; reflexivity.
    + rewrite bdrop_cons in H by exact E.
      destruct (N.leb_spec (utf8_len c) a) as [Hle|Hlt]; [|discriminate].
      destruct (IH _ _ H) as [p [Hp Hl]]. exists (c :: p). split.
      * cbn [app]. rewrite Hp. reflexivity.
      * cbn [blen]. lia.
Qed.

Lemma btake_some s : forall n x, btake s n = Some x -> exists q, s = x ++ q /\ blen x = n.
Proof.
  induction s as [|c r IH]; intros n x H.
  - destruct (N.eq_dec n 0) as [E|E].
    + subst n. rewrite btake_0 in H. injection H as <-. exists []. split; reflexivity.
    + rewrite btake_nil in H by exact E. discriminate.
  - destruct (N.eq_dec n 0) as [E|E].
    + subst n. rewrite btake_0 in H. injection H as <-. exists (c :: r). split; reflexivity.
    + rewrite btake_cons in H by exact E.
      destruct (N.leb_spec (utf8_len c) n) as [Hle|Hlt]; [|discriminate].
      destruct (btake r (n - utf8_len c)) as [t|] eqn:Et; [|discriminate].
      injection H as <-.
      destruct (IH _ _ Et) as [q [Hq Hl]]. exists q. split.
      * cbn [app]. rewrite Hq. reflexivity.
      * cbn [blen]. lia.
Qed.

Lemma bslice_some s a b x : bslice s a b = Some x ->
  exists p q, s = p ++ x ++ q /\ blen p = a /\ blen (p ++ x) = b.
Proof.
  unfold bslice. intros H.
  destruct (N.ltb_spec b a) as [Hlt|Hle]; [discriminate|].
  destruct (bdrop s a) as [r|] eqn:Ed; [|discriminate].
  destruct (bdrop_some _ _ _ Ed) as [p [Hp Hlp]].
  destruct (btake_some _ _ _ H) as [q [Hq Hlx]].
  exists p, q. split; [rewrite Hp, Hq; reflexivity|]. split; [exact Hlp|].
  rewrite blen_app. lia.
Qed.

(* a prefix is determined by its byte length *)
Lemma blen_prefix_unique p : forall q p' q',
  p ++ q = p' ++ q' -> blen p = blen p' -> p = p' /\ q = q'.
Proof.
  induction p as [|c p IH]; intros q p' q' H Hl.
  - cbn [blen] in Hl. symmetry in Hl. apply blen_nil_iff in Hl. subst p'. split; [reflexivity|exact H].
  - destruct p' as [|c' p'].
    + cbn [blen] in Hl. pose proof (utf8_len_pos c). lia.
    + cbn [app] in H. injection H as Hc Ht. subst c'. cbn [blen] in Hl.
      destruct (IH q p' q' Ht) as [E1 E2]; [lia|]. subst. split; reflexivity.
Qed.

(* the converses, in the form used by clients *)
Lemma bdrop_eq s p x : s = p ++ x -> bdrop s (blen p) = Some x.
Proof. intros ->. apply bdrop_app. Qed.

Lemma btake_eq s x q : s = x ++ q -> btake s (blen x) = Some x.
Proof. intros ->. apply btake_app. Qed.

Lemma bslice_eq s p x q a b :
  s = p ++ x ++ q -> blen p = a -> blen (p ++ x) = b -> bslice s a b = Some x.
Proof. intros -> <- <-. rewrite blen_app. apply bslice_app. Qed.

Lemma bdrop_blen s : bdrop s (blen s) = Some [].
Proof. rewrite <- (app_nil_r s) at 1. apply bdrop_app. Qed.

Example bslice_ex : bslice [97; 233; 8364; 98] 1 6 = Some [233; 8364]. Proof. reflexivity. Qed.
Example bslice_ex_panic : bslice [97; 233; 8364; 98] 2 6 = None. Proof. reflexivity. Qed.

(* ================================================================== *)
(* generic list predicates                                             *)
(* ================================================================== *)

(* P holds of every element except possibly the last *)
Fixpoint allbutlast {A} (P : A -> Prop) (l : list A) : Prop :=
  match l with
  | [] => True
  | x :: r => match r with [] => True | _ :: _ => P x /\ allbutlast P r end
  end.

Lemma allbutlast_cons {A} (P : A -> Prop) x r :
  r <> [] -> P x -> allbutlast P r -> allbutlast P (x :: r).
Proof. intros Hne Hx Hr. destruct r as [|y r]; [contradiction|]. split; assumption. Qed.

Lemma allbutlast_app {A} (P : A -> Prop) l1 : forall l2,
  allbutlast P (l1 ++ l2) -> l2 <> [] -> Forall P l1.
Proof.
  induction l1 as [|x l1 IH]; intros l2 H Hne; [constructor|].
  cbn [app allbutlast] in H. destruct (l1 ++ l2) as [|y r] eqn:E.
  - destruct l1; destruct l2; try discriminate; contradiction.
  - destruct H as [Hx Hr]. constructor; [exact Hx|]. apply (IH l2); [|exact Hne].
    rewrite E. exact Hr.
Qed.

(* R holds of every two consecutive elements *)
Fixpoint adj {A} (R : A -> A -> Prop) (l : list A) : Prop :=
  match l with
  | [] => True
  | a :: r => match r with [] => True | b :: _ => R a b /\ adj R r end
  end.

Lemma adj_spec {A} (R : A -> A -> Prop) l1 : forall l a b l2,
  adj R l -> l = l1 ++ a :: b :: l2 -> R a b.
Proof.
  induction l1 as [|x l1 IH]; intros l a b l2 H E; subst l.
  - cbn [app adj] in H. exact (proj1 H).
  - cbn [app] in H. apply (IH (l1 ++ a :: b :: l2) a b l2); [|reflexivity].
    cbn [adj] in H. destruct (l1 ++ a :: b :: l2) as [|y r] eqn:E.
    + destruct l1; discriminate.
    + exact (proj2 H).
Qed.

(* ================================================================== *)
(* Part 3 : Word::break_apart and break_words                          *)
(* ================================================================== *)

Lemma step_vis s c s' : step s c = (s', true) -> s = Normal /\ s' = Normal /\ c <> ESC.
Proof.
  intros H. destruct s as [| | |l]; cbn [step] in H.
  - destruct (N.eqb_spec c ESC) as [E|E]; [discriminate|]. injection H as <-. auto.
  - destruct (c =? LBRACK); [discriminate|]. destruct (c =? RBRACK); discriminate.
  - destruct (is_final c); discriminate.
  - destruct ((c =? BEL) || ((c =? BSLASH) && l)); discriminate.
Qed.

Lemma step_normal_vis c : c <> ESC -> step Normal c = (Normal, true).
Proof. intros H. cbn [step]. rewrite (neqb_false _ _ H). reflexivity. Qed.

Section Break.
Variable cw : char -> N.
Variable lim : N.

(* number of visible characters of non-zero width *)
Definition nzv (t : str) : nat := length (filter (fun c => 0 <? cw c) (strip t)).

(* running the break_apart loop over [t] (from state [s], current width [width])
   never triggers the cut condition *)
Fixpoint nocut (s : st) (t : str) (width : N) : Prop :=
  match t with
  | [] => True
  | c :: r =>
      let '(s', v) := step s c in
      if v then (0 <? width) && (lim <? width + cw c) = false /\ nocut s' r (width + cw c)
      else nocut s' r width
  end.

Lemma nocut_app a : forall s b w,
  nocut s (a ++ b) w <-> nocut s a w /\ nocut (final_state s a) b (w + dw_from cw s a).
Proof.
  induction a as [|c a IH]; intros s b w; cbn [app nocut final_state dw_from].
  - rewrite N.add_0_r. tauto.
  - destruct (step s c) as [s' v]. cbn [fst]. destruct v.
    + rewrite IH. replace (w + cw c + dw_from cw s' a) with (w + (cw c + dw_from cw s' a)) by lia.
      tauto.
    + rewrite IH. rewrite N.add_0_l. tauto.
Qed.

Lemma ba_loop_nocut t : forall s cur w, nocut s t w ->
  ba_loop cw lim s t cur w =
  match rev cur ++ t with [] => [] | _ :: _ => [(rev cur ++ t, w + dw_from cw s t)] end.
Proof.
  induction t as [|c t IH]; intros s cur w H.
  - cbn [ba_loop dw_from]. rewrite app_nil_r, N.add_0_r.
    destruct cur as [|x cur']; [reflexivity|].
    destruct (rev (x :: cur')) as [|y r] eqn:E; [|reflexivity].
    cbn [rev] in E. destruct (rev cur'); discriminate.
  - cbn [ba_loop nocut dw_from] in *. destruct (step s c) as [s' v]. destruct v.
    + destruct H as [Hc Hn]. rewrite Hc. rewrite (IH _ _ _ Hn). cbn [rev].
      rewrite <- app_assoc. cbn [app]. rewrite N.add_assoc. reflexivity.
    + rewrite (IH _ _ _ H). cbn [rev]. rewrite <- app_assoc. cbn [app].
      rewrite N.add_0_l. reflexivity.
Qed.

Lemma sum_cw_0 v : sum_cw cw v = 0 -> filter (fun c => 0 <? cw c) v = [].
Proof.
  induction v as [|c v IH]; intros H; [reflexivity|].
  cbn [sum_cw fold_right] in H. fold (sum_cw cw v) in H. cbn [filter].
  destruct (N.ltb_spec 0 (cw c)) as [Hlt|Hge]; [lia|]. apply IH. lia.
Qed.

Lemma dw_0_nzv t : dw cw t = 0 -> nzv t = 0%nat.
Proof. intros H. unfold nzv. rewrite dw_strip in H. rewrite (sum_cw_0 _ H). reflexivity. Qed.

Lemma nzv_snoc a c s' v : step (final_state Normal a) c = (s', v) ->
  nzv (a ++ [c]) = Nat.add (nzv a) (if v then if 0 <? cw c then 1%nat else 0%nat else 0%nat).
Proof.
  intros H. unfold nzv, strip. rewrite strip_from_app. cbn [strip_from]. rewrite H.
  rewrite filter_app, app_length. destruct v; cbn [filter]; [|reflexivity].
  destruct (0 <? cw c); reflexivity.
Qed.

Lemma dw_snoc a c s' v : step (final_state Normal a) c = (s', v) ->
  dw cw (a ++ [c]) = dw cw a + (if v then cw c else 0).
Proof.
  intros H. unfold dw. rewrite dw_from_app. cbn [dw_from]. rewrite H. lia.
Qed.

(* the loop invariant: [cur] is the current piece reversed *)
Definition Inv (s : st) (cur : str) (w : N) : Prop :=
  final_state Normal (rev cur) = s /\ w = dw cw (rev cur) /\
  nocut Normal (rev cur) 0 /\ (w <= lim \/ nzv (rev cur) = 1%nat).

(* what we know of every emitted (text, width) pair *)
Definition good (p : str * N) : Prop :=
  fst p <> [] /\ snd p = dw cw (fst p) /\
  nocut Normal (fst p) 0 /\ (snd p <= lim \/ nzv (fst p) = 1%nat).

Lemma Inv_init : Inv Normal [] 0.
Proof. unfold Inv. cbn [rev final_state nocut]. repeat split. left. lia. Qed.

Lemma Inv_invis s cur w c s' : Inv s cur w -> step s c = (s', false) -> Inv s' (c :: cur) w.
Proof.
  intros (H1 & H2 & H3 & H4) Hs. unfold Inv. cbn [rev].
  assert (Hs' : step (final_state Normal (rev cur)) c = (s', false)) by (rewrite H1; exact Hs).
  split; [|split; [|split]].
  - rewrite final_state_app, H1. cbn [final_state]. rewrite Hs. reflexivity.
  - rewrite (dw_snoc _ _ _ _ Hs'). lia.
  - apply nocut_app. split; [exact H3|]. rewrite H1. cbn [nocut]. rewrite Hs. exact I.
  - rewrite (nzv_snoc _ _ _ _ Hs'). rewrite Nat.add_0_r. exact H4.
Qed.

Lemma Inv_keep s cur w c s' : Inv s cur w -> step s c = (s', true) ->
  (0 <? w) && (lim <? w + cw c) = false -> Inv s' (c :: cur) (w + cw c).
Proof.
  intros (H1 & H2 & H3 & H4) Hs Hc. unfold Inv. cbn [rev].
  assert (Hs' : step (final_state Normal (rev cur)) c = (s', true)) by (rewrite H1; exact Hs).
  split; [|split; [|split]].
  - rewrite final_state_app, H1. cbn [final_state]. rewrite Hs. reflexivity.
  - rewrite (dw_snoc _ _ _ _ Hs'). lia.
  - apply nocut_app. split; [exact H3|]. rewrite H1. cbn [nocut]. rewrite Hs.
    split; [|exact I]. rewrite N.add_0_l. unfold dw in H2. rewrite <- H2. exact Hc.
  - rewrite (nzv_snoc _ _ _ _ Hs').
    destruct (N.ltb_spec 0 w) as [Hpos|Hz].
    + cbn [andb] in Hc. destruct (N.ltb_spec lim (w + cw c)) as [Hlt|Hle]; [discriminate|].
      left. exact Hle.
    + assert (Hw : dw cw (rev cur) = 0) by lia. rewrite (dw_0_nzv _ Hw).
      destruct (N.ltb_spec 0 (cw c)) as [Hcpos|Hcz]; [right; reflexivity|left; lia].
Qed.

Lemma Inv_cut s c s' : step s c = (s', true) -> Inv s' [c] (cw c).
Proof.
  intros Hs. destruct (step_vis _ _ _ Hs) as (-> & -> & Hc).
  unfold Inv. cbn [rev app]. split; [|split; [|split]].
  - cbn [final_state]. rewrite Hs. reflexivity.
  - unfold dw. cbn [dw_from]. rewrite Hs. lia.
  - cbn [nocut]. rewrite Hs. split; [reflexivity|exact I].
  - unfold nzv, strip. cbn [strip_from]. rewrite Hs. cbn [filter].
    destruct (N.ltb_spec 0 (cw c)) as [Hpos|Hz]; [right; reflexivity|left; lia].
Qed.

Lemma Inv_good s cur w : Inv s cur w -> cur <> [] -> good (rev cur, w).
Proof.
  intros (H1 & H2 & H3 & H4) Hne. unfold good. cbn [fst snd].
  split; [|auto]. intros E. apply Hne. rewrite <- (rev_involutive cur), E. reflexivity.
Qed.

Lemma Inv_pos_nonnil s cur w : Inv s cur w -> 0 < w -> cur <> [].
Proof. intros (_ & H2 & _) Hpos E. subst cur. cbn in H2. lia. Qed.

(* ---- the loop ---- *)

Lemma ba_loop_concat t : forall s cur w,
  concat (map fst (ba_loop cw lim s t cur w)) = rev cur ++ t.
Proof.
  induction t as [|c t IH]; intros s cur w; cbn [ba_loop].
  - rewrite app_nil_r. destruct cur as [|x cur']; [reflexivity|].
    cbn [map fst concat]. rewrite app_nil_r. reflexivity.
  - destruct (step s c) as [s' v]. destruct v; [destruct ((0 <? w) && (lim <? w + cw c))|].
    + cbn [map fst concat]. rewrite IH. reflexivity.
    + rewrite IH. cbn [rev]. rewrite <- app_assoc. reflexivity.
    + rewrite IH. cbn [rev]. rewrite <- app_assoc. reflexivity.
Qed.

Lemma ba_loop_nil_iff t : forall s cur w,
  ba_loop cw lim s t cur w = [] <-> cur = [] /\ t = [].
Proof.
  induction t as [|c t IH]; intros s cur w; cbn [ba_loop].
  - destruct cur as [|x cur']; split; intros H; auto; try discriminate.
    destruct H; discriminate.
  - destruct (step s c) as [s' v]. destruct v; [destruct ((0 <? w) && (lim <? w + cw c))|].
    + split; [discriminate|]. intros [_ H]; discriminate.
    + rewrite IH. split; intros [H1 H2]; discriminate.
    + rewrite IH. split; intros [H1 H2]; discriminate.
Qed.

Lemma ba_loop_head t : forall s cur w, cur <> [] ->
  exists m w' rest, ba_loop cw lim s t cur w = (rev cur ++ m, w') :: rest.
Proof.
  induction t as [|c t IH]; intros s cur w Hne; cbn [ba_loop].
  - destruct cur as [|x cur']; [contradiction|]. exists [], w, []. rewrite app_nil_r. reflexivity.
  - destruct (step s c) as [s' v]. destruct v; [destruct ((0 <? w) && (lim <? w + cw c))|].
    + exists [], w. eexists. rewrite app_nil_r. reflexivity.
    + destruct (IH s' (c :: cur) (w + cw c)) as (m & w' & rest & E); [discriminate|].
      exists (c :: m), w', rest. rewrite E. cbn [rev]. rewrite <- app_assoc. reflexivity.
    + destruct (IH s' (c :: cur) w) as (m & w' & rest & E); [discriminate|].
      exists (c :: m), w', rest. rewrite E. cbn [rev]. rewrite <- app_assoc. reflexivity.
Qed.

Lemma ba_loop_good t : forall s cur w, Inv s cur w ->
  Forall good (ba_loop cw lim s t cur w).
Proof.
  induction t as [|c t IH]; intros s cur w HI; cbn [ba_loop].
  - destruct cur as [|x cur']; [constructor|]. constructor; [|constructor].
    apply (Inv_good _ _ _ HI). discriminate.
  - destruct (step s c) as [s' v] eqn:Hs. destruct v;
      [destruct ((0 <? w) && (lim <? w + cw c)) eqn:Hc|].
    + apply andb_prop in Hc. destruct Hc as [Hpos _]. apply N.ltb_lt in Hpos.
      constructor.
      * apply (Inv_good _ _ _ HI). exact (Inv_pos_nonnil _ _ _ HI Hpos).
      * apply IH. exact (Inv_cut _ _ _ Hs).
    + apply IH. exact (Inv_keep _ _ _ _ _ HI Hs Hc).
    + apply IH. exact (Inv_invis _ _ _ _ _ HI Hs).
Qed.

Lemma ba_loop_abl t : forall s cur w, Inv s cur w ->
  allbutlast (fun p => final_state Normal (fst p) = Normal) (ba_loop cw lim s t cur w).
Proof.
  induction t as [|c t IH]; intros s cur w HI; cbn [ba_loop].
  - destruct cur as [|x cur']; exact I.
  - destruct (step s c) as [s' v] eqn:Hs. destruct v;
      [destruct ((0 <? w) && (lim <? w + cw c)) eqn:Hc|].
    + apply allbutlast_cons.
      * intros E. apply ba_loop_nil_iff in E. destruct E; discriminate.
      * cbn [fst]. destruct HI as (H1 & _). rewrite H1.
        exact (proj1 (step_vis _ _ _ Hs)).
      * apply IH. exact (Inv_cut _ _ _ Hs).
    + apply IH. exact (Inv_keep _ _ _ _ _ HI Hs Hc).
    + apply IH. exact (Inv_invis _ _ _ _ _ HI Hs).
Qed.

(* consecutive pieces: the first is non-empty in width, the second starts with a
   visible character that did not fit *)
Definition maxrel (p q : str * N) : Prop :=
  0 < snd p /\ exists c r, fst q = c :: r /\ c <> ESC /\ lim < snd p + cw c.

Lemma ba_loop_adj t : forall s cur w, Inv s cur w ->
  adj maxrel (ba_loop cw lim s t cur w).
Proof.
  induction t as [|c t IH]; intros s cur w HI; cbn [ba_loop].
  - destruct cur as [|x cur']; exact I.
  - destruct (step s c) as [s' v] eqn:Hs. destruct v;
      [destruct ((0 <? w) && (lim <? w + cw c)) eqn:Hc|].
    + specialize (IH s' [c] (cw c) (Inv_cut _ _ _ Hs)).
      destruct (ba_loop_head t s' [c] (cw c)) as (m & w' & rest & E); [discriminate|].
      rewrite E in *. cbn [rev app] in *. split; [|exact IH].
      apply andb_prop in Hc. destruct Hc as [Hpos Hlt].
      apply N.ltb_lt in Hpos. apply N.ltb_lt in Hlt.
      split; [exact Hpos|]. exists c, m. cbn [fst snd].
      split; [reflexivity|]. split; [exact (proj2 (proj2 (step_vis _ _ _ Hs)))|exact Hlt].
    + apply IH. exact (Inv_keep _ _ _ _ _ HI Hs Hc).
    + apply IH. exact (Inv_invis _ _ _ _ _ HI Hs).
Qed.

(* ---- ba_finish ---- *)

Lemma ba_finish_cons2 p w q r ws pen :
  ba_finish ((p, w) :: q :: r) ws pen = mkWord p [] [] w :: ba_finish (q :: r) ws pen.
Proof. reflexivity. Qed.

Lemma ba_finish_hd q wq r ws pen :
  exists ws' pen' rest, ba_finish ((q, wq) :: r) ws pen = mkWord q ws' pen' wq :: rest.
Proof. destruct r as [|x r]; do 3 eexists; reflexivity. Qed.

Lemma map_word_ba_finish ps ws pen : map w_word (ba_finish ps ws pen) = map fst ps.
Proof.
  induction ps as [|[p w] r IH]; [reflexivity|]. destruct r as [|q r]; [reflexivity|].
  rewrite ba_finish_cons2, map_cons, IH. reflexivity.
Qed.

Lemma ba_finish_nil_iff ps ws pen : ba_finish ps ws pen = [] <-> ps = [].
Proof.
  split; intros H; [|subst; reflexivity]. destruct ps as [|[p w] r]; [reflexivity|].
  destruct (ba_finish_hd p w r ws pen) as (a & b & c & E). rewrite E in H. discriminate.
Qed.

Lemma ba_finish_Forall (P : str -> N -> Prop) ps ws pen :
  Forall (fun p => P (fst p) (snd p)) ps ->
  Forall (fun w => P (w_word w) (w_width w)) (ba_finish ps ws pen).
Proof.
  induction ps as [|[p w] r IH]; intros H; [constructor|].
  inversion H as [|x l Hx Hr]; subst. destruct r as [|q r].
  - constructor; [exact Hx|constructor].
  - rewrite ba_finish_cons2. constructor; [exact Hx|]. apply IH. exact Hr.
Qed.

Lemma ba_finish_allbutlast (P : str -> Prop) ps ws pen :
  allbutlast (fun p => P (fst p)) ps ->
  allbutlast (fun w => P (w_word w)) (ba_finish ps ws pen).
Proof.
  induction ps as [|[p w] r IH]; intros H; [exact I|].
  destruct r as [|[q wq] r]; [exact I|]. destruct H as [H1 H2].
  rewrite ba_finish_cons2. specialize (IH H2).
  destruct (ba_finish_hd q wq r ws pen) as (a & b & c & E). rewrite E in *.
  split; [exact H1|exact IH].
Qed.

Lemma ba_finish_adj (R : str -> N -> str -> N -> Prop) ps ws pen :
  adj (fun a b => R (fst a) (snd a) (fst b) (snd b)) ps ->
  adj (fun a b => R (w_word a) (w_width a) (w_word b) (w_width b)) (ba_finish ps ws pen).
Proof.
  induction ps as [|[p w] r IH]; intros H; [exact I|].
  destruct r as [|[q wq] r]; [exact I|]. destruct H as [H1 H2].
  rewrite ba_finish_cons2. specialize (IH H2).
  destruct (ba_finish_hd q wq r ws pen) as (a & b & c & E). rewrite E in *.
  split; [exact H1|exact IH].
Qed.

Lemma ba_finish_ws_pen ps ws pen : forall init l,
  ba_finish ps ws pen = init ++ [l] ->
  Forall (fun p => w_ws p = [] /\ w_pen p = []) init /\ w_ws l = ws /\ w_pen l = pen.
Proof.
  induction ps as [|[p w] r IH]; intros init l H.
  - destruct init; discriminate.
  - destruct r as [|q r].
    + cbn [ba_finish] in H. destruct init as [|x init].
      * injection H as <-. split; [constructor|split; reflexivity].
      * injection H as _ H. destruct init; discriminate.
    + rewrite ba_finish_cons2 in H. destruct init as [|x init].
      * injection H as _ H. apply (proj1 (ba_finish_nil_iff (q :: r) ws pen)) in H. discriminate.
      * injection H as <- H. destruct (IH _ _ H) as [Hf Hl].
        split; [|exact Hl]. constructor; [split; reflexivity|exact Hf].
Qed.

(* ---- theorems about break_apart ---- *)

Theorem break_apart_concat wd : concat (map w_word (break_apart cw lim wd)) = w_word wd.
Proof. unfold break_apart. rewrite map_word_ba_finish, ba_loop_concat. reflexivity. Qed.

Theorem break_apart_nil_iff wd : break_apart cw lim wd = [] <-> w_word wd = [].
Proof.
  unfold break_apart. rewrite ba_finish_nil_iff, ba_loop_nil_iff. tauto.
Qed.

Theorem break_apart_nonempty wd :
  Forall (fun p => w_word p <> []) (break_apart cw lim wd).
Proof.
  unfold break_apart. apply (ba_finish_Forall (fun t _ => t <> [])).
  eapply Forall_impl; [|apply ba_loop_good; exact Inv_init].
  intros p Hp. exact (proj1 Hp).
Qed.

(* every piece but the last has empty whitespace and penalty; the last has wd's *)
Theorem break_apart_ws_pen wd init l : break_apart cw lim wd = init ++ [l] ->
  Forall (fun p => w_ws p = [] /\ w_pen p = []) init /\ w_ws l = w_ws wd /\ w_pen l = w_pen wd.
Proof. apply ba_finish_ws_pen. Qed.

(* every piece but the last leaves the escape machine at top level ... *)
Theorem break_apart_pieces_normal wd :
  allbutlast (fun p => final_state Normal (w_word p) = Normal) (break_apart cw lim wd).
Proof.
  unfold break_apart. apply (ba_finish_allbutlast (fun t => final_state Normal t = Normal)).
  apply ba_loop_abl. exact Inv_init.
Qed.

Lemma final_state_concat_normal l :
  Forall (fun t => final_state Normal t = Normal) l -> final_state Normal (concat l) = Normal.
Proof.
  induction 1 as [|t l Ht _ IH]; [reflexivity|]. cbn [concat]. rewrite final_state_app, Ht. exact IH.
Qed.

(* ... hence no cut falls inside an escape sequence *)
Theorem break_apart_no_cut_in_escape wd ps1 ps2 :
  break_apart cw lim wd = ps1 ++ ps2 -> ps2 <> [] ->
  final_state Normal (concat (map w_word ps1)) = Normal.
Proof.
  intros E Hne. pose proof (break_apart_pieces_normal wd) as H. rewrite E in H.
  apply final_state_concat_normal. apply Forall_map.
  exact (allbutlast_app _ _ _ H Hne).
Qed.

Theorem break_apart_width wd :
  Forall (fun p => w_width p = dw cw (w_word p)) (break_apart cw lim wd).
Proof.
  unfold break_apart. apply (ba_finish_Forall (fun t w => w = dw cw t)).
  eapply Forall_impl; [|apply ba_loop_good; exact Inv_init].
  intros p Hp. exact (proj1 (proj2 Hp)).
Qed.

Theorem break_apart_bound wd :
  Forall (fun p => w_width p <= lim \/ nzv (w_word p) = 1%nat) (break_apart cw lim wd).
Proof.
  unfold break_apart. apply (ba_finish_Forall (fun t w => w <= lim \/ nzv t = 1%nat)).
  eapply Forall_impl; [|apply ba_loop_good; exact Inv_init].
  intros p Hp. exact (proj2 (proj2 (proj2 Hp))).
Qed.

(* maximality: the piece after [p] starts with a visible character [c] (so it is also
   the first character of the stripped text) that would have pushed [p] over the limit *)
Theorem break_apart_maximal wd l1 p q l2 :
  break_apart cw lim wd = l1 ++ p :: q :: l2 ->
  0 < w_width p /\
  exists c r, w_word q = c :: r /\ c <> ESC /\ hd_error (strip (w_word q)) = Some c /\
              lim < w_width p + cw c.
Proof.
  intros E.
  pose proof (ba_finish_adj
    (fun _ wp tq _ => 0 < wp /\ exists c r, tq = c :: r /\ c <> ESC /\ lim < wp + cw c)
    (ba_loop cw lim Normal (w_word wd) [] 0) (w_ws wd) (w_pen wd)
    (ba_loop_adj _ _ _ _ Inv_init)) as H.
  fold (break_apart cw lim wd) in H.
  destruct (adj_spec _ _ _ _ _ _ H E) as (Hpos & c & r & Hq & Hc & Hlt).
  split; [exact Hpos|]. exists c, r. split; [exact Hq|]. split; [exact Hc|]. split; [|exact Hlt].
  rewrite Hq. unfold strip. cbn [strip_from]. rewrite (step_normal_vis _ Hc). reflexivity.
Qed.

(* every piece is a fixed point of break_apart (in particular the over-wide ones) *)
Theorem break_apart_idem wd p :
  In p (break_apart cw lim wd) -> break_apart cw lim p = [p].
Proof.
  intros Hin.
  assert (Hg : Forall (fun p => w_word p <> [] /\ w_width p = dw cw (w_word p) /\
                                nocut Normal (w_word p) 0) (break_apart cw lim wd)).
  { unfold break_apart.
    apply (ba_finish_Forall (fun t w => t <> [] /\ w = dw cw t /\ nocut Normal t 0)).
    eapply Forall_impl; [|apply ba_loop_good; exact Inv_init].
    intros x (H1 & H2 & H3 & _). auto. }
  rewrite Forall_forall in Hg. destruct (Hg _ Hin) as (Hne & Hw & Hn).
  unfold break_apart. rewrite (ba_loop_nocut _ _ [] _ Hn). cbn [rev app].
  destruct p as [t ws pen w]. cbn [w_word w_ws w_pen w_width] in *.
  destruct t as [|c t]; [contradiction|]. cbn [ba_finish]. rewrite N.add_0_l.
  unfold dw in Hw. rewrite <- Hw. reflexivity.
Qed.

Corollary break_apart_idem_wide wd p :
  In p (break_apart cw lim wd) -> lim < w_width p -> break_apart cw lim p = [p].
Proof. intros H _. exact (break_apart_idem wd p H). Qed.

Theorem break_words_small wd : w_width wd <= lim -> break_words cw lim [wd] = [wd].
Proof.
  intros H. unfold break_words. cbn [flat_map].
  destruct (N.ltb_spec lim (w_width wd)) as [Hlt|_]; [lia|]. reflexivity.
Qed.

Theorem break_words_app a b :
  break_words cw lim (a ++ b) = break_words cw lim a ++ break_words cw lim b.
Proof. unfold break_words. apply flat_map_app. Qed.

End Break.

(* ================================================================== *)
(* Part 2 : split_words                                                *)
(* ================================================================== *)

(* [o] is the byte length of a proper non-empty prefix of [w] *)
Definition proper_cut (w : str) (o : N) : Prop :=
  exists p q, w = p ++ q /\ blen p = o /\ p <> [] /\ q <> [].

(* a VALID split-point list: strictly increasing, every point a proper cut *)
Definition valid_pts (w : str) (pts : list N) : Prop :=
  adj N.lt pts /\ Forall (proper_cut w) pts.

Fixpoint incr_from (prev : N) (pts : list N) : Prop :=
  match pts with [] => True | o :: r => prev < o /\ incr_from o r end.

Lemma incr_from_weaken a b l : a <= b -> incr_from b l -> incr_from a l.
Proof.
  destruct l as [|o r]; cbn [incr_from]; [auto|]. intros H [H1 H2]. split; [lia|exact H2].
Qed.

Lemma incr_from_adj l : forall prev, incr_from prev l -> adj N.lt l.
Proof.
  induction l as [|o r IH]; intros prev H; [exact I|]. destruct H as [_ H].
  destruct r as [|o' r]; [exact I|]. split; [exact (proj1 H)|exact (IH _ H)].
Qed.

Lemma adj_incr_from l : forall prev,
  adj N.lt l -> match l with [] => True | o :: _ => prev < o end -> incr_from prev l.
Proof.
  induction l as [|o r IH]; intros prev Ha Hh; [exact I|]. split; [exact Hh|].
  apply IH; destruct r as [|o' r]; try exact I; [exact (proj2 Ha)|exact (proj1 Ha)].
Qed.

Lemma proper_cut_pos w o : proper_cut w o -> 0 < o.
Proof. intros (p & q & _ & Hl & Hp & _). rewrite <- Hl. apply blen_pos. exact Hp. Qed.

Lemma proper_cut_lt w o : proper_cut w o -> o < blen w.
Proof.
  intros (p & q & -> & Hl & _ & Hq). rewrite blen_app, Hl. pose proof (blen_pos _ Hq). lia.
Qed.

Lemma valid_incr w pts : valid_pts w pts -> incr_from 0 pts.
Proof.
  intros [Ha Hf]. apply adj_incr_from; [exact Ha|]. destruct pts as [|o r]; [exact I|].
  inversion Hf as [|x l Hx _]; subst. exact (proper_cut_pos _ _ Hx).
Qed.

(* cumulative byte lengths of a list of pieces, starting from [acc] *)
Fixpoint cum (acc : N) (l : list str) : list N :=
  match l with [] => [] | x :: r => (acc + blen x) :: cum (acc + blen x) r end.

Lemma cum_app a : forall acc b,
  cum acc (a ++ b) = cum acc a ++ cum (acc + blen (concat a)) b.
Proof.
  induction a as [|x a IH]; intros acc b; cbn [app cum concat blen].
  - rewrite N.add_0_r. reflexivity.
  - rewrite IH, blen_app, N.add_assoc. reflexivity.
Qed.

Lemma cum_nil_inv acc l : cum acc l = [] -> l = [].
Proof. destruct l; [reflexivity|discriminate]. Qed.

Lemma cum_length acc l : length (cum acc l) = length l.
Proof. revert acc; induction l as [|x l IH]; intros acc; cbn [cum length]; [reflexivity|]. rewrite IH. reflexivity. Qed.

Lemma prefix_split pre : forall rest p q,
  p ++ q = pre ++ rest -> blen pre <= blen p -> exists x, p = pre ++ x /\ rest = x ++ q.
Proof.
  induction pre as [|c pre IH]; intros rest p q H Hl.
  - exists p. split; [reflexivity|]. symmetry. exact H.
  - destruct p as [|c' p].
    + cbn [blen] in Hl. pose proof (utf8_len_pos c). lia.
    + cbn [app] in H. injection H as -> H. cbn [blen] in Hl.
      destruct (IH rest p q H) as [x [E1 E2]]; [lia|]. exists x. split; [|exact E2].
      cbn [app]. rewrite E1. reflexivity.
Qed.

(* valid points are exactly the cumulative lengths of a decomposition into
   non-empty pieces followed by a non-empty last piece *)
Lemma valid_decomp pts : forall pre rest,
  incr_from (blen pre) pts -> Forall (proper_cut (pre ++ rest)) pts ->
  exists xs last, rest = concat xs ++ last /\ cum (blen pre) xs = pts /\
                  Forall (fun x => x <> []) xs /\ (pts <> [] -> last <> []).
Proof.
  induction pts as [|o r IH]; intros pre rest Hi Hf.
  - exists [], rest. repeat split; [constructor|]. intros H; contradiction.
  - destruct Hi as [Hlt Hi]. inversion Hf as [|x0 l0 Ho Hr]; subst.
    destruct Ho as (p & q & Hpq & Hl & Hp & Hq). symmetry in Hpq.
    destruct (prefix_split pre rest p q Hpq) as [x [Ep Er]]; [lia|].
    assert (Hx : x <> []).
    { intros ->. rewrite app_nil_r in Ep. subst p. lia. }
    rewrite <- Hpq in Hr. rewrite <- Hl in Hi.
    destruct (IH p q Hi Hr) as (xs & last & E1 & E2 & E3 & E4).
    exists (x :: xs), last. split; [|split; [|split]].
    + cbn [concat]. rewrite <- app_assoc, <- E1. exact Er.
    + cbn [cum]. rewrite <- blen_app, <- Ep, E2, Hl. reflexivity.
    + constructor; assumption.
    + intros _. destruct r as [|o' r'].
      * apply cum_nil_inv in E2. subst xs. cbn [concat app] in E1. subst last. exact Hq.
      * apply E4. discriminate.
Qed.

Section Split.
Variable cw : char -> N.

(* what sw_loop produces for the decomposition  pre ++ x1 ++ ... ++ xn ++ last *)
Fixpoint sw_spec (wd : word) (pre : str) (xs : list str) (last : str) : list word :=
  match xs with
  | [] => [mkWord last (w_ws wd) (w_pen wd) (dw cw last)]
  | x :: r =>
      mkWord x [] (if ends_with (pre ++ x) [HY] then [] else [HY]) (dw cw x)
      :: sw_spec wd (pre ++ x) r last
  end.

Lemma sw_loop_spec wd xs : forall pre last,
  w_word wd = pre ++ concat xs ++ last ->
  (last <> [] \/ blen (pre ++ concat xs) = 0) ->
  sw_loop cw wd (cum (blen pre) xs) (blen pre) = Some (sw_spec wd pre xs last).
Proof.
  induction xs as [|x r IH]; intros pre last Hw Hl.
  - cbn [cum sw_loop sw_spec]. cbn [concat app] in Hw. cbn [concat] in Hl.
    rewrite app_nil_r in Hl. rewrite (bdrop_eq _ _ _ Hw).
    assert (Hc : (blen pre <? blen (w_word wd)) || (blen pre =? 0) = true).
    { apply orb_true_iff. destruct Hl as [Hl|Hl].
      - left. apply N.ltb_lt. rewrite Hw, blen_app. pose proof (blen_pos _ Hl). lia.
      - right. apply N.eqb_eq. exact Hl. }
    rewrite Hc. reflexivity.
  - cbn [cum sw_loop sw_spec]. cbn [concat] in Hw, Hl. rewrite <- blen_app.
    rewrite (bslice_eq (w_word wd) [] (pre ++ x) (concat r ++ last) 0 (blen (pre ++ x)));
      [|cbn [app]; rewrite Hw, <- !app_assoc; reflexivity|reflexivity|reflexivity].
    rewrite (bslice_eq (w_word wd) pre x (concat r ++ last) (blen pre) (blen (pre ++ x)));
      [|rewrite Hw, <- !app_assoc; reflexivity|reflexivity|reflexivity].
    rewrite (IH (pre ++ x) last); [reflexivity| |].
    + rewrite Hw, <- !app_assoc. reflexivity.
    + rewrite <- app_assoc. exact Hl.
Qed.

Lemma sw_spec_words wd xs : forall pre last,
  map w_word (sw_spec wd pre xs last) = xs ++ [last].
Proof.
  induction xs as [|x r IH]; intros pre last; cbn [sw_spec map w_word app]; [reflexivity|].
  rewrite IH. reflexivity.
Qed.

Lemma sw_spec_width wd xs : forall pre last,
  Forall (fun p => w_width p = dw cw (w_word p)) (sw_spec wd pre xs last).
Proof.
  induction xs as [|x r IH]; intros pre last; cbn [sw_spec].
  - constructor; [reflexivity|constructor].
  - constructor; [reflexivity|apply IH].
Qed.

Lemma sw_spec_last wd xs : forall pre last init l,
  sw_spec wd pre xs last = init ++ [l] -> w_ws l = w_ws wd /\ w_pen l = w_pen wd.
Proof.
  induction xs as [|x r IH]; intros pre last init l H; cbn [sw_spec] in H.
  - destruct init as [|y init].
    + injection H as <-. split; reflexivity.
    + injection H as _ H. destruct init; discriminate.
  - destruct init as [|y init].
    + injection H as _ H. destruct r; discriminate.
    + injection H as _ H. exact (IH _ _ _ _ H).
Qed.

Lemma sw_spec_pen wd xs : forall pre last ps1 p ps2,
  sw_spec wd pre xs last = ps1 ++ p :: ps2 -> ps2 <> [] ->
  w_ws p = [] /\
  w_pen p = if ends_with (pre ++ concat (map w_word (ps1 ++ [p]))) [HY] then [] else [HY].
Proof.
  induction xs as [|x r IH]; intros pre last ps1 p ps2 H Hne; cbn [sw_spec] in H.
  - destruct ps1 as [|y ps1].
    + injection H as _ H. subst ps2. contradiction.
    + injection H as _ H. destruct ps1; discriminate.
  - destruct ps1 as [|y ps1].
    + injection H as <- _. cbn [app map concat w_word w_ws w_pen]. rewrite app_nil_r.
      split; reflexivity.
    + injection H as <- H. destruct (IH _ _ _ _ _ H Hne) as [E1 E2]. split; [exact E1|].
      rewrite E2. cbn [app map concat w_word]. rewrite <- app_assoc. reflexivity.
Qed.

(* Main theorem about sw_loop on a valid split-point list *)
Theorem sw_loop_valid wd pts : valid_pts (w_word wd) pts ->
  exists ps, sw_loop cw wd pts 0 = Some ps /\
    (* lossless *)
    concat (map w_word ps) = w_word wd /\
    (* cut exactly at the split points *)
    cum 0 (map w_word ps) = pts ++ [blen (w_word wd)] /\
    length ps = S (length pts) /\
    (* pieces are non-empty (unless the word itself is empty) *)
    (w_word wd <> [] -> Forall (fun p => w_word p <> []) ps) /\
    (* every piece but the last *)
    (forall ps1 p ps2, ps = ps1 ++ p :: ps2 -> ps2 <> [] ->
       w_ws p = [] /\
       w_pen p = if ends_with (concat (map w_word (ps1 ++ [p]))) [HY] then [] else [HY]) /\
    (* the last piece *)
    (forall init l, ps = init ++ [l] -> w_ws l = w_ws wd /\ w_pen l = w_pen wd) /\
    (* cached widths *)
    Forall (fun p => w_width p = dw cw (w_word p)) ps.
Proof.
  intros Hv. pose proof (valid_incr _ _ Hv) as Hi. destruct Hv as [_ Hf].
  destruct (valid_decomp pts [] (w_word wd) Hi Hf) as (xs & last & E1 & E2 & E3 & E4).
  cbn [blen] in E2.
  exists (sw_spec wd [] xs last). split; [|split; [|split; [|split; [|split; [|split; [|split]]]]]].
  - rewrite <- E2. apply (sw_loop_spec wd xs [] last); [exact E1|].
    destruct pts as [|o r].
    + right. apply cum_nil_inv in E2. subst xs. reflexivity.
    + left. apply E4. discriminate.
  - rewrite sw_spec_words, concat_app. cbn [concat]. rewrite app_nil_r. symmetry. exact E1.
  - rewrite sw_spec_words, cum_app, E2. cbn [cum]. f_equal. f_equal.
    rewrite E1, blen_app. lia.
  - rewrite <- (map_length w_word), sw_spec_words, app_length, <- E2, cum_length.
    cbn [length]. lia.
  - intros Hne. apply (proj1 (Forall_map w_word (fun t : str => t <> []) _)). rewrite sw_spec_words.
    apply Forall_app. split; [exact E3|]. constructor; [|constructor].
    destruct pts as [|o r]; [|apply E4; discriminate].
    apply cum_nil_inv in E2. subst xs. cbn [concat app] in E1. rewrite <- E1. exact Hne.
  - intros ps1 p ps2 H Hne. exact (sw_spec_pen wd xs [] last ps1 p ps2 H Hne).
  - intros init l H. exact (sw_spec_last wd xs [] last init l H).
  - apply sw_spec_width.
Qed.

Theorem sw_loop_nil wd :
  sw_loop cw wd [] 0 = Some [mkWord (w_word wd) (w_ws wd) (w_pen wd) (dw cw (w_word wd))].
Proof.
  cbn [sw_loop]. change (0 =? 0) with true. rewrite orb_true_r, bdrop_0. reflexivity.
Qed.

Corollary sw_loop_nil_id wd : w_width wd = dw cw (w_word wd) -> sw_loop cw wd [] 0 = Some [wd].
Proof. intros H. rewrite sw_loop_nil, <- H. destruct wd; reflexivity. Qed.

(* ---- losslessness whenever sw_loop succeeds (arbitrary points) ---- *)

Lemma sw_loop_concat_word wd pts : forall prev ps rest,
  sw_loop cw wd pts prev = Some ps -> bdrop (w_word wd) prev = Some rest ->
  concat (map w_word ps) = rest.
Proof.
  induction pts as [|idx r IH]; intros prev ps rest H Hd; cbn [sw_loop] in H.
  - rewrite Hd in H.
    destruct ((prev <? blen (w_word wd)) || (prev =? 0)) eqn:Hc.
    + injection H as <-. cbn [map concat w_word]. apply app_nil_r.
    + injection H as <-. cbn [map concat].
      apply orb_false_iff in Hc. destruct Hc as [Hc _]. apply N.ltb_ge in Hc.
      destruct (bdrop_some _ _ _ Hd) as [p [Ep El]].
      rewrite Ep, blen_app in Hc. symmetry. apply blen_nil_iff. lia.
  - destruct (bslice (w_word wd) 0 idx) as [pre|]; [|discriminate].
    destruct (bslice (w_word wd) prev idx) as [piece|] eqn:Es; [|discriminate].
    destruct (sw_loop cw wd r idx) as [rest'|] eqn:Er; [|discriminate].
    injection H as <-.
    destruct (bslice_some _ _ _ _ Es) as (p & q & Ew & Hp & Hpx).
    destruct (bdrop_some _ _ _ Hd) as [p' [Ep' El']].
    rewrite Ew in Ep'. destruct (blen_prefix_unique p (piece ++ q) p' rest Ep') as [_ Erest]; [lia|].
    cbn [map concat w_word]. rewrite (IH idx rest' q Er).
    + exact Erest.
    + rewrite <- Hpx. apply bdrop_eq. rewrite Ew, app_assoc. reflexivity.
Qed.

Lemma sw_loop_concat_ws wd pts : forall prev ps rest,
  sw_loop cw wd pts prev = Some ps -> bdrop (w_word wd) prev = Some rest ->
  Forall (fun o => o < blen (w_word wd)) pts ->
  (prev < blen (w_word wd) \/ prev = 0) ->
  concat (map (fun w => w_word w ++ w_ws w) ps) = rest ++ w_ws wd.
Proof.
  induction pts as [|idx r IH]; intros prev ps rest H Hd Hf Hprev; cbn [sw_loop] in H.
  - rewrite Hd in H.
    assert (Hc : (prev <? blen (w_word wd)) || (prev =? 0) = true).
    { apply orb_true_iff. destruct Hprev as [Hp|Hp]; [left; apply N.ltb_lt|right; apply N.eqb_eq]; exact Hp. }
    rewrite Hc in H. injection H as <-. cbn [map concat w_word w_ws]. apply app_nil_r.
  - destruct (bslice (w_word wd) 0 idx) as [pre|]; [|discriminate].
    destruct (bslice (w_word wd) prev idx) as [piece|] eqn:Es; [|discriminate].
    destruct (sw_loop cw wd r idx) as [rest'|] eqn:Er; [|discriminate].
    injection H as <-. inversion Hf as [|x0 l0 Hidx Hr]; subst.
    destruct (bslice_some _ _ _ _ Es) as (p & q & Ew & Hp & Hpx).
    destruct (bdrop_some _ _ _ Hd) as [p' [Ep' El']].
    rewrite Ew in Ep'. destruct (blen_prefix_unique p (piece ++ q) p' rest Ep') as [_ Erest]; [lia|].
    cbn [map concat w_word w_ws]. rewrite (IH idx rest' q Er).
    + rewrite app_nil_r, <- Erest, <- app_assoc. reflexivity.
    + rewrite <- Hpx. apply bdrop_eq. rewrite Ew, app_assoc. reflexivity.
    + exact Hr.
    + left. exact Hidx.
Qed.

Variable sp : str -> list N.

(* the word text is always preserved when split_words succeeds *)
Theorem split_words_concat_word ws : forall ps, split_words cw sp ws = Some ps ->
  concat (map w_word ps) = concat (map w_word ws).
Proof.
  induction ws as [|w r IH]; intros ps H; cbn [split_words] in H.
  - injection H as <-. reflexivity.
  - destruct (sw_loop cw w (sp (w_word w)) 0) as [a|] eqn:Ea; [|discriminate].
    destruct (split_words cw sp r) as [b|]; [|discriminate]. injection H as <-.
    rewrite map_app, concat_app. cbn [map concat]. rewrite (IH b eq_refl).
    rewrite (sw_loop_concat_word _ _ _ _ _ Ea (bdrop_0 _)). reflexivity.
Qed.

(* Word text AND whitespace (penalties not counted).  The target as stated (no
   hypothesis on the split points) is FALSE: a split point equal to the byte
   length of the word makes sw_loop drop the trailing whitespace, see
   [split_words_concat_counterexample] below.  Minimal hypothesis added: every
   split point is smaller than the byte length of the word (true of valid points). *)
Theorem split_words_concat ws : forall ps,
  (forall w, In w ws -> Forall (fun o => o < blen (w_word w)) (sp (w_word w))) ->
  split_words cw sp ws = Some ps ->
  concat (map (fun w => w_word w ++ w_ws w) ps) = concat (map (fun w => w_word w ++ w_ws w) ws).
Proof.
  induction ws as [|w r IH]; intros ps Hv H; cbn [split_words] in H.
  - injection H as <-. reflexivity.
  - destruct (sw_loop cw w (sp (w_word w)) 0) as [a|] eqn:Ea; [|discriminate].
    destruct (split_words cw sp r) as [b|]; [|discriminate]. injection H as <-.
    rewrite map_app, concat_app. cbn [map concat].
    rewrite (IH b); [|intros w' Hw'; apply Hv; right; exact Hw'|reflexivity].
    rewrite (sw_loop_concat_ws _ _ _ _ _ Ea (bdrop_0 _)); [reflexivity| |right; reflexivity].
    apply Hv. left. reflexivity.
Qed.

(* valid split points: split_words never panics *)
Theorem split_words_some ws :
  (forall w, In w ws -> valid_pts (w_word w) (sp (w_word w))) ->
  exists ps, split_words cw sp ws = Some ps.
Proof.
  induction ws as [|w r IH]; intros Hv; cbn [split_words]; [eexists; reflexivity|].
  destruct (sw_loop_valid w (sp (w_word w))) as (a & Ea & _); [apply Hv; left; reflexivity|].
  destruct IH as [b Eb]; [intros w' Hw'; apply Hv; right; exact Hw'|].
  rewrite Ea, Eb. eexists; reflexivity.
Qed.

Lemma valid_pts_lt w pts : valid_pts w pts -> Forall (fun o => o < blen w) pts.
Proof. intros [_ Hf]. eapply Forall_impl; [|exact Hf]. intros o Ho. exact (proper_cut_lt _ _ Ho). Qed.

End Split.

(* ---- the hyphen splitter ---- *)
Section Hyphen.
Variable alnum : char -> bool.

Definition hpA (t : str) (off : N) (prev : option char) (o : N) : Prop :=
  exists c2 post, t = HY :: c2 :: post /\ opt_alnum alnum prev = true /\ alnum c2 = true /\ o = off + 1.
Definition hpB (t : str) (off : N) (o : N) : Prop :=
  exists pre c1 c2 post, t = pre ++ c1 :: HY :: c2 :: post /\ alnum c1 = true /\ alnum c2 = true /\
    o = off + blen (pre ++ [c1; HY]).

Lemma hpB_cons c r off o :
  hpB (c :: r) off o <-> hpA r (off + utf8_len c) (Some c) o \/ hpB r (off + utf8_len c) o.
Proof.
  split.
  - intros (pre & c1 & c2 & post & Et & H1 & H2 & Ho). destruct pre as [|x pre].
    + left. cbn [app] in Et. injection Et as -> ->. exists c2, post.
      split; [reflexivity|]. split; [exact H1|]. split; [exact H2|].
      rewrite Ho. cbn [app blen]. change (utf8_len HY) with 1. lia.
    + right. cbn [app] in Et. injection Et as -> ->. exists pre, c1, c2, post.
      split; [reflexivity|]. split; [exact H1|]. split; [exact H2|].
      rewrite Ho. cbn [app blen]. lia.
  - intros [(c2 & post & Er & H1 & H2 & Ho)|(pre & c1 & c2 & post & Er & H1 & H2 & Ho)].
    + exists [], c, c2, post. subst r. split; [reflexivity|]. split; [exact H1|].
      split; [exact H2|]. rewrite Ho. cbn [app blen]. change (utf8_len HY) with 1. lia.
    + exists (c :: pre), c1, c2, post. subst r. split; [reflexivity|]. split; [exact H1|].
      split; [exact H2|]. rewrite Ho. cbn [app blen]. lia.
Qed.

Lemma hpA_cond c r off prev :
  (c =? HY) && opt_alnum alnum prev && opt_alnum alnum (hd_error r) = true <->
  hpA (c :: r) off prev (off + 1).
Proof.
  split.
  - intros H. apply andb_prop in H. destruct H as [H H3]. apply andb_prop in H.
    destruct H as [H1 H2]. apply N.eqb_eq in H1. subst c.
    destruct r as [|c2 post]; [discriminate|]. exists c2, post. cbn [hd_error opt_alnum] in H3. auto.
  - intros (c2 & post & Et & H1 & H2 & _). injection Et as -> ->.
    cbn [hd_error opt_alnum]. rewrite H1, H2. reflexivity.
Qed.

Lemma hpA_off t off prev o : hpA t off prev o -> o = off + 1.
Proof. intros (c2 & post & _ & _ & _ & Ho). exact Ho. Qed.

Lemma hp_loop_spec t : forall off prev o,
  In o (hp_loop alnum t off prev) <-> hpA t off prev o \/ hpB t off o.
Proof.
  induction t as [|c r IH]; intros off prev o.
  - cbn [hp_loop In]. split; [contradiction|].
    intros [(c2 & post & E & _)|(pre & c1 & c2 & post & E & _)]; [discriminate|].
    destruct pre; discriminate.
  - cbn [hp_loop]. rewrite hpB_cons, <- IH.
    destruct ((c =? HY) && opt_alnum alnum prev && opt_alnum alnum (hd_error r)) eqn:Hc.
    + apply (proj1 (hpA_cond c r off prev)) in Hc. cbn [In]. split.
      * intros [<-|H]; [left; exact Hc|right; exact H].
      * intros [H|H]; [left; symmetry; exact (hpA_off _ _ _ _ H)|right; exact H].
    + split; [intros H; right; exact H|]. intros [H|H]; [|exact H].
      pose proof (hpA_off _ _ _ _ H) as Ho. subst o.
      apply (proj2 (hpA_cond c r off prev)) in H. congruence.
Qed.

Theorem hyphen_points_spec w o :
  In o (hyphen_points alnum w) <->
  exists pre c1 c2 post, w = pre ++ c1 :: HY :: c2 :: post /\ alnum c1 = true /\
    alnum c2 = true /\ o = blen (pre ++ [c1; HY]).
Proof.
  unfold hyphen_points. rewrite hp_loop_spec. split.
  - intros [(c2 & post & _ & H & _)|(pre & c1 & c2 & post & E & H1 & H2 & Ho)]; [discriminate|].
    exists pre, c1, c2, post. rewrite N.add_0_l in Ho. auto.
  - intros (pre & c1 & c2 & post & E & H1 & H2 & Ho). right.
    exists pre, c1, c2, post. rewrite N.add_0_l. auto.
Qed.

Lemma hp_loop_incr t : forall off prev, incr_from off (hp_loop alnum t off prev).
Proof.
  induction t as [|c r IH]; intros off prev; cbn [hp_loop]; [exact I|].
  pose proof (utf8_len_pos c) as Hc.
  destruct ((c =? HY) && opt_alnum alnum prev && opt_alnum alnum (hd_error r)).
  - split; [lia|]. apply (incr_from_weaken _ (off + utf8_len c)); [lia|apply IH].
  - apply (incr_from_weaken _ (off + utf8_len c)); [lia|apply IH].
Qed.

Theorem hyphen_points_valid w : valid_pts w (hyphen_points alnum w).
Proof.
  split.
  - exact (incr_from_adj _ _ (hp_loop_incr w 0 None)).
  - apply Forall_forall. intros o Ho. apply hyphen_points_spec in Ho.
    destruct Ho as (pre & c1 & c2 & post & E & _ & _ & Ho).
    exists (pre ++ [c1; HY]), (c2 :: post). split; [|split; [|split]].
    + rewrite E, <- app_assoc. reflexivity.
    + symmetry. exact Ho.
    + destruct pre; discriminate.
    + discriminate.
Qed.

Variable cw : char -> N.

(* with the hyphen splitter, or with no splitter, split_words never returns None *)
Theorem split_words_hyphen_some ws : exists ps, split_words cw (hyphen_points alnum) ws = Some ps.
Proof. apply split_words_some. intros w _. apply hyphen_points_valid. Qed.

Theorem split_words_nosplit_some ws : exists ps, split_words cw (fun _ => []) ws = Some ps.
Proof. apply split_words_some. intros w _. split; [exact I|constructor]. Qed.

Theorem split_words_hyphen_concat ws ps : split_words cw (hyphen_points alnum) ws = Some ps ->
  concat (map (fun w => w_word w ++ w_ws w) ps) = concat (map (fun w => w_word w ++ w_ws w) ws).
Proof.
  apply split_words_concat. intros w _. apply valid_pts_lt. apply hyphen_points_valid.
Qed.

Theorem split_words_nosplit ws :
  Forall (fun w => w_width w = dw cw (w_word w)) ws -> split_words cw (fun _ => []) ws = Some ws.
Proof.
  induction 1 as [|w r Hw _ IH]; cbn [split_words]; [reflexivity|].
  rewrite (sw_loop_nil_id cw w Hw), IH. reflexivity.
Qed.

End Hyphen.

(* ================================================================== *)
(* Non-vacuity examples                                                *)
(* ================================================================== *)

Definition ex_cw : char -> N := fun c => if c <? 4352 then 1 else 2.
Definition ex_alnum : char -> bool :=
  fun c => ((97 <=? c) && (c <=? 122)) || ((48 <=? c) && (c <=? 57)).

(* "abcdefgh" + " " + penalty "-" at limit 3 *)
Example break_apart_ex1 :
  break_apart ex_cw 3 (mkWord [97;98;99;100;101;102;103;104] [32] [45] 8) =
  [mkWord [97;98;99] [] [] 3; mkWord [100;101;102] [] [] 3; mkWord [103;104] [32] [45] 2].
Proof. vm_compute. reflexivity. Qed.

(* "ab\e[31mcde\e[0m": the cut is never inside a sequence; the sequence stays with the
   preceding piece *)
Example break_apart_ex2 :
  break_apart ex_cw 3 (mkWord [97;98;27;91;51;49;109;99;100;101;27;91;48;109] [32] [] 5) =
  [mkWord [97;98;27;91;51;49;109;99] [] [] 3; mkWord [100;101;27;91;48;109] [32] [] 2].
Proof. vm_compute. reflexivity. Qed.

(* a wide character at limit 1: an over-wide piece with exactly one non-zero-width
   visible character, which break_apart leaves alone *)
Example break_apart_ex3 :
  break_apart ex_cw 1 (mkWord [97;20013;27;91;48;109;98] [32] [] 4) =
  [mkWord [97] [] [] 1; mkWord [20013;27;91;48;109] [] [] 2; mkWord [98] [32] [] 1]
  /\ nzv ex_cw [20013;27;91;48;109] = 1%nat
  /\ break_apart ex_cw 1 (mkWord [20013;27;91;48;109] [] [] 2) = [mkWord [20013;27;91;48;109] [] [] 2].
Proof. vm_compute. repeat split. Qed.

Example break_apart_ex4 : break_apart ex_cw 3 (mkWord [] [32] [] 0) = [].
Proof. reflexivity. Qed.

Example break_words_ex :
  break_words ex_cw 3 [mkWord [97;98] [32] [] 2; mkWord [97;98;99;100] [] [] 4] =
  [mkWord [97;98] [32] [] 2; mkWord [97;98;99] [] [] 3; mkWord [100] [] [] 1].
Proof. vm_compute. reflexivity. Qed.

(* "foo-bar--b-z": only the hyphens with alphanumeric neighbours on both sides *)
Example hyphen_points_ex :
  hyphen_points ex_alnum [102;111;111;45;98;97;114;45;45;98;45;122] = [4; 11].
Proof. vm_compute. reflexivity. Qed.

Example sw_loop_ex1 :
  sw_loop ex_cw (mkWord [102;111;111;45;98;97;114;45;45;98;45;122] [32] [] 12) [4; 11] 0 =
  Some [mkWord [102;111;111;45] [] [] 4; mkWord [98;97;114;45;45;98;45] [] [] 7;
        mkWord [122] [32] [] 1].
Proof. vm_compute. reflexivity. Qed.

(* a cut that is not after a hyphen gets the "-" penalty *)
Example sw_loop_ex2 :
  sw_loop ex_cw (mkWord [102;111;111;98;97;114] [32] [] 6) [3] 0 =
  Some [mkWord [102;111;111] [] [45] 3; mkWord [98;97;114] [32] [] 3].
Proof. vm_compute. reflexivity. Qed.

(* a split point inside a multi-byte character is a panic *)
Example sw_loop_ex_panic : sw_loop ex_cw (mkWord [97;233;98] [] [] 3) [2] 0 = None.
Proof. vm_compute. reflexivity. Qed.

(* COUNTEREXAMPLE to the unconditional word+whitespace losslessness of split_words:
   a split point equal to the byte length of the word silently drops the whitespace
   (and the penalty) of the word. *)
Example split_words_concat_counterexample :
  let ws := [mkWord [97;98] [32] [] 2] in
  split_words ex_cw (fun _ => [2]) ws = Some [mkWord [97;98] [] [45] 2] /\
  concat (map (fun w => w_word w ++ w_ws w) [mkWord [97;98] [] [45] 2]) <>
  concat (map (fun w => w_word w ++ w_ws w) ws).
Proof. vm_compute. split; [reflexivity|discriminate]. Qed.
