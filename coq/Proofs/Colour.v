(* C13 — ANSI colour codes do not change where lines break.
   A paragraph is an interleaving of visible characters and blocks of well-formed
   escape sequences ([item], [render], [plain]).  Stages, along the wrap pipeline
   find_words -> split_words -> break_words -> algorithm -> reassemble:
     K1  strip / display width / final machine state of a rendered paragraph
     K2  the ASCII separator finds the same words ([Attached], exact condition [att])
     K3  NoHyphenation, break_words off: the slow path ([backend]: algorithm + reassembly)
     K4  break_apart / break_words commute with stripping
     K5  the hyphen splitter cuts alike when no sequence touches a hyphen ([HyOK])
     K7  the Unicode separator finds the same words
     K6  assembly: slow_path, wrap_single_line, wrap; first-fit and the reference
         optimal-fit oracle ([OfitBlind], [ofit_dp_blind])
   and at the end executable side conditions, examples and counterexamples
   (among them the known finding: a hyperlink whose URL contains a hyphen). *)
From Coq Require Import Lia ZArith.
From TW Require Import Wrap Custom.
From TW Require Import EscFacts Partition Lossless SplitBreak Paragraphs Pipeline.
From TW Require InplaceFacts.

Arguments N.add : simpl never.
Arguments N.sub : simpl never.
Arguments N.mul : simpl never.
Arguments N.leb : simpl never.
Arguments N.ltb : simpl never.
Arguments N.eqb : simpl never.

(* ================================================================== *)
(* Definitions                                                          *)
(* ================================================================== *)

(* a paragraph: visible characters interleaved with escape-sequence blocks *)
Inductive item := Ch (c : char) | Seq (q : str).

Fixpoint render (l : list item) : str :=
  match l with
  | [] => []
  | Ch c :: r => c :: render r
  | Seq q :: r => q ++ render r
  end.

Fixpoint plain (l : list item) : str :=
  match l with
  | [] => []
  | Ch c :: r => c :: plain r
  | Seq _ :: r => plain r
  end.

(* a block is a concatenation of well-formed sequences and contains no space *)
Definition item_ok (i : item) : Prop :=
  match i with
  | Ch c => c <> ESC
  | Seq q => Parse q [] /\ ~ In SP q
  end.
Definition WF (l : list item) : Prop := Forall item_ok l.

Definition strip_word (w : word) : word :=
  mkWord (strip (w_word w)) (w_ws w) (w_pen w) (w_width w).

Definition top (t : str) : Prop := final_state Normal t = Normal.
Definition wtop (w : word) : Prop := top (w_word w).

(* ================================================================== *)
(* Generic facts about strip / final_state / dw                         *)
(* ================================================================== *)

Definition noesc (v : str) : Prop := Forall (fun c => c <> ESC) v.

Lemma strip_from_noesc : forall t s, noesc (strip_from s t).
Proof.
  induction t as [|c t IH]; intros s; cbn [strip_from]; [constructor|].
  destruct (step s c) as [s' v] eqn:E. destruct v; [|apply IH].
  constructor; [|apply IH]. exact (proj2 (proj2 (step_vis s c s' E))).
Qed.

Lemma strip_noesc t : noesc (strip t).
Proof. apply strip_from_noesc. Qed.

Lemma strip_id v : noesc v -> strip v = v.
Proof. intros H. exact (proj2 (parse_machine v v (esc_free_parse v H))). Qed.

Lemma top_noesc v : noesc v -> top v.
Proof. intros H. exact (proj1 (parse_machine v v (esc_free_parse v H))). Qed.

Lemma strip_idem t : strip (strip t) = strip t.
Proof. apply strip_id, strip_noesc. Qed.

Lemma strip_from_Forall (P : char -> Prop) : forall t s, Forall P t -> Forall P (strip_from s t).
Proof.
  induction t as [|c t IH]; intros s H; cbn [strip_from]; [constructor|].
  inversion H as [|c0 t0 Hc Ht]; subst c0 t0.
  destruct (step s c) as [s' v]. destruct v; [constructor; [exact Hc|]|]; apply IH; exact Ht.
Qed.

Lemma strip_app a b : top a -> strip (a ++ b) = strip a ++ strip b.
Proof. intros H. unfold strip. rewrite strip_from_app, H. reflexivity. Qed.

Lemma top_app a b : top a -> top b -> top (a ++ b).
Proof. intros Ha Hb. unfold top. rewrite final_state_app, Ha. exact Hb. Qed.

Lemma top_app_r a b : top a -> top (a ++ b) -> top b.
Proof. intros Ha Hab. unfold top in *. rewrite final_state_app, Ha in Hab. exact Hab. Qed.

Lemma top_nil : top [].
Proof. reflexivity. Qed.

Lemma dw_strip_eq cw t : dw cw (strip t) = dw cw t.
Proof. rewrite (dw_strip cw (strip t)), strip_idem. symmetry. apply dw_strip. Qed.

Lemma top_concat l : Forall top l -> top (concat l).
Proof.
  induction 1 as [|x l Hx _ IH]; cbn [concat]; [apply top_nil|]. apply top_app; assumption.
Qed.

Lemma strip_concat l : Forall top l -> strip (concat l) = concat (map strip l).
Proof.
  induction 1 as [|x l Hx _ IH]; cbn [concat map]; [reflexivity|].
  rewrite strip_app, IH by exact Hx. reflexivity.
Qed.

Lemma allsp_noesc sp : allsp sp -> noesc sp.
Proof.
  intros H. eapply Forall_impl; [|exact H]. intros c -> . discriminate.
Qed.

(* ================================================================== *)
(* K1: stripping the rendering gives the plain text                     *)
(* ================================================================== *)

Lemma render_app a b : render (a ++ b) = render a ++ render b.
Proof.
  induction a as [|[c|q] a IH]; cbn [app render]; [reflexivity| |].
  - rewrite IH. reflexivity.
  - rewrite IH, app_assoc. reflexivity.
Qed.

Lemma plain_app a b : plain (a ++ b) = plain a ++ plain b.
Proof.
  induction a as [|[c|q] a IH]; cbn [app plain]; [reflexivity| |].
  - rewrite IH. reflexivity.
  - exact IH.
Qed.

Lemma render_parse l : WF l -> Parse (render l) (plain l).
Proof.
  induction 1 as [|[c|q] l Hi _ IH]; cbn [render plain]; [constructor| |].
  - constructor; [exact Hi|exact IH].
  - destruct Hi as [Hq _]. exact (parse_app q [] (render l) (plain l) Hq IH).
Qed.

Lemma plain_noesc l : WF l -> noesc (plain l).
Proof.
  induction 1 as [|[c|q] l Hi _ IH]; cbn [plain]; [constructor| |].
  - constructor; [exact Hi|exact IH].
  - exact IH.
Qed.

Theorem K1_strip l : WF l -> strip (render l) = plain l.
Proof. intros H. exact (proj2 (parse_machine _ _ (render_parse l H))). Qed.

Theorem K1_top l : WF l -> final_state Normal (render l) = Normal.
Proof. intros H. exact (proj1 (parse_machine _ _ (render_parse l H))). Qed.

Theorem K1_width cw l : WF l -> dw cw (render l) = dw cw (plain l).
Proof. intros H. rewrite <- (K1_strip l H). symmetry. apply dw_strip_eq. Qed.

(* ================================================================== *)
(* K2: the ASCII separator                                              *)
(* ================================================================== *)

(* Where the next item stands relative to the visible text before it:
   C0   nothing yet;                C0q  only sequences so far;
   Csp  just after a space;         Cspq after a space and then sequences;
   Cch  after a non-space character (sequences possibly in between). *)
Inductive ctx := C0 | C0q | Csp | Cspq | Cch.

Definition ctx_seq (p : ctx) : ctx :=
  match p with C0 => C0q | Csp => Cspq | x => x end.

(* The exact condition under which the ASCII separator finds "the same" words
   (found by experiment, see the examples at the end): a run of sequences that
   follows a space must be followed by a non-space character, and a run of
   sequences at the beginning of the paragraph must be followed by a character
   (a paragraph of sequences only yields one word, the empty paragraph none).
   Runs that follow a non-space character are unconstrained. *)
Fixpoint att (p : ctx) (l : list item) : Prop :=
  match l with
  | [] => match p with C0q | Cspq => False | _ => True end
  | Ch c :: r => if c =? SP then p <> Cspq /\ att Csp r else att Cch r
  | Seq _ :: r => att (ctx_seq p) r
  end.
Definition Attached (l : list item) : Prop := att C0 l.

(* The condition of the task brief (every block has a non-space character
   immediately before or after it, blocks being taken as maximal runs): *)
Fixpoint next_nonsp (l : list item) : Prop :=
  match l with
  | [] => False
  | Ch c :: _ => c <> SP
  | Seq _ :: r => next_nonsp r
  end.
Fixpoint touching (prev_nonsp : bool) (l : list item) : Prop :=
  match l with
  | [] => True
  | Ch c :: r => touching (negb (c =? SP)) r
  | Seq _ :: r => (prev_nonsp = true \/ next_nonsp r) /\ touching prev_nonsp r
  end.
Definition Touching (l : list item) : Prop := touching false l.

Lemma touching_att : forall l p,
  touching (match p with Cch => true | _ => false end) l ->
  (p = Cspq \/ p = C0q -> next_nonsp l) -> att p l.
Proof.
  induction l as [|[c|q] r IH]; intros p Ht Hn; cbn [att].
  - destruct p; try exact I; apply Hn; auto.
  - cbn [touching] in Ht. destruct (N.eqb_spec c SP) as [E|E].
    + split.
      * intros ->. apply (Hn (or_introl eq_refl)). exact E.
      * apply (IH Csp); [exact Ht|]. intros [H|H]; discriminate.
    + apply (IH Cch); [exact Ht|]. intros [H|H]; discriminate.
  - cbn [touching] in Ht. destruct Ht as [Hq Ht]. apply IH.
    + destruct p; cbn [ctx_seq]; exact Ht.
    + intros Hp. destruct p; cbn [ctx_seq] in Hp |- *;
        try (destruct Hp; discriminate);
        try (apply (Hn Hp));
        (destruct Hq as [Hq|Hq]; [discriminate|exact Hq]).
Qed.

Lemma Touching_Attached l : Touching l -> Attached l.
Proof. intros Ht. apply (touching_att l C0 Ht). intros [E|E]; discriminate. Qed.

Section K2.
Variable cw : char -> N.

Lemma fwa_sp t cur b : fwa_loop cw (SP :: t) cur b = fwa_loop cw t (SP :: cur) true.
Proof.
  cbn [fwa_loop]. change (SP =? SP) with true. cbn [negb]. rewrite andb_false_r. reflexivity.
Qed.

Lemma fwa_ch_f c t cur : c <> SP ->
  fwa_loop cw (c :: t) cur false = fwa_loop cw t (c :: cur) false.
Proof. intros H. cbn [fwa_loop andb]. rewrite (neqb_false _ _ H). reflexivity. Qed.

Lemma fwa_ch_t c t cur : c <> SP ->
  fwa_loop cw (c :: t) cur true = word_from cw (rev cur) :: fwa_loop cw t [c] false.
Proof. intros H. cbn [fwa_loop]. rewrite (neqb_false _ _ H). cbn [negb andb]. reflexivity. Qed.

Lemma fwa_nosp_f x : forall t cur, nosp x ->
  fwa_loop cw (x ++ t) cur false = fwa_loop cw t (rev x ++ cur) false.
Proof.
  induction x as [|c x IH]; intros t cur H; cbn [app rev]; [reflexivity|].
  inversion H as [|c0 x0 Hc Hx]; subst c0 x0.
  rewrite fwa_ch_f by exact Hc. rewrite IH by exact Hx. rewrite <- app_assoc. reflexivity.
Qed.

Lemma fwa_nosp_t x t cur : nosp x -> x <> [] ->
  fwa_loop cw (x ++ t) cur true = word_from cw (rev cur) :: fwa_loop cw t (rev x) false.
Proof.
  intros H Hne. destruct x as [|c x]; [congruence|].
  inversion H as [|c0 x0 Hc Hx]; subst c0 x0. cbn [app].
  rewrite fwa_ch_t by exact Hc. rewrite fwa_nosp_f by exact Hx. reflexivity.
Qed.

(* Word::from commutes with stripping on  word ++ spaces *)
Lemma word_from_strip u sp : nosp u -> allsp sp -> top u ->
  strip_word (word_from cw (u ++ sp)) = word_from cw (strip u ++ sp) /\
  wtop (word_from cw (u ++ sp)).
Proof.
  intros Hu Hsp Ht.
  rewrite (InplaceFacts.word_from_spec cw u sp Hu Hsp).
  rewrite (InplaceFacts.word_from_spec cw (strip u) sp (strip_from_Forall _ u Normal Hu) Hsp).
  unfold strip_word, wtop. cbn [w_word w_ws w_pen w_width]. rewrite dw_strip_eq.
  split; [reflexivity|exact Ht].
Qed.

(* the relation between the two loop states *)
Definition InvA (p : ctx) (cr cp : str) (b : bool) : Prop :=
  exists u sp, rev cr = u ++ sp /\ rev cp = strip u ++ sp /\
    nosp u /\ allsp sp /\ top u /\
    match p with
    | C0 => u = [] /\ sp = [] /\ b = false
    | C0q => strip u = [] /\ sp = [] /\ b = false
    | Csp => sp <> [] /\ b = true
    | Cch => strip u <> [] /\ sp = [] /\ b = false
    | Cspq => False
    end.

Definition G (wr wp : list word) : Prop := map strip_word wr = wp /\ Forall wtop wr.

Lemma G_cons u sp wr wp : nosp u -> allsp sp -> top u -> G wr wp ->
  G (word_from cw (u ++ sp) :: wr) (word_from cw (strip u ++ sp) :: wp).
Proof.
  intros Hu Hsp Ht [G1 G2]. destruct (word_from_strip u sp Hu Hsp Ht) as [W1 W2].
  split; [cbn [map]; rewrite W1, G1; reflexivity|constructor; assumption].
Qed.

Lemma rev_nil_inv (A : Type) (l : list A) : rev l = [] -> l = [].
Proof. intros H. apply (f_equal (@rev A)) in H. rewrite rev_involutive in H. exact H. Qed.

Lemma seq_ok_facts q : item_ok (Seq q) -> nosp q /\ strip q = [] /\ top q.
Proof.
  intros [Hp Hs]. destruct (parse_machine q [] Hp) as [P1 P2].
  split; [|split; assumption].
  apply Forall_forall. intros c Hc E. subst c. exact (Hs Hc).
Qed.

Lemma fwa_sim items : WF items ->
  (forall p cr cp b, InvA p cr cp b -> att p items ->
     G (fwa_loop cw (render items) cr b) (fwa_loop cw (plain items) cp b)) /\
  (forall x cr cp, nosp x -> strip x = [] -> top x -> InvA Csp cr cp true -> att Cspq items ->
     G (fwa_loop cw (x ++ render items) cr true) (fwa_loop cw (plain items) cp true)).
Proof.
  induction 1 as [|[c|q] r Hi Hr [IHA IHB]].
  - (* end of the paragraph *)
    split.
    + intros p cr cp b (u & sp & Er & Ep & Hu & Hsp & Ht & Hp) Ha. cbn [render plain fwa_loop].
      assert (Hw : G [word_from cw (rev cr)] [word_from cw (rev cp)]).
      { rewrite Er, Ep. apply G_cons; try assumption. split; [reflexivity|constructor]. }
      destruct p; cbn [att] in Ha; try contradiction.
      * destruct Hp as (-> & -> & _). cbn [app] in Er, Ep. change (strip []) with (@nil char) in Ep.
        apply rev_nil_inv in Er, Ep. subst cr cp. split; [reflexivity|constructor].
      * destruct Hp as (Hne & _).
        destruct cr as [|c0 cr']; [cbn [rev] in Er; symmetry in Er; apply app_eq_nil in Er; destruct Er; contradiction|].
        destruct cp as [|c1 cp']; [cbn [rev] in Ep; symmetry in Ep; apply app_eq_nil in Ep; destruct Ep; contradiction|].
        exact Hw.
      * destruct Hp as (Hne & -> & _). rewrite app_nil_r in Er, Ep.
        destruct cr as [|c0 cr']; [cbn [rev] in Er; subst u; exfalso; apply Hne; reflexivity|].
        destruct cp as [|c1 cp']; [cbn [rev] in Ep; exfalso; apply Hne; symmetry; exact Ep|].
        exact Hw.
    + intros x cr cp _ _ _ _ Ha. cbn [att] in Ha. contradiction.
  - (* a visible character *)
    cbn [item_ok] in Hi. split.
    + intros p cr cp b (u & sp & Er & Ep & Hu & Hsp & Ht & Hp) Ha. cbn [render plain].
      cbn [att] in Ha. destruct (N.eqb_spec c SP) as [Ec|Ec].
      * subst c. destruct Ha as [_ Ha]. rewrite !fwa_sp. apply (IHA Csp); [|exact Ha].
        exists u, (sp ++ [SP]). cbn [rev]. rewrite Er, Ep, <- !app_assoc.
        split; [reflexivity|]. split; [reflexivity|]. split; [exact Hu|].
        split; [apply Forall_app; split; [exact Hsp|constructor; [reflexivity|constructor]]|].
        split; [exact Ht|]. split; [|reflexivity]. intros E. destruct sp; discriminate.
      * assert (Hc1 : top [c]).
        { apply top_noesc. constructor; [exact Hi|constructor]. }
        assert (Hc2 : strip [c] = [c]).
        { apply strip_id. constructor; [exact Hi|constructor]. }
        destruct b.
        -- (* a word ends *)
           rewrite !fwa_ch_t by exact Ec. rewrite Er, Ep. apply G_cons; try assumption.
           apply (IHA Cch); [|exact Ha].
           exists [c], []. cbn [rev app]. rewrite Hc2.
           split; [reflexivity|]. split; [reflexivity|].
           split; [constructor; [exact Ec|constructor]|]. split; [constructor|].
           split; [exact Hc1|]. split; [discriminate|split; reflexivity].
        -- (* the word goes on *)
           assert (Esp : sp = []).
           { destruct p; try contradiction;
               [destruct Hp as (_ & H2 & _)|destruct Hp as (_ & H2 & _)|destruct Hp as (_ & H2)
               |destruct Hp as (_ & H2 & _)]; try assumption; discriminate. }
           subst sp. rewrite app_nil_r in Er, Ep.
           rewrite !fwa_ch_f by exact Ec. apply (IHA Cch); [|exact Ha].
           exists (u ++ [c]), []. cbn [rev]. rewrite Er, Ep, !app_nil_r.
           rewrite (strip_app u [c] Ht), Hc2.
           split; [reflexivity|]. split; [reflexivity|].
           split; [apply Forall_app; split; [exact Hu|constructor; [exact Ec|constructor]]|].
           split; [constructor|]. split; [apply top_app; assumption|].
           split; [intros E; destruct (strip u); discriminate|split; reflexivity].
    + intros x cr cp Hx1 Hx2 Hx3 (u & sp & Er & Ep & Hu & Hsp & Ht & Hp) Ha. cbn [render plain].
      cbn [att] in Ha. destruct (N.eqb_spec c SP) as [Ec|Ec]; [destruct Ha as [Ha _]; congruence|].
      assert (Hc1 : top [c]).
      { apply top_noesc. constructor; [exact Hi|constructor]. }
      assert (Hc2 : strip [c] = [c]).
      { apply strip_id. constructor; [exact Hi|constructor]. }
      assert (Hxc : nosp (x ++ [c])).
      { apply Forall_app; split; [exact Hx1|constructor; [exact Ec|constructor]]. }
      change (x ++ c :: render r) with (x ++ [c] ++ render r). rewrite app_assoc.
      rewrite fwa_nosp_t; [|exact Hxc|intros E; destruct x; discriminate].
      rewrite fwa_ch_t by exact Ec. rewrite Er, Ep. apply G_cons; try assumption.
      apply (IHA Cch); [|exact Ha].
      exists (x ++ [c]), []. rewrite rev_involutive. cbn [rev app].
      rewrite (strip_app x [c] Hx3), Hx2, Hc2, !app_nil_r. cbn [app].
      split; [reflexivity|]. split; [reflexivity|]. split; [exact Hxc|]. split; [constructor|].
      split; [apply top_app; assumption|]. split; [discriminate|split; reflexivity].
  - (* a block of sequences *)
    destruct (seq_ok_facts q Hi) as (Hq1 & Hq2 & Hq3). split.
    + intros p cr cp b (u & sp & Er & Ep & Hu & Hsp & Ht & Hp) Ha. cbn [render plain].
      cbn [att] in Ha.
      assert (Hgen : sp = [] -> b = false -> ctx_seq p <> Cspq ->
                match ctx_seq p with
                | C0q => strip u = [] | Cch => strip u <> [] | _ => False end ->
                G (fwa_loop cw (q ++ render r) cr b) (fwa_loop cw (plain r) cp b)).
      { intros -> -> Hne Hs. rewrite app_nil_r in Er, Ep.
        rewrite fwa_nosp_f by exact Hq1. apply (IHA (ctx_seq p)); [|exact Ha].
        exists (u ++ q), []. rewrite rev_app_distr, rev_involutive, Er, Ep, !app_nil_r.
        rewrite (strip_app u q Ht), Hq2, app_nil_r.
        split; [reflexivity|]. split; [reflexivity|].
        split; [apply Forall_app; split; assumption|]. split; [constructor|].
        split; [apply top_app; assumption|].
        revert Hs Hne. destruct (ctx_seq p); intros Hs Hne; try contradiction; try congruence;
          (split; [exact Hs|split; reflexivity]). }
      destruct p; cbn [ctx_seq] in *; try contradiction.
      * destruct Hp as (-> & -> & ->). apply Hgen; try reflexivity; discriminate.
      * destruct Hp as (Hs & -> & ->). apply Hgen; try reflexivity; try discriminate; exact Hs.
      * destruct Hp as (Hne & ->).
        apply (IHB q cr cp Hq1 Hq2 Hq3); [|exact Ha].
        exists u, sp. split; [exact Er|]. split; [exact Ep|]. split; [exact Hu|].
        split; [exact Hsp|]. split; [exact Ht|]. split; [exact Hne|reflexivity].
      * destruct Hp as (Hs & -> & ->). apply Hgen; try reflexivity; try discriminate; exact Hs.
    + intros x cr cp Hx1 Hx2 Hx3 HI Ha. cbn [render plain]. cbn [att ctx_seq] in Ha.
      rewrite app_assoc. apply IHB; try assumption.
      * apply Forall_app; split; assumption.
      * rewrite (strip_app x q Hx3), Hx2, Hq2. reflexivity.
      * apply top_app; assumption.
Qed.

Theorem K2_words items : WF items -> Attached items ->
  map strip_word (find_words_ascii cw (render items)) = find_words_ascii cw (plain items) /\
  Forall (fun w => final_state Normal (w_word w) = Normal) (find_words_ascii cw (render items)).
Proof.
  intros Hwf Ha. unfold find_words_ascii.
  apply (proj1 (fwa_sim items Hwf) C0 [] [] false); [|exact Ha].
  exists [], []. cbn [rev app]. split; [reflexivity|]. split; [reflexivity|].
  split; [constructor|]. split; [constructor|]. split; [reflexivity|].
  split; [reflexivity|split; reflexivity].
Qed.
End K2.

(* ================================================================== *)
(* The wrap algorithms only see numbers that stripping does not change  *)
(* ================================================================== *)

Lemma word_frag_strip w : word_frag (strip_word w) = word_frag w.
Proof. reflexivity. Qed.

Lemma ff_loop_map (Nm : Num) (A B : Type) (f : A -> B) (m : A -> frag Nm) (m' : B -> frag Nm) lws :
  (forall x, m' (f x) = m x) ->
  forall xs done cur width,
  ff_loop Nm B m' lws (map f xs) (map (map f) done) (map f cur) width =
  map (map f) (ff_loop Nm A m lws xs done cur width).
Proof.
  intros Hm. induction xs as [|x rest IH]; intros done cur width; cbn [map ff_loop].
  - rewrite map_rev. cbn [map]. rewrite map_rev. reflexivity.
  - rewrite Hm, !map_length.
    assert (Ec : match map f cur with [] => false | _ => true end =
                 match cur with [] => false | _ => true end) by (destruct cur; reflexivity).
    rewrite Ec.
    destruct (gtb Nm (add Nm (add Nm width (fw (m x))) (fpen (m x))) (nth_width lws (length done))
              && match cur with [] => false | _ => true end).
    + rewrite <- IH. cbn [map]. rewrite map_rev. reflexivity.
    + rewrite <- IH. reflexivity.
Qed.

Lemma first_fit_strip ws lws :
  first_fit word_frag (map strip_word ws) lws = map (map strip_word) (first_fit word_frag ws lws).
Proof.
  unfold first_fit.
  exact (ff_loop_map NumZ word word strip_word word_frag word_frag lws word_frag_strip ws [] [] _).
Qed.

Lemma slice_map (A B : Type) (f : A -> B) xs a b : slice (map f xs) a b = map f (slice xs a b).
Proof. unfold slice. rewrite skipn_map, firstn_map. reflexivity. Qed.

Lemma optimal_fit_with_map (Nm : Num) (A B : Type) (f : A -> B) minima xs :
  optimal_fit_with (Nm:=Nm) minima (map f xs) =
  match optimal_fit_with (Nm:=Nm) minima xs with Some g => Some (map (map f) g) | None => None end.
Proof.
  unfold optimal_fit_with. rewrite map_length.
  destruct (backtrack Nm (S (length xs)) minima (length xs) []) as [ranges|]; [|reflexivity].
  f_equal. rewrite map_map. apply map_ext. intros [a b]. apply slice_map.
Qed.

(* what C13 needs of an optimal-fit oracle: it looks at the fragments only *)
Definition OfitBlind (ofit : penalties -> list word -> list N -> option (list (list word))) : Prop :=
  forall p ws lws, ofit p (map strip_word ws) lws =
    match ofit p ws lws with Some g => Some (map (map strip_word) g) | None => None end.

Theorem ofit_dp_blind : OfitBlind ofit_dp.
Proof.
  intros p ws lws. unfold ofit_dp, optimal_fit.
  rewrite map_map. rewrite (map_ext (fun x => word_frag (strip_word x)) word_frag word_frag_strip).
  apply optimal_fit_with_map.
Qed.

(* ================================================================== *)
(* The back end: algorithm and reassembly                               *)
(* ================================================================== *)

Definition ltop (l : oline) : Prop := top (l_text l).
Definition stext (l : oline) : str := strip (l_text l).

Lemma gtext_strip g : Forall wtop g -> Forall (fun w => allsp (w_ws w)) g ->
  strip (gtext g) = gtext (map strip_word g) /\ top (gtext g).
Proof.
  intros Ht Hs. induction g as [|w g IH]; [split; reflexivity|].
  inversion Ht as [|w0 g0 Hw Hg]; subst w0 g0. inversion Hs as [|w0 g0 Hws Hgs]; subst w0 g0.
  destruct (IH Hg Hgs) as [IH1 IH2]. cbn [map]. rewrite !gtext_cons.
  pose proof (allsp_noesc _ Hws) as Hn.
  assert (Hw2 : top (w_word w ++ w_ws w)) by (apply top_app; [exact Hw|apply top_noesc; exact Hn]).
  split.
  - rewrite app_assoc, (strip_app _ _ Hw2), (strip_app _ _ Hw), (strip_id _ Hn), IH1, <- app_assoc.
    reflexivity.
  - rewrite app_assoc. apply top_app; assumption.
Qed.

Lemma body_strip g : Forall wtop g -> Forall (fun w => allsp (w_ws w)) g ->
  strip (body g) = body (map strip_word g) /\ top (body g) /\
  lastw_pen (map strip_word g) = lastw_pen g /\ lastw_ws (map strip_word g) = lastw_ws g.
Proof.
  intros Ht Hs. destruct g as [|x g'] eqn:Eg; [repeat split; reflexivity|]. rewrite <- Eg in *.
  assert (Hne : g <> []) by (rewrite Eg; discriminate).
  destruct (exists_last Hne) as [init [lw E]]. rewrite E in *. clear Eg Hne.
  apply Forall_app in Ht. destruct Ht as [Hti Htl]. inversion Htl as [|w0 g0 Hl _]; subst w0 g0.
  apply Forall_app in Hs. destruct Hs as [Hsi _].
  destruct (gtext_strip init Hti Hsi) as [G1 G2].
  rewrite map_app. cbn [map]. rewrite !body_snoc, !lastw_pen_snoc, !lastw_ws_snoc.
  split; [|split; [|split; reflexivity]].
  - rewrite (strip_app _ _ G2), G1. reflexivity.
  - apply top_app; assumption.
Qed.

Lemma pen_noesc (pen : str) : pen = [] \/ pen = [HY] -> noesc pen.
Proof. intros [->| ->]; [constructor|]. constructor; [discriminate|constructor]. Qed.

Lemma lines_of_strip o : forall groups first off off',
  top (o_ii o) -> top (o_si o) ->
  Forall (Forall wtop) groups ->
  Forall (Forall (fun w => allsp (w_ws w))) groups ->
  Forall (fun g => lastw_pen g = [] \/ lastw_pen g = [HY]) groups ->
  map stext (lines_of o first groups off) =
    map stext (lines_of o first (map (map strip_word) groups) off') /\
  Forall ltop (lines_of o first groups off) /\
  (noesc (o_ii o) -> noesc (o_si o) ->
   map stext (lines_of o first groups off) =
     map l_text (lines_of o first (map (map strip_word) groups) off')).
Proof.
  intros groups first off off' Hii Hsi. revert first off off'.
  induction groups as [|g r IH]; intros first off off' Ht Hs Hp; [repeat split; constructor|].
  inversion Ht as [|g0 r0 Htg Htr]; subst g0 r0. inversion Hs as [|g0 r0 Hsg Hsr]; subst g0 r0.
  inversion Hp as [|g0 r0 Hpg Hpr]; subst g0 r0.
  destruct (body_strip g Htg Hsg) as (B1 & B2 & B3 & B4).
  pose proof (pen_noesc _ Hpg) as Hpn.
  assert (Hind : top (if first then o_ii o else o_si o)) by (destruct first; assumption).
  assert (E : forall ind, top ind ->
     strip (ind ++ body g ++ lastw_pen g) = strip ind ++ body (map strip_word g) ++ lastw_pen g /\
     strip (ind ++ body (map strip_word g) ++ lastw_pen g) =
       strip ind ++ body (map strip_word g) ++ lastw_pen g).
  { intros ind Hi. split.
    - rewrite (strip_app _ _ Hi), (strip_app _ _ B2), B1, (strip_id _ Hpn). reflexivity.
    - rewrite (strip_app _ _ Hi). rewrite <- B1.
      rewrite (strip_app (strip (body g)) _ (top_noesc _ (strip_noesc _))), strip_idem, (strip_id _ Hpn).
      reflexivity. }
  destruct (E _ Hind) as [E1 E2].
  destruct (IH false (off + blen (gtext g)) (off' + blen (gtext (map strip_word g))) Htr Hsr Hpr)
    as (I1 & I2 & I3).
  cbn [map lines_of]. unfold stext at 1 3 5. cbn [l_text]. rewrite B3.
  split; [|split].
  - f_equal; [|exact I1]. etransitivity; [apply E1|symmetry; apply E2].
  - constructor; [|exact I2]. unfold ltop. cbn [l_text].
    apply top_app; [exact Hind|]. apply top_app; [exact B2|apply top_noesc; exact Hpn].
  - intros N1 N2. f_equal; [|exact (I3 N1 N2)].
    assert (Hn : noesc (if first then o_ii o else o_si o)) by (destruct first; assumption).
    etransitivity; [apply E1|]. rewrite (strip_id _ Hn). reflexivity.
Qed.

Section Back.
Variable cw : char -> N.
Variable alnum : char -> bool.
Variable lbc : str -> list N.
Variable custom_sp : str -> list N.
Variable ofit : penalties -> list word -> list N -> option (list (list word)).

Lemma run_alg_strip a bws lws : OfitBlind ofit ->
  run_alg ofit a (map strip_word bws) lws =
  match run_alg ofit a bws lws with Some g => Some (map (map strip_word) g) | None => None end.
Proof.
  intros HB. destruct a as [|p]; cbn [run_alg]; [|apply HB].
  rewrite first_fit_strip. reflexivity.
Qed.

Lemma Forall_concat_inv (A : Type) (P : A -> Prop) (gs : list (list A)) :
  Forall P (concat gs) -> Forall (Forall P) gs.
Proof.
  induction gs as [|g gs IH]; cbn [concat]; intros H; [constructor|].
  apply Forall_app in H. destruct H as [H1 H2]. constructor; [exact H1|exact (IH H2)].
Qed.

(* Once the two word lists correspond, so do the lines *)
Theorem backend o first line_r line_p bws_r :
  OfitOK ofit -> OfitBlind ofit -> SplitterOK custom_sp ->
  top (o_ii o) -> top (o_si o) ->
  pipeline_words cw alnum lbc custom_sp o first line_r = Some bws_r ->
  pipeline_words cw alnum lbc custom_sp o first line_p = Some (map strip_word bws_r) ->
  Forall wtop bws_r ->
  exists ls_r ls_p,
    slow_path cw alnum lbc custom_sp ofit o first line_r = Some ls_r /\
    slow_path cw alnum lbc custom_sp ofit o first line_p = Some ls_p /\
    map stext ls_r = map stext ls_p /\
    Forall ltop ls_r /\
    (noesc (o_ii o) -> noesc (o_si o) -> map stext ls_r = map l_text ls_p).
Proof.
  intros HO HB HS Hii Hsi Er Ep Ht.
  destruct (pipeline_words_spec cw alnum lbc custom_sp o first line_r HS) as (b1 & E1 & Hg1 & P1 & P2 & _).
  rewrite Er in E1. injection E1 as <-.
  destruct (pipeline_words_spec cw alnum lbc custom_sp o first line_p HS) as (b2 & E2 & Hg2 & _).
  rewrite Ep in E2. injection E2 as <-.
  destruct (run_alg_spec ofit (o_alg o) bws_r (line_widths cw o first) HO) as (groups & R1 & R2 & R3 & R4).
  pose proof (run_alg_strip (o_alg o) bws_r (line_widths cw o first) HB) as R5. rewrite R1 in R5.
  rewrite !slow_path_unfold, Er, Ep, R1, R5.
  destruct bws_r as [|w0 bws'] eqn:Eb.
  - rewrite (R4 eq_refl). cbn [map]. rewrite !reassemble_degenerate.
    exists [indent_line o first], [indent_line o first].
    split; [reflexivity|]. split; [reflexivity|]. split; [reflexivity|].
    unfold indent_line, stext, ltop. cbn [map l_text]. split; [|intros N1 N2; f_equal].
    + constructor; [|constructor]. destruct first; assumption.
    + apply strip_id. destruct first; assumption.
  - rewrite <- Eb in *. assert (Hne : bws_r <> []) by (rewrite Eb; discriminate). specialize (R3 Hne).
    change 0 with (blen []).
    rewrite (reassemble_spec o line_r groups [] [] first R3)
      by (rewrite R2, Hg1, app_nil_r; reflexivity).
    assert (R3' : Forall (fun g => g <> []) (map (map strip_word) groups)).
    { rewrite Forall_map. eapply Forall_impl; [|exact R3]. intros g Hg E. destruct g; [congruence|discriminate]. }
    rewrite (reassemble_spec o line_p (map (map strip_word) groups) [] [] first R3')
      by (rewrite <- concat_map, R2, Hg2, app_nil_r; reflexivity).
    eexists. eexists. split; [reflexivity|]. split; [reflexivity|].
    rewrite <- R2 in Ht, P1, P2.
    apply lines_of_strip; try assumption.
    + apply Forall_concat_inv. exact Ht.
    + apply Forall_concat_inv. exact P1.
    + apply Forall_concat_inv in P2. rewrite Forall_forall in P2 |- *. intros g Hg.
      specialize (P2 g Hg). destruct g as [|x g'] eqn:Eg; [left; reflexivity|]. rewrite <- Eg in *.
      assert (Hne' : g <> []) by (rewrite Eg; discriminate).
      destruct (exists_last Hne') as [init [lw E]]. rewrite E in *. rewrite lastw_pen_snoc.
      apply Forall_app in P2. destruct P2 as [_ P2]. inversion P2; assumption.
Qed.
End Back.

(* ================================================================== *)
(* K3: no hyphenation, no forced breaks                                 *)
(* ================================================================== *)

Definition cached (cw : char -> N) (w : word) : Prop := w_width w = dw cw (w_word w).

Lemma cached_strip cw w : cached cw w -> cached cw (strip_word w).
Proof. unfold cached, strip_word. cbn [w_width w_word]. intros ->. symmetry. apply dw_strip_eq. Qed.

Lemma ascii_cached cw line : Forall (cached cw) (find_words_ascii cw line).
Proof.
  destruct (InplaceFacts.find_words_ascii_spec cw line) as [H _].
  eapply Forall_impl; [|exact H]. intros w (_ & _ & _ & Hw). exact Hw.
Qed.

Section K3.
Variable cw : char -> N.
Variable alnum : char -> bool.
Variable lbc : str -> list N.
Variable custom_sp : str -> list N.
Variable ofit : penalties -> list word -> list N -> option (list (list word)).

Lemma pipeline_words_K3 o first items :
  o_sep o = SepAscii -> o_spl o = SplNone -> o_bw o = false ->
  WF items -> Attached items ->
  exists bws_r,
    pipeline_words cw alnum lbc custom_sp o first (render items) = Some bws_r /\
    pipeline_words cw alnum lbc custom_sp o first (plain items) = Some (map strip_word bws_r) /\
    Forall wtop bws_r.
Proof.
  intros Hsep Hspl Hbw Hwf Ha.
  destruct (K2_words cw items Hwf Ha) as [K2a K2b].
  exists (find_words_ascii cw (render items)).
  unfold pipeline_words. rewrite Hsep, Hspl, Hbw. cbn [find_words].
  change (split_points alnum custom_sp SplNone) with (fun _ : str => @nil N).
  rewrite (split_words_nosplit cw _ (ascii_cached cw (render items))).
  rewrite (split_words_nosplit cw _ (ascii_cached cw (plain items))).
  rewrite K2a. split; [reflexivity|]. split; [reflexivity|exact K2b].
Qed.

(* C13 for one paragraph on the slow path, AsciiSpace / NoHyphenation / break_words off:
   stripping the lines of the coloured paragraph gives the (stripped) lines of the
   plain paragraph, and every coloured line ends outside any sequence *)
Theorem K3_slow_path o first items :
  OfitOK ofit -> OfitBlind ofit -> SplitterOK custom_sp ->
  o_sep o = SepAscii -> o_spl o = SplNone -> o_bw o = false ->
  final_state Normal (o_ii o) = Normal -> final_state Normal (o_si o) = Normal ->
  WF items -> Attached items ->
  exists ls_r ls_p,
    slow_path cw alnum lbc custom_sp ofit o first (render items) = Some ls_r /\
    slow_path cw alnum lbc custom_sp ofit o first (plain items) = Some ls_p /\
    map (fun l => strip (l_text l)) ls_r = map (fun l => strip (l_text l)) ls_p /\
    Forall (fun l => final_state Normal (l_text l) = Normal) ls_r /\
    (Forall (fun c => c <> ESC) (o_ii o) -> Forall (fun c => c <> ESC) (o_si o) ->
     map (fun l => strip (l_text l)) ls_r = map l_text ls_p).
Proof.
  intros HO HB HS Hsep Hspl Hbw Hii Hsi Hwf Ha.
  destruct (pipeline_words_K3 o first items Hsep Hspl Hbw Hwf Ha) as (bws_r & E1 & E2 & Ht).
  exact (backend cw alnum lbc custom_sp ofit o first _ _ bws_r HO HB HS Hii Hsi E1 E2 Ht).
Qed.
End K3.

(* ================================================================== *)
(* K4: forced breaks commute with stripping                             *)
(* ================================================================== *)

Definition strip_piece (p : str * N) : str * N := (strip (fst p), snd p).

Section K4.
Variable cw : char -> N.
Variable lim : N.

(* The loop of break_apart run on the coloured text (from any machine state) and on
   the stripped text takes the same decisions; [cur'] is [cur] without its sequences.
   The side condition says that some visible character is in the current piece or
   still to come: a text made of sequences only yields one piece, its stripped
   (empty) counterpart none. *)
Lemma ba_loop_strip t : forall s cur cur' width,
  final_state Normal (rev cur) = s -> rev cur' = strip (rev cur) ->
  (cur' <> [] \/ strip_from s t <> []) ->
  map strip_piece (ba_loop cw lim s t cur width) =
  ba_loop cw lim Normal (strip_from s t) cur' width.
Proof.
  induction t as [|c r IH]; intros s cur cur' width Hs Hc Hv.
  - cbn [strip_from ba_loop]. cbn [strip_from] in Hv. destruct Hv as [Hv|Hv]; [|congruence].
    destruct cur' as [|c' cur'']; [congruence|].
    destruct cur as [|c0 cur0]; [cbn [rev] in Hc; change (strip []) with (@nil char) in Hc;
      destruct (rev cur''); discriminate|].
    cbn [map]. unfold strip_piece. cbn [fst snd]. rewrite Hc. reflexivity.
  - cbn [strip_from ba_loop]. destruct (step s c) as [s' v] eqn:E. destruct v.
    + destruct (step_vis s c s' E) as (-> & -> & Hne).
      cbn [ba_loop]. rewrite (step_normal_vis c Hne).
      assert (Hc1 : strip [c] = [c]) by (apply strip_id; constructor; [exact Hne|constructor]).
      destruct ((0 <? width) && (lim <? width + cw c)).
      * cbn [map]. unfold strip_piece at 1. cbn [fst snd]. rewrite <- Hc. f_equal.
        apply IH; [|symmetry; exact Hc1|left; discriminate].
        cbn [rev app final_state step]. rewrite (neqb_false _ _ Hne). reflexivity.
      * apply IH; [| |left; discriminate].
        -- cbn [rev]. rewrite final_state_app, Hs. cbn [final_state step].
           rewrite (neqb_false _ _ Hne). reflexivity.
        -- cbn [rev]. rewrite (strip_app _ _ Hs), Hc, Hc1. reflexivity.
    + apply IH.
      * cbn [rev]. rewrite final_state_app, Hs. cbn [final_state]. rewrite E. reflexivity.
      * cbn [rev]. unfold strip. rewrite strip_from_app. fold (strip (rev cur)). rewrite <- Hc, Hs.
        cbn [strip_from]. rewrite E. rewrite app_nil_r. reflexivity.
      * cbn [strip_from] in Hv. rewrite E in Hv. exact Hv.
Qed.

Lemma ba_finish_strip ps ws pen :
  map strip_word (ba_finish ps ws pen) = ba_finish (map strip_piece ps) ws pen.
Proof.
  induction ps as [|[p w] r IH]; [reflexivity|].
  destruct r as [|[q1 q2] r']; [reflexivity|].
  rewrite ba_finish_cons2. cbn [map] in IH |- *. rewrite IH.
  change (strip_piece (p, w)) with (strip p, w).
  change (strip_piece (q1, q2)) with (strip q1, q2).
  rewrite ba_finish_cons2. reflexivity.
Qed.

(* K4.  Stated as an equality: the pieces of the coloured word, stripped, ARE the
   pieces of the stripped word (texts, widths, whitespace and penalty).  Where a
   sequence sits exactly at a cut it stays with the preceding coloured piece
   ([break_apart_maximal]: the next piece begins with a visible character), which
   stripping does not see.  The hypothesis is needed: for a word made of sequences
   only the left side has one piece and the right side none (example below);
   [break_words] never calls break_apart on such a word since its width is 0. *)
Theorem K4_break_apart w : strip (w_word w) <> [] ->
  map strip_word (break_apart cw lim w) = break_apart cw lim (strip_word w).
Proof.
  intros Hne. unfold break_apart. rewrite ba_finish_strip. cbn [strip_word w_word w_ws w_pen].
  f_equal. apply (ba_loop_strip (w_word w) Normal [] [] 0); [reflexivity|reflexivity|].
  right. exact Hne.
Qed.

Lemma break_apart_wtop w : wtop w -> Forall wtop (break_apart cw lim w).
Proof.
  intros Hw. pose proof (break_apart_pieces_normal cw lim w) as Habl.
  pose proof (break_apart_concat cw lim w) as Hc.
  destruct (break_apart cw lim w) as [|p ps] eqn:E; [constructor|]. rewrite <- E in *.
  assert (Hne : break_apart cw lim w <> []) by (rewrite E; discriminate).
  destruct (exists_last Hne) as [init [l El]]. rewrite El in *.
  assert (Hinit : Forall wtop init) by (apply (allbutlast_app _ _ _ Habl); discriminate).
  apply Forall_app. split; [exact Hinit|]. constructor; [|constructor].
  rewrite map_app, concat_app in Hc. cbn [map concat] in Hc. rewrite app_nil_r in Hc.
  unfold wtop in Hw. rewrite <- Hc in Hw.
  apply (top_app_r (concat (map w_word init))); [|exact Hw].
  apply top_concat. apply Forall_map. exact Hinit.
Qed.

Lemma cached_pos_visible w : cached cw w -> lim < w_width w -> strip (w_word w) <> [].
Proof.
  unfold cached. intros Hc Hlt E. rewrite Hc, (dw_strip cw), E in Hlt. cbn [sum_cw fold_right] in Hlt. lia.
Qed.

Theorem K4_break_words ws : Forall (cached cw) ws ->
  map strip_word (break_words cw lim ws) = break_words cw lim (map strip_word ws).
Proof.
  induction 1 as [|w r Hw _ IH]; [reflexivity|].
  unfold break_words in *. cbn [map flat_map]. rewrite map_app, IH. f_equal.
  cbn [strip_word w_width].
  destruct (N.ltb_spec lim (w_width w)) as [Hlt|Hge]; [|reflexivity].
  apply K4_break_apart. exact (cached_pos_visible w Hw Hlt).
Qed.

Lemma break_words_wtop ws : Forall wtop ws -> Forall wtop (break_words cw lim ws).
Proof.
  induction 1 as [|w r Hw _ IH]; [constructor|].
  unfold break_words in *. cbn [flat_map]. apply Forall_app. split; [|exact IH].
  destruct (lim <? w_width w); [apply break_apart_wtop; exact Hw|constructor; [exact Hw|constructor]].
Qed.
End K4.

(* ================================================================== *)
(* K5: the hyphen splitter                                              *)
(* ================================================================== *)

(* "No sequence touches a hyphen, no hyphen inside a sequence", read off the escape
   machine: every '-' is visible, the character before it (if any) is visible and
   the character after it (if any) is visible.  [pv]: the previous character was
   visible, or there is none. *)
Definition nextvis (s : st) (r : str) : Prop :=
  match r with [] => True | d :: _ => snd (step s d) = true end.

Fixpoint hy_ok (s : st) (pv : bool) (t : str) : Prop :=
  match t with
  | [] => True
  | c :: r => (c = HY -> snd (step s c) = true /\ pv = true /\ nextvis (fst (step s c)) r) /\
              hy_ok (fst (step s c)) (snd (step s c)) r
  end.
Definition HyOK (t : str) : Prop := hy_ok Normal true t.

Fixpoint pv_after (s : st) (pv : bool) (t : str) : bool :=
  match t with [] => pv | c :: r => pv_after (fst (step s c)) (snd (step s c)) r end.

Lemma hy_ok_app a : forall s pv b, hy_ok s pv (a ++ b) ->
  hy_ok s pv a /\ hy_ok (final_state s a) (pv_after s pv a) b.
Proof.
  induction a as [|c a IH]; intros s pv b H; cbn [app hy_ok final_state pv_after] in *; [auto|].
  destruct H as [H1 H2]. destruct (IH _ _ _ H2) as [I1 I2]. split; [|exact I2].
  split; [|exact I1]. intros E. destruct (H1 E) as (A & B & C). split; [exact A|]. split; [exact B|].
  destruct a; [exact I|exact C].
Qed.

Lemma hy_ok_mono t : forall s pv, hy_ok s pv t -> hy_ok s true t.
Proof.
  destruct t as [|c r]; intros s pv H; [exact I|]. cbn [hy_ok] in *. destruct H as [H1 H2].
  split; [|exact H2]. intros E. destruct (H1 E) as (A & _ & C). auto.
Qed.

(* every word of a paragraph inherits the condition *)
Lemma hy_ok_words ws : Forall wtop ws -> Forall (fun w => allsp (w_ws w)) ws ->
  HyOK (gtext ws) -> Forall (fun w => HyOK (w_word w)) ws.
Proof.
  unfold HyOK. generalize true at 1. induction ws as [|w r IH]; intros pv Ht Hs H; [constructor|].
  inversion Ht as [|w0 r0 Hw Hr]; subst w0 r0. inversion Hs as [|w0 r0 Hws Hrs]; subst w0 r0.
  rewrite gtext_cons in H.
  destruct (hy_ok_app _ _ _ _ H) as [H1 H2]. constructor; [exact (hy_ok_mono _ _ _ H1)|].
  destruct (hy_ok_app _ _ _ _ H2) as [_ H3].
  unfold wtop, top in Hw. rewrite Hw in H3.
  rewrite (top_noesc _ (allsp_noesc _ Hws)) in H3.
  exact (IH _ Hr Hrs H3).
Qed.

Section K5.
Variable cw : char -> N.
Variable alnum : char -> bool.

(* the pieces cut by the hyphen rule, as a decomposition  concat xs ++ last *)
Definition push (c : char) (flag : bool) (d : list str * str) : list str * str :=
  if flag then ([c] :: fst d, snd d)
  else match fst d with
       | [] => ([], c :: snd d)
       | x :: xs' => ((c :: x) :: xs', snd d)
       end.

Definition hy_flag (c : char) (prev : option char) (r : str) : bool :=
  (c =? HY) && opt_alnum alnum prev && opt_alnum alnum (hd_error r).

Fixpoint hy_cut (t : str) (prev : option char) : list str * str :=
  match t with
  | [] => ([], [])
  | c :: r => push c (hy_flag c prev r) (hy_cut r (Some c))
  end.

Definition ends_hy (x : str) : Prop := exists x0, x = x0 ++ [HY].

Lemma hy_cut_spec t : forall off prev,
  t = concat (fst (hy_cut t prev)) ++ snd (hy_cut t prev) /\
  hp_loop alnum t off prev = cum off (fst (hy_cut t prev)) /\
  (t <> [] -> snd (hy_cut t prev) <> []) /\
  Forall ends_hy (fst (hy_cut t prev)).
Proof.
  induction t as [|c r IH]; intros off prev.
  - cbn [hy_cut fst snd concat app hp_loop cum]. repeat split; [congruence|constructor].
  - cbn [hy_cut hp_loop]. fold (hy_flag c prev r).
    destruct (IH (off + utf8_len c) (Some c)) as (I1 & I2 & I3 & I4).
    destruct (hy_cut r (Some c)) as [xs last]. cbn [fst snd] in *. unfold push. cbn [fst snd].
    destruct (hy_flag c prev r) eqn:Ef.
    + unfold hy_flag in Ef. apply andb_true_iff in Ef. destruct Ef as [Ef E3].
      apply andb_true_iff in Ef. destruct Ef as [E1 E2]. apply N.eqb_eq in E1. subst c.
      cbn [fst snd concat app cum]. change (blen [HY]) with 1. change (utf8_len HY) with 1 in *.
      split; [rewrite I1 at 1; reflexivity|]. split; [rewrite I2; reflexivity|].
      split.
      * intros _. apply I3. intros ->. discriminate.
      * constructor; [exists []; reflexivity|exact I4].
    + destruct xs as [|x xs']; cbn [fst snd concat app cum] in *.
      * split; [rewrite I1 at 1; reflexivity|]. split; [exact I2|]. split; [discriminate|constructor].
      * split; [rewrite I1 at 1; reflexivity|]. split.
        -- rewrite I2. cbn [blen]. rewrite !N.add_assoc. reflexivity.
        -- split.
           ++ intros _. apply I3. intros ->. discriminate.
           ++ inversion I4 as [|x0 l0 [x1 Ex] Hx']; subst x0 l0. constructor; [|exact Hx'].
              exists (c :: x1). rewrite Ex. reflexivity.
Qed.

(* how the decomposition of the coloured text (read from machine state [s]) and
   that of the stripped text correspond *)
Definition Rel (s : st) (d d' : list str * str) : Prop :=
  match fst d, fst d' with
  | [], [] => snd d' = strip_from s (snd d)
  | x :: xs1, y :: ys1 =>
      y = strip_from s x /\ final_state s x = Normal /\
      ys1 = map strip xs1 /\ Forall top xs1 /\ snd d' = strip (snd d)
  | _, _ => False
  end.

Lemma Rel_Normal d d' : Rel Normal d d' ->
  fst d' = map strip (fst d) /\ Forall top (fst d) /\ snd d' = strip (snd d).
Proof.
  unfold Rel. destruct d as [[|x xs] last], d' as [[|y ys] last']; cbn [fst snd]; try contradiction.
  - intros ->. repeat split; constructor.
  - intros (-> & H2 & -> & H4 & ->). split; [reflexivity|]. split; [constructor; assumption|reflexivity].
Qed.

Lemma Rel_push_vis c flag d d' : c <> ESC -> Rel Normal d d' ->
  Rel Normal (push c flag d) (push c flag d').
Proof.
  intros Hc H. destruct (Rel_Normal d d' H) as (R1 & R2 & R3).
  assert (Hs : forall x, strip_from Normal (c :: x) = c :: strip x).
  { intros x. cbn [strip_from]. rewrite (step_normal_vis c Hc). reflexivity. }
  assert (Hf : forall x, final_state Normal (c :: x) = final_state Normal x).
  { intros x. cbn [final_state]. rewrite (step_normal_vis c Hc). reflexivity. }
  unfold push, Rel. destruct flag; cbn [fst snd].
  - split; [symmetry; apply (Hs [])|]. split; [apply (Hf [])|]. auto.
  - rewrite R1. destruct (fst d) as [|x xs]; cbn [map fst snd].
    + rewrite R3. symmetry. apply Hs.
    + inversion R2 as [|x0 l0 Hx Hxs]; subst x0 l0.
      split; [symmetry; apply Hs|]. split; [rewrite Hf; exact Hx|]. auto.
Qed.

Lemma Rel_push_invis c s s' d d' : step s c = (s', false) -> Rel s' d d' ->
  Rel s (push c false d) d'.
Proof.
  intros E H. unfold push, Rel in *.
  destruct (fst d) as [|x xs], (fst d') as [|y ys]; cbn [fst snd]; try contradiction.
  - rewrite H. cbn [strip_from]. rewrite E. reflexivity.
  - destruct H as (H1 & H2 & H3). split; [|split; [|exact H3]].
    + rewrite H1. cbn [strip_from]. rewrite E. reflexivity.
    + cbn [final_state]. rewrite E. exact H2.
Qed.

Lemma hy_cut_strip t : forall s pv prev prev',
  hy_ok s pv t -> (pv = true -> prev = prev') ->
  Rel s (hy_cut t prev) (hy_cut (strip_from s t) prev').
Proof.
  induction t as [|c r IH]; intros s pv prev prev' H Hp.
  - reflexivity.
  - cbn [hy_ok] in H. destruct H as [H1 H2].
    cbn [hy_cut strip_from]. destruct (step s c) as [s' v] eqn:E. cbn [fst snd] in H1, H2.
    destruct v.
    + destruct (step_vis s c s' E) as (-> & -> & Hc).
      cbn [hy_cut].
      assert (Ef : hy_flag c prev' (strip_from Normal r) = hy_flag c prev r).
      { unfold hy_flag. destruct (N.eqb_spec c HY) as [Ec|Ec]; [|reflexivity].
        destruct (H1 Ec) as (_ & Hpv & Hn). rewrite (Hp Hpv). cbn [andb]. f_equal. f_equal.
        destruct r as [|d r']; [reflexivity|]. cbn [nextvis] in Hn. cbn [strip_from].
        destruct (step Normal d) as [s2 v2]. cbn [snd] in Hn. subst v2. reflexivity. }
      rewrite Ef. apply Rel_push_vis; [exact Hc|].
      apply (IH Normal true); [exact H2|reflexivity].
    + assert (Ef : hy_flag c prev r = false).
      { unfold hy_flag. destruct (N.eqb_spec c HY) as [Ec|Ec]; [|reflexivity].
        destruct (H1 Ec) as (Hv & _). discriminate. }
      rewrite Ef. apply (Rel_push_invis c s s' _ _ E).
      apply (IH s' false); [exact H2|discriminate].
Qed.

Lemma ends_with_hy a x : ends_hy x -> ends_with (a ++ x) [HY] = true.
Proof.
  intros [x0 ->]. unfold ends_with. rewrite app_assoc, rev_app_distr. cbn [rev app starts_with].
  change (HY =? HY) with true. destruct (rev (a ++ x0)); reflexivity.
Qed.

Lemma sw_spec_strip wd xs : forall pre pre' last,
  Forall ends_hy xs -> Forall ends_hy (map strip xs) ->
  map strip_word (sw_spec cw wd pre xs last) =
  sw_spec cw (strip_word wd) pre' (map strip xs) (strip last).
Proof.
  induction xs as [|x r IH]; intros pre pre' last H1 H2; cbn [map sw_spec].
  - unfold strip_word at 1. cbn [w_word w_ws w_pen w_width]. rewrite dw_strip_eq. reflexivity.
  - inversion H1 as [|x0 r0 Hx Hr]; subst x0 r0. cbn [map] in H2.
    inversion H2 as [|x0 r0 Hx' Hr']; subst x0 r0.
    rewrite (ends_with_hy pre x Hx), (ends_with_hy pre' (strip x) Hx').
    unfold strip_word at 1. cbn [w_word w_ws w_pen w_width]. rewrite dw_strip_eq.
    f_equal. apply IH; assumption.
Qed.

(* K5 for one word *)
Theorem K5_sw_loop w : wtop w -> HyOK (w_word w) ->
  exists ps,
    sw_loop cw w (hyphen_points alnum (w_word w)) 0 = Some ps /\
    sw_loop cw (strip_word w) (hyphen_points alnum (strip (w_word w))) 0 = Some (map strip_word ps) /\
    Forall wtop ps /\ Forall (cached cw) ps.
Proof.
  intros Hw Hy. unfold hyphen_points.
  destruct (hy_cut_spec (w_word w) 0 None) as (A1 & A2 & A3 & A4).
  destruct (hy_cut_spec (strip (w_word w)) 0 None) as (B1 & B2 & B3 & B4).
  pose proof (hy_cut_strip (w_word w) Normal true None None Hy (fun _ => eq_refl)) as HR.
  apply Rel_Normal in HR. fold (strip (w_word w)) in HR. destruct HR as (R1 & R2 & R3).
  destruct (hy_cut (w_word w) None) as [xs last]. cbn [fst snd] in *.
  destruct (hy_cut (strip (w_word w)) None) as [ys last']. cbn [fst snd] in *. subst ys last'.
  exists (sw_spec cw w [] xs last).
  assert (Hside : forall (t : str) (zs : list str) (l : str), t = concat zs ++ l -> (t <> [] -> l <> []) ->
            l <> [] \/ blen ([] ++ concat zs) = 0).
  { intros t zs l E H. destruct l as [|c l']; [|left; discriminate]. right.
    destruct t as [|c t']; [|exfalso; apply H; [discriminate|reflexivity]].
    rewrite app_nil_r in E. rewrite <- E. reflexivity. }
  split; [|split; [|split]].
  - rewrite A2. apply (sw_loop_spec cw w xs [] last); [exact A1|exact (Hside _ _ _ A1 A3)].
  - rewrite B2, (sw_spec_strip w xs [] [] last A4 B4).
    apply (sw_loop_spec cw (strip_word w) (map strip xs) [] (strip last)); [exact B1|exact (Hside _ _ _ B1 B3)].
  - apply (proj1 (Forall_map w_word top _)). rewrite sw_spec_words. apply Forall_app.
    split; [exact R2|]. constructor; [|constructor].
    unfold wtop in Hw. rewrite A1 in Hw. exact (top_app_r _ _ (top_concat _ R2) Hw).
  - apply sw_spec_width.
Qed.

Theorem K5_split_words ws : Forall wtop ws -> Forall (fun w => HyOK (w_word w)) ws ->
  exists sws,
    split_words cw (hyphen_points alnum) ws = Some sws /\
    split_words cw (hyphen_points alnum) (map strip_word ws) = Some (map strip_word sws) /\
    Forall wtop sws /\ Forall (cached cw) sws.
Proof.
  induction ws as [|w r IH]; intros Ht Hy.
  - exists []. repeat split; constructor.
  - inversion Ht as [|w0 r0 Hw Hr]; subst w0 r0. inversion Hy as [|w0 r0 Hyw Hyr]; subst w0 r0.
    destruct (K5_sw_loop w Hw Hyw) as (ps & P1 & P2 & P3 & P4).
    destruct (IH Hr Hyr) as (sws & S1 & S2 & S3 & S4).
    exists (ps ++ sws). cbn [map split_words]. cbn [strip_word w_word] in P2 |- *.
    rewrite P1, S1. change (w_word (strip_word w)) with (strip (w_word w)). rewrite P2, S2, map_app.
    split; [reflexivity|]. split; [reflexivity|]. split; apply Forall_app; split; assumption.
Qed.
End K5.

(* ================================================================== *)
(* K7: the Unicode separator                                            *)
(* ================================================================== *)

(* find_words_unicode as one left-to-right loop: [cur] is the current piece,
   reversed; [sidx] the byte offset in the stripped text; [opps] the opportunities
   still to be placed *)
Definition hitb (sidx : N) (opps : list N) : bool :=
  match opps with o :: _ => sidx =? o | [] => false end.
Definition is_normal (s : st) : bool := match s with Normal => true | _ => false end.

Fixpoint upieces (s : st) (t : str) (cur : str) (sidx : N) (opps : list N) : list str :=
  match t with
  | [] => match cur with [] => [] | _ => [rev cur] end
  | c :: r =>
      if is_normal s && hitb sidx opps
      then rev cur :: upieces (fst (step s c)) r [c] (next_sidx s c sidx) (tl opps)
      else upieces (fst (step s c)) r (c :: cur) (next_sidx s c sidx) opps
  end.

Lemma cut_positions_nil opps : cut_positions opps [] = [].
Proof. induction opps as [|o r IH]; [reflexivity|]. cbn [cut_positions find_idx]. exact IH. Qed.

Lemma cut_positions_cons o opps p s m :
  cut_positions (o :: opps) ((p, s) :: m) =
  if s =? o then p :: cut_positions opps m else cut_positions (o :: opps) m.
Proof. cbn [cut_positions find_idx]. destruct (s =? o); reflexivity. Qed.

Lemma skipn_length_app (A : Type) (a b : list A) : skipn (length a) (a ++ b) = b.
Proof. induction a as [|x a IH]; [reflexivity|]. cbn [length app skipn]. exact IH. Qed.

Lemma upieces_eq t : forall s cur pos sidx opps, (length cur <= pos)%nat ->
  pieces (cut_positions opps (idx_map_from s t pos sidx)) (pos - length cur) (rev cur ++ t) =
  upieces s t cur sidx opps.
Proof.
  induction t as [|c r IH]; intros s cur pos sidx opps Hl.
  - cbn [idx_map_from upieces]. rewrite cut_positions_nil, app_nil_r. cbn [pieces].
    destruct cur as [|c0 cur']; [reflexivity|]. destruct (rev (c0 :: cur')) eqn:E; [|reflexivity].
    apply rev_nil_inv in E. discriminate.
  - assert (Hno : pieces (cut_positions opps (idx_map_from (fst (step s c)) r (S pos) (next_sidx s c sidx)))
                    (pos - length cur) (rev cur ++ c :: r) =
                  upieces (fst (step s c)) r (c :: cur) (next_sidx s c sidx) opps).
    { rewrite <- (IH (fst (step s c)) (c :: cur) (S pos) (next_sidx s c sidx) opps) by (cbn [length]; lia).
      cbn [length rev Nat.sub]. rewrite <- app_assoc. reflexivity. }
    cbn [upieces].
    destruct s as [| | |l]; cbn [is_normal andb];
      try (rewrite imf_other by discriminate; exact Hno).
    rewrite imf_normal. destruct opps as [|o opps']; cbn [hitb tl].
    + exact Hno.
    + rewrite cut_positions_cons. destruct (sidx =? o); [|exact Hno].
      cbn [pieces]. replace (pos - (pos - length cur))%nat with (length (rev cur)) by (rewrite rev_length; lia).
      rewrite firstn_length_app, skipn_length_app. f_equal.
      rewrite <- (IH (fst (step Normal c)) [c] (S pos) (next_sidx Normal c sidx) opps') by (cbn [length]; lia).
      cbn [length Nat.sub rev app]. rewrite Nat.sub_0_r. reflexivity.
Qed.

Lemma upieces_ch c t cur sidx opps : c <> ESC ->
  upieces Normal (c :: t) cur sidx opps =
  if hitb sidx opps then rev cur :: upieces Normal t [c] (sidx + utf8_len c) (tl opps)
  else upieces Normal t (c :: cur) (sidx + utf8_len c) opps.
Proof.
  intros H. cbn [upieces is_normal andb]. unfold next_sidx. rewrite (step_normal_vis c H). reflexivity.
Qed.

Lemma upieces_invis q : forall s t cur sidx opps, strip_from s q = [] -> hitb sidx opps = false ->
  upieces s (q ++ t) cur sidx opps = upieces (final_state s q) t (rev q ++ cur) sidx opps.
Proof.
  induction q as [|c q IH]; intros s t cur sidx opps Hs Hh; [reflexivity|].
  cbn [app upieces final_state rev]. rewrite Hh, andb_false_r.
  cbn [strip_from] in Hs. unfold next_sidx. destruct (step s c) as [s' v]. cbn [fst snd].
  destruct v; [discriminate|]. rewrite IH by assumption. rewrite <- app_assoc. reflexivity.
Qed.

Lemma upieces_invis_hit q t cur sidx opps : q <> [] -> strip q = [] ->
  hitb sidx opps = true -> hitb sidx (tl opps) = false ->
  upieces Normal (q ++ t) cur sidx opps =
  rev cur :: upieces (final_state Normal q) t (rev q) sidx (tl opps).
Proof.
  intros Hne Hs Hh Hh'. destruct q as [|c q]; [congruence|].
  cbn [app upieces is_normal andb]. rewrite Hh. unfold strip in Hs. cbn [strip_from] in Hs.
  cbn [final_state]. unfold next_sidx.
  destruct (step Normal c) as [s' v]. cbn [fst snd] in *. destruct v; [discriminate|].
  rewrite upieces_invis by assumption. reflexivity.
Qed.

(* a piece on which Word::from commutes with stripping *)
Definition Good (x : str) : Prop :=
  exists w ws, x = w ++ ws /\ allsp ws /\ top w /\ no_trailing_sp w /\ no_trailing_sp (strip w).

Lemma Good_word cw x : Good x ->
  strip_word (word_from cw x) = word_from cw (strip x) /\ wtop (word_from cw x).
Proof.
  intros (w & ws & -> & Hs & Ht & H1 & H2).
  unfold word_from. rewrite (split_ws_unique (w ++ ws) w ws eq_refl Hs H1).
  rewrite (strip_app _ _ Ht), (strip_id _ (allsp_noesc _ Hs)).
  rewrite (split_ws_unique (strip w ++ ws) (strip w) ws eq_refl Hs H2).
  unfold strip_word, wtop. cbn [w_word w_ws w_pen w_width]. rewrite dw_strip_eq.
  split; [reflexivity|exact Ht].
Qed.

Definition invis (q : str) : Prop := nosp q /\ strip q = [] /\ top q.

Lemma invis_nil : invis [].
Proof. split; [constructor|split; reflexivity]. Qed.

Lemma invis_app a b : invis a -> invis b -> invis (a ++ b).
Proof.
  intros (A1 & A2 & A3) (B1 & B2 & B3). split; [apply Forall_app; split; assumption|].
  split; [rewrite (strip_app _ _ A3), A2, B2; reflexivity|apply top_app; assumption].
Qed.

Lemma invis_Good x : invis x -> Good x.
Proof.
  intros (A1 & A2 & A3). exists x, []. rewrite app_nil_r. split; [reflexivity|]. split; [constructor|].
  split; [exact A3|]. split; [apply nosp_no_trailing; exact A1|]. rewrite A2. apply no_trailing_nil.
Qed.

(* the current coloured piece, by context *)
Definition InvU (p : ctx) (x : str) (sidx : N) (opps : list N) : Prop :=
  match p with
  | C0 => x = []
  | C0q => invis x /\ (x = [] \/ hitb sidx opps = false)
  | Csp => exists w ws, x = w ++ ws /\ ws <> [] /\ allsp ws /\ top w /\
             no_trailing_sp w /\ no_trailing_sp (strip w)
  | Cspq => exists w ws qs, x = w ++ ws ++ qs /\ ws <> [] /\ allsp ws /\ top w /\
             no_trailing_sp w /\ no_trailing_sp (strip w) /\ invis qs /\
             (qs = [] \/ hitb sidx opps = false)
  | Cch => top x /\ no_trailing_sp x /\ no_trailing_sp (strip x) /\ strip x <> []
  end.

Lemma top_sp ws : allsp ws -> top ws.
Proof. intros H. apply top_noesc, allsp_noesc, H. Qed.

Lemma InvU_top p x sidx opps : InvU p x sidx opps -> top x.
Proof.
  destruct p; cbn [InvU].
  - intros ->. reflexivity.
  - intros ((_ & _ & H) & _). exact H.
  - intros (w & ws & -> & _ & Hs & Ht & _). apply top_app; [exact Ht|apply top_sp; exact Hs].
  - intros (w & ws & qs & -> & _ & Hs & Ht & _ & _ & (_ & _ & Hq) & _).
    apply top_app; [exact Ht|]. apply top_app; [apply top_sp; exact Hs|exact Hq].
  - intros (H & _). exact H.
Qed.

Lemma InvU_Good p x sidx opps : InvU p x sidx opps ->
  (hitb sidx opps = true \/ p <> Cspq) -> Good x.
Proof.
  destruct p; cbn [InvU]; intros H Hc.
  - subst x. apply invis_Good, invis_nil.
  - apply invis_Good. exact (proj1 H).
  - destruct H as (w & ws & -> & _ & Hs & Ht & H1 & H2). exists w, ws. auto.
  - destruct H as (w & ws & qs & -> & _ & Hs & Ht & H1 & H2 & _ & Hq).
    destruct Hc as [Hc|Hc]; [|congruence].
    destruct Hq as [->|Hq]; [|congruence]. rewrite app_nil_r. exists w, ws. auto.
  - destruct H as (Ht & H1 & H2 & _). exists x, []. rewrite app_nil_r.
    split; [reflexivity|]. split; [constructor|]. auto.
Qed.

Lemma nts_snoc a c : c <> SP -> no_trailing_sp (a ++ [c]).
Proof. intros Hc u E. apply app_inj_tail in E. destruct E as [_ E]. contradiction. Qed.

Lemma InvU_sp p x sidx opps sidx' opps' : InvU p x sidx opps -> p <> Cspq ->
  InvU Csp (x ++ [SP]) sidx' opps'.
Proof.
  assert (Hs1 : allsp [SP]) by (constructor; [reflexivity|constructor]).
  destruct p; cbn [InvU]; intros H Hp.
  - subst x. exists [], [SP]. split; [reflexivity|]. split; [discriminate|]. split; [exact Hs1|].
    split; [reflexivity|]. split; apply no_trailing_nil.
  - destruct H as ((A1 & A2 & A3) & _). exists x, [SP]. split; [reflexivity|]. split; [discriminate|].
    split; [exact Hs1|]. split; [exact A3|]. split; [apply nosp_no_trailing; exact A1|].
    rewrite A2. apply no_trailing_nil.
  - destruct H as (w & ws & -> & Hne & Hs & Ht & H1 & H2). exists w, (ws ++ [SP]).
    rewrite <- app_assoc. split; [reflexivity|]. split; [intros E; destruct ws; discriminate|].
    split; [apply Forall_app; split; assumption|]. auto.
  - congruence.
  - destruct H as (Ht & H1 & H2 & _). exists x, [SP]. split; [reflexivity|]. split; [discriminate|].
    split; [exact Hs1|]. auto.
Qed.

Lemma InvU_ch p x sidx opps sidx' opps' c : InvU p x sidx opps -> c <> SP -> c <> ESC ->
  InvU Cch (x ++ [c]) sidx' opps'.
Proof.
  intros H Hc He. pose proof (InvU_top _ _ _ _ H) as Ht.
  assert (Hc1 : noesc [c]) by (constructor; [exact He|constructor]).
  cbn [InvU]. rewrite (strip_app _ _ Ht), (strip_id _ Hc1).
  split; [apply top_app; [exact Ht|apply top_noesc; exact Hc1]|].
  split; [apply nts_snoc; exact Hc|]. split; [apply nts_snoc; exact Hc|].
  intros E. destruct (strip x); discriminate.
Qed.

Lemma InvU_seq p x sidx opps q : InvU p x sidx opps -> invis q ->
  (q = [] \/ hitb sidx opps = false) -> InvU (ctx_seq p) (x ++ q) sidx opps.
Proof.
  intros H Hq Hh. destruct p; cbn [InvU ctx_seq] in *.
  - subst x. cbn [app]. split; [exact Hq|exact Hh].
  - destruct H as (Hx & Hx'). split; [apply invis_app; assumption|].
    destruct Hh as [->|Hh]; [rewrite app_nil_r; exact Hx'|right; exact Hh].
  - destruct H as (w & ws & -> & Hne & Hs & Ht & H1 & H2). exists w, ws, q.
    rewrite <- app_assoc. repeat (split; [first [reflexivity|assumption]|]). exact Hh.
  - destruct H as (w & ws & qs & -> & Hne & Hs & Ht & H1 & H2 & Hqs & Hqs'). exists w, ws, (qs ++ q).
    rewrite <- !app_assoc. repeat (split; [first [reflexivity|assumption]|]).
    split; [apply invis_app; assumption|].
    destruct Hh as [->|Hh]; [rewrite app_nil_r; exact Hqs'|right; exact Hh].
  - destruct H as (Ht & H1 & H2 & H3). destruct Hq as (Q1 & Q2 & Q3).
    rewrite (strip_app _ _ Ht), Q2, app_nil_r.
    split; [apply top_app; assumption|]. split; [|split; assumption].
    destruct q as [|c q']; [rewrite app_nil_r; exact H1|].
    apply no_trailing_app; [discriminate|apply nosp_no_trailing; exact Q1].
Qed.

Definition bounded (sidx : N) (t : str) (opps : list N) : Prop :=
  Forall (fun o => o < sidx + blen t) opps.

Lemma sorted_hitb o opps : ForallOrdPairs N.lt (o :: opps) -> hitb o opps = false.
Proof.
  intros H. inversion H as [|o0 r0 Hf _]; subst o0 r0. destruct opps as [|o' r]; [reflexivity|].
  inversion Hf as [|o0 r0 Hlt _]; subst o0 r0. cbn [hitb]. apply N.eqb_neq. lia.
Qed.

Lemma sorted_tl o opps : ForallOrdPairs N.lt (o :: opps) -> ForallOrdPairs N.lt opps.
Proof. intros H. inversion H; assumption. Qed.

Lemma hitb_true sidx opps : hitb sidx opps = true -> opps = sidx :: tl opps.
Proof.
  destruct opps as [|o r]; cbn [hitb tl]; [discriminate|]. intros H. apply N.eqb_eq in H. congruence.
Qed.

Lemma bounded_ch sidx c t opps : bounded sidx (c :: t) opps -> bounded (sidx + utf8_len c) t opps.
Proof.
  unfold bounded. intros H. eapply Forall_impl; [|exact H]. intros o Ho. cbn [blen] in Ho. lia.
Qed.

Lemma bounded_tl sidx t o opps : bounded sidx t (o :: opps) -> bounded sidx t opps.
Proof. intros H. inversion H; assumption. Qed.

Section K7.
Variable cw : char -> N.
Notation wf := (word_from cw).

Lemma G_good x wr wp : Good x -> G wr wp -> G (wf x :: wr) (wf (strip x) :: wp).
Proof.
  intros Hx [G1 G2]. destruct (Good_word cw x Hx) as [W1 W2].
  split; [cbn [map]; rewrite W1, G1; reflexivity|constructor; assumption].
Qed.

Lemma uni_sim items : WF items ->
  (forall p x sidx opps, InvU p x sidx opps -> att p items ->
     ForallOrdPairs N.lt opps -> bounded sidx (plain items) opps ->
     G (map wf (upieces Normal (render items) (rev x) sidx opps))
       (map wf (upieces Normal (plain items) (rev (strip x)) sidx opps))) /\
  (forall p x y sidx opps, p = ctx_seq p -> invis x -> att p items ->
     ForallOrdPairs N.lt (sidx :: opps) -> bounded sidx (plain items) (sidx :: opps) ->
     exists rest, upieces Normal (plain items) (rev y) sidx (sidx :: opps) = y :: rest /\
       G (map wf (upieces Normal (render items) (rev x) sidx opps)) (map wf rest)).
Proof.
  induction 1 as [|[c|q] r Hi Hr [IHA IHB]].
  - (* end of the paragraph *)
    split.
    + intros p x sidx opps HI Ha _ _. cbn [render plain upieces].
      assert (Hg : Good x).
      { apply (InvU_Good p x sidx opps HI). right. intros ->. exact Ha. }
      destruct p; cbn [att] in Ha; try contradiction; cbn [InvU] in HI.
      * subst x. split; [reflexivity|constructor].
      * destruct HI as (w & ws & -> & Hne & Hs & Ht & _).
        assert (E1 : rev (w ++ ws) <> []).
        { intros E. apply rev_nil_inv in E. apply app_eq_nil in E. destruct E; contradiction. }
        assert (E2 : rev (strip (w ++ ws)) <> []).
        { intros E. apply rev_nil_inv in E. rewrite (strip_app _ _ Ht) in E.
          apply app_eq_nil in E. destruct E as [_ E]. rewrite (strip_id _ (allsp_noesc _ Hs)) in E.
          contradiction. }
        destruct (rev (w ++ ws)) eqn:F1; [congruence|]. destruct (rev (strip (w ++ ws))) eqn:F2; [congruence|].
        rewrite <- F1, <- F2, !rev_involutive. cbn [map]. apply G_good; [exact Hg|].
        split; [reflexivity|constructor].
      * destruct HI as (Ht & _ & _ & Hne).
        assert (E1 : rev x <> []).
        { intros E. apply rev_nil_inv in E. subst x. apply Hne. reflexivity. }
        assert (E2 : rev (strip x) <> []).
        { intros E. apply rev_nil_inv in E. contradiction. }
        destruct (rev x) eqn:F1; [congruence|]. destruct (rev (strip x)) eqn:F2; [congruence|].
        rewrite <- F1, <- F2, !rev_involutive. cbn [map]. apply G_good; [exact Hg|].
        split; [reflexivity|constructor].
    + intros p x y sidx opps _ _ _ _ Hb. exfalso. inversion Hb as [|o0 r0 Ho _]; subst o0 r0.
      cbn [plain blen] in Ho. lia.
  - (* a visible character *)
    cbn [item_ok] in Hi.
    assert (Hc1 : noesc [c]) by (constructor; [exact Hi|constructor]).
    split.
    + intros p x sidx opps HI Ha Hso Hbd. cbn [render plain]. rewrite !upieces_ch by exact Hi.
      pose proof (InvU_top _ _ _ _ HI) as Ht. cbn [att] in Ha.
      destruct (hitb sidx opps) eqn:Eh.
      * (* a break opportunity before c *)
        rewrite !rev_involutive. cbn [map].
        apply G_good; [apply (InvU_Good p x sidx opps HI); left; exact Eh|].
        pose proof (hitb_true _ _ Eh) as Eo. rewrite Eo in Hso, Hbd.
        assert (Hgoal : forall p', InvU p' [c] (sidx + utf8_len c) (tl opps) -> att p' r ->
                  G (map wf (upieces Normal (render r) [c] (sidx + utf8_len c) (tl opps)))
                    (map wf (upieces Normal (plain r) [c] (sidx + utf8_len c) (tl opps)))).
        { intros p' HI' Ha'.
          pose proof (IHA p' [c] (sidx + utf8_len c) (tl opps) HI' Ha' (sorted_tl _ _ Hso)
                        (bounded_ch _ _ _ _ (bounded_tl _ _ _ _ Hbd))) as H.
          rewrite (strip_id _ Hc1) in H. exact H. }
        destruct (N.eqb_spec c SP) as [Ec|Ec].
        -- subst c. destruct Ha as [_ Ha]. apply (Hgoal Csp); [|exact Ha].
           apply (InvU_sp C0 [] sidx opps); [reflexivity|discriminate].
        -- apply (Hgoal Cch); [|exact Ha].
           apply (InvU_ch C0 [] sidx opps); [reflexivity|exact Ec|exact Hi].
      * assert (E1 : c :: rev x = rev (x ++ [c])) by (rewrite rev_unit; reflexivity).
        assert (E2 : c :: rev (strip x) = rev (strip (x ++ [c]))).
        { rewrite (strip_app _ _ Ht), (strip_id _ Hc1), rev_unit. reflexivity. }
        rewrite E1, E2.
        destruct (N.eqb_spec c SP) as [Ec|Ec].
        -- subst c. destruct Ha as [Hp Ha].
           apply (IHA Csp); [|exact Ha|exact Hso|apply bounded_ch; exact Hbd].
           exact (InvU_sp p x sidx opps _ _ HI Hp).
        -- apply (IHA Cch); [|exact Ha|exact Hso|apply bounded_ch; exact Hbd].
           exact (InvU_ch p x sidx opps _ _ c HI Ec Hi).
    + intros p x y sidx opps Hp Hx Ha Hso Hbd. cbn [render plain]. rewrite !upieces_ch by exact Hi.
      rewrite (sorted_hitb _ _ Hso). cbn [hitb tl]. rewrite N.eqb_refl, rev_involutive.
      eexists. split; [reflexivity|].
      assert (HI : InvU C0q x sidx opps).
      { split; [exact Hx|right; exact (sorted_hitb _ _ Hso)]. }
      assert (E1 : rev (x ++ [c]) = c :: rev x) by (rewrite rev_unit; reflexivity).
      assert (E2 : rev (strip (x ++ [c])) = [c]).
      { destruct Hx as (_ & X2 & X3). rewrite (strip_app _ _ X3), X2, (strip_id _ Hc1). reflexivity. }
      assert (Hgoal : forall p', InvU p' (x ++ [c]) (sidx + utf8_len c) opps -> att p' r ->
                G (map wf (upieces Normal (render r) (c :: rev x) (sidx + utf8_len c) opps))
                  (map wf (upieces Normal (plain r) [c] (sidx + utf8_len c) opps))).
      { intros p' HI' Ha'.
        pose proof (IHA p' (x ++ [c]) (sidx + utf8_len c) opps HI' Ha' (sorted_tl _ _ Hso)
                      (bounded_ch _ _ _ _ (bounded_tl _ _ _ _ Hbd))) as H.
        rewrite E1, E2 in H. exact H. }
      cbn [att] in Ha.
      destruct (N.eqb_spec c SP) as [Ec|Ec].
      * subst c. destruct Ha as [Hp' Ha]. apply (Hgoal Csp); [|exact Ha].
        apply (InvU_sp C0q x sidx opps); [exact HI|discriminate].
      * apply (Hgoal Cch); [|exact Ha].
        exact (InvU_ch C0q x sidx opps _ _ c HI Ec Hi).
  - (* a block of sequences *)
    destruct (seq_ok_facts q Hi) as (Hq1 & Hq2 & Hq3).
    assert (Hq : invis q) by (split; [exact Hq1|split; [exact Hq2|exact Hq3]]).
    split.
    + intros p x sidx opps HI Ha Hso Hbd. cbn [render plain]. cbn [att] in Ha.
      pose proof (InvU_top _ _ _ _ HI) as Ht.
      assert (Es : strip (x ++ q) = strip x) by (rewrite (strip_app _ _ Ht), Hq2, app_nil_r; reflexivity).
      destruct q as [|c0 q'] eqn:Eq.
      * cbn [app]. rewrite <- (app_nil_r x) at 1. rewrite <- Es.
        apply (IHA (ctx_seq p)); [|exact Ha|exact Hso|exact Hbd].
        apply InvU_seq; [exact HI|exact Hq|left; reflexivity].
      * rewrite <- Eq in *. assert (Hne : q <> []) by (rewrite Eq; discriminate).
        destruct (hitb sidx opps) eqn:Eh.
        -- (* the opportunity is placed before the block *)
           pose proof (hitb_true _ _ Eh) as Eo.
           assert (Eh' : hitb sidx (tl opps) = false) by (apply sorted_hitb; rewrite <- Eo; exact Hso).
           rewrite (upieces_invis_hit q _ _ _ _ Hne Hq2 Eh Eh'). unfold top in Hq3. rewrite Hq3.
           rewrite rev_involutive.
           assert (Hp : ctx_seq p = ctx_seq (ctx_seq p)) by (destruct p; reflexivity).
           rewrite Eo in Hso, Hbd.
           destruct (IHB (ctx_seq p) q (strip x) sidx (tl opps) Hp Hq Ha Hso Hbd) as (rest & R1 & R2).
           rewrite Eo, R1. cbn [map]. apply G_good; [|exact R2].
           apply (InvU_Good p x sidx opps HI). left. exact Eh.
        -- rewrite (upieces_invis q Normal _ _ _ _ Hq2 Eh). unfold top in Hq3. rewrite Hq3.
           rewrite <- rev_app_distr, <- Es.
           apply (IHA (ctx_seq p)); [|exact Ha|exact Hso|exact Hbd].
           apply InvU_seq; [exact HI|exact Hq|right; exact Eh].
    + intros p x y sidx opps Hp Hx Ha Hso Hbd. cbn [render plain]. cbn [att] in Ha. rewrite <- Hp in Ha.
      rewrite (upieces_invis q Normal _ _ _ _ Hq2 (sorted_hitb _ _ Hso)). unfold top in Hq3. rewrite Hq3.
      rewrite <- rev_app_distr.
      apply (IHB p (x ++ q) y sidx opps Hp); [apply invis_app; assumption|exact Ha|exact Hso|exact Hbd].
Qed.

(* K7: with the Unicode separator the words of the coloured paragraph, stripped, are
   the words of the plain paragraph, and each ends outside any sequence.  [lbc] is
   applied to the same stripped text on both sides. *)
Theorem K7_words lbc items : WF items -> Attached items ->
  OracleOK (plain items) (lbc (plain items)) ->
  map strip_word (find_words_unicode cw lbc (render items)) = find_words_unicode cw lbc (plain items) /\
  Forall (fun w => final_state Normal (w_word w) = Normal) (find_words_unicode cw lbc (render items)).
Proof.
  intros Hwf Ha Hok. unfold find_words_unicode.
  rewrite (K1_strip items Hwf), (strip_id _ (plain_noesc items Hwf)).
  set (opps := filter (keep_opportunity (plain items)) (lbc (plain items))).
  unfold idx_map.
  pose proof (upieces_eq (render items) Normal [] 0 0 opps (le_n 0)) as E1.
  pose proof (upieces_eq (plain items) Normal [] 0 0 opps (le_n 0)) as E2.
  cbn [length Nat.sub rev app] in E1, E2. rewrite E1, E2.
  apply (proj1 (uni_sim items Hwf) C0 [] 0 opps); [reflexivity|exact Ha| |].
  - apply FOP_filter. exact (proj1 Hok).
  - apply Forall_forall. intros o Ho. apply filter_In in Ho. destruct Ho as [_ Ho].
    apply keep_opportunity_spec in Ho. destruct Ho as [Ho _]. lia.
Qed.
End K7.

(* ================================================================== *)
(* K6: assembling C13 (both separators)                                  *)
(* ================================================================== *)

Lemma blen_plain_le items : blen (plain items) <= blen (render items).
Proof.
  induction items as [|[c|q] r IH]; cbn [plain render blen]; [lia|lia|].
  rewrite SplitBreak.blen_app. lia.
Qed.

Section K6.
Variable cw : char -> N.
Variable alnum : char -> bool.
Variable lbc : str -> list N.
Variable custom_sp : str -> list N.
Variable ofit : penalties -> list word -> list N -> option (list (list word)).

(* a splitter cuts a coloured word and its stripped version alike *)
Definition SplitsAlike (sp : str -> list N) (w : word) : Prop :=
  exists ps,
    sw_loop cw w (sp (w_word w)) 0 = Some ps /\
    sw_loop cw (strip_word w) (sp (strip (w_word w))) 0 = Some (map strip_word ps) /\
    Forall wtop ps /\ Forall (cached cw) ps.

Lemma split_words_alike sp ws : Forall (SplitsAlike sp) ws ->
  exists sws,
    split_words cw sp ws = Some sws /\
    split_words cw sp (map strip_word ws) = Some (map strip_word sws) /\
    Forall wtop sws /\ Forall (cached cw) sws.
Proof.
  induction 1 as [|w r (ps & P1 & P2 & P3 & P4) _ (sws & S1 & S2 & S3 & S4)].
  - exists []. repeat split; constructor.
  - exists (ps ++ sws). cbn [map split_words].
    rewrite P1, S1. change (w_word (strip_word w)) with (strip (w_word w)). rewrite P2, S2, map_app.
    split; [reflexivity|]. split; [reflexivity|]. split; apply Forall_app; split; assumption.
Qed.

Lemma nosplit_alike w : wtop w -> cached cw w -> SplitsAlike (fun _ => []) w.
Proof.
  intros Ht Hc. exists [w]. split; [exact (sw_loop_nil_id cw w Hc)|].
  split; [exact (sw_loop_nil_id cw (strip_word w) (cached_strip cw w Hc))|].
  split; constructor; try assumption; constructor.
Qed.

Lemma hyphen_alike w : wtop w -> HyOK (w_word w) -> SplitsAlike (hyphen_points alnum) w.
Proof. intros Ht Hy. exact (K5_sw_loop cw alnum w Ht Hy). Qed.

(* what the word separator needs: the Unicode oracle's answer for the (common)
   stripped text is sane *)
Definition SepOK (o : options) (items : list item) : Prop :=
  match o_sep o with
  | SepAscii => True
  | SepUnicode => OracleOK (plain items) (lbc (plain items))
  end.

(* what the word splitter needs of the coloured paragraph *)
Definition SplOK (o : options) (items : list item) : Prop :=
  match o_spl o with
  | SplNone => True
  | SplHyphen => HyOK (render items)
  | SplCustom => forall w, In w (find_words cw lbc (o_sep o) (render items)) ->
                           SplitsAlike custom_sp w
  end.

(* K2 / K7 *)
Lemma find_words_colour o items : WF items -> Attached items -> SepOK o items ->
  map strip_word (find_words cw lbc (o_sep o) (render items)) =
    find_words cw lbc (o_sep o) (plain items) /\
  Forall wtop (find_words cw lbc (o_sep o) (render items)).
Proof.
  intros Hwf Ha Hsep. unfold SepOK in Hsep. destruct (o_sep o); cbn [find_words].
  - exact (K2_words cw items Hwf Ha).
  - exact (K7_words cw lbc items Hwf Ha Hsep).
Qed.

Lemma sentinel_strip : strip_word (word_from cw []) = word_from cw [].
Proof. reflexivity. Qed.

(* the word lists handed to the wrap algorithm correspond *)
Theorem front o first items :
  WF items -> Attached items -> SepOK o items -> SplOK o items ->
  exists bws_r,
    pipeline_words cw alnum lbc custom_sp o first (render items) = Some bws_r /\
    pipeline_words cw alnum lbc custom_sp o first (plain items) = Some (map strip_word bws_r) /\
    Forall wtop bws_r.
Proof.
  intros Hwf Ha Hsep Hspl.
  destruct (find_words_colour o items Hwf Ha Hsep) as [K2a K2b].
  destruct (find_words_spec cw lbc (o_sep o) (render items)) as (F2 & F1).
  assert (Hc : Forall (cached cw) (find_words cw lbc (o_sep o) (render items))).
  { eapply Forall_impl; [|exact F1]. intros w (_ & _ & _ & Hw). exact Hw. }
  assert (Hal : Forall (SplitsAlike (split_points alnum custom_sp (o_spl o)))
                       (find_words cw lbc (o_sep o) (render items))).
  { unfold SplOK in Hspl. destruct (o_spl o).
    - rewrite Forall_forall in K2b, Hc |- *. intros w Hw.
      exact (nosplit_alike w (K2b w Hw) (Hc w Hw)).
    - assert (Hy : Forall (fun w => HyOK (w_word w)) (find_words cw lbc (o_sep o) (render items))).
      { apply hy_ok_words; [exact K2b| |].
        - eapply Forall_impl; [|exact F1]. intros w (Hs & _). exact Hs.
        - rewrite F2. exact Hspl. }
      rewrite Forall_forall in K2b, Hy |- *. intros w Hw.
      exact (hyphen_alike w (K2b w Hw) (Hy w Hw)).
    - rewrite Forall_forall. exact Hspl. }
  destruct (split_words_alike _ _ Hal) as (sws & S1 & S2 & S3 & S4).
  unfold pipeline_words. rewrite <- K2a, S1, S2.
  destruct (o_bw o).
  - pose proof (K4_break_words cw (o_width o - dw cw (o_si o)) sws S4) as B1.
    pose proof (break_words_wtop cw (o_width o - dw cw (o_si o)) sws S3) as B2.
    destruct (nonempty (if first then o_ii o else o_si o)).
    + eexists. split; [reflexivity|]. cbn [map]. rewrite sentinel_strip, B1.
      split; [reflexivity|]. constructor; [reflexivity|exact B2].
    + eexists. split; [reflexivity|]. rewrite B1. split; [reflexivity|exact B2].
  - exists sws. split; [reflexivity|]. split; [reflexivity|exact S3].
Qed.

(* C13, one paragraph, the slow path: every algorithm, splitter, separator and
   break_words setting *)
Theorem K6_slow_path o first items :
  OfitOK ofit -> OfitBlind ofit -> SplitterOK custom_sp ->
  final_state Normal (o_ii o) = Normal -> final_state Normal (o_si o) = Normal ->
  WF items -> Attached items -> SepOK o items -> SplOK o items ->
  exists ls_r ls_p,
    slow_path cw alnum lbc custom_sp ofit o first (render items) = Some ls_r /\
    slow_path cw alnum lbc custom_sp ofit o first (plain items) = Some ls_p /\
    map (fun l => strip (l_text l)) ls_r = map (fun l => strip (l_text l)) ls_p /\
    Forall (fun l => final_state Normal (l_text l) = Normal) ls_r /\
    (Forall (fun c => c <> ESC) (o_ii o) -> Forall (fun c => c <> ESC) (o_si o) ->
     map (fun l => strip (l_text l)) ls_r = map l_text ls_p).
Proof.
  intros HO HB HS Hii Hsi Hwf Ha Hsep Hspl.
  destruct (front o first items Hwf Ha Hsep Hspl) as (bws_r & E1 & E2 & Ht).
  exact (backend cw alnum lbc custom_sp ofit o first _ _ bws_r HO HB HS Hii Hsi E1 E2 Ht).
Qed.

(* the shortcut of wrap_single_line on a coloured paragraph *)
Lemma trim_colour items : WF items -> Attached items ->
  strip (trim_end_sp (render items)) = trim_end_sp (plain items) /\
  top (trim_end_sp (render items)).
Proof.
  intros Hwf Ha.
  destruct (K2_words cw items Hwf Ha) as [K2a K2b].
  destruct (InplaceFacts.find_words_ascii_spec cw (render items)) as (F1 & F2 & F3).
  destruct (InplaceFacts.find_words_ascii_spec cw (plain items)) as (G1 & G2 & G3).
  rewrite <- K2a in G1, G2, G3.
  destruct (find_words_ascii cw (render items)) as [|x ws] eqn:E.
  - cbn [map] in G2. change (InplaceFacts.gtext []) with (@nil char) in F2, G2.
    rewrite <- F2, <- G2. split; reflexivity.
  - rewrite <- E in *. assert (Hne : find_words_ascii cw (render items) <> []) by (rewrite E; discriminate).
    destruct (exists_last Hne) as [g' [lw El]]. rewrite El in *.
    destruct (InplaceFacts.grp_ok_of cw _ F1 F3) as [_ T1].
    destruct (InplaceFacts.grp_ok_of cw _ G1 G3) as [_ T2].
    specialize (T1 g' lw eq_refl). rewrite map_app in T2. cbn [map] in T2.
    specialize (T2 (map strip_word g') (strip_word lw) eq_refl).
    rewrite map_app in G2. cbn [map] in G2. rewrite F2 in T1. rewrite G2 in T2. rewrite T1, T2.
    apply Forall_app in K2b. destruct K2b as [Kg Kl]. inversion Kl as [|w0 r0 Hl _]; subst w0 r0.
    apply Forall_app in F1. destruct F1 as [F1 _].
    assert (Hs : Forall (fun w => allsp (w_ws w)) g').
    { eapply Forall_impl; [|exact F1]. intros w (_ & Hs & _). exact Hs. }
    destruct (gtext_strip g' Kg Hs) as [S1 S2].
    change (InplaceFacts.gtext g') with (gtext g').
    change (InplaceFacts.gtext (map strip_word g')) with (gtext (map strip_word g')).
    split.
    + rewrite (strip_app _ _ S2), S1. reflexivity.
    + apply top_app; [exact S2|exact Hl].
Qed.

(* The shortcut of wrap_single_line is taken on the byte length, which the
   sequences change: a coloured paragraph may take the slow path where its plain
   version takes the shortcut.  For that case (only) C13 needs C05, "the shortcut
   is unobservable", of the plain paragraph, as far as the texts go. *)
Definition ShortcutOK (o : options) (first : bool) (p : str) : Prop :=
  blen p < o_width o -> (if first then o_ii o else o_si o) = [] ->
  exists ls, slow_path cw alnum lbc custom_sp ofit o first p = Some ls /\
             map l_text ls = [trim_end_sp p].

Theorem K6_wrap_single_line o first items :
  OfitOK ofit -> OfitBlind ofit -> SplitterOK custom_sp ->
  final_state Normal (o_ii o) = Normal -> final_state Normal (o_si o) = Normal ->
  WF items -> Attached items -> SepOK o items -> SplOK o items ->
  (o_width o <= blen (render items) -> ShortcutOK o first (plain items)) ->
  exists ls_r ls_p,
    wrap_single_line cw alnum lbc custom_sp ofit o first (render items) = Some ls_r /\
    wrap_single_line cw alnum lbc custom_sp ofit o first (plain items) = Some ls_p /\
    map (fun l => strip (l_text l)) ls_r = map (fun l => strip (l_text l)) ls_p /\
    Forall (fun l => final_state Normal (l_text l) = Normal) ls_r /\
    (Forall (fun c => c <> ESC) (o_ii o) -> Forall (fun c => c <> ESC) (o_si o) ->
     map (fun l => strip (l_text l)) ls_r = map l_text ls_p).
Proof.
  intros HO HB HS Hii Hsi Hwf Ha Hsep Hspl Hsc.
  destruct (K6_slow_path o first items HO HB HS Hii Hsi Hwf Ha Hsep Hspl)
    as (ls_r & ls_p & E1 & E2 & E3 & E4 & E5).
  destruct (trim_colour items Hwf Ha) as [T1 T2].
  pose proof (blen_plain_le items) as Hle.
  unfold wrap_single_line.
  destruct (nonempty (if first then o_ii o else o_si o)) eqn:En.
  - rewrite !andb_false_r. exists ls_r, ls_p. auto.
  - rewrite !andb_true_r.
    destruct (N.ltb_spec (blen (render items)) (o_width o)) as [Hr|Hr].
    + destruct (N.ltb_spec (blen (plain items)) (o_width o)) as [Hp|Hp]; [|lia].
      eexists. eexists. split; [reflexivity|]. split; [reflexivity|]. cbn [map l_text].
      rewrite T1. split; [|split].
      * rewrite strip_id; [reflexivity|]. rewrite <- T1. apply strip_noesc.
      * constructor; [exact T2|constructor].
      * intros _ _. reflexivity.
    + destruct (N.ltb_spec (blen (plain items)) (o_width o)) as [Hp|Hp].
      * assert (Eind : (if first then o_ii o else o_si o) = []).
        { destruct (if first then o_ii o else o_si o); [reflexivity|discriminate]. }
        destruct (Hsc Hr Hp Eind) as (ls & S1 & S2). rewrite E2 in S1. injection S1 as <-.
        exists ls_r. eexists. split; [exact E1|]. split; [reflexivity|]. cbn [map l_text].
        assert (E6 : map (fun l => strip (l_text l)) ls_p = [trim_end_sp (plain items)]).
        { rewrite <- (map_map l_text strip), S2. cbn [map]. rewrite <- T1, strip_idem. reflexivity. }
        rewrite E3, E6, <- T1, strip_idem. split; [reflexivity|]. split; [exact E4|]. intros _ _. reflexivity.
      * exists ls_r, ls_p. auto.
Qed.
End K6.

(* ---- the text level ---- *)

Definition LinesOK (o : options) (ls_r ls_p : list oline) : Prop :=
  map (fun l => strip (l_text l)) ls_r = map (fun l => strip (l_text l)) ls_p /\
  Forall (fun l => final_state Normal (l_text l) = Normal) ls_r /\
  (Forall (fun c => c <> ESC) (o_ii o) -> Forall (fun c => c <> ESC) (o_si o) ->
   map (fun l => strip (l_text l)) ls_r = map l_text ls_p).

Lemma LinesOK_app o a a' b b' : LinesOK o a a' -> LinesOK o b b' -> LinesOK o (a ++ b) (a' ++ b').
Proof.
  intros (A1 & A2 & A3) (B1 & B2 & B3). split; [|split].
  - rewrite !map_app, A1, B1. reflexivity.
  - apply Forall_app. split; assumption.
  - intros N1 N2. rewrite !map_app, (A3 N1 N2), (B3 N1 N2). reflexivity.
Qed.

Lemma LinesOK_shift o b b' ls ls' : LinesOK o ls ls' ->
  LinesOK o (map (shift_cow b) ls) (map (shift_cow b') ls').
Proof.
  intros (A1 & A2 & A3). split; [|split].
  - rewrite !map_map.
    rewrite (map_ext _ (fun l => strip (l_text l)) (fun l => f_equal strip (shift_cow_text b l))).
    rewrite (map_ext _ (fun l => strip (l_text l)) (fun l => f_equal strip (shift_cow_text b' l))).
    exact A1.
  - rewrite Forall_map. eapply Forall_impl; [|exact A2]. intros l Hl.
    rewrite shift_cow_text. exact Hl.
  - intros N1 N2. rewrite !map_map.
    rewrite (map_ext _ (fun l => strip (l_text l)) (fun l => f_equal strip (shift_cow_text b l))).
    rewrite (map_ext _ l_text (shift_cow_text b')).
    exact (A3 N1 N2).
Qed.

Lemma LinesOK_length o ls ls' : LinesOK o ls ls' -> length ls = length ls'.
Proof. intros (A1 & _). apply (f_equal (@length str)) in A1. rewrite !map_length in A1. exact A1. Qed.

Lemma split_le_join le ps : ps <> [] -> Forall lf_free ps ->
  split_le le (join (le_str le) ps) = ps.
Proof.
  induction ps as [|x r IH]; intros Hne Hf; [congruence|].
  inversion Hf as [|x0 r0 Hx Hr]; subst x0 r0.
  destruct r as [|y r'].
  - cbn [join]. apply split_le_lf_free. exact Hx.
  - rewrite join_cons by discriminate. rewrite split_le_app, (split_le_lf_free le x Hx), IH;
      [reflexivity|discriminate|exact Hr].
Qed.

Lemma plain_lf_free items : lf_free (render items) -> lf_free (plain items).
Proof.
  unfold lf_free. induction items as [|[c|q] r IH]; cbn [render plain]; intros H.
  - exact H.
  - intros [E|Hin]; [apply H; left; exact E|]. apply IH; [|exact Hin].
    intros Hr. apply H. right. exact Hr.
  - apply IH. intros Hr. apply H. apply in_or_app. right. exact Hr.
Qed.

Section K6w.
Variable cw : char -> N.
Variable alnum : char -> bool.
Variable lbc : str -> list N.
Variable custom_sp : str -> list N.
Variable ofit : penalties -> list word -> list N -> option (list (list word)).

(* what C13 asks of one coloured paragraph *)
Definition ParaOK (o : options) (items : list item) : Prop :=
  WF items /\ Attached items /\ SepOK lbc o items /\ SplOK cw lbc custom_sp o items /\
  forall first, o_width o <= blen (render items) ->
                ShortcutOK cw alnum lbc custom_sp ofit o first (plain items).

(* with both indentations non-empty wrap never takes the shortcut *)
Lemma ParaOK_indented o items : o_ii o <> [] -> o_si o <> [] ->
  WF items -> Attached items -> SepOK lbc o items -> SplOK cw lbc custom_sp o items ->
  ParaOK o items.
Proof.
  intros H1 H2 Hwf Ha Hsep Hspl. split; [exact Hwf|]. split; [exact Ha|]. split; [exact Hsep|].
  split; [exact Hspl|]. intros first _ _ E. destruct first; contradiction.
Qed.

Hypothesis HO : OfitOK ofit.
Hypothesis HB : OfitBlind ofit.
Hypothesis HS : SplitterOK custom_sp.

Lemma wrap_loop_colour o :
  final_state Normal (o_ii o) = Normal -> final_state Normal (o_si o) = Normal ->
  forall paras acc_r acc_p base_r base_p,
  Forall (ParaOK o) paras -> LinesOK o acc_r acc_p ->
  exists ls_r ls_p,
    wrap_loop cw alnum lbc custom_sp ofit o (map render paras) acc_r base_r = Some ls_r /\
    wrap_loop cw alnum lbc custom_sp ofit o (map plain paras) acc_p base_p = Some ls_p /\
    LinesOK o ls_r ls_p.
Proof.
  intros Hii Hsi. induction paras as [|p r IH]; intros acc_r acc_p base_r base_p Hp Hacc.
  - exists acc_r, acc_p. split; [reflexivity|]. split; [reflexivity|exact Hacc].
  - inversion Hp as [|p0 r0 (P1 & P2 & P3 & P4 & P5) Hr]; subst p0 r0. cbn [map wrap_loop].
    assert (Ef : match acc_p with [] => true | _ => false end =
                 match acc_r with [] => true | _ => false end).
    { pose proof (LinesOK_length o _ _ Hacc) as Hl.
      destruct acc_r, acc_p; try reflexivity; discriminate. }
    rewrite Ef.
    destruct (K6_wrap_single_line cw alnum lbc custom_sp ofit o
                (match acc_r with [] => true | _ => false end) p
                HO HB HS Hii Hsi P1 P2 P3 P4 (P5 _)) as (ls_r & ls_p & E1 & E2 & E3).
    rewrite E1, E2. apply IH; [exact Hr|].
    apply LinesOK_app; [exact Hacc|]. apply LinesOK_shift. exact E3.
Qed.

(* C13 for [wrap]: a text of coloured paragraphs and its plain version *)
Theorem K6_wrap o (paras : list (list item)) :
  final_state Normal (o_ii o) = Normal -> final_state Normal (o_si o) = Normal ->
  paras <> [] -> Forall (ParaOK o) paras ->
  Forall (fun p => ~ In LF (render p)) paras ->
  exists ls_r ls_p,
    wrap cw alnum lbc custom_sp ofit o (join (le_str (o_le o)) (map render paras)) = Some ls_r /\
    wrap cw alnum lbc custom_sp ofit o (join (le_str (o_le o)) (map plain paras)) = Some ls_p /\
    map (fun l => strip (l_text l)) ls_r = map (fun l => strip (l_text l)) ls_p /\
    Forall (fun l => final_state Normal (l_text l) = Normal) ls_r /\
    (Forall (fun c => c <> ESC) (o_ii o) -> Forall (fun c => c <> ESC) (o_si o) ->
     map (fun l => strip (l_text l)) ls_r = map l_text ls_p).
Proof.
  intros Hii Hsi Hne Hp Hlf. unfold wrap.
  rewrite !split_le_join.
  - apply (wrap_loop_colour o Hii Hsi paras [] [] 0 0 Hp).
    split; [reflexivity|]. split; [constructor|]. intros _ _. reflexivity.
  - destruct paras; [congruence|discriminate].
  - rewrite Forall_map. eapply Forall_impl; [|exact Hlf]. intros p H. apply plain_lf_free. exact H.
  - destruct paras; [congruence|discriminate].
  - rewrite Forall_map. exact Hlf.
Qed.
End K6w.

(* first-fit needs nothing of the oracle; the reference optimal-fit oracle qualifies *)
Corollary K6_wrap_reference cw alnum lbc custom_sp o (paras : list (list item)) :
  SplitterOK custom_sp ->
  final_state Normal (o_ii o) = Normal -> final_state Normal (o_si o) = Normal ->
  paras <> [] -> Forall (ParaOK cw alnum lbc custom_sp ofit_dp o) paras ->
  Forall (fun p => ~ In LF (render p)) paras ->
  exists ls_r ls_p,
    wrap cw alnum lbc custom_sp ofit_dp o (join (le_str (o_le o)) (map render paras)) = Some ls_r /\
    wrap cw alnum lbc custom_sp ofit_dp o (join (le_str (o_le o)) (map plain paras)) = Some ls_p /\
    map (fun l => strip (l_text l)) ls_r = map (fun l => strip (l_text l)) ls_p /\
    Forall (fun l => final_state Normal (l_text l) = Normal) ls_r /\
    (Forall (fun c => c <> ESC) (o_ii o) -> Forall (fun c => c <> ESC) (o_si o) ->
     map (fun l => strip (l_text l)) ls_r = map l_text ls_p).
Proof.
  intros HS. exact (K6_wrap cw alnum lbc custom_sp ofit_dp ofit_dp_ok ofit_dp_blind HS o paras).
Qed.

(* ---- the hypotheses of K6, discharged in the common cases ---- *)

(* HyOK from the item list: no '-' inside a block, no block next to a '-' *)
Definition next_not_hy (l : list item) : Prop :=
  match l with Ch c :: _ => c <> HY | _ => True end.

Fixpoint hy_items (prev_hy : bool) (l : list item) : Prop :=
  match l with
  | [] => True
  | Ch c :: r => hy_items (c =? HY) r
  | Seq q :: r => ~ In HY q /\ prev_hy = false /\ next_not_hy r /\ hy_items false r
  end.

Lemma hy_ok_seq q : forall s pv rest, ~ In HY q -> strip_from s q = [] ->
  hy_ok (final_state s q) (match q with [] => pv | _ => false end) rest ->
  hy_ok s pv (q ++ rest).
Proof.
  induction q as [|c q IH]; intros s pv rest Hn Hs H; [exact H|].
  cbn [app hy_ok]. cbn [strip_from] in Hs. cbn [final_state] in H.
  destruct (step s c) as [s' v] eqn:E. cbn [fst snd] in *.
  destruct v; [discriminate|]. split.
  - intros Ec. exfalso. apply Hn. left. exact Ec.
  - apply IH; [intros Hin; apply Hn; right; exact Hin|exact Hs|].
    destruct q; exact H.
Qed.

Lemma hy_items_ok : forall l ph pv, WF l -> hy_items ph l -> (pv = false -> next_not_hy l) ->
  hy_ok Normal pv (render l).
Proof.
  induction l as [|[c|q] r IH]; intros ph pv Hwf Hh Hp; [exact I| |].
  - inversion Hwf as [|i0 r0 Hc Hr]; subst i0 r0. cbn [item_ok] in Hc.
    cbn [render hy_ok]. rewrite (step_normal_vis c Hc). cbn [fst snd].
    cbn [hy_items] in Hh. split.
    + intros Ec. split; [reflexivity|]. split.
      * destruct pv; [reflexivity|]. exfalso. exact (Hp eq_refl Ec).
      * destruct r as [|[d|q'] r']; cbn [render nextvis]; [exact I| |].
        -- inversion Hr as [|i0 r0 Hd _]; subst i0 r0. cbn [item_ok] in Hd.
           rewrite (step_normal_vis d Hd). reflexivity.
        -- subst c. cbn [hy_items] in Hh. change (HY =? HY) with true in Hh.
           destruct Hh as (_ & Hh & _). discriminate.
    + apply (IH (c =? HY) true Hr Hh). discriminate.
  - inversion Hwf as [|i0 r0 Hq Hr]; subst i0 r0.
    destruct (seq_ok_facts q Hq) as (_ & Q2 & Q3).
    cbn [hy_items] in Hh. destruct Hh as (H1 & H2 & H3 & H4).
    cbn [render]. apply hy_ok_seq; [exact H1|exact Q2|].
    unfold top in Q3. rewrite Q3.
    apply (IH false _ Hr H4). intros _. exact H3.
Qed.

Theorem hy_items_HyOK l : WF l -> hy_items false l -> HyOK (render l).
Proof. intros Hwf Hh. apply (hy_items_ok l false true Hwf Hh). discriminate. Qed.

Section Shortcut.
Variable cw : char -> N.
Variable alnum : char -> bool.
Variable lbc : str -> list N.
Variable custom_sp : str -> list N.
Variable ofit : penalties -> list word -> list N -> option (list (list word)).

(* C05 b ("the shortcut is unobservable") gives ShortcutOK *)
Lemma shortcut_of_unobservable o (first : bool) p :
  (blen p < o_width o -> (if first then o_ii o else o_si o) = [] ->
   wrap_single_line cw alnum lbc custom_sp ofit o first p =
   slow_path cw alnum lbc custom_sp ofit o first p) ->
  ShortcutOK cw alnum lbc custom_sp ofit o first p.
Proof.
  intros H Hlt Hind. specialize (H Hlt Hind). unfold wrap_single_line in H.
  rewrite Hind in H. cbn [nonempty negb] in H. rewrite andb_true_r in H.
  destruct (N.ltb_spec (blen p) (o_width o)) as [_|Hge]; [|lia].
  eexists. split; [symmetry; exact H|reflexivity].
Qed.

(* with non-empty indentation there is no shortcut *)
Lemma shortcut_indented o (first : bool) p :
  (if first then o_ii o else o_si o) <> [] -> ShortcutOK cw alnum lbc custom_sp ofit o first p.
Proof. intros Hne Hlt E. contradiction. Qed.
End Shortcut.

(* ---- executable versions of the side conditions ---- *)

Definition ctx_eqb (a b : ctx) : bool :=
  match a, b with
  | C0, C0 | C0q, C0q | Csp, Csp | Cspq, Cspq | Cch, Cch => true
  | _, _ => false
  end.

Fixpoint attb (p : ctx) (l : list item) : bool :=
  match l with
  | [] => match p with C0q | Cspq => false | _ => true end
  | Ch c :: r => if c =? SP then negb (ctx_eqb p Cspq) && attb Csp r else attb Cch r
  | Seq _ :: r => attb (ctx_seq p) r
  end.

Lemma attb_spec l : forall p, attb p l = true <-> att p l.
Proof.
  induction l as [|[c|q] r IH]; intros p; cbn [attb att].
  - destruct p; split; intros H; try reflexivity; try exact I; try discriminate; contradiction.
  - destruct (c =? SP); [|apply IH].
    rewrite andb_true_iff, IH. destruct p; cbn [ctx_eqb negb]; split; intros [H1 H2]; split;
      try assumption; try discriminate; try reflexivity; exfalso; apply H1; reflexivity.
  - apply IH.
Qed.

Definition nextvisb (s : st) (r : str) : bool :=
  match r with [] => true | d :: _ => snd (step s d) end.

Fixpoint hy_okb (s : st) (pv : bool) (t : str) : bool :=
  match t with
  | [] => true
  | c :: r => (if c =? HY then snd (step s c) && pv && nextvisb (fst (step s c)) r else true)
              && hy_okb (fst (step s c)) (snd (step s c)) r
  end.

Lemma hy_okb_spec t : forall s pv, hy_okb s pv t = true <-> hy_ok s pv t.
Proof.
  induction t as [|c r IH]; intros s pv; cbn [hy_okb hy_ok]; [split; auto|].
  rewrite andb_true_iff, IH.
  assert (Hn : nextvisb (fst (step s c)) r = true <-> nextvis (fst (step s c)) r).
  { destruct r; cbn [nextvisb nextvis]; split; auto. }
  destruct (N.eqb_spec c HY) as [E|E].
  - rewrite !andb_true_iff, Hn. split.
    + intros [[[A B] C] D]. split; [intros _; auto|exact D].
    + intros [A D]. destruct (A E) as (A1 & A2 & A3). auto.
  - split; intros [A D]; split; auto. intros E'. contradiction.
Qed.

(* ================================================================== *)
(* Non-vacuity examples and counterexamples                             *)
(* ================================================================== *)

Definition col_cw : char -> N := fun c => if c <? 4352 then 1 else 2.
Definition col_alnum : char -> bool := fun c =>
  ((48 <=? c) && (c <=? 57)) || ((65 <=? c) && (c <=? 90)) || ((97 <=? c) && (c <=? 122)).
Definition col_lbc : str -> list N := fun _ => [].
Definition red : str := [27; 91; 51; 49; 109].     (* ESC [ 3 1 m *)
Definition rst : str := [27; 91; 48; 109].         (* ESC [ 0 m *)

Ltac not_in := let H := fresh in intros H; cbn [In] in H;
  repeat (destruct H as [H|H]; [discriminate|]); exact H.

Lemma red_ok : item_ok (Seq red).
Proof.
  split; [|not_in]. apply (P_csi [51; 49] 109 [] []); [|reflexivity|constructor].
  repeat (constructor; [split; [reflexivity|discriminate]|]). constructor.
Qed.
Lemma rst_ok : item_ok (Seq rst).
Proof.
  split; [|not_in]. apply (P_csi [48] 109 [] []); [|reflexivity|constructor].
  repeat (constructor; [split; [reflexivity|discriminate]|]). constructor.
Qed.

(* "RED green-blue  yellowish": RED, "lue" and "lowish" coloured, an empty colour pair
   in front of "yellowish" *)
Definition col_items : list item :=
  [Seq red; Ch 82; Ch 69; Ch 68; Seq rst; Ch 32;
   Ch 103; Ch 114; Ch 101; Ch 101; Ch 110; Ch 45; Ch 98; Seq red; Ch 108; Ch 117; Ch 101; Seq rst;
   Ch 32; Ch 32;
   Seq red; Seq rst; Ch 121; Ch 101; Ch 108; Seq red; Ch 108; Ch 111; Ch 119; Ch 105; Ch 115; Ch 104;
   Seq rst].

Lemma col_items_wf : WF col_items.
Proof.
  unfold col_items, WF.
  repeat (constructor; [first [exact red_ok|exact rst_ok|cbn [item_ok]; discriminate]|]).
  constructor.
Qed.
Lemma col_items_attached : Attached col_items.
Proof. apply attb_spec. vm_compute. reflexivity. Qed.
Lemma col_items_hy : HyOK (render col_items).
Proof. apply hy_okb_spec. vm_compute. reflexivity. Qed.
Lemma col_items_hy_items : hy_items false col_items.
Proof.
  unfold col_items. cbn [hy_items next_not_hy]. change (45 =? HY) with true.
  repeat match goal with
         | |- _ /\ _ => split
         | |- ~ In _ _ => not_in
         | |- _ = _ => reflexivity
         | |- _ <> _ => discriminate
         | |- True => exact I
         end.
Qed.

Definition col_o1 := mkOptions 6 LE_LF [] [] true FirstFit SepAscii SplHyphen.
Definition col_o2 := mkOptions 6 LE_LF [62] [32] true (OptimalFit default_penalties) SepAscii SplHyphen.

(* the hypotheses of K6 hold of the example ... *)
Example col_para_ok1 : ParaOK col_cw col_alnum col_lbc custom3 ofit_dp col_o1 col_items.
Proof.
  split; [exact col_items_wf|]. split; [exact col_items_attached|]. split; [exact I|].
  split; [exact col_items_hy|].
  intros first _ Hlt. vm_compute in Hlt. destruct (blen (plain col_items)); discriminate.
Qed.
Example col_para_ok2 : ParaOK col_cw col_alnum col_lbc custom3 ofit_dp col_o2 col_items.
Proof.
  split; [exact col_items_wf|]. split; [exact col_items_attached|]. split; [exact I|].
  split; [exact col_items_hy|].
  intros first _ Hlt. vm_compute in Hlt. destruct (blen (plain col_items)); discriminate.
Qed.

(* ... and this is what the conclusion says (5 lines, broken inside "green-blue" by
   the hyphen splitter and inside "yellowish" by break_words) *)
Example col_wrap1 :
  exists ls_r ls_p,
    wrap col_cw col_alnum col_lbc custom3 ofit_dp col_o1 (render col_items) = Some ls_r /\
    wrap col_cw col_alnum col_lbc custom3 ofit_dp col_o1 (plain col_items) = Some ls_p /\
    map (fun l => strip (l_text l)) ls_r = map l_text ls_p /\
    map l_text ls_p = [[82; 69; 68]; [103; 114; 101; 101; 110; 45]; [98; 108; 117; 101];
                       [121; 101; 108; 108; 111; 119]; [105; 115; 104]] /\
    nth 2 (map l_text ls_r) [] = [98] ++ red ++ [108; 117; 101] ++ rst.
Proof. eexists. eexists. split; [vm_compute; reflexivity|]. split; [vm_compute; reflexivity|]. vm_compute. auto. Qed.

Example col_wrap2 :
  exists ls_r ls_p,
    wrap col_cw col_alnum col_lbc custom3 ofit_dp col_o2 (render col_items) = Some ls_r /\
    wrap col_cw col_alnum col_lbc custom3 ofit_dp col_o2 (plain col_items) = Some ls_p /\
    map (fun l => strip (l_text l)) ls_r = map l_text ls_p /\ length ls_p = 5%nat.
Proof. eexists. eexists. split; [vm_compute; reflexivity|]. split; [vm_compute; reflexivity|]. vm_compute. auto. Qed.

(* the shortcut case: the coloured paragraph is 11 bytes, its text 2 *)
Definition col_short : list item := [Seq red; Ch 97; Ch 98; Seq rst].
Example col_short_ok : ParaOK col_cw col_alnum col_lbc custom3 ofit_dp col_o1 col_short.
Proof.
  split; [|split; [apply attb_spec; vm_compute; reflexivity|split; [exact I|split; [apply hy_okb_spec; vm_compute; reflexivity|]]]].
  - unfold col_short, WF.
    repeat (constructor; [first [exact red_ok|exact rst_ok|cbn [item_ok]; discriminate]|]). constructor.
  - intros first _ _ _. eexists. destruct first; (split; [vm_compute; reflexivity|reflexivity]).
Qed.

(* the ShortcutOK hypothesis cannot be dropped: with a (unrealistic) width function
   that exceeds the byte length, C05 fails of the plain paragraph "ab" — it takes the
   shortcut — while the coloured paragraph takes the slow path and is broken *)
Definition col_cw3 : char -> N := fun _ => 3.
Definition col_o6 := mkOptions 4 LE_LF [] [] true FirstFit SepAscii SplNone.
Example shortcut_needed :
  exists ls_r ls_p,
    wrap col_cw3 col_alnum col_lbc custom3 ofit_dp col_o6 (render col_short) = Some ls_r /\
    wrap col_cw3 col_alnum col_lbc custom3 ofit_dp col_o6 (plain col_short) = Some ls_p /\
    map (fun l => strip (l_text l)) ls_r = [[97]; [98]] /\ map l_text ls_p = [[97; 98]] /\
    ~ ShortcutOK col_cw3 col_alnum col_lbc custom3 ofit_dp col_o6 true (plain col_short).
Proof.
  eexists. eexists. split; [vm_compute; reflexivity|]. split; [vm_compute; reflexivity|].
  split; [vm_compute; reflexivity|]. split; [vm_compute; reflexivity|].
  intros H. destruct H as (ls & H1 & H2); [reflexivity|reflexivity|].
  vm_compute in H1. injection H1 as <-. vm_compute in H2. discriminate.
Qed.

(* Attached is exact on the three shapes it excludes (space, block, space /
   trailing block after a space / blocks only): the word lists differ *)
Example att_exact_1 : let l := [Ch 32; Seq red; Ch 32; Ch 97] in
  ~ Attached l /\ WF l /\
  map strip_word (find_words_ascii col_cw (render l)) <> find_words_ascii col_cw (plain l).
Proof.
  split; [intros H; apply attb_spec in H; vm_compute in H; discriminate|]. split.
  - repeat (constructor; [first [exact red_ok|cbn [item_ok]; discriminate]|]). constructor.
  - intros H. vm_compute in H. discriminate.
Qed.
Example att_exact_2 : let l := [Ch 97; Ch 32; Seq red] in
  ~ Attached l /\ WF l /\
  map strip_word (find_words_ascii col_cw (render l)) <> find_words_ascii col_cw (plain l).
Proof.
  split; [intros H; apply attb_spec in H; vm_compute in H; discriminate|]. split.
  - repeat (constructor; [first [exact red_ok|cbn [item_ok]; discriminate]|]). constructor.
  - intros H. vm_compute in H. discriminate.
Qed.
Example att_exact_3 : let l := [Seq red] in
  ~ Attached l /\ WF l /\
  map strip_word (find_words_ascii col_cw (render l)) <> find_words_ascii col_cw (plain l).
Proof.
  split; [intros H; apply attb_spec in H; vm_compute in H; discriminate|]. split.
  - repeat (constructor; [first [exact red_ok|cbn [item_ok]; discriminate]|]). constructor.
  - intros H. vm_compute in H. discriminate.
Qed.
(* ... while a block at the very beginning may be followed by a space, which the
   condition of the task brief (Touching) excludes *)
Example att_weaker : let l := [Seq red; Ch 32; Ch 97] in
  Attached l /\ ~ Touching l /\
  map strip_word (find_words_ascii col_cw (render l)) = find_words_ascii col_cw (plain l).
Proof.
  split; [apply attb_spec; vm_compute; reflexivity|]. split.
  - intros H. cbn in H. destruct H as [[H|H] _]; [discriminate|apply H; reflexivity].
  - vm_compute. reflexivity.
Qed.

(* K4: the hypothesis  strip (w_word w) <> []  is needed *)
Example K4_counterexample : let w := mkWord red [] [] 0 in
  map strip_word (break_apart col_cw 3 w) = [mkWord [] [] [] 0] /\
  break_apart col_cw 3 (strip_word w) = [].
Proof. split; vm_compute; reflexivity. Qed.

(* The known finding: a hyperlink whose URL contains a hyphen.
   ESC ] 8 ; ; http://my-site.com ESC \ link *)
Definition col_link : list item :=
  [Seq [27; 93; 56; 59; 59; 104; 116; 116; 112; 58; 47; 47; 109; 121; 45; 115; 105; 116; 101; 46;
        99; 111; 109; 27; 92];
   Ch 108; Ch 105; Ch 110; Ch 107].
Definition col_o3 := mkOptions 10 LE_LF [] [] true FirstFit SepAscii SplHyphen.
Definition col_o4 := mkOptions 10 LE_LF [] [] true FirstFit SepAscii SplNone.

(* well-formed and attached, but the sequence contains a '-': HyOK fails (and so
   does the item-level condition hy_items) *)
Example col_link_hyps :
  WF col_link /\ Attached col_link /\ ~ HyOK (render col_link) /\ ~ hy_items false col_link.
Proof.
  split; [|split; [apply attb_spec; vm_compute; reflexivity|split]].
  - constructor; [|repeat (constructor; [cbn [item_ok]; discriminate|]); constructor].
    split; [|not_in].
    apply (P_osc_st [56; 59; 59; 104; 116; 116; 112; 58; 47; 47; 109; 121; 45; 115; 105; 116; 101; 46; 99; 111; 109] [] []);
      [|constructor].
    repeat (constructor; [split; discriminate|]). constructor.
  - intros H. apply hy_okb_spec in H. vm_compute in H. discriminate.
  - intros (H & _). apply H. cbn [In]. do 14 right. left. reflexivity.
Qed.

(* with the hyphen splitter the conclusion of C13 fails: the coloured text is cut in
   two lines inside the word, the plain text fits on one ... *)
Example col_link_finding :
  exists ls_r ls_p,
    wrap col_cw col_alnum col_lbc custom3 ofit_dp col_o3 (render col_link) = Some ls_r /\
    wrap col_cw col_alnum col_lbc custom3 ofit_dp col_o3 (plain col_link) = Some ls_p /\
    map (fun l => strip (l_text l)) ls_r = [[108; 105]; [110; 107]] /\
    map l_text ls_p = [[108; 105; 110; 107]].
Proof. eexists. eexists. split; [vm_compute; reflexivity|]. split; [vm_compute; reflexivity|]. vm_compute. auto. Qed.

(* ... and without the splitter all hypotheses hold and so does the conclusion *)
Example col_link_nosplit :
  ParaOK col_cw col_alnum col_lbc custom3 ofit_dp col_o4 col_link /\
  exists ls_r ls_p,
    wrap col_cw col_alnum col_lbc custom3 ofit_dp col_o4 (render col_link) = Some ls_r /\
    wrap col_cw col_alnum col_lbc custom3 ofit_dp col_o4 (plain col_link) = Some ls_p /\
    map (fun l => strip (l_text l)) ls_r = map l_text ls_p.
Proof.
  split.
  - destruct col_link_hyps as (H1 & H2 & _). split; [exact H1|]. split; [exact H2|]. split; [exact I|].
    split; [exact I|].
    intros first _ _ _. eexists. destruct first; (split; [vm_compute; reflexivity|reflexivity]).
  - eexists. eexists. split; [vm_compute; reflexivity|]. split; [vm_compute; reflexivity|].
    vm_compute. reflexivity.
Qed.

(* the Unicode separator, with a toy oracle: an opportunity at the first non-space
   character after spaces, and the mandatory one at the end *)
Fixpoint toy_lbc_loop (t : str) (off : N) (prev_sp : bool) : list N :=
  match t with
  | [] => [off]
  | c :: r => (if prev_sp && negb (c =? SP) then [off] else []) ++
              toy_lbc_loop r (off + utf8_len c) (c =? SP)
  end.
Definition col_lbc2 (t : str) : list N :=
  match t with [] => [] | _ => toy_lbc_loop t 0 false end.
Definition col_o5 := mkOptions 6 LE_LF [] [] true FirstFit SepUnicode SplHyphen.

Lemma col_oracle_ok : OracleOK (plain col_items) (col_lbc2 (plain col_items)).
Proof.
  assert (E : col_lbc2 (plain col_items) = [4; 16; 25]) by (vm_compute; reflexivity).
  rewrite E. split; [|split].
  - repeat first [apply FOP_nil | apply FOP_cons | apply Forall_nil | apply Forall_cons; [reflexivity|]].
  - constructor; [split; [reflexivity|]|constructor; [split; [reflexivity|]|constructor; [split; [reflexivity|]|constructor]]].
    + exists (firstn 4 (plain col_items)), (skipn 4 (plain col_items)). split; reflexivity.
    + exists (firstn 16 (plain col_items)), (skipn 16 (plain col_items)). split; reflexivity.
    + exists (firstn 25 (plain col_items)), (skipn 25 (plain col_items)). split; reflexivity.
  - intros _. reflexivity.
Qed.

Example col_para_ok5 : ParaOK col_cw col_alnum col_lbc2 custom3 ofit_dp col_o5 col_items.
Proof.
  split; [exact col_items_wf|]. split; [exact col_items_attached|]. split; [exact col_oracle_ok|].
  split; [exact col_items_hy|].
  intros first _ Hlt. vm_compute in Hlt. destruct (blen (plain col_items)); discriminate.
Qed.

Example col_unicode_words :
  map strip_word (find_words_unicode col_cw col_lbc2 (render col_items)) =
    find_words_unicode col_cw col_lbc2 (plain col_items) /\
  map w_width (find_words_unicode col_cw col_lbc2 (render col_items)) = [3; 10; 9] /\
  hd [] (map w_word (find_words_unicode col_cw col_lbc2 (render col_items))) = red ++ [82; 69; 68] ++ rst.
Proof. vm_compute. auto. Qed.

Example col_wrap5 :
  exists ls_r ls_p,
    wrap col_cw col_alnum col_lbc2 custom3 ofit_dp col_o5 (render col_items) = Some ls_r /\
    wrap col_cw col_alnum col_lbc2 custom3 ofit_dp col_o5 (plain col_items) = Some ls_p /\
    map (fun l => strip (l_text l)) ls_r = map l_text ls_p /\ length ls_p = 5%nat.
Proof. eexists. eexists. split; [vm_compute; reflexivity|]. split; [vm_compute; reflexivity|]. vm_compute. auto. Qed.

Print Assumptions K1_strip.
Print Assumptions K1_top.
Print Assumptions K1_width.
Print Assumptions K2_words.
Print Assumptions Touching_Attached.
Print Assumptions ofit_dp_blind.
Print Assumptions backend.
Print Assumptions K3_slow_path.
Print Assumptions K4_break_apart.
Print Assumptions K4_break_words.
Print Assumptions K5_sw_loop.
Print Assumptions K5_split_words.
Print Assumptions K7_words.
Print Assumptions front.
Print Assumptions K6_slow_path.
Print Assumptions K6_wrap_single_line.
Print Assumptions K6_wrap.
Print Assumptions K6_wrap_reference.
Print Assumptions hy_items_HyOK.
Print Assumptions shortcut_of_unobservable.
Print Assumptions col_link_finding.
