(* C18 (dedent) and C19 (indent): facts about Model/Indent.v *)
From Coq Require Import Lia.
From TW Require Import Chars Indent.

Arguments N.add : simpl never.
Arguments N.sub : simpl never.
Arguments N.mul : simpl never.
Arguments N.leb : simpl never.
Arguments N.ltb : simpl never.
Arguments N.eqb : simpl never.

Definition lf_free (l : str) : Prop := Forall (fun c => c <> LF) l.
Definition ws_only (l : str) : Prop := Forall (fun c => is_whitespace c = true) l.

(* ------------------------------------------------------------------ *)
(* trim / has_nonws                                                    *)

Lemma has_nonws_app a b : has_nonws (a ++ b) = has_nonws a || has_nonws b.
Proof. unfold has_nonws. apply existsb_app. Qed.

Lemma has_nonws_false_ws l : has_nonws l = false <-> ws_only l.
Proof.
  unfold has_nonws, ws_only. induction l as [|c r IH]; cbn [existsb].
  - split; auto.
  - rewrite orb_false_iff, negb_false_iff, IH. split.
    + intros [H1 H2]. constructor; assumption.
    + intros H. inversion H; subst. split; assumption.
Qed.

Lemma trim_end_by_nil_iff l : trim_end_by is_whitespace l = [] <-> has_nonws l = false.
Proof.
  unfold has_nonws. induction l as [|c r IH]; cbn [trim_end_by existsb].
  - split; reflexivity.
  - destruct (trim_end_by is_whitespace r) as [|x t] eqn:E.
    + assert (Hr : existsb (fun c0 => negb (is_whitespace c0)) r = false) by (apply IH; reflexivity).
      rewrite Hr, orb_false_r. destruct (is_whitespace c); cbn [negb]; split; congruence.
    + split; [discriminate|]. intros H. apply orb_false_iff in H. destruct H as [_ H].
      apply IH in H. discriminate.
Qed.

Lemma has_nonws_trim_end l : has_nonws (trim_end l) = has_nonws l.
Proof.
  unfold trim_end, has_nonws. induction l as [|c r IH]; cbn [trim_end_by existsb]; [reflexivity|].
  destruct (trim_end_by is_whitespace r) as [|x t] eqn:E.
  - assert (Hr : existsb (fun c0 => negb (is_whitespace c0)) r = false).
    { apply (proj1 (trim_end_by_nil_iff r)). exact E. }
    rewrite Hr, orb_false_r. destruct (is_whitespace c) eqn:W; cbn [existsb negb orb];
      try rewrite W; reflexivity.
  - cbn [existsb]. cbn [existsb] in IH. rewrite IH. reflexivity.
Qed.

Lemma trim_start_by_nil_iff l : trim_start_by is_whitespace l = [] <-> has_nonws l = false.
Proof.
  unfold has_nonws. induction l as [|c r IH]; cbn [trim_start_by existsb].
  - split; reflexivity.
  - destruct (is_whitespace c); cbn [negb orb]; [exact IH|]. split; discriminate.
Qed.

(* target 1 *)
Theorem trim_nil_iff : forall l, trim l = [] <-> has_nonws l = false.
Proof.
  intros l. unfold trim. rewrite trim_start_by_nil_iff, has_nonws_trim_end. reflexivity.
Qed.

Lemma trim_end_ws p : ws_only p -> trim_end p = [].
Proof. intros H. apply trim_end_by_nil_iff, has_nonws_false_ws, H. Qed.

(* ------------------------------------------------------------------ *)
(* recursive characterisations of split_terminator_lf and ends_with _ [LF] *)

Lemma split_lf_nonnil s : split_lf s <> [].
Proof.
  destruct s as [|c r]; cbn [split_lf]; [discriminate|].
  destruct (c =? LF); [discriminate|]. destruct (split_lf r); discriminate.
Qed.

Lemma stl_nil : split_terminator_lf [] = [].
Proof. reflexivity. Qed.

Lemma stl_cons c r :
  split_terminator_lf (c :: r) =
  if c =? LF then [] :: split_terminator_lf r else cons_first c (split_terminator_lf r).
Proof.
  unfold split_terminator_lf. cbn [split_lf].
  pose proof (split_lf_nonnil r) as Hn.
  destruct (split_lf r) as [|p ps]; [congruence|]. clear Hn.
  destruct (c =? LF).
  - reflexivity.
  - cbn [cons_first]. destruct ps as [|q qs].
    + cbn [drop_last_empty]. destruct p; reflexivity.
    + reflexivity.
Qed.

Lemma stl_nil_inv s : split_terminator_lf s = [] -> s = [].
Proof.
  destruct s as [|c r]; [reflexivity|]. rewrite stl_cons.
  destruct (c =? LF); [discriminate|]. destruct (split_terminator_lf r); discriminate.
Qed.

(* [last_is k s]: the last character of [s] is [k]  (= ends_with s [k]) *)
Fixpoint last_is (k : char) (s : str) : bool :=
  match s with
  | [] => false
  | c :: r => match r with [] => c =? k | _ => last_is k r end
  end.
Notation last_is_lf := (last_is LF).

Lemma starts_with_nil s : starts_with s [] = true.
Proof. destruct s; reflexivity. Qed.

Lemma starts_with_app1 x c k : x <> [] -> starts_with (x ++ [c]) [k] = starts_with x [k].
Proof.
  destruct x as [|a x]; [congruence|]. intros _. cbn [app starts_with].
  rewrite !starts_with_nil. reflexivity.
Qed.

Lemma ends_with_single k s : ends_with s [k] = last_is k s.
Proof.
  unfold ends_with. cbn [rev app].
  induction s as [|c r IH]; [reflexivity|].
  cbn [rev last_is]. destruct r as [|d r'].
  - cbn [rev app starts_with]. apply andb_true_r.
  - rewrite starts_with_app1; [exact IH|]. cbn [rev]. destruct (rev r'); discriminate.
Qed.

Lemma ends_with_lf s : ends_with s [LF] = last_is_lf s.
Proof. apply ends_with_single. Qed.

Lemma last_is_app k a b : b <> [] -> last_is k (a ++ b) = last_is k b.
Proof.
  intros Hb. induction a as [|c a IH]; [reflexivity|].
  cbn [app last_is]. destruct (a ++ b) as [|x y] eqn:E.
  - destruct a; [cbn [app] in E; congruence|discriminate].
  - exact IH.
Qed.

Lemma last_is_lf_app a b : b <> [] -> last_is_lf (a ++ b) = last_is_lf b.
Proof. apply last_is_app. Qed.

Lemma ends_with_lf_app a b : b <> [] -> ends_with (a ++ b) [LF] = ends_with b [LF].
Proof. intros H. rewrite !ends_with_lf. apply last_is_lf_app, H. Qed.

Lemma ends_with_lf_snoc a : ends_with (a ++ [LF]) [LF] = true.
Proof. rewrite ends_with_lf_app by discriminate. reflexivity. Qed.

(* ------------------------------------------------------------------ *)
(* join / split inverse lemmas                                         *)

Lemma join_cons (sep x : str) (r : list str) :
  r <> [] -> join sep (x :: r) = x ++ sep ++ join sep r.
Proof. destruct r; [congruence|reflexivity]. Qed.

Lemma join_cons_first c ls : ls <> [] -> join [LF] (cons_first c ls) = c :: join [LF] ls.
Proof.
  destruct ls as [|p ps]; [congruence|]. intros _. cbn [cons_first].
  destruct ps; reflexivity.
Qed.

Theorem join_split_lf : forall s, join [LF] (split_lf s) = s.
Proof.
  induction s as [|c r IH]; [reflexivity|]. cbn [split_lf].
  pose proof (split_lf_nonnil r) as Hn.
  destruct (N.eqb_spec c LF) as [E|E].
  - rewrite join_cons by assumption. rewrite IH, E. reflexivity.
  - rewrite join_cons_first by assumption. rewrite IH. reflexivity.
Qed.

Theorem join_split_terminator : forall s,
  join [LF] (split_terminator_lf s) ++ (if ends_with s [LF] then [LF] else []) = s.
Proof.
  intros s. rewrite ends_with_lf.
  induction s as [|c r IH]; [reflexivity|].
  rewrite stl_cons. cbn [last_is].
  destruct (N.eqb_spec c LF) as [E|E].
  - destruct r as [|d r'].
    + rewrite E. reflexivity.
    + rewrite join_cons.
      * rewrite E. cbn [app]. f_equal. exact IH.
      * intros H. apply stl_nil_inv in H. discriminate.
  - destruct r as [|d r'].
    + rewrite stl_nil. cbn [cons_first join app]. reflexivity.
    + rewrite join_cons_first.
      * cbn [app]. f_equal. exact IH.
      * intros H. apply stl_nil_inv in H. discriminate.
Qed.

Lemma cons_first_app c a b : a <> [] -> cons_first c (a ++ b) = cons_first c a ++ b.
Proof. destruct a; [congruence|reflexivity]. Qed.

Lemma split_lf_app_lf l t : split_lf (l ++ LF :: t) = split_lf l ++ split_lf t.
Proof.
  induction l as [|c l IH]; [reflexivity|].
  cbn [app split_lf]. rewrite IH. destruct (c =? LF); [reflexivity|].
  apply cons_first_app, split_lf_nonnil.
Qed.

Lemma split_lf_lf_free l : lf_free l -> split_lf l = [l].
Proof.
  induction 1 as [|c l Hc Hl IH]; [reflexivity|].
  cbn [split_lf]. rewrite IH. destruct (N.eqb_spec c LF); [congruence|reflexivity].
Qed.

Lemma split_lf_line l t : lf_free l -> split_lf (l ++ LF :: t) = l :: split_lf t.
Proof. intros H. rewrite split_lf_app_lf, split_lf_lf_free by assumption. reflexivity. Qed.

Theorem split_lf_join : forall ls, ls <> [] -> Forall lf_free ls -> split_lf (join [LF] ls) = ls.
Proof.
  induction ls as [|l r IH]; [congruence|]. intros _ H. inversion H as [|? ? Hl Hr]; subst.
  destruct r as [|l2 r2].
  - cbn [join]. apply split_lf_lf_free, Hl.
  - rewrite join_cons by discriminate. cbn [app]. rewrite split_lf_line by assumption.
    f_equal. apply IH; [discriminate|assumption].
Qed.

Lemma stl_lf_free l : lf_free l -> split_terminator_lf l = match l with [] => [] | _ => [l] end.
Proof.
  intros H. unfold split_terminator_lf. rewrite split_lf_lf_free by assumption.
  destruct l; reflexivity.
Qed.

Lemma stl_line l t : lf_free l -> split_terminator_lf (l ++ LF :: t) = l :: split_terminator_lf t.
Proof.
  intros H. unfold split_terminator_lf. rewrite split_lf_line by assumption.
  pose proof (split_lf_nonnil t). destruct (split_lf t); [congruence|reflexivity].
Qed.

Lemma split_lf_pieces_lf_free s : Forall lf_free (split_lf s).
Proof.
  induction s as [|c r IH]; cbn [split_lf].
  - repeat constructor.
  - destruct (N.eqb_spec c LF) as [E|E].
    + constructor; [constructor|assumption].
    + destruct (split_lf r) as [|p ps]; cbn [cons_first].
      * repeat constructor. assumption.
      * inversion IH; subst. constructor; [constructor|]; assumption.
Qed.

Lemma drop_last_empty_incl (P : str -> Prop) l : Forall P l -> Forall P (drop_last_empty l).
Proof.
  induction 1 as [|p ps Hp Hps IH]; [constructor|].
  destruct ps as [|q qs].
  - cbn [drop_last_empty]. destruct p; repeat constructor. assumption.
  - change (drop_last_empty (p :: q :: qs)) with (p :: drop_last_empty (q :: qs)).
    constructor; assumption.
Qed.

Lemma stl_pieces_lf_free s : Forall lf_free (split_terminator_lf s).
Proof. apply drop_last_empty_incl, split_lf_pieces_lf_free. Qed.

(* the last piece is non-empty (or there is no piece at all) *)
Definition last_nonempty (ls : list str) : Prop :=
  match ls with [] => True | _ => last ls [] <> [] end.

Lemma last_nonempty_cons l r : r <> [] -> last_nonempty (l :: r) <-> last_nonempty r.
Proof. destruct r; [congruence|]. intros _. reflexivity. Qed.

Lemma stl_last_nonempty s : ends_with s [LF] = false -> last_nonempty (split_terminator_lf s).
Proof.
  rewrite ends_with_lf. induction s as [|c r IH]; [intros; exact I|].
  cbn [last_is]. rewrite stl_cons. destruct r as [|d r'].
  - intros H. rewrite H. rewrite stl_nil. cbn. discriminate.
  - intros H. specialize (IH H).
    assert (Hn : split_terminator_lf (d :: r') <> []).
    { intros E. apply stl_nil_inv in E. discriminate. }
    destruct (split_terminator_lf (d :: r')) as [|p ps]; [congruence|].
    destruct (c =? LF).
    + apply last_nonempty_cons; [discriminate|assumption].
    + cbn [cons_first]. destruct ps as [|q qs].
      * cbn. discriminate.
      * exact IH.
Qed.

Lemma stl_nonnil_of_ends s : ends_with s [LF] = true -> split_terminator_lf s <> [].
Proof. intros H E. apply stl_nil_inv in E. subst. discriminate. Qed.

Lemma last_is_lf_lf_free l : lf_free l -> last_is_lf l = false.
Proof.
  induction 1 as [|c l Hc Hl IH]; [reflexivity|].
  cbn [last_is]. destruct l; [|exact IH]. destruct (N.eqb_spec c LF); congruence.
Qed.

(* split_terminator and ends_with of a re-assembled text *)
Lemma stl_join_gen ls (b : bool) :
  Forall lf_free ls ->
  (b = true -> ls <> []) -> (b = false -> last_nonempty ls) ->
  split_terminator_lf (join [LF] ls ++ (if b then [LF] else [])) = ls /\
  ends_with (join [LF] ls ++ (if b then [LF] else [])) [LF] = b.
Proof.
  induction ls as [|l r IH]; intros Hf Ht Hl.
  - destruct b; [exfalso; apply Ht; reflexivity|]. split; reflexivity.
  - inversion Hf as [|? ? Hlf Hr]; subst. destruct r as [|l2 r2].
    + cbn [join]. destruct b.
      * split; [|apply ends_with_lf_snoc].
        rewrite stl_line by assumption. reflexivity.
      * rewrite app_nil_r. specialize (Hl eq_refl). cbn in Hl.
        split.
        -- rewrite stl_lf_free by assumption. destruct l; [congruence|reflexivity].
        -- rewrite ends_with_lf. apply last_is_lf_lf_free, Hlf.
    + rewrite join_cons by discriminate. cbn [app]. rewrite <- !app_assoc. cbn [app].
      destruct IH as [IH1 IH2]; [assumption|discriminate| |].
      { intros Hb. apply (last_nonempty_cons l); [discriminate|auto]. }
      split.
      * rewrite stl_line by assumption. f_equal. exact IH1.
      * rewrite ends_with_lf_app; [|discriminate].
        change (LF :: join [LF] (l2 :: r2) ++ (if b then [LF] else []))
          with ([LF] ++ (join [LF] (l2 :: r2) ++ (if b then [LF] else []))).
        rewrite ends_with_lf_app; [exact IH2|].
        destruct b.
        -- intros E. apply app_eq_nil in E. destruct E as [_ E]. discriminate.
        -- rewrite app_nil_r. destruct r2 as [|l3 r3].
           ++ cbn [join]. cbn in Hl. specialize (Hl eq_refl). assumption.
           ++ rewrite join_cons by discriminate. intros E.
              apply app_eq_nil in E. destruct E as [_ E]. discriminate.
Qed.

(* ------------------------------------------------------------------ *)
(* C19: indent                                                         *)

Definition indent_line (p l : str) : str := (if has_nonws l then p else trim_end p) ++ l.

Lemma indent_lines_spec ls p first :
  indent_lines ls p (trim_end p) first =
  (if first then [] else match ls with [] => [] | _ => [LF] end) ++
  join [LF] (map (indent_line p) ls).
Proof.
  revert first. induction ls as [|l r IH]; intros first.
  - destruct first; reflexivity.
  - cbn [indent_lines map]. rewrite IH.
    assert (Hpre : match trim l with [] => trim_end p | _ :: _ => p end ++ l = indent_line p l).
    { unfold indent_line. destruct (has_nonws l) eqn:E.
      - destruct (trim l) eqn:T; [|reflexivity]. apply trim_nil_iff in T. congruence.
      - apply trim_nil_iff in E. rewrite E. reflexivity. }
    rewrite app_assoc with (m := l), Hpre.
    destruct r as [|l2 r2].
    + cbn [map join]. rewrite !app_nil_r. reflexivity.
    + cbn [map]. rewrite (join_cons [LF] (indent_line p l)) by discriminate. reflexivity.
Qed.

(* target 2 *)
Theorem indent_spec : forall s p, indent s p =
  join [LF] (map (fun l => (if has_nonws l then p else trim_end p) ++ l) (split_terminator_lf s))
  ++ (if ends_with s [LF] then [LF] else []).
Proof.
  intros s p. unfold indent. rewrite indent_lines_spec. reflexivity.
Qed.

(* target 3 *)
Theorem indent_nil_prefix : forall s, indent s [] = s.
Proof.
  intros s. rewrite indent_spec.
  rewrite map_ext with (g := fun l => l).
  - rewrite map_id. apply join_split_terminator.
  - intros l. destruct (has_nonws l); reflexivity.
Qed.

Lemma trim_end_by_suffix p : exists q, p = trim_end_by is_whitespace p ++ q.
Proof.
  induction p as [|c r [q IH]]; [exists []; reflexivity|].
  cbn [trim_end_by]. destruct (trim_end_by is_whitespace r) as [|x t] eqn:E.
  - destruct (is_whitespace c).
    + exists (c :: r). reflexivity.
    + exists q. cbn [app] in *. congruence.
  - exists q. cbn [app] in *. congruence.
Qed.

Lemma lf_free_app a b : lf_free (a ++ b) <-> lf_free a /\ lf_free b.
Proof. unfold lf_free. apply Forall_app. Qed.

Lemma trim_end_lf_free p : lf_free p -> lf_free (trim_end p).
Proof.
  intros H. unfold trim_end. destruct (trim_end_by_suffix p) as [q E].
  rewrite E in H. apply lf_free_app in H. tauto.
Qed.

Lemma indent_line_lf_free p l : lf_free p -> lf_free l -> lf_free (indent_line p l).
Proof.
  intros Hp Hl. unfold indent_line. apply lf_free_app. split; [|assumption].
  destruct (has_nonws l); [assumption|apply trim_end_lf_free, Hp].
Qed.

Lemma last_map_nonempty (f : str -> str) ls :
  (forall l, l <> [] -> f l <> []) -> last_nonempty ls -> last_nonempty (map f ls).
Proof.
  intros Hf. induction ls as [|l r IH]; [auto|].
  destruct r as [|l2 r2].
  - cbn. auto.
  - intros H. apply (last_nonempty_cons l) in H; [|discriminate].
    cbn [map]. apply last_nonempty_cons; [discriminate|]. apply IH, H.
Qed.

(* target 4: line structure of the indented text *)
Theorem indent_lines_structure : forall s p, Forall (fun c => c <> LF) p ->
  split_terminator_lf (indent s p) =
    map (fun l => (if has_nonws l then p else trim_end p) ++ l) (split_terminator_lf s)
  /\ ends_with (indent s p) [LF] = ends_with s [LF].
Proof.
  intros s p Hp. rewrite indent_spec.
  apply stl_join_gen.
  - apply Forall_forall. intros x Hx. apply in_map_iff in Hx. destruct Hx as [l [<- Hl]].
    apply (indent_line_lf_free p l Hp).
    pose proof (stl_pieces_lf_free s) as H. rewrite Forall_forall in H. apply H, Hl.
  - intros Hb E. apply map_eq_nil in E. revert E. apply stl_nonnil_of_ends, Hb.
  - intros Hb. apply last_map_nonempty.
    + intros l Hl E. apply app_eq_nil in E. tauto.
    + apply stl_last_nonempty, Hb.
Qed.

Corollary indent_line_count : forall s p, Forall (fun c => c <> LF) p ->
  length (split_terminator_lf (indent s p)) = length (split_terminator_lf s).
Proof.
  intros s p Hp. destruct (indent_lines_structure s p Hp) as [H _]. rewrite H. apply map_length.
Qed.

(* ------------------------------------------------------------------ *)
(* prefixes, longest common prefix                                     *)

Lemma starts_with_iff l p : starts_with l p = true <-> exists t, l = p ++ t.
Proof.
  revert l; induction p as [|y p IH]; intros l.
  - rewrite starts_with_nil. split; [intros _; exists l; reflexivity|reflexivity].
  - destruct l as [|x l]; cbn [starts_with].
    + split; [discriminate|]. intros [t E]. discriminate.
    + rewrite andb_true_iff, IH. split.
      * intros [E [t Et]]. apply N.eqb_eq in E. subst. exists t. reflexivity.
      * intros [t E]. cbn [app] in E. injection E as E1 E2. subst.
        split; [apply N.eqb_refl|exists t; reflexivity].
Qed.

Lemma starts_with_refl l : starts_with l l = true.
Proof. apply starts_with_iff. exists []. symmetry. apply app_nil_r. Qed.

Lemma starts_with_trans a b c :
  starts_with a b = true -> starts_with b c = true -> starts_with a c = true.
Proof.
  rewrite !starts_with_iff. intros [t1 E1] [t2 E2]. subst. exists (t2 ++ t1).
  symmetry. apply app_assoc.
Qed.

Lemma ws_only_app a b : ws_only (a ++ b) <-> ws_only a /\ ws_only b.
Proof. unfold ws_only. apply Forall_app. Qed.

Lemma ws_only_prefix a q : starts_with a q = true -> ws_only a -> ws_only q.
Proof.
  intros H Ha. apply starts_with_iff in H. destruct H as [t E]. subst.
  apply ws_only_app in Ha. tauto.
Qed.

Lemma skipn_length_app (p t : str) : skipn (length p) (p ++ t) = t.
Proof. induction p as [|c p IH]; [reflexivity|]. cbn [length app skipn]. exact IH. Qed.

Lemma skipn_add_app (p l : str) n : skipn (length p + n) (p ++ l) = skipn n l.
Proof. induction p as [|c p IH]; [reflexivity|]. cbn [length app skipn Nat.add]. exact IH. Qed.

(* target 5: longest common prefix and the margin *)
Fixpoint lcp (a b : str) : str :=
  match a, b with
  | x :: a', y :: b' => if x =? y then x :: lcp a' b' else []
  | _, _ => []
  end.

Definition margin (ls : list str) : str :=
  match map take_ws (filter has_nonws ls) with
  | [] => []
  | w :: ws => fold_left lcp ws w
  end.

Lemma lcp_nil_r a : lcp a [] = [].
Proof. destruct a; reflexivity. Qed.

Lemma lcp_comm a b : lcp a b = lcp b a.
Proof.
  revert b; induction a as [|x a IH]; intros [|y b]; cbn [lcp]; try reflexivity.
  rewrite (N.eqb_sym y x). destruct (N.eqb_spec x y) as [E|E]; [|reflexivity].
  subst. rewrite IH. reflexivity.
Qed.

Lemma lcp_prefix_l a b : starts_with a (lcp a b) = true.
Proof.
  revert b; induction a as [|x a IH]; intros [|y b]; cbn [lcp]; try apply starts_with_nil.
  destruct (x =? y); [|apply starts_with_nil]. cbn [starts_with].
  rewrite N.eqb_refl, IH. reflexivity.
Qed.

Lemma lcp_prefix_r a b : starts_with b (lcp a b) = true.
Proof. rewrite lcp_comm. apply lcp_prefix_l. Qed.

Lemma lcp_greatest a b q :
  starts_with a q = true -> starts_with b q = true -> starts_with (lcp a b) q = true.
Proof.
  revert a b; induction q as [|z q IH]; intros a b Ha Hb; [apply starts_with_nil|].
  destruct a as [|x a]; [cbn [starts_with] in Ha; discriminate|].
  destruct b as [|y b]; [cbn [starts_with] in Hb; discriminate|].
  cbn [starts_with] in Ha, Hb. apply andb_true_iff in Ha, Hb.
  destruct Ha as [Ha1 Ha2]. destruct Hb as [Hb1 Hb2].
  apply N.eqb_eq in Ha1, Hb1. subst. cbn [lcp]. rewrite N.eqb_refl. cbn [starts_with].
  rewrite N.eqb_refl. cbn [andb]. apply IH; assumption.
Qed.

Lemma lcp_app_common p a b : lcp (p ++ a) (p ++ b) = p ++ lcp a b.
Proof.
  induction p as [|c p IH]; [reflexivity|]. cbn [app lcp]. rewrite N.eqb_refl, IH. reflexivity.
Qed.

Lemma take_ws_ws l : ws_only (take_ws l).
Proof.
  induction l as [|c l IH]; cbn [take_ws]; [constructor|].
  destruct (is_whitespace c) eqn:W; constructor; assumption.
Qed.

Lemma take_ws_prefix l : starts_with l (take_ws l) = true.
Proof.
  induction l as [|c l IH]; cbn [take_ws]; [reflexivity|].
  destruct (is_whitespace c); [|reflexivity]. cbn [starts_with]. rewrite N.eqb_refl, IH. reflexivity.
Qed.

Lemma take_ws_greatest l q :
  ws_only q -> starts_with l q = true -> starts_with (take_ws l) q = true.
Proof.
  revert l; induction q as [|z q IH]; intros l Hq H; [apply starts_with_nil|].
  destruct l as [|x l]; [cbn [starts_with] in H; discriminate|].
  cbn [starts_with] in H. apply andb_true_iff in H. destruct H as [H1 H2].
  apply N.eqb_eq in H1. subst. inversion Hq as [|? ? Hz Hq']; subst.
  cbn [take_ws]. rewrite Hz. cbn [starts_with]. rewrite N.eqb_refl. cbn [andb].
  apply IH; assumption.
Qed.

Lemma take_ws_app_ws p l : ws_only p -> take_ws (p ++ l) = p ++ take_ws l.
Proof.
  induction 1 as [|c p Hc Hp IH]; [reflexivity|]. cbn [app take_ws]. rewrite Hc, IH. reflexivity.
Qed.

Lemma fold_lcp_prefix_init ws w : starts_with w (fold_left lcp ws w) = true.
Proof.
  revert w; induction ws as [|v ws IH]; intros w; cbn [fold_left]; [apply starts_with_refl|].
  apply starts_with_trans with (b := lcp w v); [apply lcp_prefix_l|apply IH].
Qed.

Lemma fold_lcp_prefix_in ws w v : In v ws -> starts_with v (fold_left lcp ws w) = true.
Proof.
  revert w; induction ws as [|u ws IH]; intros w Hin; [destruct Hin|].
  cbn [fold_left]. destruct Hin as [E|Hin].
  - subst. apply starts_with_trans with (b := lcp w v);
      [apply lcp_prefix_r|apply fold_lcp_prefix_init].
  - apply IH, Hin.
Qed.

Lemma fold_lcp_greatest ws w q :
  starts_with w q = true -> (forall v, In v ws -> starts_with v q = true) ->
  starts_with (fold_left lcp ws w) q = true.
Proof.
  revert w; induction ws as [|u ws IH]; intros w Hw H; cbn [fold_left]; [assumption|].
  apply IH.
  - apply lcp_greatest; [assumption|]. apply H. left. reflexivity.
  - intros v Hv. apply H. right. assumption.
Qed.

Lemma fold_lcp_app_common p ws w :
  fold_left lcp (map (app p) ws) (p ++ w) = p ++ fold_left lcp ws w.
Proof.
  revert w; induction ws as [|u ws IH]; intros w; [reflexivity|].
  cbn [map fold_left]. rewrite lcp_app_common. apply IH.
Qed.

Lemma fold_lcp_ws ws w : ws_only w -> ws_only (fold_left lcp ws w).
Proof. intros H. apply ws_only_prefix with (a := w); [apply fold_lcp_prefix_init|assumption]. Qed.

(* the model's narrowing step is lcp with the leading whitespace of the line *)
Lemma narrow_step line prefix :
  ws_only prefix -> has_nonws line = true ->
  match mismatch_prefix line prefix with Some q => q | None => prefix end
  = lcp prefix (take_ws line).
Proof.
  revert prefix; induction line as [|a l IH]; intros prefix Hp Hl; [discriminate|].
  destruct prefix as [|b p]; [reflexivity|].
  inversion Hp as [|? ? Hb Hp']; subst.
  cbn [mismatch_prefix take_ws lcp].
  destruct (N.eqb_spec a b) as [E|E].
  - subst. rewrite Hb. cbn [lcp]. rewrite N.eqb_refl.
    assert (Hl' : has_nonws l = true).
    { unfold has_nonws in Hl. cbn [existsb] in Hl. rewrite Hb in Hl. exact Hl. }
    specialize (IH p Hp' Hl'). destruct (mismatch_prefix l p) as [q|]; rewrite <- IH; reflexivity.
  - destruct (is_whitespace a); [|reflexivity]. cbn [lcp].
    destruct (N.eqb_spec b a) as [E2|E2]; [congruence|reflexivity].
Qed.

Lemma dedent_narrow_fold rest p0 :
  ws_only p0 ->
  dedent_narrow rest p0 = fold_left lcp (map take_ws (filter has_nonws rest)) p0.
Proof.
  revert p0; induction rest as [|l r IH]; intros p0 Hp; [reflexivity|].
  cbn [dedent_narrow filter]. destruct (has_nonws l) eqn:Hl.
  - cbn [map fold_left]. rewrite <- (narrow_step l p0 Hp Hl).
    destruct (mismatch_prefix l p0) as [q|] eqn:M.
    + apply IH. pose proof (narrow_step l p0 Hp Hl) as N. rewrite M in N. rewrite N.
      apply ws_only_prefix with (a := p0); [apply lcp_prefix_l|assumption].
    + apply IH, Hp.
  - destruct (mismatch_prefix l p0); apply IH, Hp.
Qed.

Lemma dedent_first_spec ls :
  match filter has_nonws ls with
  | [] => dedent_first ls = ([], [])
  | l :: r => exists rest, dedent_first ls = (take_ws l, rest) /\ filter has_nonws rest = r
  end.
Proof.
  induction ls as [|l r IH]; [reflexivity|].
  cbn [filter dedent_first]. destruct (has_nonws l) eqn:Hl.
  - exists r. split; reflexivity.
  - exact IH.
Qed.

Theorem dedent_margin : forall ls,
  let '(p0, rest) := dedent_first ls in dedent_narrow rest p0 = margin ls.
Proof.
  intros ls. pose proof (dedent_first_spec ls) as H. unfold margin.
  destruct (filter has_nonws ls) as [|l r].
  - rewrite H. reflexivity.
  - destruct H as [rest [H1 H2]]. rewrite H1. cbn [map].
    rewrite dedent_narrow_fold by apply take_ws_ws. rewrite H2. reflexivity.
Qed.

Lemma margin_cases ls :
  (filter has_nonws ls = [] /\ margin ls = []) \/
  (exists l r, filter has_nonws ls = l :: r /\
               margin ls = fold_left lcp (map take_ws r) (take_ws l)).
Proof.
  unfold margin. destruct (filter has_nonws ls) as [|l r].
  - left. split; reflexivity.
  - right. exists l, r. split; reflexivity.
Qed.

Theorem margin_ws : forall ls, ws_only (margin ls).
Proof.
  intros ls. destruct (margin_cases ls) as [[_ E]|[l [r [_ E]]]]; rewrite E.
  - constructor.
  - apply fold_lcp_ws, take_ws_ws.
Qed.

Theorem margin_prefix : forall ls l,
  In l ls -> has_nonws l = true -> starts_with l (margin ls) = true.
Proof.
  intros ls l Hin Hl.
  assert (Hf : In l (filter has_nonws ls)) by (apply filter_In; split; assumption).
  destruct (margin_cases ls) as [[F _]|[l0 [r [F E]]]].
  - rewrite F in Hf. destruct Hf.
  - rewrite E. rewrite F in Hf. apply starts_with_trans with (b := take_ws l);
      [apply take_ws_prefix|]. destruct Hf as [Hf|Hf].
    + subst. apply fold_lcp_prefix_init.
    + apply fold_lcp_prefix_in. apply in_map. assumption.
Qed.

(* The margin is the LONGEST common whitespace prefix.  The hypothesis that there is at
   least one non-blank line is necessary: with ls = [] every q is vacuously a common
   prefix but margin [] = []  (see margin_longest_needs_nonblank below). *)
Theorem margin_longest : forall ls q,
  ws_only q ->
  (exists l, In l ls /\ has_nonws l = true) ->
  (forall l, In l ls -> has_nonws l = true -> starts_with l q = true) ->
  starts_with (margin ls) q = true.
Proof.
  intros ls q Hq [l1 [Hin1 Hn1]] H.
  assert (Hf : forall l, In l (filter has_nonws ls) -> starts_with (take_ws l) q = true).
  { intros l Hl. apply filter_In in Hl. destruct Hl as [Hl1 Hl2].
    apply take_ws_greatest; [assumption|]. apply H; assumption. }
  destruct (margin_cases ls) as [[F _]|[l0 [r [F E]]]].
  - assert (Hx : In l1 (filter has_nonws ls)) by (apply filter_In; split; assumption).
    rewrite F in Hx. destruct Hx.
  - rewrite E. rewrite F in Hf. apply fold_lcp_greatest.
    + apply Hf. left. reflexivity.
    + intros v Hv. apply in_map_iff in Hv. destruct Hv as [x [Ex Hx]]. subst.
      apply Hf. right. assumption.
Qed.

Example margin_longest_needs_nonblank :
  ws_only [SP] /\ (forall l, In l [] -> has_nonws l = true -> starts_with l [SP] = true) /\
  starts_with (margin []) [SP] = false.
Proof.
  split; [repeat constructor|]. split; [intros l []|reflexivity].
Qed.

(* ------------------------------------------------------------------ *)
(* target 6: dedent_spec                                               *)

Definition strip_margin (mg l : str) : str := if has_nonws l then skipn (length mg) l else [].
Definition unlines (L : list str) : str := concat (map (fun l => l ++ [LF]) L).

Lemma dedent_emit_spec ls mg :
  (forall l, In l ls -> has_nonws l = true -> starts_with l mg = true) ->
  dedent_emit ls mg =
  concat (map (fun l => (if has_nonws l then skipn (length mg) l else []) ++ [LF]) ls).
Proof.
  induction ls as [|l r IH]; intros H; [reflexivity|].
  cbn [dedent_emit map concat]. rewrite IH.
  - destruct (has_nonws l) eqn:E.
    + rewrite H; [|left; reflexivity|assumption]. cbn [andb]. rewrite <- app_assoc. reflexivity.
    + rewrite andb_false_r. rewrite <- app_assoc. reflexivity.
  - intros x Hx. apply H. right. assumption.
Qed.

Lemma unlines_cons l r : unlines (l :: r) = l ++ LF :: unlines r.
Proof. unfold unlines. cbn [map concat]. rewrite <- app_assoc. reflexivity. Qed.

Lemma unlines_join L : L <> [] -> unlines L = join [LF] L ++ [LF].
Proof.
  induction L as [|l r IH]; [congruence|]. intros _. rewrite unlines_cons.
  destruct r as [|l2 r2].
  - reflexivity.
  - rewrite IH by discriminate. rewrite (join_cons [LF] l) by discriminate.
    rewrite <- !app_assoc. reflexivity.
Qed.

Lemma removelast_unlines L : removelast (unlines L) = join [LF] L.
Proof.
  destruct L as [|l r]; [reflexivity|].
  rewrite unlines_join by discriminate. apply removelast_last.
Qed.

Lemma ends_with_unlines L : L <> [] -> ends_with (unlines L) [LF] = true.
Proof. intros H. rewrite unlines_join by assumption. apply ends_with_lf_snoc. Qed.

Theorem dedent_spec : forall s, dedent s =
  (let ls := lines s in let mg := margin ls in
   let body := concat (map (fun l => (if has_nonws l then skipn (length mg) l else []) ++ [LF]) ls) in
   if ends_with s [LF] then body else removelast body).
Proof.
  intros s. unfold dedent. cbv zeta.
  pose proof (dedent_margin (lines s)) as M.
  destruct (dedent_first (lines s)) as [p0 rest]. rewrite M.
  rewrite dedent_emit_spec by apply margin_prefix.
  destruct (lines s) as [|l r].
  - cbn [map concat]. destruct (ends_with s [LF]); reflexivity.
  - set (g := fun l0 => (if has_nonws l0 then skipn (length (margin (l :: r))) l0 else []) ++ [LF]).
    assert (E : ends_with (concat (map g (l :: r))) [LF] = true).
    { rewrite <- (map_map (strip_margin (margin (l :: r))) (fun x => x ++ [LF])).
      apply (ends_with_unlines (map (strip_margin (margin (l :: r))) (l :: r))). discriminate. }
    rewrite E. destruct (ends_with s [LF]); reflexivity.
Qed.

(* the same, in terms of unlines / join *)
Lemma dedent_form s :
  dedent s = if ends_with s [LF]
             then unlines (map (strip_margin (margin (lines s))) (lines s))
             else join [LF] (map (strip_margin (margin (lines s))) (lines s)).
Proof.
  rewrite dedent_spec. cbv zeta. rewrite <- removelast_unlines. unfold unlines.
  rewrite map_map. reflexivity.
Qed.

(* ------------------------------------------------------------------ *)
(* lines of a re-assembled text                                        *)

Lemma lines_lf_free l : lf_free l -> lines l = match l with [] => [] | _ => [l] end.
Proof.
  intros H. unfold lines. rewrite split_lf_lf_free by assumption. destruct l; reflexivity.
Qed.

Lemma lines_line l t : lf_free l -> lines (l ++ LF :: t) = strip_cr l :: lines t.
Proof.
  intros H. unfold lines. rewrite split_lf_line by assumption.
  pose proof (split_lf_nonnil t). destruct (split_lf t); [congruence|reflexivity].
Qed.

(* strip_cr on every piece but the last; on the last one too iff b *)
Fixpoint strip_init (b : bool) (L : list str) : list str :=
  match L with
  | [] => []
  | x :: r => match r with
              | [] => [if b then strip_cr x else x]
              | _ => strip_cr x :: strip_init b r
              end
  end.

Lemma lines_join_gen M (b : bool) :
  Forall lf_free M -> (b = true -> M <> []) -> (b = false -> last_nonempty M) ->
  lines (join [LF] M ++ (if b then [LF] else [])) = strip_init b M.
Proof.
  induction M as [|l r IH]; intros Hf Ht Hl.
  - destruct b; [exfalso; apply Ht; reflexivity|reflexivity].
  - inversion Hf as [|? ? Hlf Hr]; subst. destruct r as [|l2 r2].
    + cbn [join strip_init]. destruct b.
      * rewrite lines_line by assumption. reflexivity.
      * rewrite app_nil_r. specialize (Hl eq_refl). cbn in Hl.
        rewrite lines_lf_free by assumption. destruct l; [congruence|reflexivity].
    + rewrite join_cons by discriminate. rewrite <- !app_assoc. cbn [app].
      rewrite lines_line by assumption.
      change (strip_init b (l :: l2 :: r2)) with (strip_cr l :: strip_init b (l2 :: r2)).
      f_equal. apply IH; [assumption|discriminate|].
      intros Hb. apply (last_nonempty_cons l); [discriminate|auto].
Qed.

Lemma lines_stl s : lines s = strip_init (ends_with s [LF]) (split_terminator_lf s).
Proof.
  rewrite <- (join_split_terminator s) at 1. apply lines_join_gen.
  - apply stl_pieces_lf_free.
  - apply stl_nonnil_of_ends.
  - apply stl_last_nonempty.
Qed.

Lemma strip_cr_id l : last_is CR l = false -> strip_cr l = l.
Proof.
  induction l as [|c l IH]; [reflexivity|]. cbn [last_is strip_cr]. destruct l as [|d l'].
  - intros H. rewrite H. reflexivity.
  - intros H. rewrite IH by assumption. reflexivity.
Qed.

Lemma strip_cr_app p l : l <> [] -> strip_cr (p ++ l) = p ++ strip_cr l.
Proof.
  intros Hl. induction p as [|c p IH]; [reflexivity|]. cbn [app strip_cr].
  destruct (p ++ l) as [|x y] eqn:E.
  - apply app_eq_nil in E. tauto.
  - rewrite IH. reflexivity.
Qed.

Lemma has_nonws_strip_cr l : has_nonws (strip_cr l) = has_nonws l.
Proof.
  unfold has_nonws. induction l as [|c l IH]; [reflexivity|]. cbn [strip_cr]. destruct l as [|d l'].
  - destruct (N.eqb_spec c CR) as [E|E]; [subst; reflexivity|reflexivity].
  - cbn [existsb] in *. rewrite IH. reflexivity.
Qed.

Lemma strip_cr_lf_free l : lf_free l -> lf_free (strip_cr l).
Proof.
  induction 1 as [|c l Hc Hl IH]; [constructor|]. cbn [strip_cr]. destruct l as [|d l'].
  - destruct (c =? CR); repeat constructor. assumption.
  - constructor; assumption.
Qed.

Lemma strip_init_forall (P : str -> Prop) b M :
  (forall x, P x -> P (strip_cr x)) -> Forall P M -> Forall P (strip_init b M).
Proof.
  intros HP. induction 1 as [|x r Hx Hr IH]; [constructor|].
  cbn [strip_init]. destruct r as [|y r'].
  - destruct b; repeat constructor; auto.
  - constructor; auto.
Qed.

Lemma lines_pieces_lf_free s : Forall lf_free (lines s).
Proof.
  rewrite lines_stl. apply strip_init_forall; [apply strip_cr_lf_free|apply stl_pieces_lf_free].
Qed.

Lemma strip_init_id (b : bool) (M : list str) :
  (forall l, In l (if b then M else removelast M) -> last_is CR l = false) -> strip_init b M = M.
Proof.
  induction M as [|x r IH]; intros H; [reflexivity|]. cbn [strip_init]. destruct r as [|y r'].
  - destruct b; [|reflexivity]. rewrite strip_cr_id; [reflexivity|]. apply H. left. reflexivity.
  - rewrite strip_cr_id.
    + f_equal. apply IH. intros l Hl. apply H. destruct b; [right; assumption|].
      change (removelast (x :: y :: r')) with (x :: removelast (y :: r')). right. assumption.
    + apply H. destruct b; [left; reflexivity|].
      change (removelast (x :: y :: r')) with (x :: removelast (y :: r')). left. reflexivity.
Qed.

Lemma strip_init_map (f : str -> str) b M :
  (forall l, In l M -> strip_cr (f l) = f (strip_cr l)) ->
  strip_init b (map f M) = map f (strip_init b M).
Proof.
  induction M as [|x r IH]; intros H; [reflexivity|]. cbn [map strip_init]. destruct r as [|y r'].
  - cbn [map]. destruct b; [|reflexivity]. rewrite H; [reflexivity|left; reflexivity].
  - cbn [map]. cbn [map] in IH. rewrite IH.
    + rewrite H; [reflexivity|left; reflexivity].
    + intros l Hl. apply H. right. assumption.
Qed.

(* ------------------------------------------------------------------ *)
(* target 7: idempotence                                               *)

Lemma filter_nil {A} (f : A -> bool) l : (forall x, In x l -> f x = false) -> filter f l = [].
Proof.
  induction l as [|x l IH]; intros H; [reflexivity|]. cbn [filter].
  rewrite H by (left; reflexivity). apply IH. intros y Hy. apply H. right. assumption.
Qed.

Lemma filter_nil_inv {A} (f : A -> bool) l x : filter f l = [] -> In x l -> f x = false.
Proof.
  intros F Hx. destruct (f x) eqn:E; [|reflexivity].
  assert (H : In x (filter f l)) by (apply filter_In; split; assumption).
  rewrite F in H. destruct H.
Qed.

Lemma removelast_map {A B} (f : A -> B) l : removelast (map f l) = map f (removelast l).
Proof.
  induction l as [|x l IH]; [reflexivity|]. cbn [map removelast]. destruct l as [|y l'].
  - reflexivity.
  - cbn [map] in *. rewrite IH. reflexivity.
Qed.

Lemma margin_nil_of_blank ls : filter has_nonws ls = [] -> margin ls = [].
Proof. intros F. unfold margin. rewrite F. reflexivity. Qed.

Lemma margin_snoc_nil L : margin (L ++ [[]]) = margin L.
Proof. unfold margin. rewrite filter_app. cbn [filter has_nonws existsb]. rewrite app_nil_r. reflexivity. Qed.

Lemma join_snoc_nil L : join [LF] (L ++ [[]]) = unlines L.
Proof.
  induction L as [|l r IH]; [reflexivity|]. cbn [app]. rewrite unlines_cons.
  rewrite join_cons by (destruct r; discriminate). rewrite IH. reflexivity.
Qed.

Lemma strip_margin_nil l : (has_nonws l = false -> l = []) -> strip_margin [] l = l.
Proof.
  intros H. unfold strip_margin. destruct (has_nonws l); [reflexivity|].
  symmetry. apply H. reflexivity.
Qed.

Lemma map_strip_margin_nil L :
  (forall l, In l L -> has_nonws l = false -> l = []) -> map (strip_margin []) L = L.
Proof.
  intros H. rewrite <- (map_id L) at 2. apply map_ext_in. intros l Hl.
  apply strip_margin_nil. apply H. assumption.
Qed.

(* texts that dedent leaves unchanged *)
Lemma dedent_fix_unlines L :
  Forall lf_free L -> (forall l, In l L -> last_is CR l = false) ->
  margin L = [] -> (forall l, In l L -> has_nonws l = false -> l = []) ->
  dedent (unlines L) = unlines L.
Proof.
  intros Hf Hc Hm Hb. destruct L as [|l0 r0]; [reflexivity|].
  assert (Hn : l0 :: r0 <> []) by discriminate. remember (l0 :: r0) as L eqn:EL. clear EL.
  rewrite dedent_form. rewrite ends_with_unlines by assumption.
  assert (HL : lines (unlines L) = L).
  { rewrite unlines_join by assumption.
    rewrite (lines_join_gen L true Hf); [|intros _; assumption|discriminate].
    apply strip_init_id. assumption. }
  rewrite HL, Hm. rewrite map_strip_margin_nil by assumption. reflexivity.
Qed.

Lemma dedent_fix_join L :
  Forall lf_free L -> (forall l, In l (removelast L) -> last_is CR l = false) ->
  margin L = [] -> (forall l, In l L -> has_nonws l = false -> l = []) ->
  dedent (join [LF] L) = join [LF] L.
Proof.
  intros Hf Hc Hm Hb. destruct L as [|l0 r0]; [reflexivity|].
  assert (Hn : l0 :: r0 <> []) by discriminate. remember (l0 :: r0) as L eqn:EL. clear EL.
  destruct (exists_last Hn) as [L' [a E]].
  destruct a as [|c a].
  - subst L. rewrite removelast_last in Hc.
    rewrite join_snoc_nil. apply dedent_fix_unlines.
    + apply Forall_app in Hf. tauto.
    + assumption.
    + rewrite <- margin_snoc_nil. assumption.
    + intros l Hl. apply Hb. apply in_or_app. left. assumption.
  - assert (Hlast : last_nonempty L).
    { unfold last_nonempty. destruct L as [|x y]; [exact I|]. rewrite E, last_last. discriminate. }
    clear E.
    pose proof (lines_join_gen L false Hf) as HL. rewrite app_nil_r in HL.
    rewrite strip_init_id in HL by assumption.
    destruct (stl_join_gen L false Hf) as [_ HE]; [discriminate|auto|]. rewrite app_nil_r in HE.
    rewrite dedent_form, HE, HL, Hm; [|discriminate|auto].
    rewrite map_strip_margin_nil by assumption. reflexivity.
Qed.

Lemma strip_margin_nonblank ls l :
  In l ls -> has_nonws l = true ->
  l = margin ls ++ strip_margin (margin ls) l /\ has_nonws (strip_margin (margin ls) l) = true.
Proof.
  intros Hin Hl. pose proof (margin_prefix ls l Hin Hl) as P.
  apply starts_with_iff in P. destruct P as [t E].
  subst l. unfold strip_margin. rewrite Hl. rewrite skipn_length_app.
  split; [reflexivity|]. rewrite has_nonws_app in Hl.
  assert (W : has_nonws (margin ls) = false) by (apply has_nonws_false_ws, margin_ws).
  rewrite W in Hl. exact Hl.
Qed.

Lemma strip_margin_blank mg l : has_nonws l = false -> strip_margin mg l = [].
Proof. intros H. unfold strip_margin. rewrite H. reflexivity. Qed.

Lemma skipn_forall {A} (P : A -> Prop) n l : Forall P l -> Forall P (skipn n l).
Proof.
  revert l; induction n as [|n IH]; intros l H; [assumption|].
  destruct l as [|x l]; [constructor|]. cbn [skipn]. apply IH. inversion H; assumption.
Qed.

Lemma strip_margin_lf_free mg l : lf_free l -> lf_free (strip_margin mg l).
Proof.
  intros H. unfold strip_margin. destruct (has_nonws l); [|constructor]. apply skipn_forall, H.
Qed.

(* after removing the margin, the margin is empty *)
Lemma margin_strip_margin ls : margin (map (strip_margin (margin ls)) ls) = [].
Proof.
  set (mg := margin ls). set (M := map (strip_margin mg) ls).
  destruct (filter has_nonws ls) as [|l0 r0] eqn:F.
  - apply margin_nil_of_blank. apply filter_nil. intros x Hx. apply in_map_iff in Hx.
    destruct Hx as [l [E Hl]]. subst x. rewrite strip_margin_blank; [reflexivity|].
    apply (filter_nil_inv has_nonws ls l F Hl).
  - assert (H0 : In l0 ls /\ has_nonws l0 = true).
    { apply filter_In. rewrite F. left. reflexivity. }
    assert (P : starts_with mg (mg ++ margin M) = true).
    { apply margin_longest.
      - apply ws_only_app. split; apply margin_ws.
      - exists l0. exact H0.
      - intros l Hin Hl. destruct (strip_margin_nonblank ls l Hin Hl) as [E Hn].
        fold mg in E, Hn.
        assert (Q : starts_with (strip_margin mg l) (margin M) = true).
        { apply margin_prefix; [|assumption]. apply in_map. assumption. }
        apply starts_with_iff in Q. destruct Q as [t Et].
        apply starts_with_iff. exists t. rewrite <- app_assoc, <- Et. exact E. }
    apply starts_with_iff in P. destruct P as [t Et].
    apply (f_equal (@length char)) in Et. rewrite !app_length in Et.
    apply length_zero_iff_nil. lia.
Qed.

(* NOTE: unconditional idempotence is FALSE (dedent_not_idempotent below): lines() removes
   one CR before each LF, so a non-blank line still ending in CR afterwards loses another
   CR on the second pass.  Hypothesis: no non-blank line of s that is terminated by LF
   still ends in CR.  (Blank lines, and an unterminated last line, are unrestricted.) *)
Definition terminated_lines (s : str) : list str :=
  if ends_with s [LF] then lines s else removelast (lines s).

Theorem dedent_idem : forall s,
  (forall l, In l (terminated_lines s) -> has_nonws l = true -> ends_with l [CR] = false) ->
  dedent (dedent s) = dedent s.
Proof.
  intros s H. unfold terminated_lines in H.
  set (ls := lines s) in *. set (mg := margin ls). set (M := map (strip_margin mg) ls).
  assert (Hf : Forall lf_free M).
  { apply Forall_forall. intros x Hx. apply in_map_iff in Hx. destruct Hx as [l [E Hl]]. subst x.
    apply strip_margin_lf_free. pose proof (lines_pieces_lf_free s) as A.
    rewrite Forall_forall in A. apply A, Hl. }
  assert (Hm : margin M = []) by apply margin_strip_margin.
  assert (Hb : forall x, In x M -> has_nonws x = false -> x = []).
  { intros x Hx Hn. apply in_map_iff in Hx. destruct Hx as [l [E Hl]]. subst x.
    destruct (has_nonws l) eqn:El.
    - destruct (strip_margin_nonblank ls l Hl El) as [_ C]. fold mg in C. congruence.
    - apply strip_margin_blank, El. }
  assert (Hc : forall x, In x (if ends_with s [LF] then M else removelast M) -> last_is CR x = false).
  { intros x Hx.
    assert (Hx' : In x (map (strip_margin mg) (if ends_with s [LF] then ls else removelast ls))).
    { destruct (ends_with s [LF]); [exact Hx|]. unfold M in Hx. rewrite removelast_map in Hx. exact Hx. }
    apply in_map_iff in Hx'. destruct Hx' as [l [E Hl]]. subst x.
    assert (Hin : In l ls).
    { destruct (ends_with s [LF]); [assumption|].
      destruct ls as [|a b]; [destruct Hl|].
      assert (Hn : a :: b <> []) by discriminate.
      destruct (exists_last Hn) as [L' [z Ez]]. rewrite Ez in *.
      rewrite removelast_last in Hl. apply in_or_app. left. assumption. }
    destruct (has_nonws l) eqn:El.
    - destruct (strip_margin_nonblank ls l Hin El) as [E C]. fold mg in E, C.
      specialize (H l Hl El). rewrite ends_with_single in H. rewrite E in H.
      rewrite last_is_app in H; [assumption|]. intros Z. rewrite Z in C. discriminate.
    - rewrite strip_margin_blank by assumption. reflexivity. }
  rewrite (dedent_form s). fold ls mg M. destruct (ends_with s [LF]).
  - apply dedent_fix_unlines; assumption.
  - apply dedent_fix_join; assumption.
Qed.

Corollary dedent_idem_simple : forall s,
  (forall l, In l (lines s) -> ends_with l [CR] = false) -> dedent (dedent s) = dedent s.
Proof.
  intros s H. apply dedent_idem. intros l Hl _. apply H.
  unfold terminated_lines in Hl. destruct (ends_with s [LF]); [assumption|].
  destruct (lines s) as [|a b]; [destruct Hl|].
  assert (Hn : a :: b <> []) by discriminate.
  destruct (exists_last Hn) as [L' [z Ez]]. rewrite Ez in *.
  rewrite removelast_last in Hl. apply in_or_app. left. assumption.
Qed.

(* "x\r\r\ny" *)
Example dedent_not_idempotent :
  let s := [120; CR; CR; LF; 121] in
  dedent s = [120; CR; LF; 121] /\ dedent (dedent s) = [120; LF; 121].
Proof. vm_compute. split; reflexivity. Qed.

(* ------------------------------------------------------------------ *)
(* target 8: dedent (indent s p) = dedent s                            *)

Lemma indent_spec' s p :
  indent s p = join [LF] (map (indent_line p) (split_terminator_lf s))
               ++ (if ends_with s [LF] then [LF] else []).
Proof. apply indent_spec. Qed.

Lemma has_nonws_ws p : ws_only p -> has_nonws p = false.
Proof. apply has_nonws_false_ws. Qed.

Lemma indent_line_ws p l : ws_only p -> indent_line p l = if has_nonws l then p ++ l else l.
Proof.
  intros Hp. unfold indent_line. destruct (has_nonws l); [reflexivity|].
  rewrite trim_end_ws by assumption. reflexivity.
Qed.

Lemma has_nonws_indent_line p l : ws_only p -> has_nonws (indent_line p l) = has_nonws l.
Proof.
  intros Hp. rewrite indent_line_ws by assumption. destruct (has_nonws l) eqn:E; [|assumption].
  rewrite has_nonws_app, E. apply orb_true_r.
Qed.

Lemma has_nonws_nonnil l : has_nonws l = true -> l <> [].
Proof. intros H E. subst. discriminate. Qed.

Lemma strip_cr_indent_line p l :
  ws_only p -> strip_cr (indent_line p l) = indent_line p (strip_cr l).
Proof.
  intros Hp. rewrite !indent_line_ws by assumption. rewrite has_nonws_strip_cr.
  destruct (has_nonws l) eqn:E; [|reflexivity].
  apply strip_cr_app, has_nonws_nonnil, E.
Qed.

(* indent acts line by line, also with respect to lines() (CRs in s are harmless) *)
Lemma lines_indent s p :
  ws_only p -> lf_free p -> lines (indent s p) = map (indent_line p) (lines s).
Proof.
  intros Hw Hp. rewrite indent_spec'. rewrite lines_join_gen.
  - rewrite strip_init_map.
    + rewrite <- lines_stl. reflexivity.
    + intros l _. apply strip_cr_indent_line, Hw.
  - apply Forall_forall. intros x Hx. apply in_map_iff in Hx. destruct Hx as [l [E Hl]]. subst x.
    apply (indent_line_lf_free p l Hp).
    pose proof (stl_pieces_lf_free s) as H. rewrite Forall_forall in H. apply H, Hl.
  - intros Hb E. apply map_eq_nil in E. revert E. apply stl_nonnil_of_ends, Hb.
  - intros Hb. apply last_map_nonempty.
    + intros l Hl E. apply app_eq_nil in E. tauto.
    + apply stl_last_nonempty, Hb.
Qed.

Lemma filter_map_comm {A} (g : A -> bool) (f : A -> A) l :
  (forall x, g (f x) = g x) -> filter g (map f l) = map f (filter g l).
Proof.
  intros H. induction l as [|x l IH]; [reflexivity|]. cbn [map filter]. rewrite H, IH.
  destruct (g x); reflexivity.
Qed.

Lemma margin_indent p ls :
  ws_only p ->
  margin (map (indent_line p) ls) =
  match filter has_nonws ls with [] => [] | _ => p ++ margin ls end.
Proof.
  intros Hp. unfold margin.
  rewrite filter_map_comm by (intros x; apply has_nonws_indent_line, Hp).
  assert (HF : forall x, In x (filter has_nonws ls) -> has_nonws x = true).
  { intros x Hx. apply filter_In in Hx. tauto. }
  assert (E : map take_ws (map (indent_line p) (filter has_nonws ls)) =
              map (app p) (map take_ws (filter has_nonws ls))).
  { rewrite !map_map. apply map_ext_in. intros x Hx. rewrite indent_line_ws by assumption.
    rewrite (HF x Hx). apply take_ws_app_ws, Hp. }
  rewrite E. destruct (filter has_nonws ls) as [|l r]; [reflexivity|].
  cbn [map]. apply fold_lcp_app_common.
Qed.

(* The hypothesis "s contains no CR" of the task statement is not needed. *)
Theorem dedent_indent_strong : forall s p,
  Forall (fun c => is_whitespace c = true) p -> Forall (fun c => c <> LF) p ->
  dedent (indent s p) = dedent s.
Proof.
  intros s p Hw Hp. rewrite !dedent_spec. cbv zeta.
  rewrite (lines_indent s p Hw Hp).
  destruct (indent_lines_structure s p Hp) as [_ HE]. rewrite HE.
  assert (B :
    concat (map (fun l => (if has_nonws l
                           then skipn (length (margin (map (indent_line p) (lines s)))) l
                           else []) ++ [LF]) (map (indent_line p) (lines s))) =
    concat (map (fun l => (if has_nonws l then skipn (length (margin (lines s))) l else [])
                          ++ [LF]) (lines s))).
  { f_equal. rewrite map_map. apply map_ext_in. intros l Hl.
    rewrite has_nonws_indent_line by assumption. destruct (has_nonws l) eqn:E; [|reflexivity].
    f_equal. rewrite margin_indent by assumption.
    destruct (filter has_nonws (lines s)) as [|l1 r1] eqn:F.
    - exfalso. assert (X : In l (filter has_nonws (lines s))) by (apply filter_In; split; assumption).
      rewrite F in X. destruct X.
    - rewrite indent_line_ws by assumption. rewrite E. rewrite app_length. apply skipn_add_app. }
  rewrite B. reflexivity.
Qed.

(* the statement of the task *)
Corollary dedent_indent : forall s p,
  Forall (fun c => is_whitespace c = true) p ->
  Forall (fun c => c <> LF) p -> Forall (fun c => c <> CR) s ->
  dedent (indent s p) = dedent s.
Proof. intros s p Hw Hp _. apply dedent_indent_strong; assumption. Qed.

(* both remaining hypotheses are needed *)
Example dedent_indent_needs_lf_free :   (* p = "\n" is whitespace *)
  Forall (fun c => is_whitespace c = true) [LF] /\
  dedent (indent [97] [LF]) = [LF; 97] /\ dedent [97] = [97].
Proof. split; [repeat constructor|]. vm_compute. split; reflexivity. Qed.

Example dedent_indent_needs_ws :        (* p = "x" *)
  dedent (indent [97] [120]) = [120; 97] /\ dedent [97] = [97].
Proof. vm_compute. split; reflexivity. Qed.

(* ------------------------------------------------------------------ *)
(* non-vacuity / sanity examples                                       *)

(* "  foo\nbar\n\n  baz" indented by "// " *)
Example indent_ex :
  indent [32;32;102;111;111;10; 98;97;114;10; 10; 32;32;98;97;122] [47;47;32]
  = [47;47;32;32;32;102;111;111;10; 47;47;32;98;97;114;10; 47;47;10; 47;47;32;32;32;98;97;122].
Proof. vm_compute. reflexivity. Qed.

Example indent_corner_cases :
  indent [] [32] = [] /\ indent [LF] [32] = [LF] /\ indent [LF; LF] [47] = [47; LF; 47; LF].
Proof. vm_compute. repeat split; reflexivity. Qed.

(* "    foo\n  bar\n \n    baz": margin is two spaces; the blank line does not narrow it *)
Example margin_ex :
  margin (lines [32;32;32;32;102;111;111;10; 32;32;98;97;114;10; 32;10; 32;32;32;32;98;97;122])
  = [32;32].
Proof. vm_compute. reflexivity. Qed.

Example dedent_ex :
  dedent [32;32;32;32;102;111;111;10; 32;32;98;97;114;10; 32;10; 32;32;32;32;98;97;122]
  = [32;32;102;111;111;10; 98;97;114;10; 10; 32;32;98;97;122].
Proof. vm_compute. reflexivity. Qed.

Example dedent_corner_cases :
  dedent [] = [] /\ dedent [LF] = [LF] /\ dedent [32;32] = [] /\ dedent [32;LF;32] = [LF]
  /\ dedent [LF;LF] = [LF;LF].
Proof. vm_compute. repeat split; reflexivity. Qed.

(* the hypothesis of dedent_idem is satisfiable on a text with CRLF line ends, a blank
   line ending in CR CR and an unterminated last line ending in CR *)
Example dedent_idem_ex :
  let s := [32;97;CR;LF; CR;CR;LF; 32;32;98;CR] in
  (forall l, In l (terminated_lines s) -> has_nonws l = true -> ends_with l [CR] = false) /\
  dedent s = [97;LF; LF; 32;98;CR].
Proof.
  split; [|vm_compute; reflexivity].
  vm_compute. intros l [E|[E|[]]] H; subst; try reflexivity. discriminate.
Qed.

Example dedent_indent_ex :
  dedent (indent [97;CR;LF; 32;98;LF] [9;32]) = [97;LF; 32;98;LF].
Proof. vm_compute. reflexivity. Qed.

Print Assumptions trim_nil_iff.
Print Assumptions indent_spec.
Print Assumptions indent_nil_prefix.
Print Assumptions indent_lines_structure.
Print Assumptions join_split_lf.
Print Assumptions split_lf_join.
Print Assumptions dedent_margin.
Print Assumptions margin_ws.
Print Assumptions margin_prefix.
Print Assumptions margin_longest.
Print Assumptions dedent_spec.
Print Assumptions dedent_idem.
Print Assumptions dedent_idem_simple.
Print Assumptions dedent_indent_strong.
Print Assumptions dedent_indent.
