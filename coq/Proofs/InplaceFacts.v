(* C17: fill_inplace only turns spaces into newlines and agrees with wrap/fill
   (documented options: first-fit, ASCII-space separator, no splitter, no indent). *)
From Coq Require Import Lia ZArith.
From TW Require Import Wrap.
From TW Require Import EscFacts Partition.

Arguments N.add : simpl never.
Arguments N.sub : simpl never.
Arguments N.mul : simpl never.
Arguments N.leb : simpl never.
Arguments N.ltb : simpl never.
Arguments N.eqb : simpl never.

(* ------------------------------------------------------------------ *)
(* generic list / string facts                                          *)
(* ------------------------------------------------------------------ *)

Lemma blen_app a b : blen (a ++ b) = blen a + blen b.
Proof. induction a as [|c a IH]; cbn [app blen]; [reflexivity|]. rewrite IH. lia. Qed.

Lemma utf8_pos c : 1 <= utf8_len c.
Proof. unfold utf8_len. destruct (c <? 128), (c <? 2048), (c <? 65536); lia. Qed.

Lemma utf8_SP : utf8_len SP = 1. Proof. reflexivity. Qed.
Lemma utf8_LF : utf8_len LF = 1. Proof. reflexivity. Qed.

Lemma bdrop_0 s : bdrop s 0 = Some s.
Proof. destruct s; reflexivity. Qed.

Lemma btake_0 s : btake s 0 = Some [].
Proof. destruct s; reflexivity. Qed.

Lemma bdrop_app a r : bdrop (a ++ r) (blen a) = Some r.
Proof.
  induction a as [|c a IH]; cbn [app blen]; [apply bdrop_0|].
  cbn [bdrop]. pose proof (utf8_pos c) as Hc.
  destruct (N.eqb_spec (utf8_len c + blen a) 0) as [E|_]; [lia|].
  destruct (N.leb_spec (utf8_len c) (utf8_len c + blen a)) as [_|E]; [|lia].
  replace (utf8_len c + blen a - utf8_len c) with (blen a) by lia. exact IH.
Qed.

Lemma btake_app m r : btake (m ++ r) (blen m) = Some m.
Proof.
  induction m as [|c m IH]; cbn [app blen]; [apply btake_0|].
  cbn [btake]. pose proof (utf8_pos c) as Hc.
  destruct (N.eqb_spec (utf8_len c + blen m) 0) as [E|_]; [lia|].
  destruct (N.leb_spec (utf8_len c) (utf8_len c + blen m)) as [_|E]; [|lia].
  replace (utf8_len c + blen m - utf8_len c) with (blen m) by lia. rewrite IH. reflexivity.
Qed.

Lemma bslice_mid a m r : bslice (a ++ m ++ r) (blen a) (blen a + blen m) = Some m.
Proof.
  unfold bslice.
  destruct (N.ltb_spec (blen a + blen m) (blen a)) as [E|_]; [lia|].
  rewrite bdrop_app.
  replace (blen a + blen m - blen a) with (blen m) by lia. apply btake_app.
Qed.

Lemma set_lf_at_mid a c r : utf8_len c = 1 ->
  set_lf_at (a ++ c :: r) (blen a) = Some (a ++ LF :: r).
Proof.
  intros H1. induction a as [|x a IH]; cbn [app blen set_lf_at].
  - rewrite N.eqb_refl, H1, N.eqb_refl. reflexivity.
  - pose proof (utf8_pos x) as Hx.
    destruct (N.eqb_spec (utf8_len x + blen a) 0) as [E|_]; [lia|].
    destruct (N.leb_spec (utf8_len x) (utf8_len x + blen a)) as [_|E]; [|lia].
    replace (utf8_len x + blen a - utf8_len x) with (blen a) by lia. rewrite IH. reflexivity.
Qed.

(* ---- split_lf / join ---- *)

Definition nolf (s : str) : Prop := Forall (fun c => c <> LF) s.

Lemma split_lf_nonnil s : split_lf s <> [].
Proof.
  destruct s as [|c r]; cbn [split_lf]; [discriminate|].
  destruct (c =? LF); [discriminate|].
  destruct (split_lf r); cbn [cons_first]; discriminate.
Qed.

Lemma split_lf_app_lf a b : split_lf (a ++ LF :: b) = split_lf a ++ split_lf b.
Proof.
  induction a as [|c a IH]; cbn [app split_lf].
  - rewrite N.eqb_refl. reflexivity.
  - rewrite IH. destruct (c =? LF); [reflexivity|].
    destruct (split_lf a) as [|p ps] eqn:E; [exfalso; exact (split_lf_nonnil a E)|].
    reflexivity.
Qed.

Lemma split_lf_nolf s : nolf s -> split_lf s = [s].
Proof.
  induction 1 as [|c s Hc _ IH]; cbn [split_lf]; [reflexivity|].
  destruct (N.eqb_spec c LF) as [E|_]; [contradiction|]. rewrite IH. reflexivity.
Qed.

Lemma split_lf_pieces_nolf s : Forall nolf (split_lf s).
Proof.
  induction s as [|c s IH]; cbn [split_lf].
  - constructor; constructor.
  - destruct (N.eqb_spec c LF) as [E|Hc].
    + constructor; [constructor|exact IH].
    + destruct (split_lf s) as [|p ps]; cbn [cons_first].
      * constructor; [|constructor]. constructor; [exact Hc|constructor].
      * inversion IH as [|p' ps' Hp Hps]; subst. constructor; [|exact Hps].
        constructor; assumption.
Qed.

Lemma join_split_lf s : join [LF] (split_lf s) = s.
Proof.
  induction s as [|c s IH]; cbn [split_lf]; [reflexivity|].
  destruct (N.eqb_spec c LF) as [E|Hc].
  - subst c. destruct (split_lf s) as [|p ps] eqn:E; [exfalso; exact (split_lf_nonnil s E)|].
    change (join [LF] ([] :: p :: ps)) with ([] ++ [LF] ++ join [LF] (p :: ps)).
    rewrite IH. reflexivity.
  - destruct (split_lf s) as [|p ps] eqn:E; [exfalso; exact (split_lf_nonnil s E)|].
    cbn [cons_first]. destruct ps as [|q qs].
    + change (join [LF] [c :: p]) with (c :: join [LF] [p]). rewrite IH. reflexivity.
    + change (join [LF] ((c :: p) :: q :: qs)) with (c :: join [LF] (p :: q :: qs)).
      rewrite IH. reflexivity.
Qed.

(* ---- split_ws / trim_end_sp ---- *)

Definition nosp (s : str) : Prop := Forall (fun c => c <> SP) s.
Definition allsp (s : str) : Prop := Forall (fun c => c = SP) s.

Lemma split_ws_allsp sp : allsp sp -> split_ws sp = ([], sp).
Proof.
  induction 1 as [|c sp Hc _ IH]; cbn [split_ws]; [reflexivity|].
  rewrite IH. subst c. rewrite N.eqb_refl. reflexivity.
Qed.

Lemma split_ws_spec u sp : nosp u -> allsp sp -> split_ws (u ++ sp) = (u, sp).
Proof.
  intros Hu Hsp. induction Hu as [|c u Hc _ IH]; cbn [app split_ws].
  - apply split_ws_allsp; exact Hsp.
  - rewrite IH. destruct u as [|d u']; [|reflexivity].
    destruct (N.eqb_spec c SP) as [E|_]; [contradiction|reflexivity].
Qed.

Lemma split_ws_pre x u sp : u <> [] -> nosp u -> allsp sp ->
  split_ws (x ++ u ++ sp) = (x ++ u, sp).
Proof.
  intros Hne Hu Hsp. induction x as [|c x IH]; cbn [app split_ws].
  - apply split_ws_spec; assumption.
  - rewrite IH. destruct (x ++ u) as [|d r] eqn:E; [|reflexivity].
    apply app_eq_nil in E. destruct E as [_ E]. contradiction.
Qed.

Lemma split_ws_snoc_sp s :
  split_ws (s ++ [SP]) = (fst (split_ws s), snd (split_ws s) ++ [SP]).
Proof.
  induction s as [|c s IH]; cbn [app split_ws].
  - rewrite N.eqb_refl. reflexivity.
  - rewrite IH. destruct (split_ws s) as [w ws]. cbn [fst snd].
    destruct w as [|d w']; [|reflexivity].
    destruct (c =? SP); reflexivity.
Qed.

Lemma trim_end_sp_snoc_sp s : trim_end_sp (s ++ [SP]) = trim_end_sp s.
Proof. unfold trim_end_sp. rewrite split_ws_snoc_sp. reflexivity. Qed.

Lemma allsp_snoc sp : allsp sp -> sp <> [] -> exists sp', sp = sp' ++ [SP].
Proof.
  intros H Hne. destruct (exists_last Hne) as [sp' [c E]]. subst sp.
  exists sp'. apply Forall_app in H. destruct H as [_ H]. inversion H; subst. reflexivity.
Qed.

(* ------------------------------------------------------------------ *)
(* words produced by find_words_ascii                                   *)
(* ------------------------------------------------------------------ *)

Definition wtext (x : word) : str := w_word x ++ w_ws x.
Definition gtext (g : list word) : str := concat (map wtext g).

Lemma gtext_app a b : gtext (a ++ b) = gtext a ++ gtext b.
Proof. unfold gtext. rewrite map_app, concat_app. reflexivity. Qed.

Lemma gtext_cons x g : gtext (x :: g) = w_word x ++ w_ws x ++ gtext g.
Proof. unfold gtext. cbn [map concat]. unfold wtext. rewrite <- app_assoc. reflexivity. Qed.

Lemma gtext_snoc g x : gtext (g ++ [x]) = gtext g ++ w_word x ++ w_ws x.
Proof. rewrite gtext_app, gtext_cons. unfold gtext at 2. cbn [map concat]. rewrite app_nil_r. reflexivity. Qed.

Lemma gtext_concat gs : gtext (concat gs) = concat (map gtext gs).
Proof.
  induction gs as [|g gs IH]; cbn [concat map]; [reflexivity|].
  rewrite gtext_app, IH. reflexivity.
Qed.

Lemma sum_blen_gtext g :
  sum_N (map (fun x => blen (w_word x) + blen (w_ws x)) g) = blen (gtext g).
Proof.
  induction g as [|x g IH]; [reflexivity|].
  rewrite gtext_cons, !blen_app. cbn [map sum_N fold_right].
  unfold sum_N in IH. rewrite IH. lia.
Qed.

(* adjacent words are separated by at least one space, and only the first word of a
   line can have an empty text *)
Definition adj_ok (ws : list word) : Prop :=
  forall a x y b, ws = a ++ x :: y :: b -> w_ws x <> [] /\ w_word y <> [].

Lemma adj_ok_app_l a b : adj_ok (a ++ b) -> adj_ok a.
Proof.
  intros H p x y q E. apply (H p x y (q ++ b)). rewrite E, <- app_assoc. reflexivity.
Qed.

Lemma adj_ok_app_r a b : adj_ok (a ++ b) -> adj_ok b.
Proof.
  intros H p x y q E. apply (H (a ++ p) x y q). rewrite E, <- app_assoc. reflexivity.
Qed.

Lemma adj_ok_single x : adj_ok [x].
Proof.
  intros a p q b E. apply (f_equal (@length word)) in E.
  rewrite app_length in E. cbn [length] in E. lia.
Qed.

Lemma adj_ok_nil : adj_ok [].
Proof. intros a p q b E. destruct a; discriminate. Qed.

Section Words.
Variable cw : char -> N.

Definition wordlike (x : word) : Prop :=
  nosp (w_word x) /\ allsp (w_ws x) /\ w_pen x = [] /\ w_width x = dw cw (w_word x).

Lemma word_from_spec u sp : nosp u -> allsp sp ->
  word_from cw (u ++ sp) = mkWord u sp [] (dw cw u).
Proof. intros Hu Hsp. unfold word_from. rewrite split_ws_spec by assumption. reflexivity. Qed.

Lemma fwa_loop_spec t : forall cur in_ws u sp,
  rev cur = u ++ sp -> nosp u -> allsp sp ->
  (in_ws = true -> sp <> []) -> (in_ws = false -> sp = []) ->
  Forall wordlike (fwa_loop cw t cur in_ws) /\
  gtext (fwa_loop cw t cur in_ws) = u ++ sp ++ t /\
  adj_ok (fwa_loop cw t cur in_ws) /\
  (u <> [] -> Forall (fun x => w_word x <> []) (fwa_loop cw t cur in_ws)).
Proof.
  induction t as [|c r IH]; intros cur in_ws u sp Hrev Hu Hsp Ht Hf.
  - cbn [fwa_loop]. destruct cur as [|c0 cur'].
    + cbn [rev] in Hrev. symmetry in Hrev. apply app_eq_nil in Hrev. destruct Hrev; subst.
      split; [constructor|]. split; [reflexivity|]. split; [apply adj_ok_nil|].
      intros _. constructor.
    + rewrite Hrev, word_from_spec by assumption.
      split; [constructor; [repeat split; assumption|constructor]|].
      split; [rewrite gtext_cons; cbn [w_word w_ws]; unfold gtext; cbn [map concat];
              rewrite !app_nil_r; reflexivity|].
      split; [apply adj_ok_single|].
      intros Hne. constructor; [exact Hne|constructor].
  - cbn [fwa_loop].
    destruct (N.eqb_spec c SP) as [Ec|Ec].
    + (* a space: extend the whitespace run *)
      rewrite andb_false_r.
      assert (Hrev' : rev (c :: cur) = u ++ (sp ++ [c])).
      { cbn [rev]. rewrite Hrev, <- app_assoc. reflexivity. }
      assert (Hsp' : allsp (sp ++ [c])).
      { apply Forall_app. split; [exact Hsp|]. constructor; [exact Ec|constructor]. }
      destruct (IH (c :: cur) true u (sp ++ [c]) Hrev' Hu Hsp') as [H1 [H2 [H3 H4]]].
      { intros _ E. destruct sp; discriminate. }
      { discriminate. }
      split; [exact H1|]. split; [|split; assumption].
      rewrite H2, <- !app_assoc. reflexivity.
    + destruct in_ws.
      * (* a word ends here *)
        cbn [andb negb].
        rewrite Hrev, word_from_spec by assumption.
        assert (Hc : nosp [c]) by (constructor; [exact Ec|constructor]).
        destruct (IH [c] false [c] [] eq_refl Hc (Forall_nil _)) as [H1 [H2 [H3 H4]]].
        { discriminate. }
        { reflexivity. }
        assert (Hne : Forall (fun x => w_word x <> []) (fwa_loop cw r [c] false)).
        { apply H4. discriminate. }
        split; [constructor; [repeat split; assumption|exact H1]|].
        split; [rewrite gtext_cons, H2; cbn [w_word w_ws app]; reflexivity|].
        split.
        -- intros a x y b E. destruct a as [|x0 a'].
           ++ cbn [app] in E. injection E as Ex Er. subst x. cbn [w_ws].
              split; [apply Ht; reflexivity|].
              rewrite Er in Hne. inversion Hne; assumption.
           ++ cbn [app] in E. injection E as _ Er. exact (H3 a' x y b Er).
        -- intros Hu0. constructor; [exact Hu0|exact Hne].
      * (* extend the word *)
        cbn [andb].
        assert (Esp : sp = []) by (apply Hf; reflexivity). subst sp.
        rewrite app_nil_r in Hrev.
        assert (Hrev' : rev (c :: cur) = (u ++ [c]) ++ []).
        { cbn [rev]. rewrite Hrev, app_nil_r. reflexivity. }
        assert (Hu' : nosp (u ++ [c])).
        { apply Forall_app. split; [exact Hu|]. constructor; [exact Ec|constructor]. }
        destruct (IH (c :: cur) false (u ++ [c]) [] Hrev' Hu' (Forall_nil _)) as [H1 [H2 [H3 H4]]].
        { discriminate. }
        { reflexivity. }
        split; [exact H1|]. split; [rewrite H2, <- app_assoc; reflexivity|].
        split; [exact H3|]. intros _. apply H4. destruct u; discriminate.
Qed.

Lemma find_words_ascii_spec line :
  Forall wordlike (find_words_ascii cw line) /\
  gtext (find_words_ascii cw line) = line /\
  adj_ok (find_words_ascii cw line).
Proof.
  unfold find_words_ascii.
  destruct (fwa_loop_spec line [] false [] [] eq_refl (Forall_nil _) (Forall_nil _))
    as [H1 [H2 [H3 _]]]; [discriminate|reflexivity|].
  split; [exact H1|]. split; [exact H2|exact H3].
Qed.
End Words.

(* ------------------------------------------------------------------ *)
(* the groups (lines) of a first-fit partition of ASCII words            *)
(* ------------------------------------------------------------------ *)

Definition ends_sp (s : str) : Prop := exists s', s = s' ++ [SP].

(* what the reassembly loop of wrap needs of a group: no penalties, and removing the
   whitespace of the last word is the same as trimming trailing spaces *)
Definition grp_ok (g : list word) : Prop :=
  Forall (fun x => w_pen x = []) g /\
  forall g' lw, g = g' ++ [lw] -> trim_end_sp (gtext g) = gtext g' ++ w_word lw.

Section Groups.
Variable cw : char -> N.

Lemma grp_ok_nil : grp_ok [].
Proof. split; [constructor|]. intros g' lw E. destruct g'; discriminate. Qed.

Lemma grp_ok_of g : Forall (wordlike cw) g -> adj_ok g -> grp_ok g.
Proof.
  intros Hw Hadj. split.
  - apply (Forall_impl _ (P := wordlike cw)); [|exact Hw]. intros x [_ [_ [Hp _]]]. exact Hp.
  - intros g' lw E. subst g. rewrite gtext_snoc.
    apply Forall_app in Hw. destruct Hw as [_ Hlw]. inversion Hlw as [|x0 l0 Hl _]; subst.
    destruct Hl as [Hu [Hsp _]]. unfold trim_end_sp.
    induction g' as [|x g'' _] using rev_ind.
    + change (gtext []) with (@nil char). cbn [app].
      rewrite split_ws_spec by assumption. reflexivity.
    + assert (Hne : w_word lw <> []).
      { apply (Hadj g'' x lw []). rewrite <- app_assoc. reflexivity. }
      rewrite split_ws_pre by assumption. reflexivity.
Qed.

Lemma groups_props gs :
  Forall (wordlike cw) (concat gs) -> adj_ok (concat gs) -> Forall (fun g => g <> []) gs ->
  Forall grp_ok gs /\ Forall (fun g => ends_sp (gtext g)) (removelast gs).
Proof.
  induction gs as [|g rest IH]; intros Hw Hadj Hne.
  - split; constructor.
  - cbn [concat] in Hw, Hadj.
    apply Forall_app in Hw. destruct Hw as [Hwg Hwr].
    inversion Hne as [|g0 r0 Hg Hr]; subst.
    destruct (IH Hwr (adj_ok_app_r _ _ Hadj) Hr) as [IH1 IH2].
    split.
    + constructor; [|exact IH1]. apply grp_ok_of; [exact Hwg|]. exact (adj_ok_app_l _ _ Hadj).
    + destruct rest as [|g2 r]; [constructor|].
      change (removelast (g :: g2 :: r)) with (g :: removelast (g2 :: r)).
      constructor; [|exact IH2].
      destruct (exists_last Hg) as [g' [lw E]]. subst g.
      inversion Hr as [|g20 r20 Hg2 _]; subst.
      destruct g2 as [|y g2']; [contradiction|].
      apply Forall_app in Hwg. destruct Hwg as [_ Hlw].
      inversion Hlw as [|x0 l0 Hl _]; subst. destruct Hl as [_ [Hsp _]].
      assert (Hws : w_ws lw <> []).
      { apply (Hadj g' lw y (g2' ++ concat r)). cbn [concat app].
        rewrite <- app_assoc. reflexivity. }
      destruct (allsp_snoc _ Hsp Hws) as [sp' Esp].
      exists (gtext g' ++ w_word lw ++ sp').
      rewrite gtext_snoc, Esp, <- !app_assoc. reflexivity.
Qed.

Lemma para_groups lws p :
  let gs := first_fit word_frag (find_words_ascii cw p) lws in
  gs <> [] /\ Forall grp_ok gs /\
  Forall (fun g => ends_sp (gtext g)) (removelast gs) /\
  concat (map gtext gs) = p.
Proof.
  destruct (find_words_ascii_spec cw p) as [Hw [Htext Hadj]].
  destruct (find_words_ascii cw p) as [|x ws] eqn:E.
  - cbn. split; [discriminate|]. split; [constructor; [apply grp_ok_nil|constructor]|].
    split; [constructor|]. rewrite <- Htext. reflexivity.
  - intros gs.
    assert (Hc : concat gs = x :: ws) by apply first_fit_concat.
    assert (Hne : Forall (fun g => g <> []) gs) by (apply first_fit_nonempty; discriminate).
    rewrite <- Hc in Hw, Hadj.
    destruct (groups_props gs Hw Hadj Hne) as [H1 H2].
    split; [intros Eg; rewrite Eg in Hc; discriminate|].
    split; [exact H1|]. split; [exact H2|].
    rewrite <- gtext_concat, Hc. exact Htext.
Qed.
End Groups.

(* ------------------------------------------------------------------ *)
(* first-fit: [w; w] and [w] are the same line widths; a short line is one group *)
(* ------------------------------------------------------------------ *)

Lemma ff_loop_ext (Nm : Num) (A : Type) (m : A -> frag Nm) l1 l2 :
  (forall k, nth_width l1 k = nth_width l2 k) ->
  forall xs done cur width,
  ff_loop Nm A m l1 xs done cur width = ff_loop Nm A m l2 xs done cur width.
Proof.
  intros H. induction xs as [|x rest IH]; intros done cur width; cbn [ff_loop]; [reflexivity|].
  rewrite H. destruct (_ && _); apply IH.
Qed.

Lemma nth_width_dup (Nm : Num) (a : T Nm) k : nth_width [a; a] k = nth_width [a] k.
Proof.
  unfold nth_width. destruct k as [|[|k]]; cbn [nth last]; try reflexivity.
  destruct k; reflexivity.
Qed.

Lemma nth_width_single (Nm : Num) (a : T Nm) k : nth_width [a] k = a.
Proof. unfold nth_width. destruct k as [|k]; cbn [nth last]; [reflexivity|]. destruct k; reflexivity. Qed.

Lemma first_fit_dup (Nm : Num) (A : Type) (m : A -> frag Nm) xs (a : T Nm) :
  first_fit m xs [a; a] = first_fit m xs [a].
Proof. unfold first_fit. apply ff_loop_ext. apply nth_width_dup. Qed.

Definition wcost (x : word) : N := w_width x + blen (w_ws x).

Lemma ff_words_fit W : forall xs done cur width,
  Forall (fun x => w_pen x = []) xs ->
  (width + Z.of_N (sum_N (map wcost xs)) <= Z.of_N W)%Z ->
  ff_loop NumZ word word_frag [Z.of_N W] xs done cur width = rev (rev (rev xs ++ cur) :: done).
Proof.
  induction xs as [|x rest IH]; intros done cur width Hp Hle; cbn [ff_loop].
  - reflexivity.
  - inversion Hp as [|x0 r0 Hx Hr]; subst.
    rewrite nth_width_single.
    cbn [map sum_N fold_right] in Hle.
    fold (sum_N (map wcost rest)) in Hle. unfold wcost at 1 in Hle.
    unfold word_frag at 1 2. cbn [fw fws fpen]. rewrite Hx.
    change (blen []) with 0. cbn [gtb add NumZ].
    destruct (Z.gtb_spec (width + Z.of_N (w_width x) + Z.of_N 0) (Z.of_N W)) as [Hgt|_]; [lia|].
    cbn [andb]. rewrite IH; [|exact Hr|].
    + cbn [rev]. rewrite <- app_assoc. reflexivity.
    + unfold word_frag. cbn [fw fws]. lia.
Qed.

Lemma first_fit_fits W xs :
  Forall (fun x => w_pen x = []) xs ->
  sum_N (map wcost xs) <= W ->
  first_fit word_frag xs [Z.of_N W] = [xs].
Proof.
  intros Hp Hle. unfold first_fit. rewrite ff_words_fit; [|exact Hp|cbn [zero NumZ]; lia].
  cbn [rev app]. rewrite app_nil_r, rev_involutive. reflexivity.
Qed.

(* ------------------------------------------------------------------ *)
(* the explicit result of fill_inplace                                  *)
(* ------------------------------------------------------------------ *)

(* a character is kept, or a space becomes a newline *)
Definition sp_to_lf (a b : char) : Prop := b = a \/ (a = SP /\ b = LF).

Lemma sp_to_lf_refl s : Forall2 sp_to_lf s s.
Proof. induction s as [|c s IH]; constructor; [left; reflexivity|exact IH]. Qed.

Lemma sp_to_lf_blen s t : Forall2 sp_to_lf s t -> blen t = blen s.
Proof.
  induction 1 as [|a b s t Hab _ IH]; [reflexivity|]. cbn [blen]. rewrite IH.
  destruct Hab as [E|[E1 E2]]; subst; reflexivity.
Qed.

Lemma sp_to_lf_length s t : Forall2 sp_to_lf s t -> length t = length s.
Proof. induction 1 as [|a b s t _ _ IH]; [reflexivity|]. cbn [length]. rewrite IH. reflexivity. Qed.

Lemma sp_to_lf_nth s t : Forall2 sp_to_lf s t ->
  forall i, nth i t 0 = nth i s 0 \/ (nth i s 0 = SP /\ nth i t 0 = LF).
Proof.
  induction 1 as [|a b s t Hab _ IH]; intros i.
  - left. destruct i; reflexivity.
  - destruct i as [|i]; cbn [nth]; [|apply IH].
    destruct Hab as [E|[E1 E2]]; [left; exact E|right; split; assumption].
Qed.

(* the paragraph with the last space of every non-final group turned into LF *)
Fixpoint pout (gs : list (list word)) : str :=
  match gs with
  | [] => []
  | g :: rest =>
      match rest with
      | [] => gtext g
      | _ :: _ => removelast (gtext g) ++ LF :: pout rest
      end
  end.

Lemma pout_cons2 g g2 r s : gtext g = s ++ [SP] ->
  pout (g :: g2 :: r) = s ++ LF :: pout (g2 :: r).
Proof.
  intros E. change (pout (g :: g2 :: r)) with (removelast (gtext g) ++ LF :: pout (g2 :: r)).
  rewrite E, removelast_last. reflexivity.
Qed.

Lemma pout_rel gs : Forall (fun g => ends_sp (gtext g)) (removelast gs) ->
  Forall2 sp_to_lf (concat (map gtext gs)) (pout gs).
Proof.
  induction gs as [|g rest IH]; intros H; [constructor|].
  destruct rest as [|g2 r].
  - cbn [map concat pout]. rewrite app_nil_r. apply sp_to_lf_refl.
  - change (removelast (g :: g2 :: r)) with (g :: removelast (g2 :: r)) in H.
    inversion H as [|g0 r0 [s Es] Hr]; subst.
    rewrite (pout_cons2 g g2 r s Es).
    change (concat (map gtext (g :: g2 :: r))) with (gtext g ++ concat (map gtext (g2 :: r))).
    rewrite Es, <- app_assoc. cbn [app].
    apply Forall2_app; [apply sp_to_lf_refl|].
    constructor; [right; split; reflexivity|]. apply IH. exact Hr.
Qed.

Lemma inplace_lines_cons2 g g2 r off :
  inplace_lines (g :: g2 :: r) off =
  if off + blen (gtext g) =? 0 then None else
  match inplace_lines (g2 :: r) (off + blen (gtext g)) with
  | Some l => Some ((off + blen (gtext g) - 1) :: l)
  | None => None
  end.
Proof. rewrite <- sum_blen_gtext. reflexivity. Qed.

Lemma inplace_lines_apply : forall gs pre post more,
  gs <> [] -> Forall (fun g => ends_sp (gtext g)) (removelast gs) ->
  exists idxs, inplace_lines gs (blen pre) = Some idxs /\
    apply_indices (pre ++ concat (map gtext gs) ++ post) (idxs ++ more)
    = apply_indices (pre ++ pout gs ++ post) more.
Proof.
  induction gs as [|g rest IH]; intros pre post more Hne H; [contradiction|].
  destruct rest as [|g2 r].
  - exists []. split; [reflexivity|]. cbn [map concat pout app]. rewrite app_nil_r. reflexivity.
  - change (removelast (g :: g2 :: r)) with (g :: removelast (g2 :: r)) in H.
    inversion H as [|g0 r0 [s Es] Hr]; subst.
    destruct (IH (pre ++ s ++ [LF]) post more ltac:(discriminate) Hr) as [idxs' [Hi Ha]].
    assert (Eb : blen pre + blen (gtext g) = blen (pre ++ s ++ [LF])).
    { rewrite Es, !blen_app. reflexivity. }
    exists ((blen (pre ++ s ++ [LF]) - 1) :: idxs'). split.
    + rewrite inplace_lines_cons2, Eb.
      destruct (N.eqb_spec (blen (pre ++ s ++ [LF])) 0) as [E0|_].
      { rewrite !blen_app in E0. change (blen [LF]) with 1 in E0. lia. }
      rewrite Hi. reflexivity.
    + rewrite (pout_cons2 g g2 r s Es).
      change (concat (map gtext (g :: g2 :: r))) with (gtext g ++ concat (map gtext (g2 :: r))).
      rewrite Es. cbn [app apply_indices].
      replace (pre ++ ((s ++ [SP]) ++ concat (map gtext (g2 :: r))) ++ post)
        with ((pre ++ s) ++ SP :: (concat (map gtext (g2 :: r)) ++ post))
        by (rewrite <- !app_assoc; reflexivity).
      replace (blen (pre ++ s ++ [LF]) - 1) with (blen (pre ++ s))
        by (rewrite !blen_app; change (blen [LF]) with 1; lia).
      rewrite (set_lf_at_mid (pre ++ s) SP _ utf8_SP).
      replace ((pre ++ s) ++ LF :: concat (map gtext (g2 :: r)) ++ post)
        with ((pre ++ s ++ [LF]) ++ concat (map gtext (g2 :: r)) ++ post)
        by (rewrite <- !app_assoc; reflexivity).
      rewrite Ha. f_equal. rewrite <- !app_assoc. reflexivity.
Qed.

Section Inplace.
Variable cw : char -> N.
Variable w : N.

Definition pgroups (p : str) : list (list word) :=
  first_fit word_frag (find_words_ascii cw p) [Z.of_N w].
Definition pout_p (p : str) : str := pout (pgroups p).

Lemma pout_p_rel p : Forall2 sp_to_lf p (pout_p p).
Proof.
  destruct (para_groups cw [Z.of_N w] p) as [_ [_ [H E]]].
  unfold pout_p, pgroups. rewrite <- E at 1. apply pout_rel. exact H.
Qed.

Lemma join_rel paras : Forall2 sp_to_lf (join [LF] paras) (join [LF] (map pout_p paras)).
Proof.
  induction paras as [|p r IH]; [constructor|].
  destruct r as [|p2 r'].
  - cbn [map join]. apply pout_p_rel.
  - change (join [LF] (p :: p2 :: r')) with (p ++ [LF] ++ join [LF] (p2 :: r')).
    change (join [LF] (map pout_p (p :: p2 :: r')))
      with (pout_p p ++ [LF] ++ join [LF] (map pout_p (p2 :: r'))).
    apply Forall2_app; [apply pout_p_rel|].
    apply Forall2_app; [apply sp_to_lf_refl|exact IH].
Qed.

Lemma inplace_indices_apply : forall paras pre more,
  exists idxs, inplace_indices cw w paras (blen pre) = Some idxs /\
    apply_indices (pre ++ join [LF] paras) (idxs ++ more)
    = apply_indices (pre ++ join [LF] (map pout_p paras)) more.
Proof.
  induction paras as [|p r IH]; intros pre more.
  - exists []. split; reflexivity.
  - destruct (para_groups cw [Z.of_N w] p) as [Hne [_ [Hends Ep]]].
    fold (pgroups p) in Hne, Hends, Ep.
    cbn [inplace_indices]. fold (pgroups p).
    destruct r as [|p2 r'].
    + destruct (inplace_lines_apply (pgroups p) pre [] more Hne Hends) as [a [Ha1 Ha2]].
      exists (a ++ []). rewrite Ha1. split; [reflexivity|].
      rewrite Ep in Ha2. rewrite !app_nil_r in *. exact Ha2.
    + assert (Eb : blen pre + blen p + 1 = blen (pre ++ pout_p p ++ [LF])).
      { rewrite !blen_app, (sp_to_lf_blen _ _ (pout_p_rel p)). change (blen [LF]) with 1. lia. }
      destruct (IH (pre ++ pout_p p ++ [LF]) more) as [b [Hb1 Hb2]].
      destruct (inplace_lines_apply (pgroups p) pre ([LF] ++ join [LF] (p2 :: r')) (b ++ more)
                  Hne Hends) as [a [Ha1 Ha2]].
      exists (a ++ b). rewrite Ha1, Eb, Hb1. split; [reflexivity|].
      change (join [LF] (p :: p2 :: r')) with (p ++ [LF] ++ join [LF] (p2 :: r')).
      change (join [LF] (map pout_p (p :: p2 :: r')))
        with (pout_p p ++ [LF] ++ join [LF] (map pout_p (p2 :: r'))).
      rewrite Ep in Ha2. rewrite <- app_assoc, Ha2.
      fold (pout_p p).
      transitivity (apply_indices ((pre ++ pout_p p ++ [LF]) ++ join [LF] (p2 :: r')) (b ++ more)).
      { rewrite <- !app_assoc. reflexivity. }
      rewrite Hb2, <- !app_assoc. reflexivity.
Qed.

(* Target 1, with the explicit result *)
Lemma fill_inplace_explicit text :
  fill_inplace cw text w = Some (join [LF] (map pout_p (split_lf text))).
Proof.
  unfold fill_inplace.
  destruct (inplace_indices_apply (split_lf text) [] []) as [idxs [H1 H2]].
  change (blen []) with 0 in H1. rewrite H1.
  cbn [app] in H2. rewrite app_nil_r, join_split_lf in H2. rewrite H2. reflexivity.
Qed.
End Inplace.

(* ------------------------------------------------------------------ *)
(* splitting the result at newlines and trimming                        *)
(* ------------------------------------------------------------------ *)

Definition tg (g : list word) : str := trim_end_sp (gtext g).

Lemma nolf_concat (l : list str) : nolf (concat l) -> Forall nolf l.
Proof.
  induction l as [|x l IH]; intros H; [constructor|].
  cbn [concat] in H. apply Forall_app in H. destruct H as [H1 H2].
  constructor; [exact H1|apply IH; exact H2].
Qed.

Lemma split_pout gs :
  gs <> [] -> Forall (fun g => ends_sp (gtext g)) (removelast gs) ->
  Forall (fun g => nolf (gtext g)) gs ->
  map trim_end_sp (split_lf (pout gs)) = map tg gs.
Proof.
  induction gs as [|g rest IH]; intros Hne He Hn; [contradiction|].
  inversion Hn as [|g0 r0 Hg Hr]; subst.
  destruct rest as [|g2 r].
  - cbn [pout]. rewrite split_lf_nolf by exact Hg. reflexivity.
  - change (removelast (g :: g2 :: r)) with (g :: removelast (g2 :: r)) in He.
    inversion He as [|g0 r0 [s Es] Her]; subst.
    rewrite (pout_cons2 g g2 r s Es), split_lf_app_lf, map_app.
    rewrite IH; [|discriminate|exact Her|exact Hr].
    rewrite Es in Hg. apply Forall_app in Hg. destruct Hg as [Hs _].
    rewrite split_lf_nolf by exact Hs.
    change (map tg (g :: g2 :: r)) with (tg g :: map tg (g2 :: r)).
    unfold tg at 2. rewrite Es, trim_end_sp_snoc_sp. reflexivity.
Qed.

Lemma split_join xs : xs <> [] -> split_lf (join [LF] xs) = concat (map split_lf xs).
Proof.
  induction xs as [|x r IH]; intros Hne; [contradiction|].
  destruct r as [|x2 r'].
  - cbn [join map concat]. rewrite app_nil_r. reflexivity.
  - change (join [LF] (x :: x2 :: r')) with (x ++ LF :: join [LF] (x2 :: r')).
    rewrite split_lf_app_lf, IH by discriminate. reflexivity.
Qed.

Section Trim.
Variable cw : char -> N.
Variable w : N.

Lemma split_pout_p p : nolf p ->
  map trim_end_sp (split_lf (pout_p cw w p)) = map tg (pgroups cw w p).
Proof.
  intros Hp. destruct (para_groups cw [Z.of_N w] p) as [Hne [_ [Hends Ep]]].
  fold (pgroups cw w p) in Hne, Hends, Ep. unfold pout_p.
  apply split_pout; [exact Hne|exact Hends|].
  rewrite <- Ep in Hp. apply nolf_concat in Hp.
  exact (proj1 (Forall_map gtext nolf _) Hp).
Qed.

Lemma split_trim_paras paras : Forall nolf paras ->
  map trim_end_sp (concat (map split_lf (map (pout_p cw w) paras)))
  = concat (map (fun p => map tg (pgroups cw w p)) paras).
Proof.
  induction 1 as [|p r Hp _ IH]; [reflexivity|].
  cbn [map concat]. rewrite map_app, IH, split_pout_p by exact Hp. reflexivity.
Qed.
End Trim.

(* ------------------------------------------------------------------ *)
(* the wrap side                                                        *)
(* ------------------------------------------------------------------ *)

Definition doc_options (w : N) : options :=
  mkOptions w LE_LF [] [] false FirstFit SepAscii SplNone.

Lemma last_map_some (g : list word) lw : last (map Some (g ++ [lw])) None = Some lw.
Proof. rewrite map_app. cbn [map]. apply last_last. Qed.

Lemma reassemble_spec w line : forall gs pre first,
  line = pre ++ concat (map gtext gs) -> Forall grp_ok gs ->
  exists ls, reassemble (doc_options w) line first gs (blen pre) = Some ls /\
             map l_text ls = map tg gs.
Proof.
  induction gs as [|g rest IH]; intros pre first Hline Hok.
  - exists []. split; reflexivity.
  - inversion Hok as [|g0 r0 [Hpen Htrim] Hr]; subst g0 r0.
    cbn [map concat] in Hline.
    destruct g as [|x0 g0] eqn:Eg.
    + destruct (IH pre false Hline Hr) as [ls [H1 H2]].
      cbn [reassemble map last]. rewrite H1.
      eexists. split; [reflexivity|]. cbn [map l_text]. rewrite H2.
      destruct first; reflexivity.
    + rewrite <- Eg in *.
      assert (Hne : g <> []) by (rewrite Eg; discriminate).
      destruct (exists_last Hne) as [g' [lw Elw]].
      assert (Hlw : w_pen lw = []).
      { rewrite Elw in Hpen. apply Forall_app in Hpen. destruct Hpen as [_ Hp].
        inversion Hp; assumption. }
      assert (Et : gtext g = (gtext g' ++ w_word lw) ++ w_ws lw).
      { rewrite Elw, gtext_snoc, <- app_assoc. reflexivity. }
      destruct (IH (pre ++ gtext g) false) as [ls [H1 H2]]; [|exact Hr|].
      { rewrite Hline, <- app_assoc. reflexivity. }
      cbn [reassemble]. rewrite sum_blen_gtext.
      replace (last (map Some g) None) with (Some lw)
        by (rewrite Elw; symmetry; apply last_map_some).
      destruct (N.ltb_spec (blen (gtext g)) (blen (w_ws lw))) as [Hlt|_].
      { rewrite Et, blen_app in Hlt. lia. }
      replace (blen (gtext g) - blen (w_ws lw)) with (blen (gtext g' ++ w_word lw))
        by (rewrite Et, (blen_app (gtext g' ++ w_word lw)); lia).
      assert (Esl : bslice line (blen pre) (blen pre + blen (gtext g' ++ w_word lw))
                    = Some (gtext g' ++ w_word lw)).
      { rewrite Hline, Et, <- (app_assoc _ (w_ws lw)). apply bslice_mid. }
      rewrite Esl.
      replace (blen pre + blen (gtext g' ++ w_word lw) + blen (w_ws lw))
        with (blen (pre ++ gtext g))
        by (rewrite (blen_app pre), Et, (blen_app (gtext g' ++ w_word lw)); lia).
      rewrite H1. eexists. split; [reflexivity|].
      cbn [map l_text]. rewrite H2. f_equal.
      rewrite Hlw, app_nil_r. unfold tg. rewrite (Htrim g' lw Elw).
      destruct first; reflexivity.
Qed.

Section WrapSide.
Variable cw : char -> N.
Variable alnum : char -> bool.
Variable lbc : str -> list N.
Variable custom_sp : str -> list N.
Variable ofit : penalties -> list word -> list N -> option (list (list word)).
Variable w : N.

Lemma split_words_none ws :
  Forall (wordlike cw) ws ->
  split_words cw (split_points alnum custom_sp SplNone) ws = Some ws.
Proof.
  induction 1 as [|x r Hx _ IH]; [reflexivity|].
  cbn [split_words]. rewrite IH. cbn [split_points sw_loop].
  rewrite N.eqb_refl, orb_true_r, bdrop_0.
  destruct Hx as [_ [_ [_ Hw]]]. rewrite <- Hw. destruct x; reflexivity.
Qed.

Lemma slow_path_spec first p :
  exists ls, slow_path cw alnum lbc custom_sp ofit (doc_options w) first p = Some ls /\
             map l_text ls = map tg (pgroups cw w p).
Proof.
  destruct (find_words_ascii_spec cw p) as [Hw _].
  destruct (para_groups cw [Z.of_N w] p) as [_ [Hok [_ Ep]]].
  fold (pgroups cw w p) in Hok, Ep.
  unfold slow_path. cbn [o_width o_ii o_si o_spl o_sep o_bw o_alg doc_options find_words].
  rewrite split_words_none by exact Hw.
  change (dw cw []) with 0. rewrite N.sub_0_r.
  assert (Ew : (if first then w else w) = w) by (destruct first; reflexivity).
  rewrite Ew. cbn [run_alg map]. rewrite first_fit_dup. fold (pgroups cw w p).
  apply (reassemble_spec w p (pgroups cw w p) [] first); [|exact Hok].
  rewrite Ep. reflexivity.
Qed.

Hypothesis cw_le : forall c, cw c <= utf8_len c.

Lemma sum_wcost_le ws : Forall (wordlike cw) ws -> sum_N (map wcost ws) <= blen (gtext ws).
Proof.
  induction 1 as [|x r Hx _ IH]; [cbn; lia|].
  rewrite gtext_cons, !blen_app. cbn [map sum_N fold_right].
  fold (sum_N (map wcost r)). unfold wcost at 1.
  destruct Hx as [_ [_ [_ Hw]]]. rewrite Hw.
  pose proof (dw_le_blen cw cw_le (w_word x)). lia.
Qed.

Lemma wrap_single_line_spec first p :
  exists ls, wrap_single_line cw alnum lbc custom_sp ofit (doc_options w) first p = Some ls /\
             map l_text ls = map tg (pgroups cw w p).
Proof.
  unfold wrap_single_line.
  assert (Ei : negb (nonempty (if first then o_ii (doc_options w) else o_si (doc_options w))) = true)
    by (destruct first; reflexivity).
  rewrite Ei, andb_true_r. cbn [o_width doc_options].
  destruct (N.ltb_spec (blen p) w) as [Hlt|_]; [|apply slow_path_spec].
  eexists. split; [reflexivity|]. cbn [map l_text].
  destruct (find_words_ascii_spec cw p) as [Hw [Ht _]].
  unfold pgroups. rewrite first_fit_fits.
  - cbn [map]. unfold tg. rewrite Ht. reflexivity.
  - apply (Forall_impl _ (P := wordlike cw)); [|exact Hw]. intros x [_ [_ [Hp _]]]. exact Hp.
  - pose proof (sum_wcost_le _ Hw) as Hs. rewrite Ht in Hs. lia.
Qed.

Lemma l_text_shift base l : l_text (shift_cow base l) = l_text l.
Proof. unfold shift_cow. destruct (l_cow l); reflexivity. Qed.

Lemma wrap_loop_spec : forall paras acc base,
  exists ls, wrap_loop cw alnum lbc custom_sp ofit (doc_options w) paras acc base = Some (acc ++ ls) /\
             map l_text ls = concat (map (fun p => map tg (pgroups cw w p)) paras).
Proof.
  induction paras as [|p r IH]; intros acc base.
  - exists []. rewrite app_nil_r. split; reflexivity.
  - cbn [wrap_loop].
    destruct (wrap_single_line_spec (match acc with [] => true | _ => false end) p) as [ls [H1 H2]].
    rewrite H1.
    destruct (IH (acc ++ map (shift_cow base) ls)
                 (base + blen p + blen (le_str (o_le (doc_options w))))) as [ls' [H3 H4]].
    rewrite H3. exists (map (shift_cow base) ls ++ ls'). split.
    + rewrite app_assoc. reflexivity.
    + cbn [map concat]. rewrite map_app, H4, <- H2. f_equal.
      rewrite map_map. apply map_ext. intros l. apply l_text_shift.
Qed.
End WrapSide.

(* ------------------------------------------------------------------ *)
(* C17                                                                  *)
(* ------------------------------------------------------------------ *)

Section C17.
Variable cw : char -> N.

(* Target 1: fill_inplace never panics: every index is in range and is the offset of a
   one-byte character. *)
Theorem fill_inplace_some text w : exists t', fill_inplace cw text w = Some t'.
Proof. eexists. apply fill_inplace_explicit. Qed.

(* Target 2: same number of characters, same byte length, and every character is either
   unchanged or a space turned into a newline. *)
Theorem fill_inplace_shape text w t' :
  fill_inplace cw text w = Some t' ->
  length t' = length text /\ blen t' = blen text /\
  forall i, nth i t' 0 = nth i text 0 \/ (nth i text 0 = SP /\ nth i t' 0 = LF).
Proof.
  rewrite fill_inplace_explicit. intros E. injection E as E. subst t'.
  pose proof (join_rel cw w (split_lf text)) as H. rewrite join_split_lf in H.
  split; [exact (sp_to_lf_length _ _ H)|].
  split; [exact (sp_to_lf_blen _ _ H)|exact (sp_to_lf_nth _ _ H)].
Qed.

(* Target 3.  DEVIATION: the statement is false for an arbitrary width function [cw]:
   the fast path of wrap_single_line compares the BYTE length of the line with the
   width, while first-fit (used by fill_inplace unconditionally) compares DISPLAY
   widths.  With cw := fun _ => 3, text := "aa bb", w := 6: fill_inplace gives "aa\nbb"
   while wrap gives the single line "aa bb" (vm_compute'd below).  The minimal
   hypothesis is that a character is never wider than its UTF-8 encoding is long,
   which holds for the real width table. *)
Hypothesis cw_le : forall c, cw c <= utf8_len c.

Variable alnum : char -> bool.
Variable lbc : str -> list N.
Variable custom_sp : str -> list N.
Variable ofit : penalties -> list word -> list N -> option (list (list word)).

Theorem fill_inplace_wrap text w t' :
  fill_inplace cw text w = Some t' ->
  exists ls, wrap cw alnum lbc custom_sp ofit (doc_options w) text = Some ls /\
             map trim_end_sp (split_lf t') = map l_text ls.
Proof.
  rewrite fill_inplace_explicit. intros E. injection E as E. subst t'.
  unfold wrap. cbn [split_le o_le doc_options].
  destruct (wrap_loop_spec cw alnum lbc custom_sp ofit w cw_le (split_lf text) [] 0)
    as [ls [H1 H2]].
  exists ls. split; [exact H1|]. rewrite H2.
  rewrite split_join.
  - apply split_trim_paras. apply split_lf_pieces_nolf.
  - intros E. apply map_eq_nil in E. exact (split_lf_nonnil text E).
Qed.

Lemma existsb_lf_nolf s : existsb (N.eqb LF) s = false -> nolf s.
Proof.
  induction s as [|c s IH]; intros H; [constructor|].
  cbn [existsb] in H. apply orb_false_elim in H. destruct H as [H1 H2].
  constructor; [|apply IH; exact H2].
  intros E. subst c. rewrite N.eqb_refl in H1. discriminate.
Qed.

(* agreement with fill itself (including fill's own fast path) *)
Theorem fill_inplace_fill text w t' :
  fill_inplace cw text w = Some t' ->
  fill cw alnum lbc custom_sp ofit (doc_options w) text
  = Some (join [LF] (map trim_end_sp (split_lf t'))).
Proof.
  intros Hfi. destruct (fill_inplace_wrap text w t' Hfi) as [ls [Hw Hm]].
  unfold fill. cbn [o_width o_ii doc_options nonempty negb]. rewrite andb_true_r.
  destruct (N.ltb_spec (blen text) w) as [Hlt|Hge]; cbn [andb].
  - destruct (existsb (N.eqb LF) text) eqn:Elf; cbn [negb].
    + unfold fill_slow. rewrite Hw, Hm. reflexivity.
    + apply existsb_lf_nolf in Elf.
      unfold wrap in Hw. cbn [split_le o_le doc_options] in Hw.
      rewrite (split_lf_nolf _ Elf) in Hw. cbn [wrap_loop] in Hw.
      unfold wrap_single_line in Hw. cbn [o_width o_ii doc_options nonempty negb] in Hw.
      rewrite andb_true_r in Hw.
      destruct (N.ltb_spec (blen text) w) as [_|Hge]; [|lia].
      cbn [map app] in Hw. injection Hw as Hw. subst ls.
      rewrite Hm. cbn [map join]. unfold shift_cow. cbn [l_cow l_text]. reflexivity.
  - unfold fill_slow. rewrite Hw, Hm. reflexivity.
Qed.
End C17.

(* the counterexample to Target 3 without [cw_le] *)
Example fill_inplace_wrap_needs_cw_le :
  let cw := fun _ : char => 3 in
  let text := [97; 97; SP; 98; 98] in
  fill_inplace cw text 6 = Some [97; 97; LF; 98; 98] /\
  option_map (map l_text)
    (wrap cw (fun _ => false) (fun _ => []) (fun _ => []) (fun _ _ _ => None) (doc_options 6) text)
  = Some [[97; 97; SP; 98; 98]].
Proof. vm_compute. split; reflexivity. Qed.

Print Assumptions fill_inplace_some.
Print Assumptions fill_inplace_shape.
Print Assumptions fill_inplace_wrap.
Print Assumptions fill_inplace_fill.
Print Assumptions fill_inplace_wrap_needs_cw_le.
