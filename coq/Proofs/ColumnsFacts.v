(* C20: wrap_columns lays the wrapped lines out column-major and never fails on its own
   (it fails exactly when [columns = 0], when the gap arithmetic overflows, or when
   [wrap] itself fails). *)
From Coq Require Import Lia List NArith Arith Bool.
From TW Require Import Columns EscFacts.

Arguments N.add : simpl never.
Arguments N.sub : simpl never.
Arguments N.mul : simpl never.
Arguments N.leb : simpl never.
Arguments N.ltb : simpl never.
Arguments N.eqb : simpl never.
Arguments N.div : simpl never.
Arguments N.modulo : simpl never.
Arguments N.max : simpl never.

(* ------------------------------------------------------------------------- *)
(* Generic list / arithmetic helpers                                          *)
(* ------------------------------------------------------------------------- *)

Definition opt_list {A} (o : option A) : list A :=
  match o with Some x => [x] | None => [] end.

(* reading positions a, a+1, ..., a+m-1 of a list, dropping the missing ones *)
Lemma read_seq {A} (l : list A) : forall m a,
  flat_map (fun j => opt_list (nth_error l j)) (seq a m) = firstn m (skipn a l).
Proof.
  induction m as [|m IH]; intros a; cbn [seq flat_map]; [reflexivity|].
  rewrite IH.
  destruct (nth_error l a) as [x|] eqn:E.
  - cbn [opt_list app].
    assert (Hs : skipn a l = x :: skipn (S a) l).
    { clear IH. revert a E. induction l as [|y l IHl]; intros a E.
      - destruct a; discriminate E.
      - destruct a as [|a].
        + cbn [nth_error] in E. injection E as ->. reflexivity.
        + cbn [nth_error] in E. cbn [skipn]. apply IHl. exact E. }
    rewrite Hs. reflexivity.
  - cbn [opt_list app].
    apply nth_error_None in E.
    rewrite (skipn_all2 l) by lia. rewrite (skipn_all2 l) by lia.
    rewrite !firstn_nil. reflexivity.
Qed.

Lemma flat_map_shift {B} (f : nat -> list B) (b : nat) : forall m a,
  flat_map (fun r => f (r + b)%nat) (seq a m) = flat_map f (seq (a + b) m).
Proof.
  induction m as [|m IH]; intros a; cbn [seq flat_map]; [reflexivity|].
  rewrite IH. reflexivity.
Qed.

(* a c-by-m grid read column by column is the sequence 0 .. c*m-1 *)
Lemma flat_map_grid {B} (f : nat -> list B) (m : nat) : forall c,
  flat_map (fun k => flat_map (fun r => f (r + k * m)%nat) (seq 0 m)) (seq 0 c)
  = flat_map f (seq 0 (c * m)).
Proof.
  induction c as [|c IH].
  - reflexivity.
  - replace (S c) with (c + 1)%nat by lia.
    rewrite seq_app, flat_map_app, IH.
    replace ((c + 1) * m)%nat with (c * m + m)%nat by lia.
    rewrite (seq_app (c * m) m 0), flat_map_app. f_equal.
    cbn [seq flat_map plus]. rewrite app_nil_r.
    apply flat_map_shift.
Qed.

(* ceiling division as computed by wrap_columns *)
Definition ceil_div (n : nat) (columns : N) : nat :=
  N.to_nat (N.of_nat n / columns + (if 0 <? N.of_nat n mod columns then 1 else 0)).

(* [ceil_div n c] is the unique m with  n <= m*c < n + c *)
Lemma ceil_div_spec n columns : 1 <= columns ->
  (n <= ceil_div n columns * N.to_nat columns)%nat /\
  (ceil_div n columns * N.to_nat columns < n + N.to_nat columns)%nat.
Proof.
  intros Hc. unfold ceil_div.
  set (a := N.of_nat n).
  assert (Hdm : a = columns * (a / columns) + a mod columns) by (apply N.div_mod'; lia).
  assert (Hlt : a mod columns < columns) by (apply N.mod_lt; lia).
  rewrite <- N2Nat.inj_mul.
  set (q := a / columns) in *. set (m := a mod columns) in *.
  assert (Hn : N.of_nat n = a) by reflexivity. clearbody a q m.
  destruct (N.ltb_spec 0 m) as [Hm|Hm]; split; lia.
Qed.

(* ------------------------------------------------------------------------- *)
(* Spaces                                                                     *)
(* ------------------------------------------------------------------------- *)

Lemma SP_not_ESC : SP <> ESC.
Proof. discriminate. Qed.

Lemma repeat_sp_esc_free k : Forall (fun c => c <> ESC) (repeat_sp k).
Proof. induction k as [|k IH]; cbn [repeat_sp]; constructor; [exact SP_not_ESC|exact IH]. Qed.

Lemma spaces_esc_free k : Forall (fun c => c <> ESC) (spaces k).
Proof. apply repeat_sp_esc_free. Qed.

Lemma esc_free_final t : Forall (fun c => c <> ESC) t -> final_state Normal t = Normal.
Proof.
  induction 1 as [|c t Hc Ht IH]; cbn [final_state step]; [reflexivity|].
  rewrite (neqb_false _ _ Hc). cbn [fst]. exact IH.
Qed.

Lemma spaces_final k : final_state Normal (spaces k) = Normal.
Proof. apply esc_free_final, spaces_esc_free. Qed.

Section ColumnsFacts.
Variable cw : char -> N.
Variable alnum : char -> bool.
Variable lbc : str -> list N.
Variable custom_sp : str -> list N.
Variable ofit : penalties -> list word -> list N -> option (list (list word)).

Lemma dw_repeat_sp k : cw SP = 1 -> dw cw (repeat_sp k) = N.of_nat k.
Proof.
  intros H1. unfold dw. induction k as [|k IH]; [reflexivity|].
  cbn [repeat_sp dw_from step]. rewrite (neqb_false _ _ SP_not_ESC).
  rewrite IH, H1. lia.
Qed.

Lemma dw_spaces k : cw SP = 1 -> dw cw (spaces k) = k.
Proof. intros H1. unfold spaces. rewrite (dw_repeat_sp _ H1). apply N2Nat.id. Qed.

(* ------------------------------------------------------------------------- *)
(* The quantities computed by wrap_columns                                    *)
(* ------------------------------------------------------------------------- *)

Notation W := (wrap cw alnum lbc custom_sp ofit).
Notation WC := (wrap_columns cw alnum lbc custom_sp ofit).

Definition mid_w (columns : N) (mid : str) : N := dw cw mid * (columns - 1).
Definition inner_w (o : options) (columns : N) (left mid right : str) : N :=
  o_width o - dw cw left - dw cw right - mid_w columns mid.
Definition col_w (o : options) (columns : N) (left mid right : str) : N :=
  N.max (inner_w o columns left mid right / columns) 1.
(* the options handed to wrap: [o] with the width replaced by the column width *)
Definition col_opts (o : options) (columns : N) (left mid right : str) : options :=
  mkOptions (col_w o columns left mid right)
            (o_le o) (o_ii o) (o_si o) (o_bw o) (o_alg o) (o_sep o) (o_spl o).
Definition last_pad (o : options) (columns : N) (left mid right : str) : str :=
  spaces (inner_w o columns left mid right mod col_w o columns left mid right).

(* one padded cell of the grid: row r, column k, [rows_n] rows *)
Definition cell (colw : N) (lines : list str) (rows_n r k : nat) : str :=
  match nth_error lines (r + k * rows_n) with
  | Some l => l ++ spaces (colw - dw cw l)
  | None => spaces colw
  end.

(* cellf k ++ mid ++ cellf (k+1) ++ mid ++ ... ++ cellf (k+todo-1) ++ lastp *)
Fixpoint row_spec (cellf : nat -> str) (mid lastp : str) (k todo : nat) : str :=
  match todo with
  | O => []
  | S t => match t with
           | O => cellf k ++ lastp
           | S _ => cellf k ++ mid ++ row_spec cellf mid lastp (S k) t
           end
  end.

(* the whole output row r *)
Definition row_of (o : options) (columns : N) (left mid right : str)
           (lines : list str) (r : nat) : str :=
  left ++ row_spec (cell (col_w o columns left mid right) lines
                         (ceil_div (length lines) columns) r)
                   mid (last_pad o columns left mid right) 0 (N.to_nat columns)
       ++ right.

Lemma cells_row_spec o' lines rows ncols r mid lastp : forall todo k,
  (k + todo = ncols)%nat ->
  cells cw o' lines rows (seq k todo) ncols r mid lastp
  = row_spec (cell (o_width o') lines rows r) mid lastp k todo.
Proof.
  induction todo as [|t IH]; intros k Hk; [reflexivity|].
  cbn [seq cells row_spec]. fold (cell (o_width o') lines rows r k).
  destruct t as [|t'].
  - replace (k =? ncols - 1)%nat with true by (symmetry; apply Nat.eqb_eq; lia).
    cbn [seq cells]. rewrite app_nil_r. reflexivity.
  - replace (k =? ncols - 1)%nat with false by (symmetry; apply Nat.eqb_neq; lia).
    rewrite IH by lia. reflexivity.
Qed.

(* wrap_columns, unfolded once and for all *)
Lemma wrap_columns_unfold o text columns left mid right :
  1 <= columns -> mid_w columns mid <= USIZE_MAX ->
  WC o text columns left mid right =
  match W (col_opts o columns left mid right) text with
  | None => None
  | Some ls =>
      Some (map (row_of o columns left mid right (map l_text ls))
                (seq 0 (ceil_div (length (map l_text ls)) columns)))
  end.
Proof.
  intros Hc Hm. unfold wrap_columns.
  destruct (N.eqb_spec columns 0) as [E|_]; [lia|].
  fold (mid_w columns mid).
  destruct (N.ltb_spec USIZE_MAX (mid_w columns mid)) as [E|_]; [lia|].
  fold (inner_w o columns left mid right).
  fold (col_w o columns left mid right).
  fold (col_opts o columns left mid right).
  destruct (W (col_opts o columns left mid right) text) as [ls|]; [|reflexivity].
  f_equal. fold (ceil_div (length (map l_text ls)) columns).
  apply map_ext. intros r. unfold row_of. f_equal. f_equal.
  rewrite cells_row_spec by lia. reflexivity.
Qed.

(* ------------------------------------------------------------------------- *)
(* Target 1: totality relative to wrap                                        *)
(* ------------------------------------------------------------------------- *)

(* complete description of the failures (no side condition) *)
Theorem wrap_columns_none_iff_full o text columns left mid right :
  WC o text columns left mid right = None <->
  columns = 0 \/ USIZE_MAX < mid_w columns mid \/
  W (col_opts o columns left mid right) text = None.
Proof.
  destruct (N.eqb_spec columns 0) as [E0|E0].
  { split; [auto|]. intros _. unfold wrap_columns.
    destruct (N.eqb_spec columns 0); [reflexivity|contradiction]. }
  destruct (N.ltb_spec USIZE_MAX (mid_w columns mid)) as [E1|E1].
  { split; [auto|]. intros _. unfold wrap_columns.
    destruct (N.eqb_spec columns 0); [reflexivity|].
    fold (mid_w columns mid).
    destruct (N.ltb_spec USIZE_MAX (mid_w columns mid)); [reflexivity|lia]. }
  rewrite wrap_columns_unfold by lia.
  destruct (W (col_opts o columns left mid right) text) as [ls|].
  - split; [discriminate|]. intros [H|[H|H]]; [lia|lia|discriminate].
  - split; auto.
Qed.

Theorem wrap_columns_none_iff o text columns left mid right :
  1 <= columns -> dw cw mid * (columns - 1) <= USIZE_MAX ->
  (WC o text columns left mid right = None <->
   W (col_opts o columns left mid right) text = None).
Proof.
  intros Hc Hm. fold (mid_w columns mid) in Hm.
  rewrite wrap_columns_none_iff_full. split; [|auto].
  intros [H|[H|H]]; [lia|lia|exact H].
Qed.

(* ------------------------------------------------------------------------- *)
(* Target 2: shape                                                            *)
(* ------------------------------------------------------------------------- *)

Theorem wrap_columns_shape o text columns left mid right rows ls :
  1 <= columns -> dw cw mid * (columns - 1) <= USIZE_MAX ->
  WC o text columns left mid right = Some rows ->
  W (col_opts o columns left mid right) text = Some ls ->
  let lines := map l_text ls in
  let rows_n := ceil_div (length lines) columns in
  rows = map (row_of o columns left mid right lines) (seq 0 rows_n) /\
  length rows = rows_n /\
  (forall r, (r < rows_n)%nat ->
     nth_error rows r = Some (row_of o columns left mid right lines r)).
Proof.
  intros Hc Hm HWC HW lines rows_n. fold (mid_w columns mid) in Hm.
  rewrite wrap_columns_unfold, HW in HWC by assumption.
  injection HWC as HWC. fold lines in HWC. fold rows_n in HWC.
  split; [symmetry; exact HWC|]. subst rows.
  split; [rewrite map_length, seq_length; reflexivity|].
  intros r Hr.
  rewrite (map_nth_error _ r (seq 0 rows_n) (d:=r)); [reflexivity|].
  rewrite (nth_error_nth' _ 0%nat) by (rewrite seq_length; exact Hr).
  rewrite seq_nth by exact Hr. reflexivity.
Qed.

(* ------------------------------------------------------------------------- *)
(* Target 3: column-major read-back                                           *)
(* ------------------------------------------------------------------------- *)

(* the line (if any) that sits in cell (r, k) *)
Definition cell_line (lines : list str) (rows_n r k : nat) : option str :=
  nth_error lines (r + k * rows_n).

Lemma cell_cell_line colw lines rows_n r k :
  cell colw lines rows_n r k =
  match cell_line lines rows_n r k with
  | Some l => l ++ spaces (colw - dw cw l)
  | None => spaces colw
  end.
Proof. reflexivity. Qed.

(* (a) reading the grid column by column (k outer, r inner) and dropping the empty
   cells gives the lines back, in order *)
Theorem columns_readback (lines : list str) columns :
  1 <= columns ->
  let rows_n := ceil_div (length lines) columns in
  flat_map (fun k => flat_map (fun r => opt_list (cell_line lines rows_n r k))
                              (seq 0 rows_n))
           (seq 0 (N.to_nat columns))
  = lines.
Proof.
  intros Hc rows_n. unfold cell_line.
  rewrite (flat_map_grid (fun j => opt_list (nth_error lines j)) rows_n (N.to_nat columns)).
  rewrite read_seq. cbn [skipn].
  apply firstn_all2.
  pose proof (ceil_div_spec (length lines) columns Hc) as [H _]. fold rows_n in H. lia.
Qed.

(* (b) line i sits in cell (i mod rows_n, i / rows_n), which is inside the grid *)
Theorem columns_line_position (lines : list str) columns i :
  1 <= columns -> (i < length lines)%nat ->
  let rows_n := ceil_div (length lines) columns in
  (i mod rows_n < rows_n)%nat /\ (i / rows_n < N.to_nat columns)%nat /\
  cell_line lines rows_n (i mod rows_n) (i / rows_n) = nth_error lines i.
Proof.
  intros Hc Hi rows_n.
  pose proof (ceil_div_spec (length lines) columns Hc) as [H _]. fold rows_n in H.
  assert (Hr : rows_n <> 0%nat) by (intros E; rewrite E in H; lia).
  split; [apply Nat.mod_upper_bound; exact Hr|].
  split.
  - apply Nat.div_lt_upper_bound; [exact Hr|]. lia.
  - unfold cell_line. f_equal.
    rewrite (Nat.div_mod i rows_n Hr) at 3. lia.
Qed.

(* (c) no position is hit twice: the cell coordinates of an index are unique *)
Theorem columns_cell_unique (rows_n r k r' k' : nat) :
  (r < rows_n)%nat -> (r' < rows_n)%nat ->
  (r + k * rows_n = r' + k' * rows_n)%nat -> r = r' /\ k = k'.
Proof.
  intros Hr Hr' E.
  assert (Hk : k = k').
  { assert (Hz : rows_n <> 0%nat) by lia.
    pose proof (Nat.div_add r k rows_n Hz) as A.
    pose proof (Nat.div_add r' k' rows_n Hz) as B.
    rewrite (Nat.div_small r rows_n Hr) in A.
    rewrite (Nat.div_small r' rows_n Hr') in B.
    rewrite E in A. rewrite A in B. lia. }
  subst k'. split; [lia|reflexivity].
Qed.

(* (c') hence: the index i < n is hit by exactly one cell of the grid *)
Corollary columns_hit_exactly_once (lines : list str) columns i :
  1 <= columns -> (i < length lines)%nat ->
  let rows_n := ceil_div (length lines) columns in
  exists r k, ((r < rows_n)%nat /\ (k < N.to_nat columns)%nat /\ (r + k * rows_n = i)%nat) /\
    forall r' k', (r' < rows_n)%nat -> (r' + k' * rows_n = i)%nat -> r' = r /\ k' = k.
Proof.
  intros Hc Hi rows_n.
  pose proof (columns_line_position lines columns i Hc Hi) as [H1 [H2 _]].
  fold rows_n in H1, H2.
  assert (Hz : rows_n <> 0%nat) by lia.
  exists (i mod rows_n)%nat, (i / rows_n)%nat. split.
  - split; [exact H1|]. split; [exact H2|].
    rewrite (Nat.div_mod i rows_n Hz) at 3. lia.
  - intros r' k' Hr' E.
    apply (columns_cell_unique rows_n); [exact Hr'|exact H1|].
    rewrite E. rewrite (Nat.div_mod i rows_n Hz) at 1. lia.
Qed.

(* (d) tie to the output: in the row produced by wrap_columns, cell (i mod rows_n,
   i / rows_n) is line i followed by its padding *)
Corollary columns_cell_of_line (lines : list str) columns colw i l :
  1 <= columns -> nth_error lines i = Some l ->
  let rows_n := ceil_div (length lines) columns in
  cell colw lines rows_n (i mod rows_n) (i / rows_n) = l ++ spaces (colw - dw cw l).
Proof.
  intros Hc Hl rows_n.
  assert (Hi : (i < length lines)%nat) by (apply nth_error_Some; congruence).
  pose proof (columns_line_position lines columns i Hc Hi) as [_ [_ H]].
  fold rows_n in H. rewrite cell_cell_line, H, Hl. reflexivity.
Qed.

(* ------------------------------------------------------------------------- *)
(* Target 4: display width of every row                                       *)
(* ------------------------------------------------------------------------- *)

Lemma row_spec_final cellf mid lastp :
  (forall k, final_state Normal (cellf k) = Normal) ->
  final_state Normal mid = Normal -> final_state Normal lastp = Normal ->
  forall todo k, final_state Normal (row_spec cellf mid lastp k todo) = Normal.
Proof.
  intros Hcell Hmid Hlast. induction todo as [|t IH]; intros k; [reflexivity|].
  cbn [row_spec]. destruct t as [|t'].
  - rewrite final_state_app, Hcell. exact Hlast.
  - rewrite final_state_app, Hcell, final_state_app, Hmid. apply IH.
Qed.

Lemma row_spec_dw cellf mid lastp colw :
  (forall k, final_state Normal (cellf k) = Normal) ->
  (forall k, dw cw (cellf k) = colw) ->
  final_state Normal mid = Normal ->
  forall t k, dw cw (row_spec cellf mid lastp k (S t))
              = N.of_nat (S t) * colw + N.of_nat t * dw cw mid + dw cw lastp.
Proof.
  intros Hfin Hdw Hmid. induction t as [|t IH]; intros k.
  - cbn [row_spec]. rewrite dw_cut by apply Hfin. rewrite Hdw.
    change (N.of_nat 1) with 1. change (N.of_nat 0) with 0. lia.
  - change (row_spec cellf mid lastp k (S (S t)))
      with (cellf k ++ mid ++ row_spec cellf mid lastp (S k) (S t)).
    rewrite dw_cut by apply Hfin. rewrite dw_cut by exact Hmid.
    rewrite IH, Hdw. rewrite (Nat2N.inj_succ (S t)), (Nat2N.inj_succ t). lia.
Qed.

Section CellWidth.
Hypothesis cw_SP : cw SP = 1.
Variable colw : N.
Variable lines : list str.
Hypothesis lines_ok :
  forall l, In l lines -> dw cw l <= colw /\ final_state Normal l = Normal.

Lemma cell_final rows_n r k : final_state Normal (cell colw lines rows_n r k) = Normal.
Proof.
  unfold cell. destruct (nth_error lines (r + k * rows_n)) as [l|] eqn:E.
  - apply nth_error_In in E. destruct (lines_ok l E) as [_ Hf].
    rewrite final_state_app, Hf. apply spaces_final.
  - apply spaces_final.
Qed.

Lemma cell_dw rows_n r k : dw cw (cell colw lines rows_n r k) = colw.
Proof.
  unfold cell. destruct (nth_error lines (r + k * rows_n)) as [l|] eqn:E.
  - apply nth_error_In in E. destruct (lines_ok l E) as [Hw Hf].
    rewrite dw_cut by exact Hf. rewrite dw_spaces by exact cw_SP. lia.
  - apply dw_spaces. exact cw_SP.
Qed.
End CellWidth.

Theorem wrap_columns_row_width o text columns left mid right rows ls :
  1 <= columns -> dw cw mid * (columns - 1) <= USIZE_MAX ->
  cw SP = 1 ->
  Forall (fun c => c <> ESC) left ->
  Forall (fun c => c <> ESC) mid ->
  Forall (fun c => c <> ESC) right ->
  WC o text columns left mid right = Some rows ->
  W (col_opts o columns left mid right) text = Some ls ->
  (forall l, In l (map l_text ls) ->
     dw cw l <= col_w o columns left mid right /\ final_state Normal l = Normal) ->
  forall row, In row rows ->
    dw cw row = dw cw left + dw cw right + (columns - 1) * dw cw mid
                + columns * col_w o columns left mid right
                + inner_w o columns left mid right mod col_w o columns left mid right.
Proof.
  intros Hc Hm Hsp Hl Hmid Hr HWC HW Hlines row Hin.
  destruct (wrap_columns_shape _ _ _ _ _ _ _ _ Hc Hm HWC HW) as [Hrows _].
  cbv zeta in Hrows. rewrite Hrows in Hin. apply in_map_iff in Hin.
  destruct Hin as [r [<- _]]. unfold row_of.
  set (lines := map l_text ls) in *. set (colw := col_w o columns left mid right) in *.
  set (rows_n := ceil_div (length lines) columns).
  set (cellf := cell colw lines rows_n r).
  assert (Hcf : forall k, final_state Normal (cellf k) = Normal)
    by (intros k; apply (cell_final colw lines Hlines)).
  assert (Hcd : forall k, dw cw (cellf k) = colw)
    by (intros k; apply (cell_dw Hsp colw lines Hlines)).
  pose proof (esc_free_final _ Hl) as Fl. pose proof (esc_free_final _ Hmid) as Fm.
  assert (Fp : final_state Normal (last_pad o columns left mid right) = Normal)
    by apply spaces_final.
  rewrite dw_cut by exact Fl.
  rewrite dw_cut by (apply row_spec_final; assumption).
  destruct (N.to_nat columns) as [|t] eqn:Et; [lia|].
  rewrite (row_spec_dw cellf mid _ colw Hcf Hcd Fm).
  unfold last_pad. rewrite dw_spaces by exact Hsp. fold colw.
  assert (E1 : N.of_nat (S t) = columns) by (rewrite <- Et; apply N2Nat.id).
  assert (E2 : N.of_nat t = columns - 1) by lia.
  rewrite E1, E2. lia.
Qed.

(* Consequence (and a quirk of columns.rs worth recording): when the total width leaves
   at least one cell per column, no row is wider than the requested total width; the
   row is exactly [o_width o] wide iff [inner / colw = columns] (the last-column padding
   is [inner mod colw], not [inner - columns*colw]; see [columns_short_row] below). *)
Corollary wrap_columns_row_width_le o text columns left mid right rows ls :
  1 <= columns -> dw cw mid * (columns - 1) <= USIZE_MAX ->
  cw SP = 1 ->
  Forall (fun c => c <> ESC) left ->
  Forall (fun c => c <> ESC) mid ->
  Forall (fun c => c <> ESC) right ->
  dw cw left + dw cw right + dw cw mid * (columns - 1) + columns <= o_width o ->
  WC o text columns left mid right = Some rows ->
  W (col_opts o columns left mid right) text = Some ls ->
  (forall l, In l (map l_text ls) ->
     dw cw l <= col_w o columns left mid right /\ final_state Normal l = Normal) ->
  forall row, In row rows -> dw cw row <= o_width o.
Proof.
  intros Hc Hm Hsp Hl Hmid Hr Hroom HWC HW Hlines row Hin.
  rewrite (wrap_columns_row_width _ _ _ _ _ _ _ _ Hc Hm Hsp Hl Hmid Hr HWC HW Hlines row Hin).
  rewrite (N.mul_comm (columns - 1) (dw cw mid)).
  set (inner := inner_w o columns left mid right).
  set (colw := col_w o columns left mid right).
  assert (Hinner : dw cw left + dw cw right + dw cw mid * (columns - 1) + inner = o_width o).
  { unfold inner, inner_w, mid_w. clear - Hroom.
    set (mw := dw cw mid * (columns - 1)) in *. lia. }
  set (mw := dw cw mid * (columns - 1)) in *.
  assert (Hic : columns <= inner) by lia.
  assert (Hq : 1 <= inner / columns)
    by (apply N.div_le_lower_bound; lia).
  assert (Hcolw : colw = inner / columns) by (unfold colw, col_w; fold inner; lia).
  assert (Hcc : columns * colw <= inner)
    by (rewrite Hcolw; apply N.mul_div_le; lia).
  assert (Hdm : inner = colw * (inner / colw) + inner mod colw) by (apply N.div_mod'; lia).
  assert (Hge : columns <= inner / colw)
    by (apply N.div_le_lower_bound; lia).
  assert (columns * colw <= colw * (inner / colw)).
  { rewrite (N.mul_comm columns colw). apply N.mul_le_mono_l. exact Hge. }
  lia.
Qed.

End ColumnsFacts.

(* ------------------------------------------------------------------------- *)
(* Non-vacuity                                                                *)
(* ------------------------------------------------------------------------- *)

Module ColumnsExamples.
Definition cw1 : char -> N := fun _ => 1.
Definition al : char -> bool := fun c =>
  ((48 <=? c) && (c <=? 57)) || ((65 <=? c) && (c <=? 90)) || ((97 <=? c) && (c <=? 122)).
Definition nolbc : str -> list N := fun _ => [].
Definition noofit : penalties -> list word -> list N -> option (list (list word)) :=
  fun _ _ _ => None.
Definition opts (w : N) (bw : bool) : options :=
  mkOptions w LE_LF [] [] bw FirstFit SepAscii SplNone.
(* "aa bb cc dd ee" *)
Definition txt : str := [97;97;32;98;98;32;99;99;32;100;100;32;101;101].
Definition bar : str := [124].
Definition WCx := wrap_columns cw1 al nolbc nolbc noofit.
Definition Wx := wrap cw1 al nolbc nolbc noofit.

(* "|aa  |dd  |" / "|bb  |ee  |" / "|cc  |    |" *)
Example columns_two :
  WCx (opts 11 true) txt 2 bar bar bar =
  Some [[124; 97; 97; 32; 32; 124; 100; 100; 32; 32; 124];
        [124; 98; 98; 32; 32; 124; 101; 101; 32; 32; 124];
        [124; 99; 99; 32; 32; 124; 32; 32; 32; 32; 124]].
Proof. vm_compute. reflexivity. Qed.

(* the hypotheses of the shape and width theorems are satisfiable together:
   every row of [columns_two] is 11 = 1 + 1 + 1*1 + 2*4 + 0 wide *)
Example columns_two_width row :
  In row [[124; 97; 97; 32; 32; 124; 100; 100; 32; 32; 124];
          [124; 98; 98; 32; 32; 124; 101; 101; 32; 32; 124];
          [124; 99; 99; 32; 32; 124; 32; 32; 32; 32; 124]] ->
  dw cw1 row = 11.
Proof.
  intros Hin.
  assert (HW : Wx (col_opts cw1 (opts 11 true) 2 bar bar bar) txt =
               Some [mkLine [97;97] (Borrowed 0); mkLine [98;98] (Borrowed 3);
                     mkLine [99;99] (Borrowed 6); mkLine [100;100] (Borrowed 9);
                     mkLine [101;101] (Borrowed 12)])
    by (vm_compute; reflexivity).
  assert (Hbar : Forall (fun c => c <> ESC) bar) by (constructor; [discriminate|constructor]).
  rewrite (wrap_columns_row_width cw1 al nolbc nolbc noofit (opts 11 true) txt 2 bar bar bar
             _ _ ltac:(lia) ltac:(vm_compute; discriminate) eq_refl Hbar Hbar Hbar
             columns_two HW).
  - vm_compute. reflexivity.
  - intros l Hl. cbn [map l_text In] in Hl.
    destruct Hl as [<-|[<-|[<-|[<-|[<-|[]]]]]]; vm_compute; split; (discriminate || reflexivity).
  - exact Hin.
Qed.

(* the read-back theorem on the same data *)
Example columns_two_readback :
  let lines := [[97;97]; [98;98]; [99;99]; [100;100]; [101;101]] in
  ceil_div (length lines) 2 = 3%nat /\
  flat_map (fun k => flat_map (fun r => opt_list (cell_line lines 3 r k)) (seq 0 3)) (seq 0 2)
  = lines.
Proof. split; vm_compute; reflexivity. Qed.

(* quirk: 11 columns requested, 4 columns, no gaps: colw = 2, last padding = 11 mod 2 = 1,
   so every row is 9 wide, not 11 ([wrap_columns_row_width_le] is not an equality) *)
Example columns_short_row :
  WCx (opts 11 true) txt 4 [] [] [] =
  Some [[97; 97; 99; 99; 101; 101; 32; 32; 32];
        [98; 98; 100; 100; 32; 32; 32; 32; 32]].
Proof. vm_compute. reflexivity. Qed.

(* a line wider than its column: the padding saturates to 0, the call still returns and
   the line protrudes ("abcdef" in a 2-wide column; the row is 8 wide although 4 was asked) *)
Example columns_protruding_line :
  WCx (opts 4 false) [97;98;99;100;101;102;32;103;104] 2 [] [] [] =
  Some [[97; 98; 99; 100; 101; 102; 103; 104]].
Proof. vm_compute. reflexivity. Qed.

(* the failures *)
Example columns_zero : WCx (opts 11 true) txt 0 bar bar bar = None.
Proof. vm_compute. reflexivity. Qed.
(* display_width(middle_gap) * (columns - 1) overflows usize *)
Example columns_overflow : WCx (opts 11 true) txt USIZE_MAX bar (bar ++ bar) bar = None.
Proof. vm_compute. reflexivity. Qed.
End ColumnsExamples.

Print Assumptions wrap_columns_none_iff_full.
Print Assumptions wrap_columns_none_iff.
Print Assumptions wrap_columns_shape.
Print Assumptions ceil_div_spec.
Print Assumptions columns_readback.
Print Assumptions columns_line_position.
Print Assumptions columns_cell_unique.
Print Assumptions columns_hit_exactly_once.
Print Assumptions columns_cell_of_line.
Print Assumptions wrap_columns_row_width.
Print Assumptions wrap_columns_row_width_le.
Print Assumptions ColumnsExamples.columns_two_width.
