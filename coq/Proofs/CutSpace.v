(* C01, the clause "a slice never ends in a space, except when break_words had to cut
   a word that itself contains a space" -- for the built-in splitters, with the
   exception spelled out.

   TrailingSpace.v ([body_ends_in_space_only_if]) concludes with option flags only.
   Here (C1, [body_ends_in_space_cut]) the conclusion is the property itself: when the
   body of a group ends in a space, the last fragment [x] of the group is a piece of
   [break_apart cw lim w] that is NOT the last piece, for a fragment [w] of the list
   that [pipeline_words] hands to [break_words] ([lim] being the limit it passes), that
   word is wider than the limit (so [break_words] "had to" cut it) and its text
   contains a space.  C2 ([cut_space_example]) instantiates it on "a )" at width 2.

   No conjunct of the target had to be weakened. *)
From Coq Require Import Lia ZArith.
From TW Require Import Wrap.
From TW Require Import EscFacts Lossless SplitBreak Pipeline TrailingSpace.

Arguments N.add : simpl never.
Arguments N.sub : simpl never.
Arguments N.mul : simpl never.
Arguments N.leb : simpl never.
Arguments N.ltb : simpl never.
Arguments N.eqb : simpl never.

(* ================================================================== *)
(* A. "ends in a space" is decidable                                    *)
(* ================================================================== *)

Definition ends_sp_b (s : str) : bool :=
  match rev s with c :: _ => c =? SP | [] => false end.

Lemma ends_sp_b_true s : ends_sp_b s = true <-> ends_with_sp s.
Proof.
  unfold ends_sp_b. destruct s as [|c s _] using rev_ind.
  - cbn [rev]. split; [discriminate|]. intros [u E]. destruct u; discriminate.
  - rewrite rev_app_distr. cbn [rev app]. destruct (N.eqb_spec c SP) as [Ec|Ec].
    + subst c. split; [|reflexivity]. intros _. exists s. reflexivity.
    + split; [discriminate|]. intros [u E]. apply app_inj_tail in E.
      destruct E as [_ E]. congruence.
Qed.

Lemma ends_sp_b_false s : ends_sp_b s = false <-> no_trailing_sp s.
Proof.
  rewrite no_trailing_iff, <- ends_sp_b_true. destruct (ends_sp_b s); split; congruence.
Qed.

Lemma not_no_trailing s : ~ no_trailing_sp s -> ends_with_sp s.
Proof.
  intros H. apply ends_sp_b_true. destruct (ends_sp_b s) eqn:E; [reflexivity|].
  exfalso. apply H. apply ends_sp_b_false. exact E.
Qed.

Lemma ends_with_sp_In s : ends_with_sp s -> In SP s.
Proof. intros [u E]. rewrite E. apply in_or_app. right. left. reflexivity. Qed.

(* ================================================================== *)
(* B. the invariant of TrailingSpace.v, without [Forall ntw]            *)
(* ================================================================== *)

(* a fragment after which a line may end even if an empty-text fragment follows, and
   whose own text does not end in a space *)
Definition tight2 (w : word) : bool := tight w && negb (ends_sp_b (w_word w)).

Lemma tight2_true w : tight2 w = true <-> w_word w <> [] /\ w_ws w = [] /\ ntw w.
Proof.
  unfold tight2, ntw. rewrite andb_true_iff, tight_true, negb_true_iff, ends_sp_b_false. tauto.
Qed.

Lemma tight2_ntw w : ntw w -> tight2 w = tight w.
Proof.
  intros H. unfold tight2. apply ends_sp_b_false in H. rewrite H. apply andb_true_r.
Qed.

(* every fragment with an empty text is preceded by a [tight2] fragment *)
Fixpoint K2 (b : bool) (ws : list word) : Prop :=
  match ws with
  | [] => True
  | w :: r => (w_word w = [] -> b = true) /\ K2 (tight2 w) r
  end.

Definition endst2 (b : bool) (ws : list word) : bool := fold_left (fun _ w => tight2 w) ws b.

Lemma endst2_app b a c : endst2 b (a ++ c) = endst2 (endst2 b a) c.
Proof. unfold endst2. apply fold_left_app. Qed.

Lemma endst2_snoc b a x : endst2 b (a ++ [x]) = tight2 x.
Proof. rewrite endst2_app. reflexivity. Qed.

Lemma K2_app a : forall b c, K2 b (a ++ c) <-> K2 b a /\ K2 (endst2 b a) c.
Proof.
  induction a as [|x a IH]; intros b c; cbn [app K2].
  - unfold endst2. cbn [fold_left]. tauto.
  - rewrite IH. unfold endst2. cbn [fold_left]. tauto.
Qed.

Lemma K2_text_ne ws : Forall text_ne ws -> forall b, K2 b ws.
Proof.
  induction 1 as [|w r Hw _ IH]; intros b; cbn [K2]; [exact I|].
  split; [|apply IH]. intros E. contradiction.
Qed.

Lemma K_K2 ws : Forall ntw ws -> forall b, K b ws -> K2 b ws.
Proof.
  induction 1 as [|w r Hw _ IH]; intros b HK; cbn [K K2] in *; [exact I|].
  destruct HK as [H1 H2]. split; [exact H1|]. rewrite (tight2_ntw w Hw). exact (IH _ H2).
Qed.

(* what the reassembly needs, for ANY segment [init ++ [x]] of the fragment list: if
   its body ends in a space, then so does the text of its last fragment *)
Lemma seg_K2 pre init x post b :
  K2 b (pre ++ init ++ x :: post) ->
  ~ no_trailing_sp (gtext init ++ w_word x) ->
  w_word x <> [] /\ ~ ntw x.
Proof.
  intros HK Hn. destruct (w_word x) as [|c r] eqn:Ex.
  - exfalso. apply Hn. rewrite app_nil_r.
    destruct init as [|y init' _] using rev_ind; [exact no_trailing_nil|].
    replace (pre ++ (init' ++ [y]) ++ x :: post) with (((pre ++ init') ++ [y]) ++ x :: post) in HK
      by (rewrite <- !app_assoc; reflexivity).
    apply K2_app in HK. destruct HK as [_ HK].
    rewrite endst2_snoc in HK. cbn [K2] in HK. destruct HK as [HK _].
    specialize (HK Ex). apply tight2_true in HK. destruct HK as [K1 [K2' K3]].
    rewrite gtext_snoc, K2', app_nil_r. apply no_trailing_app; [exact K1|exact K3].
  - split; [discriminate|]. intros Hx. apply Hn. apply no_trailing_app; [discriminate|].
    unfold ntw in Hx. rewrite Ex in Hx. exact Hx.
Qed.

(* the same with the sentinel that [pipeline_words] puts in front for an indented line *)
Lemma seg_K2_sentinel s bws' bws pre init x post :
  w_word s = [] -> w_ws s = [] ->
  K2 true bws' -> (bws = bws' \/ bws = s :: bws') ->
  bws = pre ++ init ++ x :: post ->
  ~ no_trailing_sp (gtext init ++ w_word x) ->
  In x bws' /\ w_word x <> [] /\ ~ ntw x.
Proof.
  intros Hs1 Hs2 HK Hb E Hn. destruct Hb as [Hb|Hb].
  - subst bws. split.
    + rewrite E. apply in_or_app. right. apply in_or_app. right. left. reflexivity.
    + rewrite E in HK. exact (seg_K2 _ _ _ _ _ HK Hn).
  - rewrite Hb in E. destruct pre as [|p pre'].
    + destruct init as [|i init'].
      * cbn [app] in E. injection E as E1 E2. subst x.
        exfalso. apply Hn. rewrite Hs1. exact no_trailing_nil.
      * cbn [app] in E. injection E as E1 E2. subst i.
        rewrite gtext_cons, Hs1, Hs2 in Hn. cbn [app] in Hn. split.
        -- rewrite E2. apply in_or_app. right. left. reflexivity.
        -- rewrite E2 in HK. exact (seg_K2 [] _ _ _ _ HK Hn).
    + cbn [app] in E. injection E as E1 E2. split.
      * rewrite E2. apply in_or_app. right. apply in_or_app. right. left. reflexivity.
      * rewrite E2 in HK. exact (seg_K2 _ _ _ _ _ HK Hn).
Qed.

(* ================================================================== *)
(* C. break_words                                                       *)
(* ================================================================== *)

Section Cut.
Variable cw : char -> N.
Variable lim : N.

Lemma break_words_cons w r :
  break_words cw lim (w :: r) =
  (if lim <? w_width w then break_apart cw lim w else [w]) ++ break_words cw lim r.
Proof. reflexivity. Qed.

Lemma wide_text_ne w : PW cw w -> lim < w_width w -> w_word w <> [].
Proof.
  intros [_ [_ Hw]] Hlt E. rewrite E in Hw. change (dw cw []) with 0 in Hw. lia.
Qed.

(* the last piece of a word that does not end in a space does not end in a space *)
Lemma break_apart_last_ntw w pinit l :
  break_apart cw lim w = pinit ++ [l] -> ntw w -> ntw l.
Proof.
  intros E Hw. pose proof (break_apart_concat cw lim w) as Hc.
  rewrite E, map_app, concat_app in Hc. cbn [map concat] in Hc. rewrite app_nil_r in Hc.
  unfold ntw in *. rewrite <- Hc in Hw. exact (no_trailing_suffix _ _ Hw).
Qed.

(* break_words preserves the invariant: the pieces of a word all have a text, and the
   last piece is as tight as the word was *)
Lemma break_words_K2 : forall sws b, Forall (PW cw) sws -> Forall ntw sws ->
  K2 b sws -> K2 b (break_words cw lim sws).
Proof.
  induction sws as [|w r IH]; intros b Hpw Hnt HK; [exact I|].
  inversion Hpw as [|w0 r0 Hpw1 Hpw2]; subst w0 r0.
  inversion Hnt as [|w0 r0 Hnt1 Hnt2]; subst w0 r0.
  cbn [K2] in HK. destruct HK as [HK1 HK2].
  rewrite break_words_cons. apply K2_app.
  destruct (N.ltb_spec lim (w_width w)) as [Hlt|Hge].
  - pose proof (wide_text_ne w Hpw1 Hlt) as Hne.
    destruct (break_apart_cases cw lim w) as [[_ E]|[pinit [l [E [_ [Hws _]]]]]]; [contradiction|].
    split.
    + apply K2_text_ne. exact (break_apart_nonempty cw lim w).
    + rewrite E, endst2_snoc.
      assert (Hl : tight2 l = tight2 w).
      { pose proof (break_apart_last_ntw w pinit l E Hnt1) as Hntl.
        rewrite (tight2_ntw l Hntl), (tight2_ntw w Hnt1). unfold tight. rewrite Hws.
        pose proof (break_apart_nonempty cw lim w) as Hall. rewrite E in Hall.
        apply Forall_app in Hall. destruct Hall as [_ Hall].
        inversion Hall as [|l0 r0 Hl0 _]; subst l0 r0.
        destruct (w_word l); [congruence|]. destruct (w_word w); [congruence|]. reflexivity. }
      rewrite Hl. exact (IH _ Hpw2 Hnt2 HK2).
  - split.
    + cbn [K2]. split; [exact HK1|exact I].
    + unfold endst2. cbn [fold_left]. exact (IH _ Hpw2 Hnt2 HK2).
Qed.

(* a fragment of the broken list whose text ends in a space is a piece, but not the last
   piece, of a word that was wider than the limit *)
Lemma break_words_not_ntw sws x : Forall ntw sws ->
  In x (break_words cw lim sws) -> ~ ntw x ->
  exists w k, In w sws /\ lim < w_width w /\
    nth_error (break_apart cw lim w) k = Some x /\
    (S k < length (break_apart cw lim w))%nat.
Proof.
  intros Hnt Hin Hx. unfold break_words in Hin. apply in_flat_map in Hin.
  destruct Hin as [w [Hw Hin]]. rewrite Forall_forall in Hnt. specialize (Hnt w Hw).
  destruct (N.ltb_spec lim (w_width w)) as [Hlt|Hge].
  - exists w. destruct (In_nth_error _ _ Hin) as [k Hk]. exists k.
    split; [exact Hw|]. split; [exact Hlt|]. split; [exact Hk|].
    destruct (break_apart_cases cw lim w) as [[E _]|[pinit [l [E _]]]].
    + rewrite E in Hin. destruct Hin.
    + assert (Hlen : (k < length (break_apart cw lim w))%nat).
      { apply nth_error_Some. rewrite Hk. discriminate. }
      rewrite E, app_length in Hlen |- *. cbn [length] in Hlen |- *.
      destruct (Nat.eq_dec k (length pinit)) as [Ek|Ek]; [|lia].
      exfalso. apply Hx. rewrite E, Ek, nth_error_app2, Nat.sub_diag in Hk; [|lia].
      cbn [nth_error] in Hk. injection Hk as <-.
      exact (break_apart_last_ntw w pinit l E Hnt).
  - destruct Hin as [<-|[]]. contradiction.
Qed.

(* a piece that is not the last one has neither whitespace nor penalty: the line that
   ends with it ends with its text *)
Lemma break_apart_inner w k x :
  nth_error (break_apart cw lim w) k = Some x ->
  (S k < length (break_apart cw lim w))%nat ->
  w_ws x = [] /\ w_pen x = [].
Proof.
  intros Hk Hlen.
  destruct (break_apart_cases cw lim w) as [[E _]|[pinit [l [E [Hin _]]]]].
  - rewrite E in Hlen. cbn [length] in Hlen. lia.
  - rewrite E, app_length in Hlen. cbn [length] in Hlen.
    rewrite E, nth_error_app1 in Hk; [|lia].
    rewrite Forall_forall in Hin. exact (Hin x (nth_error_In _ _ Hk)).
Qed.

Lemma piece_sp_word w k x :
  nth_error (break_apart cw lim w) k = Some x -> In SP (w_word x) -> In SP (w_word w).
Proof.
  intros Hk Hsp. rewrite <- (break_apart_concat cw lim w). apply in_concat.
  exists (w_word x). split; [|exact Hsp]. apply in_map. exact (nth_error_In _ _ Hk).
Qed.
End Cut.

(* ================================================================== *)
(* C1. the theorem                                                      *)
(* ================================================================== *)

(* The hypotheses are those of [body_ends_in_space_only_if] plus [o_spl o <> SplCustom].
   [sws] is the list handed to [break_words], [lim] the limit handed to it.  All three
   parts of the target hold as stated:
     (i)   [x], the last fragment of the group, is piece number [k] of
           [break_apart cw lim w] and not the last piece ([S k < length ...]);
     (ii)  [lim < w_width w] (and the cached width is the display width of the text);
     (iii) [In SP (w_word w)].
   In addition: the text of [x] itself ends in a space, and [x] has neither whitespace
   nor penalty (so the emitted line ends with that very space). *)
Theorem body_ends_in_space_cut cw alnum lbc custom_sp o first line bws groups g :
  SplitterOK custom_sp ->
  (o_sep o = SepUnicode -> OracleOK (strip line) (lbc (strip line)) /\
                           NoBreakBetweenSpaces (strip line) (lbc (strip line))) ->
  o_spl o <> SplCustom ->
  pipeline_words cw alnum lbc custom_sp o first line = Some bws ->
  concat groups = bws -> In g groups ->
  ~ no_trailing_sp (body g) ->
  o_sep o = SepUnicode /\ o_bw o = true /\
  exists sws,
    split_words cw (split_points alnum custom_sp (o_spl o))
                (find_words cw lbc (o_sep o) line) = Some sws /\
    let lim := o_width o - dw cw (o_si o) in
    exists init x w k,
      g = init ++ [x] /\
      In w sws /\
      nth_error (break_apart cw lim w) k = Some x /\
      (S k < length (break_apart cw lim w))%nat /\
      lim < w_width w /\ w_width w = dw cw (w_word w) /\
      In SP (w_word w) /\
      ends_with_sp (w_word x) /\ w_ws x = [] /\ w_pen x = [].
Proof.
  intros HS Hor Hspl Hp Hc Hg Hn.
  destruct (body_ends_in_space_only_if cw alnum lbc custom_sp o first line bws groups g
              HS Hor Hp Hc Hg Hn) as [Hsep [Hbw|Hbad]]; [|contradiction].
  split; [exact Hsep|]. split; [exact Hbw|].
  destruct (Hor Hsep) as [Hok Hnb].
  unfold pipeline_words in Hp. rewrite Hbw in Hp.
  destruct (split_words cw (split_points alnum custom_sp (o_spl o))
              (find_words cw lbc (o_sep o) line)) as [sws|] eqn:Es; [|discriminate].
  exists sws. split; [reflexivity|]. cbv zeta.
  set (lim := o_width o - dw cw (o_si o)) in *.
  (* the facts about the list before break_words *)
  assert (Hpw : Forall (PW cw) sws).
  { apply (split_words_PW cw _ _ sws) with (2 := Es).
    destruct (find_words_spec cw lbc (o_sep o) line) as [_ Hw].
    eapply Forall_impl; [|exact Hw]. exact (WordOK_PW cw). }
  rewrite Hsep in Es. cbn [find_words] in Es.
  destruct (find_words_unicode_K cw lbc line Hok Hnb) as [F1 F2].
  destruct (split_words_K cw _ (split_points_valid alnum custom_sp HS (o_spl o))
              (split_points_safe alnum custom_sp (o_spl o) Hspl) _ sws true Es F1 F2)
    as [S1 [S2 _]].
  pose proof (break_words_K2 cw lim sws true Hpw S1 (K_K2 sws S1 true S2)) as HK.
  assert (Hb : bws = break_words cw lim sws \/
               bws = word_from cw [] :: break_words cw lim sws).
  { injection Hp as <-. destruct (nonempty (if first then o_ii o else o_si o)); auto. }
  clear Hp.
  (* the group inside the list *)
  destruct (in_split g groups Hg) as [G1 [G2 EG]].
  destruct g as [|x0 g'] eqn:Eg; [exfalso; apply Hn; exact no_trailing_nil|].
  rewrite <- Eg in *.
  assert (Hne : g <> []) by (rewrite Eg; discriminate).
  destruct (exists_last Hne) as [init [x E]].
  assert (Ebws : bws = concat G1 ++ init ++ x :: concat G2).
  { rewrite <- Hc, EG, concat_app. cbn [concat]. rewrite E, <- !app_assoc. reflexivity. }
  rewrite E, body_snoc in Hn.
  destruct (seg_K2_sentinel (word_from cw []) _ bws _ init x _ eq_refl eq_refl HK Hb Ebws Hn)
    as [Hin [_ Hx]].
  destruct (break_words_not_ntw cw lim sws x S1 Hin Hx) as [w [k [Hw [Hlt [Hk Hlen]]]]].
  assert (Hsp : ends_with_sp (w_word x)) by exact (not_no_trailing _ Hx).
  destruct (break_apart_inner cw lim w k x Hk Hlen) as [Hws Hpen].
  exists init, x, w, k.
  split; [exact E|]. split; [exact Hw|]. split; [exact Hk|]. split; [exact Hlen|].
  split; [exact Hlt|]. split.
  { rewrite Forall_forall in Hpw. exact (proj2 (proj2 (Hpw w Hw))). }
  split; [exact (piece_sp_word cw lim w k x Hk (ends_with_sp_In _ Hsp))|].
  split; [exact Hsp|]. split; [exact Hws|exact Hpen].
Qed.

(* ================================================================== *)
(* C2. the example: "a )" at width 2, oracle [3]                        *)
(* ================================================================== *)

(* [ex_o1], [ex_t1], [ex_lbc1], [ex_cw1] are those of TrailingSpace.v
   ([exception_break_words]): the one Unicode word "a )" of width 3 is cut by
   break_words (limit 2) into "a " and ")"; the first line is the group ["a "]. *)
Example cut_space_example :
  let w := mkWord [97; 32; 41] [] [] 3 in
  let x := mkWord [97; 32] [] [] 2 in
  let lim := o_width ex_o1 - dw ex_cw1 (o_si ex_o1) in
  (* the hypotheses of C1 *)
  pipeline_words ex_cw1 ex_alnum ex_lbc1 (fun _ => []) ex_o1 true ex_t1 =
    Some [x; mkWord [41] [] [] 1] /\
  run_alg ofit_dp (o_alg ex_o1) [x; mkWord [41] [] [] 1] (line_widths ex_cw1 ex_o1 true) =
    Some [[x]; [mkWord [41] [] [] 1]] /\
  ~ no_trailing_sp (body [x]) /\
  (* its conclusion, with the witnesses sws = [w], init = [], x, w, k = 0 *)
  split_words ex_cw1 (split_points ex_alnum (fun _ => []) (o_spl ex_o1))
              (find_words ex_cw1 ex_lbc1 (o_sep ex_o1) ex_t1) = Some [w] /\
  lim = 2 /\
  [x] = [] ++ [x] /\
  In w [w] /\
  break_apart ex_cw1 lim w = [x; mkWord [41] [] [] 1] /\
  nth_error (break_apart ex_cw1 lim w) 0 = Some x /\
  (1 < length (break_apart ex_cw1 lim w))%nat /\
  lim < w_width w /\ w_width w = dw ex_cw1 (w_word w) /\
  In SP (w_word w) /\
  ends_with_sp (w_word x) /\ w_ws x = [] /\ w_pen x = [].
Proof.
  cbv zeta.
  repeat match goal with |- _ /\ _ => split end;
    try (vm_compute; reflexivity).
  - intros H. apply (H [97]). vm_compute. reflexivity.
  - left. reflexivity.
  - vm_compute. right. left. reflexivity.
  - exists [97]. reflexivity.
Qed.

(* the theorem applied to the example: the witnesses are forced *)
Example cut_space_example_applied :
  exists sws init x w k,
    split_words ex_cw1 (split_points ex_alnum (fun _ => []) (o_spl ex_o1))
                (find_words ex_cw1 ex_lbc1 (o_sep ex_o1) ex_t1) = Some sws /\
    [mkWord [97; 32] [] [] 2] = init ++ [x] /\ In w sws /\
    nth_error (break_apart ex_cw1 2 w) k = Some x /\
    (S k < length (break_apart ex_cw1 2 w))%nat /\
    2 < w_width w /\ In SP (w_word w).
Proof.
  destruct exception_break_words as (Hok & Hnb & _ & Hp & Hr & _ & Hn & _).
  assert (HS : SplitterOK (fun _ : str => @nil N)).
  { intros w. split; [exact I|constructor]. }
  destruct (body_ends_in_space_cut ex_cw1 ex_alnum ex_lbc1 (fun _ => []) ex_o1 true ex_t1
              _ [[mkWord [97; 32] [] [] 2]; [mkWord [41] [] [] 1]] [mkWord [97; 32] [] [] 2]
              HS (fun _ => conj Hok Hnb) ltac:(discriminate) Hp eq_refl
              (or_introl eq_refl) Hn)
    as (_ & _ & sws & Es & H).
  cbv zeta in H. destruct H as (init & x & w & k & E & Hw & Hk & Hlen & Hlt & _ & Hsp & _).
  change (o_width ex_o1 - dw ex_cw1 (o_si ex_o1)) with 2 in *.
  exists sws, init, x, w, k. auto 10.
Qed.

Print Assumptions body_ends_in_space_cut.
Print Assumptions cut_space_example.
Print Assumptions cut_space_example_applied.
