(* C01, C08, C04 (wrap): the wrap pipeline
   find_words -> split_words -> break_words -> algorithm -> reassemble,
   one paragraph at a time, then the paragraph loop of [wrap]. *)
From Coq Require Import Lia ZArith.
From TW Require Import Wrap Custom.
From TW Require Import EscFacts Partition Lossless SplitBreak Bellman Paragraphs.
From TW Require InplaceFacts.

Arguments N.add : simpl never.
Arguments N.sub : simpl never.
Arguments N.mul : simpl never.
Arguments N.leb : simpl never.
Arguments N.ltb : simpl never.
Arguments N.eqb : simpl never.

(* ================================================================== *)
(* Definitions                                                          *)
(* ================================================================== *)

Definition wtext (w : word) : str := w_word w ++ w_ws w.
Definition gtext (g : list word) : str := concat (map wtext g).

(* what the optimal-fit oracle must satisfy: it returns an ordered partition (C06) *)
Definition OfitOK (ofit : penalties -> list word -> list N -> option (list (list word))) : Prop :=
  forall p ws lws, exists g, ofit p ws lws = Some g /\ concat g = ws /\
    (ws <> [] -> Forall (fun l => l <> []) g) /\ (ws = [] -> g = [[]]).

(* a custom splitter must return strictly increasing proper character boundaries *)
Definition SplitterOK (custom_sp : str -> list N) : Prop :=
  forall w, valid_pts w (custom_sp w).

(* ================================================================== *)
(* P0: the reference instances satisfy the hypotheses                   *)
(* ================================================================== *)

Theorem ofit_dp_ok : OfitOK ofit_dp.
Proof.
  intros p ws lws. unfold ofit_dp, optimal_fit.
  apply optimal_fit_with_partition.
  rewrite <- (map_length word_frag ws). apply dp_minima_ok.
Qed.

Lemma c3_loop_ge t : forall k off o, In o (c3_loop t k off) -> off <= o.
Proof.
  induction t as [|c r IH]; intros k off o Hin; cbn [c3_loop] in Hin; [contradiction|].
  apply in_app_or in Hin. destruct Hin as [Hin|Hin].
  - destruct ((0 <? k)%nat && (k mod 3 =? 0)%nat); cbn [In] in Hin; [|contradiction].
    destruct Hin as [E|[]]. lia.
  - apply IH in Hin. pose proof (utf8_len_pos c). lia.
Qed.

Lemma c3_loop_adj t : forall k off, adj N.lt (c3_loop t k off).
Proof.
  induction t as [|c r IH]; intros k off; cbn [c3_loop]; [exact I|].
  destruct ((0 <? k)%nat && (k mod 3 =? 0)%nat); cbn [app]; [|apply IH].
  destruct (c3_loop r (S k) (off + utf8_len c)) as [|b l] eqn:E; [exact I|].
  split.
  - assert (Hb : off + utf8_len c <= b).
    { apply (c3_loop_ge r (S k)). rewrite E. left. reflexivity. }
    pose proof (utf8_len_pos c). lia.
  - rewrite <- E. apply IH.
Qed.

Lemma c3_loop_cut t : forall pre,
  Forall (proper_cut (pre ++ t)) (c3_loop t (length pre) (blen pre)).
Proof.
  induction t as [|c r IH]; intros pre; cbn [c3_loop]; [constructor|].
  apply Forall_app. split.
  - destruct (0 <? length pre)%nat eqn:E0; cbn [andb]; [|constructor].
    destruct (length pre mod 3 =? 0)%nat; [|constructor].
    constructor; [|constructor].
    exists pre, (c :: r). split; [reflexivity|]. split; [reflexivity|].
    split; [|discriminate].
    intros E. subst pre. cbn [length] in E0. discriminate.
  - specialize (IH (pre ++ [c])).
    rewrite <- app_assoc in IH. cbn [app] in IH.
    rewrite app_length in IH. cbn [length] in IH.
    rewrite Nat.add_1_r in IH.
    rewrite SplitBreak.blen_app in IH. cbn [blen] in IH.
    rewrite N.add_0_r in IH. exact IH.
Qed.

Theorem custom3_ok : forall w, valid_pts w (custom3 w).
Proof.
  intros w. unfold custom3. split.
  - apply c3_loop_adj.
  - exact (c3_loop_cut w []).
Qed.

Corollary custom3_splitter_ok : SplitterOK custom3.
Proof. exact custom3_ok. Qed.

(* ================================================================== *)
(* Generic facts about wtext / gtext                                    *)
(* ================================================================== *)

Lemma gtext_nil : gtext [] = [].
Proof. reflexivity. Qed.

Lemma gtext_app a b : gtext (a ++ b) = gtext a ++ gtext b.
Proof. unfold gtext. rewrite map_app, concat_app. reflexivity. Qed.

Lemma gtext_cons x g : gtext (x :: g) = w_word x ++ w_ws x ++ gtext g.
Proof. unfold gtext. cbn [map concat]. unfold wtext. rewrite <- app_assoc. reflexivity. Qed.

Lemma gtext_single x : gtext [x] = w_word x ++ w_ws x.
Proof. rewrite gtext_cons, gtext_nil, app_nil_r. reflexivity. Qed.

Lemma gtext_snoc g x : gtext (g ++ [x]) = gtext g ++ w_word x ++ w_ws x.
Proof. rewrite gtext_app, gtext_single. reflexivity. Qed.

Lemma gtext_concat gs : gtext (concat gs) = concat (map gtext gs).
Proof.
  induction gs as [|g gs IH]; cbn [concat map]; [reflexivity|].
  rewrite gtext_app, IH. reflexivity.
Qed.

Lemma sum_blen_gtext g :
  sum_N (map (fun x => blen (w_word x) + blen (w_ws x)) g) = blen (gtext g).
Proof.
  induction g as [|x g IH]; [reflexivity|].
  rewrite gtext_cons, !SplitBreak.blen_app. cbn [map sum_N fold_right].
  unfold sum_N in IH. rewrite IH. lia.
Qed.

(* words whose whitespace is empty contribute only their text *)
Lemma gtext_no_ws g : Forall (fun p => w_ws p = [] /\ w_pen p = []) g ->
  gtext g = concat (map w_word g).
Proof.
  induction 1 as [|x g [Hx _] _ IH]; [reflexivity|].
  rewrite gtext_cons, Hx, IH. reflexivity.
Qed.

Definition allsp (s : str) : Prop := Forall (fun c => c = SP) s.
Definition nosp (s : str) : Prop := Forall (fun c => c <> SP) s.
Definition no_trailing_sp (s : str) : Prop := forall u, s <> u ++ [SP].

Lemma nosp_app a b : nosp (a ++ b) <-> nosp a /\ nosp b.
Proof. apply Forall_app. Qed.

Lemma nosp_concat l : nosp (concat l) <-> Forall nosp l.
Proof.
  induction l as [|x l IH]; cbn [concat].
  - split; intros _; constructor.
  - rewrite nosp_app, IH. split.
    + intros [H1 H2]. constructor; assumption.
    + intros H. inversion H; subst. split; assumption.
Qed.

Lemma nosp_no_trailing s : nosp s -> no_trailing_sp s.
Proof.
  intros H u E. subst s. apply nosp_app in H. destruct H as [_ H].
  inversion H as [|c r Hc _]; subst. apply Hc. reflexivity.
Qed.

Lemma no_trailing_nil : no_trailing_sp [].
Proof. intros u E. destruct u; discriminate. Qed.

Lemma no_trailing_app a b : b <> [] -> no_trailing_sp b -> no_trailing_sp (a ++ b).
Proof.
  intros Hne Hb u E.
  destruct (exists_last Hne) as [b' [c Eb]]. subst b.
  rewrite app_assoc in E. apply app_inj_tail in E. destruct E as [_ Ec]. subst c.
  apply (Hb b'). reflexivity.
Qed.

(* ================================================================== *)
(* P1: the word list handed to the wrap algorithm                       *)
(* ================================================================== *)

Section Pipe.
Variable cw : char -> N.
Variable alnum : char -> bool.
Variable lbc : str -> list N.
Variable custom_sp : str -> list N.
Variable ofit : penalties -> list word -> list N -> option (list (list word)).

(* the per-word facts that survive the whole pipeline *)
Definition PW (w : word) : Prop :=
  allsp (w_ws w) /\ (w_pen w = [] \/ w_pen w = [HY]) /\ w_width w = dw cw (w_word w).

Lemma WordOK_PW w : WordOK cw w -> PW w.
Proof.
  intros [H1 [_ [H3 H4]]]. split; [exact H1|]. split; [left; exact H3|exact H4].
Qed.

Lemma find_words_spec k line :
  gtext (find_words cw lbc k line) = line /\ Forall (WordOK cw) (find_words cw lbc k line).
Proof.
  destruct k; cbn [find_words].
  - exact (ascii_lossless cw line).
  - exact (unicode_lossless cw lbc line).
Qed.

Lemma split_points_valid : SplitterOK custom_sp ->
  forall k w, valid_pts w (split_points alnum custom_sp k w).
Proof.
  intros HS k w. destruct k; cbn [split_points].
  - split; [exact I|constructor].
  - apply hyphen_points_valid.
  - apply HS.
Qed.

Lemma sw_loop_PW w : allsp (w_ws w) -> (w_pen w = [] \/ w_pen w = [HY]) ->
  forall pts prev ps, sw_loop cw w pts prev = Some ps -> Forall PW ps.
Proof.
  intros Hws Hpen. induction pts as [|idx r IH]; intros prev ps H; cbn [sw_loop] in H.
  - destruct ((prev <? blen (w_word w)) || (prev =? 0)).
    + destruct (bdrop (w_word w) prev) as [piece|]; [|discriminate].
      injection H as <-. constructor; [|constructor].
      split; [exact Hws|]. split; [exact Hpen|reflexivity].
    + injection H as <-. constructor.
  - destruct (bslice (w_word w) 0 idx) as [pre|]; [|discriminate].
    destruct (bslice (w_word w) prev idx) as [piece|]; [|discriminate].
    destruct (sw_loop cw w r idx) as [rest|] eqn:E; [|discriminate].
    injection H as <-. constructor; [|exact (IH idx rest E)].
    split; [constructor|]. split; [|reflexivity].
    cbn [w_pen]. destruct (ends_with pre [HY]); [left|right]; reflexivity.
Qed.

Lemma split_words_PW sp : forall ws ps, Forall PW ws ->
  split_words cw sp ws = Some ps -> Forall PW ps.
Proof.
  induction ws as [|w r IH]; intros ps Hws H; cbn [split_words] in H.
  - injection H as <-. constructor.
  - inversion Hws as [|w0 r0 [H1 [H2 _]] Hr]; subst w0 r0.
    destruct (sw_loop cw w (sp (w_word w)) 0) as [a|] eqn:Ea; [|discriminate].
    destruct (split_words cw sp r) as [b|] eqn:Eb; [|discriminate].
    injection H as <-. apply Forall_app. split.
    + exact (sw_loop_PW w H1 H2 _ _ _ Ea).
    + exact (IH b Hr eq_refl).
Qed.

Lemma split_words_spec sp ws : (forall w, valid_pts w (sp w)) -> Forall PW ws ->
  exists ps, split_words cw sp ws = Some ps /\ gtext ps = gtext ws /\ Forall PW ps.
Proof.
  intros Hsp Hws.
  destruct (split_words_some cw sp ws) as [ps Hps]; [intros w _; apply Hsp|].
  exists ps. split; [exact Hps|]. split.
  - apply (split_words_concat cw sp ws ps); [|exact Hps].
    intros w _. apply valid_pts_lt. apply Hsp.
  - exact (split_words_PW sp ws ps Hws Hps).
Qed.

Lemma break_apart_cases lim w :
  (break_apart cw lim w = [] /\ w_word w = []) \/
  (exists init l, break_apart cw lim w = init ++ [l] /\
     Forall (fun p => w_ws p = [] /\ w_pen p = []) init /\
     w_ws l = w_ws w /\ w_pen l = w_pen w).
Proof.
  destruct (break_apart cw lim w) as [|p ps] eqn:E.
  - left. split; [reflexivity|]. apply (break_apart_nil_iff cw lim w). exact E.
  - right. assert (Hne : p :: ps <> []) by discriminate.
    destruct (exists_last Hne) as [init [l El]]. exists init, l.
    split; [exact El|]. apply (break_apart_ws_pen cw lim w). rewrite E. exact El.
Qed.

Lemma break_apart_gtext lim w : w_word w <> [] -> gtext (break_apart cw lim w) = wtext w.
Proof.
  intros Hne. pose proof (break_apart_concat cw lim w) as Hc.
  destruct (break_apart_cases lim w) as [[_ E]|[init [l [E [Hinit [Hws _]]]]]]; [contradiction|].
  rewrite E in Hc |- *. rewrite gtext_snoc, (gtext_no_ws init Hinit), Hws.
  rewrite map_app, concat_app in Hc. cbn [map concat] in Hc. rewrite app_nil_r in Hc.
  unfold wtext. rewrite <- Hc, <- app_assoc. reflexivity.
Qed.

Lemma break_apart_PW lim w : PW w -> Forall PW (break_apart cw lim w).
Proof.
  intros [H1 [H2 _]]. pose proof (break_apart_width cw lim w) as Hw.
  destruct (break_apart_cases lim w) as [[E _]|[init [l [E [Hinit [Hws Hpen]]]]]].
  - rewrite E. constructor.
  - rewrite E in Hw |- *. apply Forall_app in Hw. destruct Hw as [Hwi Hwl].
    apply Forall_app. split.
    + rewrite Forall_forall in Hinit, Hwi |- *. intros p Hp.
      destruct (Hinit p Hp) as [Ea Eb]. split; [rewrite Ea; constructor|].
      split; [left; exact Eb|exact (Hwi p Hp)].
    + inversion Hwl as [|l0 r0 Hl _]; subst l0 r0.
      constructor; [|constructor]. split; [rewrite Hws; exact H1|].
      split; [rewrite Hpen; exact H2|exact Hl].
Qed.

Lemma break_words_spec lim ws : Forall PW ws ->
  gtext (break_words cw lim ws) = gtext ws /\ Forall PW (break_words cw lim ws).
Proof.
  induction 1 as [|w r Hw _ [IH1 IH2]].
  - split; [reflexivity|constructor].
  - change (w :: r) with ([w] ++ r). rewrite break_words_app.
    assert (H1 : gtext (break_words cw lim [w]) = gtext [w] /\ Forall PW (break_words cw lim [w])).
    { unfold break_words. cbn [flat_map]. rewrite app_nil_r.
      destruct (N.ltb_spec lim (w_width w)) as [Hlt|Hge].
      - split; [|exact (break_apart_PW lim w Hw)].
        rewrite gtext_single. apply break_apart_gtext.
        intros E. destruct Hw as [_ [_ Hwd]]. rewrite E in Hwd.
        change (dw cw []) with 0 in Hwd. lia.
      - split; [reflexivity|]. constructor; [exact Hw|constructor]. }
    destruct H1 as [Ha Hb]. split.
    + rewrite !gtext_app, Ha, IH1. reflexivity.
    + apply Forall_app. split; assumption.
Qed.

Lemma sentinel_eq : word_from cw [] = mkWord [] [] [] 0.
Proof. reflexivity. Qed.

Lemma sentinel_PW : PW (word_from cw []).
Proof. rewrite sentinel_eq. split; [constructor|]. split; [left|]; reflexivity. Qed.

(* the first half of [slow_path] *)
Definition pipeline_words (o : options) (first : bool) (line : str) : option (list word) :=
  let sw := o_width o - dw cw (o_si o) in
  let find := if first then o_ii o else o_si o in
  match split_words cw (split_points alnum custom_sp (o_spl o)) (find_words cw lbc (o_sep o) line) with
  | None => None
  | Some sws =>
      Some (if o_bw o
            then (let b := break_words cw sw sws in
                  if nonempty find then word_from cw [] :: b else b)
            else sws)
  end.

Definition line_widths (o : options) (first : bool) : list N :=
  let iw := o_width o - dw cw (o_ii o) in
  let sw := o_width o - dw cw (o_si o) in
  [if first then iw else sw; sw].

Lemma slow_path_unfold o first line :
  slow_path cw alnum lbc custom_sp ofit o first line =
  match pipeline_words o first line with
  | None => None
  | Some bws =>
      match run_alg ofit (o_alg o) bws (line_widths o first) with
      | None => None
      | Some groups => reassemble o line first groups 0
      end
  end.
Proof.
  unfold slow_path, pipeline_words, line_widths.
  destruct (split_words cw (split_points alnum custom_sp (o_spl o))
              (find_words cw lbc (o_sep o) line)); reflexivity.
Qed.

Theorem pipeline_words_spec o first line : SplitterOK custom_sp ->
  exists bws, pipeline_words o first line = Some bws /\ gtext bws = line /\
    Forall (fun w => Forall (fun c => c = SP) (w_ws w)) bws /\
    Forall (fun w => w_pen w = [] \/ w_pen w = [HY]) bws /\
    Forall (fun w => w_width w = dw cw (w_word w)) bws.
Proof.
  intros HS.
  destruct (find_words_spec (o_sep o) line) as [Hl Hok].
  assert (Hpw : Forall PW (find_words cw lbc (o_sep o) line)).
  { eapply Forall_impl; [|exact Hok]. exact WordOK_PW. }
  destruct (split_words_spec (split_points alnum custom_sp (o_spl o)) _
              (split_points_valid HS (o_spl o)) Hpw) as [sws [E1 [E2 E3]]].
  unfold pipeline_words. rewrite E1.
  assert (H : forall bws, gtext bws = line -> Forall PW bws ->
     gtext bws = line /\
     Forall (fun w => Forall (fun c => c = SP) (w_ws w)) bws /\
     Forall (fun w => w_pen w = [] \/ w_pen w = [HY]) bws /\
     Forall (fun w => w_width w = dw cw (w_word w)) bws).
  { intros bws Hg Hp. split; [exact Hg|].
    split; [|split]; (eapply Forall_impl; [|exact Hp]); intros w [A [B C]]; assumption. }
  eexists. split; [reflexivity|]. apply H.
  - destruct (o_bw o); [|congruence].
    destruct (break_words_spec (o_width o - dw cw (o_si o)) sws E3) as [B1 _].
    destruct (nonempty (if first then o_ii o else o_si o)).
    + rewrite gtext_cons, sentinel_eq. cbn [w_word w_ws app]. congruence.
    + congruence.
  - destruct (o_bw o); [|exact E3].
    destruct (break_words_spec (o_width o - dw cw (o_si o)) sws E3) as [_ B2].
    destruct (nonempty (if first then o_ii o else o_si o)); [|exact B2].
    constructor; [exact sentinel_PW|exact B2].
Qed.

(* ================================================================== *)
(* P2: reassemble, explicitly                                           *)
(* ================================================================== *)

(* gtext g minus the whitespace of its last word *)
Definition body (g : list word) : str :=
  match rev g with [] => [] | lw :: r => gtext (rev r) ++ w_word lw end.
Definition lastw_ws (g : list word) : str :=
  match rev g with [] => [] | lw :: _ => w_ws lw end.
Definition lastw_pen (g : list word) : str :=
  match rev g with [] => [] | lw :: _ => w_pen lw end.

Fixpoint lines_of (o : options) (first : bool) (groups : list (list word)) (off : N) : list oline :=
  match groups with
  | [] => []
  | g :: r =>
      let ind := if first then o_ii o else o_si o in
      mkLine (ind ++ body g ++ lastw_pen g)
             (if nonempty ind || nonempty (lastw_pen g) then Owned else Borrowed off)
      :: lines_of o false r (off + blen (gtext g))
  end.

(* the single line produced for a paragraph without words *)
Definition indent_line (o : options) (first : bool) : oline :=
  let ind := if first then o_ii o else o_si o in
  mkLine ind (if nonempty ind then Owned else BorrowedStatic).

Lemma body_snoc init lw : body (init ++ [lw]) = gtext init ++ w_word lw.
Proof. unfold body. rewrite rev_app_distr. cbn [rev app]. rewrite rev_involutive. reflexivity. Qed.

Lemma lastw_ws_snoc init lw : lastw_ws (init ++ [lw]) = w_ws lw.
Proof. unfold lastw_ws. rewrite rev_app_distr. reflexivity. Qed.

Lemma lastw_pen_snoc init lw : lastw_pen (init ++ [lw]) = w_pen lw.
Proof. unfold lastw_pen. rewrite rev_app_distr. reflexivity. Qed.

Lemma gtext_body g : gtext g = body g ++ lastw_ws g.
Proof.
  destruct g as [|x g'] eqn:Eg; [reflexivity|]. rewrite <- Eg.
  assert (Hne : g <> []) by (rewrite Eg; discriminate).
  destruct (exists_last Hne) as [init [lw E]]. rewrite E.
  rewrite body_snoc, lastw_ws_snoc, gtext_snoc, <- app_assoc. reflexivity.
Qed.

Lemma last_map_some (g : list word) lw : last (map Some (g ++ [lw])) None = Some lw.
Proof. rewrite map_app. cbn [map]. apply last_last. Qed.

Theorem reassemble_spec o line : forall groups pre post first,
  Forall (fun g => g <> []) groups ->
  line = pre ++ gtext (concat groups) ++ post ->
  reassemble o line first groups (blen pre) = Some (lines_of o first groups (blen pre)).
Proof.
  induction groups as [|g rest IH]; intros pre post first Hne Hline; [reflexivity|].
  inversion Hne as [|g0 r0 Hg Hrest]; subst g0 r0.
  destruct (exists_last Hg) as [init [lw E]].
  cbn [concat] in Hline. rewrite gtext_app in Hline.
  cbn [reassemble lines_of].
  rewrite sum_blen_gtext.
  replace (last (map Some g) None) with (Some lw)
    by (rewrite E; symmetry; apply last_map_some).
  assert (Elw : lastw_ws g = w_ws lw) by (rewrite E; apply lastw_ws_snoc).
  assert (Epen : lastw_pen g = w_pen lw) by (rewrite E; apply lastw_pen_snoc).
  assert (Eb : blen (gtext g) = blen (body g) + blen (w_ws lw)).
  { rewrite (gtext_body g), SplitBreak.blen_app, Elw. reflexivity. }
  destruct (N.ltb_spec (blen (gtext g)) (blen (w_ws lw))) as [Hlt|_]; [lia|].
  replace (blen (gtext g) - blen (w_ws lw)) with (blen (body g)) by lia.
  assert (Esl : bslice line (blen pre) (blen pre + blen (body g)) = Some (body g)).
  { rewrite Hline, (gtext_body g), <- !app_assoc. apply bslice_app. }
  rewrite Esl.
  replace (blen pre + blen (body g) + blen (w_ws lw)) with (blen (pre ++ gtext g))
    by (rewrite SplitBreak.blen_app; lia).
  replace (blen pre + blen (gtext g)) with (blen (pre ++ gtext g))
    by (rewrite SplitBreak.blen_app; lia).
  rewrite (IH (pre ++ gtext g) post false Hrest).
  - rewrite Epen. reflexivity.
  - rewrite Hline, <- !app_assoc. reflexivity.
Qed.

(* empty paragraph, no words: the algorithms return the single empty group *)
Theorem reassemble_degenerate o line first idx :
  reassemble o line first [[]] idx = Some [indent_line o first].
Proof. reflexivity. Qed.

(* ================================================================== *)
(* P3: the slow path, one paragraph                                     *)
(* ================================================================== *)

Lemma run_alg_spec a bws lws : OfitOK ofit ->
  exists g, run_alg ofit a bws lws = Some g /\ concat g = bws /\
    (bws <> [] -> Forall (fun l => l <> []) g) /\ (bws = [] -> g = [[]]).
Proof.
  intros HO. destruct a as [|p]; cbn [run_alg].
  - eexists. split; [reflexivity|]. split; [apply first_fit_concat|]. split.
    + apply first_fit_nonempty.
    + intros ->. apply first_fit_nil.
  - apply HO.
Qed.

Theorem slow_path_spec o first line : OfitOK ofit -> SplitterOK custom_sp ->
  exists bws ls,
    pipeline_words o first line = Some bws /\ gtext bws = line /\
    slow_path cw alnum lbc custom_sp ofit o first line = Some ls /\
    ((bws = [] /\ ls = [indent_line o first]) \/
     (exists groups, concat groups = bws /\ groups <> [] /\
        Forall (fun g => g <> []) groups /\ ls = lines_of o first groups 0)).
Proof.
  intros HO HS.
  destruct (pipeline_words_spec o first line HS) as [bws [E1 [E2 _]]].
  destruct (run_alg_spec (o_alg o) bws (line_widths o first) HO) as [groups [G1 [G2 [G3 G4]]]].
  rewrite slow_path_unfold, E1, G1.
  exists bws. destruct bws as [|w0 bws'] eqn:Eb.
  - rewrite (G4 eq_refl), reassemble_degenerate. eexists.
    split; [reflexivity|]. split; [exact E2|]. split; [reflexivity|].
    left. split; reflexivity.
  - rewrite <- Eb in *.
    assert (Hne : bws <> []) by (rewrite Eb; discriminate).
    specialize (G3 Hne).
    change 0 with (blen []).
    rewrite (reassemble_spec o line groups [] [] first G3).
    + eexists. split; [reflexivity|]. split; [exact E2|]. split; [reflexivity|].
      right. exists groups. split; [exact G2|]. split; [|split; [exact G3|reflexivity]].
      intros ->. cbn [concat] in G2. congruence.
    + rewrite G2, E2, app_nil_r. reflexivity.
Qed.

(* ---- lines as segments of the paragraph: body, penalty, gap ---- *)

Record seg := mkSeg { s_body : str; s_pen : str; s_gap : str }.
Definition seg_text (s : seg) : str := s_body s ++ s_gap s.

Fixpoint seg_lines (o : options) (first : bool) (segs : list seg) (off : N) : list oline :=
  match segs with
  | [] => []
  | s :: r =>
      let ind := if first then o_ii o else o_si o in
      mkLine (ind ++ s_body s ++ s_pen s)
             (if nonempty ind || nonempty (s_pen s) then Owned else Borrowed off)
      :: seg_lines o false r (off + blen (s_body s) + blen (s_gap s))
  end.

Definition seg_of (g : list word) : seg := mkSeg (body g) (lastw_pen g) (lastw_ws g).

Lemma seg_text_of g : seg_text (seg_of g) = gtext g.
Proof. unfold seg_text, seg_of. cbn [s_body s_gap]. symmetry. apply gtext_body. Qed.

Lemma lines_of_segs o : forall groups first off,
  lines_of o first groups off = seg_lines o first (map seg_of groups) off.
Proof.
  induction groups as [|g r IH]; intros first off; [reflexivity|].
  cbn [lines_of map seg_lines seg_of s_body s_pen s_gap]. f_equal.
  rewrite IH. f_equal.
  rewrite (gtext_body g), SplitBreak.blen_app. lia.
Qed.

Lemma seg_lines_length o : forall segs first off,
  length (seg_lines o first segs off) = length segs.
Proof.
  induction segs as [|s r IH]; intros first off; [reflexivity|].
  cbn [seg_lines length]. rewrite IH. reflexivity.
Qed.

(* the indentation of the i-th line of a paragraph *)
Definition nth_indent (o : options) (first : bool) (i : nat) : str :=
  if first && (i =? 0)%nat then o_ii o else o_si o.

(* line i, explicitly: its Borrowed offset is the byte offset of its body in
   the paragraph, i.e. the total length of the preceding bodies and gaps *)
Lemma seg_lines_nth o : forall segs first off i s,
  nth_error segs i = Some s ->
  nth_error (seg_lines o first segs off) i =
  Some (mkLine (nth_indent o first i ++ s_body s ++ s_pen s)
          (if nonempty (nth_indent o first i) || nonempty (s_pen s) then Owned
           else Borrowed (off + blen (concat (map seg_text (firstn i segs)))))).
Proof.
  induction segs as [|s0 r IH]; intros first off i s H.
  - destruct i; discriminate.
  - destruct i as [|j].
    + cbn [nth_error] in H. injection H as ->.
      cbn [seg_lines nth_error firstn map concat blen].
      unfold nth_indent. change (0 =? 0)%nat with true. rewrite andb_true_r, N.add_0_r.
      reflexivity.
    + cbn [nth_error] in H. cbn [seg_lines nth_error].
      rewrite (IH false _ j s H).
      unfold nth_indent. change (S j =? 0)%nat with false. rewrite andb_false_r.
      cbn [andb firstn map concat].
      rewrite SplitBreak.blen_app. unfold seg_text at 2. rewrite SplitBreak.blen_app.
      rewrite !N.add_assoc. reflexivity.
Qed.

Definition seg_ok (o : options) (s : seg) : Prop :=
  allsp (s_gap s) /\ (s_pen s = [] \/ s_pen s = [HY]) /\
  (o_sep o = SepAscii -> no_trailing_sp (s_body s)).

(* C01 for one paragraph: the lines are consecutive, non-overlapping segments
   [body ++ gap] of the paragraph; a gap consists of spaces; the line text is
   indent ++ body ++ penalty; it borrows from the paragraph at the offset of its
   body when nothing was added.  The degenerate case is the paragraph without
   words (then the paragraph is empty). *)
Definition ParaSpec (o : options) (first : bool) (line : str) (ls : list oline) : Prop :=
  (line = [] /\ ls = [indent_line o first]) \/
  (exists segs, segs <> [] /\ line = concat (map seg_text segs) /\
     Forall (seg_ok o) segs /\ ls = seg_lines o first segs 0).

Lemma ParaSpec_nonempty o first line ls : ParaSpec o first line ls -> ls <> [].
Proof.
  intros [[_ ->]|[segs [Hne [_ [_ ->]]]]]; [discriminate|].
  destruct segs; [congruence|discriminate].
Qed.

(* C08 for one paragraph *)
Lemma ParaSpec_indent o first line ls : ParaSpec o first line ls ->
  forall i l, nth_error ls i = Some l ->
  exists rest, l_text l = nth_indent o first i ++ rest.
Proof.
  intros [[_ ->]|[segs [_ [_ [_ ->]]]]] i l H.
  - destruct i as [|j].
    + cbn [nth_error] in H. injection H as <-. exists [].
      unfold indent_line, nth_indent. cbn [l_text]. change (0 =? 0)%nat with true.
      rewrite andb_true_r, app_nil_r. reflexivity.
    + cbn [nth_error] in H. destruct j; discriminate.
  - destruct (nth_error segs i) as [s|] eqn:Es.
    + rewrite (seg_lines_nth o segs first 0 i s Es) in H. injection H as <-.
      eexists. cbn [l_text]. reflexivity.
    + apply nth_error_None in Es. rewrite <- (seg_lines_length o segs first 0) in Es.
      apply nth_error_None in Es. congruence.
Qed.

Lemma firstn_length_app (A : Type) (a b : list A) : firstn (length a) (a ++ b) = a.
Proof. induction a as [|x a IH]; [reflexivity|]. cbn [length app firstn]. rewrite IH. reflexivity. Qed.

(* one line of a paragraph, without recursion: the line made from segment [s] borrows
   at the byte offset of [s_body s] in the paragraph (when nothing was added) *)
Theorem seg_lines_line o first l1 s l2 :
  let segs := l1 ++ s :: l2 in
  let i := length l1 in
  let pre := concat (map seg_text l1) in
  concat (map seg_text segs) = pre ++ s_body s ++ s_gap s ++ concat (map seg_text l2) /\
  nth_error (seg_lines o first segs 0) i =
  Some (mkLine (nth_indent o first i ++ s_body s ++ s_pen s)
          (if nonempty (nth_indent o first i) || nonempty (s_pen s) then Owned
           else Borrowed (blen pre))).
Proof.
  cbn zeta. split.
  - rewrite map_app, concat_app. cbn [map concat]. unfold seg_text at 2.
    rewrite <- !app_assoc. reflexivity.
  - assert (H : nth_error (l1 ++ s :: l2) (length l1) = Some s).
    { rewrite nth_error_app2 by apply Nat.le_refl. rewrite Nat.sub_diag. reflexivity. }
    rewrite (seg_lines_nth o _ first 0 _ s H), firstn_length_app, N.add_0_l. reflexivity.
Qed.

(* ---- ASCII separator: words contain no space, and only leading words of the
        paragraph can have an empty text ---- *)

Definition nospw (w : word) : Prop := nosp (w_word w).
Definition text_ne (w : word) : Prop := w_word w <> [].
(* a word with empty text is preceded by nothing but empty words *)
Definition lead_ok (ws : list word) : Prop :=
  forall a w b, ws = a ++ w :: b -> w_word w = [] -> gtext a = [].

Lemma Forall_tl (A : Type) (P : A -> Prop) (l : list A) : Forall P l -> Forall P (tl l).
Proof. intros H. destruct l; [constructor|]. inversion H; assumption. Qed.

Lemma find_words_ascii_AW line :
  Forall nospw (find_words_ascii cw line) /\ Forall text_ne (tl (find_words_ascii cw line)).
Proof.
  destruct (InplaceFacts.find_words_ascii_spec cw line) as [H1 [_ H3]].
  split.
  - eapply Forall_impl; [|exact H1]. intros w [Hw _]. exact Hw.
  - destruct (find_words_ascii cw line) as [|x r]; [constructor|].
    cbn [tl]. apply Forall_forall. intros y Hy.
    destruct (in_split y r Hy) as [b1 [b2 E]].
    destruct b1 as [|z0 b1'] eqn:Eb1.
    + apply (H3 [] x y b2). rewrite E. reflexivity.
    + assert (Hne : b1 <> []) by (rewrite Eb1; discriminate).
      rewrite <- Eb1 in E.
      destruct (exists_last Hne) as [b1'' [z Ez]].
      apply (H3 (x :: b1'') z y b2). rewrite E, Ez, <- app_assoc. reflexivity.
Qed.

Lemma proper_cut_nil o : ~ proper_cut [] o.
Proof.
  intros [p [q [E [_ [Hp _]]]]]. symmetry in E. apply app_eq_nil in E. destruct E. contradiction.
Qed.

Lemma sw_loop_AW w pts ps : valid_pts (w_word w) pts ->
  sw_loop cw w pts 0 = Some ps -> nospw w ->
  Forall nospw ps /\ ps <> [] /\ Forall text_ne (tl ps) /\ (text_ne w -> Forall text_ne ps).
Proof.
  intros Hv Hps Hw.
  destruct (sw_loop_valid cw w pts Hv) as [ps' [E [Hc [_ [Hlen [Hne _]]]]]].
  rewrite Hps in E. injection E as <-.
  split; [|split; [|split]].
  - unfold nospw in Hw. rewrite <- Hc in Hw. apply nosp_concat in Hw.
    rewrite Forall_map in Hw. exact Hw.
  - intros ->. discriminate.
  - destruct (w_word w) as [|c r] eqn:Ew.
    + destruct pts as [|o pts'].
      * destruct ps as [|p [|q ps']]; try discriminate. constructor.
      * destruct Hv as [_ Hv]. inversion Hv as [|o0 r0 Ho _]; subst.
        exfalso. exact (proper_cut_nil o Ho).
    + apply Forall_tl. apply Hne. discriminate.
  - exact Hne.
Qed.

Lemma tl_app (A : Type) (a b : list A) : a <> [] -> tl (a ++ b) = tl a ++ b.
Proof. destruct a; [congruence|reflexivity]. Qed.

Lemma split_words_AW sp : (forall w, valid_pts w (sp w)) -> forall ws ps,
  split_words cw sp ws = Some ps -> Forall nospw ws ->
  Forall nospw ps /\ (Forall text_ne ws -> Forall text_ne ps) /\
  (Forall text_ne (tl ws) -> Forall text_ne (tl ps)).
Proof.
  intros Hsp. induction ws as [|w r IH]; intros ps H Hws; cbn [split_words] in H.
  - injection H as <-. split; [constructor|]. split; intros _; constructor.
  - inversion Hws as [|w0 r0 Hw Hr]; subst w0 r0.
    destruct (sw_loop cw w (sp (w_word w)) 0) as [a|] eqn:Ea; [|discriminate].
    destruct (split_words cw sp r) as [b|] eqn:Eb; [|discriminate].
    injection H as <-.
    destruct (sw_loop_AW w _ a (Hsp (w_word w)) Ea Hw) as [A1 [A2 [A3 A4]]].
    destruct (IH b eq_refl Hr) as [B1 [B2 _]].
    split; [apply Forall_app; split; assumption|]. split.
    + intros Hall. inversion Hall as [|w0 r0 Hw0 Hr0]; subst w0 r0.
      apply Forall_app. split; [exact (A4 Hw0)|exact (B2 Hr0)].
    + cbn [tl]. intros Hr0. rewrite (tl_app _ a b A2).
      apply Forall_app. split; [exact A3|exact (B2 Hr0)].
Qed.

Lemma break_apart_nospw lim w : nospw w -> Forall nospw (break_apart cw lim w).
Proof.
  intros Hw. unfold nospw in Hw. rewrite <- (break_apart_concat cw lim w) in Hw.
  apply nosp_concat in Hw. rewrite Forall_map in Hw. exact Hw.
Qed.

Lemma break_words_AW lim : forall ws, Forall nospw ws ->
  Forall nospw (break_words cw lim ws) /\
  (Forall text_ne ws -> Forall text_ne (break_words cw lim ws)) /\
  (Forall text_ne (tl ws) -> Forall text_ne (tl (break_words cw lim ws))).
Proof.
  induction ws as [|w r IH]; intros Hws.
  - split; [constructor|]. split; intros _; constructor.
  - inversion Hws as [|w0 r0 Hw Hr]; subst w0 r0.
    destruct (IH Hr) as [B1 [B2 _]].
    unfold break_words in *. cbn [flat_map].
    destruct (lim <? w_width w).
    + pose proof (break_apart_nonempty cw lim w) as Hne.
      split; [apply Forall_app; split; [apply break_apart_nospw; exact Hw|exact B1]|].
      split.
      * intros Hall. inversion Hall; subst. apply Forall_app. split; [exact Hne|auto].
      * cbn [tl]. intros Hr0. apply Forall_tl. apply Forall_app. split; [exact Hne|auto].
    + cbn [app tl]. split; [constructor; assumption|]. split.
      * intros Hall. inversion Hall; subst. constructor; auto.
      * exact B2.
Qed.

Lemma tl_lead_ok ws : Forall text_ne (tl ws) -> lead_ok ws.
Proof.
  intros H a w b E Hw. destruct a as [|x a']; [reflexivity|].
  rewrite E in H. cbn [app tl] in H. apply Forall_app in H. destruct H as [_ H].
  inversion H as [|w0 r0 Hne _]; subst. contradiction.
Qed.

Lemma sentinel_lead_ok ws : Forall text_ne (tl ws) -> lead_ok (mkWord [] [] [] 0 :: ws).
Proof.
  intros H a w b E Hw. destruct a as [|x a']; [reflexivity|].
  cbn [app] in E. injection E as <- E.
  rewrite gtext_cons. cbn [w_word w_ws app].
  exact (tl_lead_ok ws H a' w b E Hw).
Qed.

Lemma pipeline_words_ascii o first line bws : SplitterOK custom_sp ->
  o_sep o = SepAscii -> pipeline_words o first line = Some bws ->
  Forall nospw bws /\ lead_ok bws.
Proof.
  intros HS Hsep H. unfold pipeline_words in H. rewrite Hsep in H. cbn [find_words] in H.
  destruct (split_words cw (split_points alnum custom_sp (o_spl o)) (find_words_ascii cw line))
    as [sws|] eqn:Es; [|discriminate].
  destruct (find_words_ascii_AW line) as [F1 F2].
  destruct (split_words_AW _ (split_points_valid HS (o_spl o)) _ sws Es F1) as [S1 [_ S3]].
  specialize (S3 F2).
  injection H as <-.
  destruct (o_bw o).
  - destruct (break_words_AW (o_width o - dw cw (o_si o)) sws S1) as [B1 [_ B3]].
    specialize (B3 S3).
    destruct (nonempty (if first then o_ii o else o_si o)).
    + rewrite sentinel_eq. split; [|exact (sentinel_lead_ok _ B3)].
      constructor; [constructor|exact B1].
    + split; [exact B1|exact (tl_lead_ok _ B3)].
  - split; [exact S1|exact (tl_lead_ok _ S3)].
Qed.

(* (C01, trailing space) no side condition is needed beyond the ASCII separator:
   for ANY grouping of the pipeline words, no line body ends in a space *)
Lemma body_no_trailing_sp bws : Forall nospw bws -> lead_ok bws ->
  forall groups, concat groups = bws -> Forall (fun g => no_trailing_sp (body g)) groups.
Proof.
  intros Hns Hlead groups Hc. apply Forall_forall. intros g Hg.
  destruct (in_split g groups Hg) as [G1 [G2 EG]].
  destruct g as [|x g'] eqn:Eg; [exact no_trailing_nil|]. rewrite <- Eg in *.
  assert (Hne : g <> []) by (rewrite Eg; discriminate).
  destruct (exists_last Hne) as [init [lw E]].
  assert (Ebws : bws = (concat G1 ++ init) ++ lw :: concat G2).
  { rewrite <- Hc, EG, concat_app. cbn [concat]. rewrite E, <- !app_assoc. reflexivity. }
  rewrite E, body_snoc.
  destruct (w_word lw) as [|c r] eqn:Elw.
  - pose proof (Hlead _ lw _ Ebws Elw) as H0. rewrite gtext_app in H0.
    apply app_eq_nil in H0. destruct H0 as [_ H0]. rewrite H0. exact no_trailing_nil.
  - apply no_trailing_app; [discriminate|]. apply nosp_no_trailing.
    rewrite Ebws in Hns. apply Forall_app in Hns. destruct Hns as [_ Hns].
    inversion Hns as [|w0 r0 Hlw _]; subst. unfold nospw in Hlw. rewrite Elw in Hlw. exact Hlw.
Qed.

Theorem slow_path_ascii_no_trailing_sp o first line bws groups : SplitterOK custom_sp ->
  o_sep o = SepAscii -> pipeline_words o first line = Some bws -> concat groups = bws ->
  Forall (fun g => no_trailing_sp (body g)) groups.
Proof.
  intros HS Hsep Hp Hc.
  destruct (pipeline_words_ascii o first line bws HS Hsep Hp) as [H1 H2].
  exact (body_no_trailing_sp bws H1 H2 groups Hc).
Qed.

Lemma PW_last g : Forall PW g ->
  allsp (lastw_ws g) /\ (lastw_pen g = [] \/ lastw_pen g = [HY]).
Proof.
  intros H. destruct g as [|x g'] eqn:Eg; [split; [constructor|left; reflexivity]|].
  rewrite <- Eg in *. assert (Hne : g <> []) by (rewrite Eg; discriminate).
  destruct (exists_last Hne) as [init [lw E]]. rewrite E in H |- *.
  apply Forall_app in H. destruct H as [_ H]. inversion H as [|w0 r0 [A [B _]] _]; subst.
  rewrite lastw_ws_snoc, lastw_pen_snoc. split; assumption.
Qed.

(* (C01, one paragraph) for the slow path, on the groups of words chosen by the
   algorithm: the paragraph is the concatenation of [body g ++ lastw_ws g]; the
   whitespace dropped at the end of each line consists of spaces; the penalty
   is nothing or a hyphen; with the ASCII separator no body ends in a space *)
Theorem slow_path_groups o first line : OfitOK ofit -> SplitterOK custom_sp ->
  exists ls, slow_path cw alnum lbc custom_sp ofit o first line = Some ls /\
    ((line = [] /\ ls = [indent_line o first]) \/
     (exists groups, groups <> [] /\ Forall (fun g => g <> []) groups /\
        line = concat (map (fun g => body g ++ lastw_ws g) groups) /\
        Forall (fun g => allsp (lastw_ws g) /\ (lastw_pen g = [] \/ lastw_pen g = [HY]) /\
                         (o_sep o = SepAscii -> no_trailing_sp (body g))) groups /\
        ls = lines_of o first groups 0)).
Proof.
  intros HO HS.
  destruct (slow_path_spec o first line HO HS) as [bws [ls [E1 [E2 [E3 H]]]]].
  exists ls. split; [exact E3|].
  destruct H as [[-> ->]|[groups [G1 [G2 [G3 ->]]]]].
  - left. split; [symmetry; exact E2|reflexivity].
  - right. exists groups. split; [exact G2|]. split; [exact G3|]. split; [|split; [|reflexivity]].
    + rewrite (map_ext _ gtext (fun g => eq_sym (gtext_body g))).
      rewrite <- gtext_concat, G1. symmetry. exact E2.
    + destruct (pipeline_words_spec o first line HS) as [bws' [E1' [_ [P1 [P2 P3]]]]].
      rewrite E1 in E1'. injection E1' as <-.
      assert (Hpw : Forall (Forall PW) groups).
      { apply Forall_concat. rewrite G1. rewrite Forall_forall in P1, P2, P3 |- *.
        intros w Hw. split; [exact (P1 w Hw)|]. split; [exact (P2 w Hw)|exact (P3 w Hw)]. }
      rewrite Forall_forall in Hpw |- *. intros g Hg.
      destruct (PW_last g (Hpw g Hg)) as [A B].
      split; [exact A|]. split; [exact B|]. intros Hsep.
      pose proof (slow_path_ascii_no_trailing_sp o first line bws groups HS Hsep E1 G1) as Hn.
      rewrite Forall_forall in Hn. exact (Hn g Hg).
Qed.

(* the same as segments *)
Theorem slow_path_para o first line : OfitOK ofit -> SplitterOK custom_sp ->
  exists ls, slow_path cw alnum lbc custom_sp ofit o first line = Some ls /\
             ParaSpec o first line ls.
Proof.
  intros HO HS.
  destruct (slow_path_groups o first line HO HS) as [ls [E H]].
  exists ls. split; [exact E|].
  destruct H as [[-> ->]|[groups [G1 [G2 [G3 [G4 ->]]]]]].
  - left. split; reflexivity.
  - right. exists (map seg_of groups). split; [|split; [|split]].
    + destruct groups; [congruence|discriminate].
    + rewrite map_map. exact G3.
    + rewrite Forall_map. eapply Forall_impl; [|exact G4].
      intros g Hg. exact Hg.
    + apply lines_of_segs.
Qed.

(* (C01, one paragraph) wrap_single_line, including the fast path: one segment,
   the gap is the run of trailing spaces *)
Theorem wrap_single_line_para o first line : OfitOK ofit -> SplitterOK custom_sp ->
  exists ls, wrap_single_line cw alnum lbc custom_sp ofit o first line = Some ls /\
             ParaSpec o first line ls.
Proof.
  intros HO HS. unfold wrap_single_line.
  destruct ((blen line <? o_width o) && negb (nonempty (if first then o_ii o else o_si o))) eqn:Ef;
    [|apply slow_path_para; assumption].
  apply andb_true_iff in Ef. destruct Ef as [_ Ef].
  assert (Eind : (if first then o_ii o else o_si o) = []).
  { destruct (if first then o_ii o else o_si o); [reflexivity|discriminate]. }
  eexists. split; [reflexivity|]. right.
  destruct (split_ws line) as [w ws] eqn:Esw.
  destruct (split_ws_spec line w ws Esw) as [S1 [S2 S3]].
  exists [mkSeg w [] ws]. split; [discriminate|]. split; [|split].
  - cbn [map concat seg_text s_body s_gap]. rewrite app_nil_r. exact S1.
  - constructor; [|constructor]. split; [exact S2|]. split; [left; reflexivity|].
    intros _. exact S3.
  - cbn [seg_lines s_body s_pen s_gap]. rewrite Eind. cbn [app nonempty orb].
    rewrite app_nil_r. unfold trim_end_sp. rewrite Esw. reflexivity.
Qed.

(* (C04) totality for one paragraph *)
Theorem slow_path_total o first line : OfitOK ofit -> SplitterOK custom_sp ->
  slow_path cw alnum lbc custom_sp ofit o first line <> None.
Proof.
  intros HO HS. destruct (slow_path_para o first line HO HS) as [ls [E _]]. congruence.
Qed.

Theorem wrap_single_line_total o first line : OfitOK ofit -> SplitterOK custom_sp ->
  wrap_single_line cw alnum lbc custom_sp ofit o first line <> None.
Proof.
  intros HO HS. destruct (wrap_single_line_para o first line HO HS) as [ls [E _]]. congruence.
Qed.

(* (C08) one paragraph *)
Theorem slow_path_indent o first line ls : OfitOK ofit -> SplitterOK custom_sp ->
  slow_path cw alnum lbc custom_sp ofit o first line = Some ls ->
  forall i l, nth_error ls i = Some l ->
  exists rest, l_text l = (if first && (i =? 0)%nat then o_ii o else o_si o) ++ rest.
Proof.
  intros HO HS H. destruct (slow_path_para o first line HO HS) as [ls' [E P]].
  rewrite H in E. injection E as <-. exact (ParaSpec_indent o first line ls P).
Qed.

Theorem wrap_single_line_indent o first line ls : OfitOK ofit -> SplitterOK custom_sp ->
  wrap_single_line cw alnum lbc custom_sp ofit o first line = Some ls ->
  forall i l, nth_error ls i = Some l ->
  exists rest, l_text l = (if first && (i =? 0)%nat then o_ii o else o_si o) ++ rest.
Proof.
  intros HO HS H. destruct (wrap_single_line_para o first line HO HS) as [ls' [E P]].
  rewrite H in E. injection E as <-. exact (ParaSpec_indent o first line ls P).
Qed.

(* ================================================================== *)
(* P4: the text level                                                   *)
(* ================================================================== *)

(* the lines of [wrap]: paragraph by paragraph, the per-paragraph lines with their
   Borrowed offsets shifted by [base], the byte offset of the paragraph *)
Fixpoint WrapSpec (o : options) (first : bool) (paras : list str) (base : N) (ls : list oline)
  : Prop :=
  match paras with
  | [] => ls = []
  | p :: r =>
      exists pl rest, ParaSpec o first p pl /\ ls = map (shift_cow base) pl ++ rest /\
        WrapSpec o false r (base + blen p + blen (le_str (o_le o))) rest
  end.

Lemma wrap_loop_spec o : OfitOK ofit -> SplitterOK custom_sp -> forall paras acc base,
  exists rest, wrap_loop cw alnum lbc custom_sp ofit o paras acc base = Some (acc ++ rest) /\
    WrapSpec o (match acc with [] => true | _ => false end) paras base rest.
Proof.
  intros HO HS. induction paras as [|p r IH]; intros acc base.
  - exists []. split; [cbn [wrap_loop]; rewrite app_nil_r; reflexivity|reflexivity].
  - cbn [wrap_loop].
    destruct (wrap_single_line_para o (match acc with [] => true | _ => false end) p HO HS)
      as [pl [E P]].
    rewrite E.
    destruct (IH (acc ++ map (shift_cow base) pl) (base + blen p + blen (le_str (o_le o))))
      as [rest [E2 W]].
    exists (map (shift_cow base) pl ++ rest). split.
    + rewrite E2, <- app_assoc. reflexivity.
    + cbn [WrapSpec]. exists pl, rest. split; [exact P|]. split; [reflexivity|].
      assert (Hf : match acc ++ map (shift_cow base) pl with [] => true | _ => false end = false).
      { pose proof (ParaSpec_nonempty o _ p pl P) as Hne.
        destruct pl as [|l0 pl']; [congruence|]. destruct acc; reflexivity. }
      rewrite Hf in W. exact W.
Qed.

(* (C04) and (C01): wrap is total and its lines are described by WrapSpec over the
   paragraphs [split_le (o_le o) text]; recall [join_split_le]:
   join (le_str (o_le o)) (split_le (o_le o) text) = text *)
Theorem wrap_spec o text : OfitOK ofit -> SplitterOK custom_sp ->
  exists ls, wrap cw alnum lbc custom_sp ofit o text = Some ls /\
             WrapSpec o true (split_le (o_le o) text) 0 ls.
Proof.
  intros HO HS. unfold wrap.
  destruct (wrap_loop_spec o HO HS (split_le (o_le o) text) [] 0) as [rest [E W]].
  exists rest. split; [exact E|exact W].
Qed.

Theorem wrap_total o text : OfitOK ofit -> SplitterOK custom_sp ->
  wrap cw alnum lbc custom_sp ofit o text <> None.
Proof. intros HO HS. destruct (wrap_spec o text HO HS) as [ls [E _]]. congruence. Qed.

Theorem fill_total o text : OfitOK ofit -> SplitterOK custom_sp ->
  fill cw alnum lbc custom_sp ofit o text <> None.
Proof.
  intros HO HS. unfold fill, fill_slow.
  destruct ((blen text <? o_width o) && negb (existsb (N.eqb LF) text) && negb (nonempty (o_ii o)));
    [discriminate|].
  destruct (wrap_spec o text HO HS) as [ls [E _]]. rewrite E. discriminate.
Qed.

(* (C08) *)
Lemma WrapSpec_indent o : forall paras first base ls, WrapSpec o first paras base ls ->
  forall i l, nth_error ls i = Some l ->
  exists rest, l_text l = nth_indent o first i ++ rest.
Proof.
  induction paras as [|p r IH]; intros first base ls W i l H; cbn [WrapSpec] in W.
  - subst ls. destruct i; discriminate.
  - destruct W as [pl [rest [P [-> W]]]].
    destruct (Nat.lt_ge_cases i (length (map (shift_cow base) pl))) as [Hlt|Hge].
    + rewrite nth_error_app1 in H by exact Hlt.
      rewrite nth_error_map in H.
      destruct (nth_error pl i) as [l0|] eqn:E0; [|discriminate].
      cbn [option_map] in H. injection H as <-. rewrite shift_cow_text.
      exact (ParaSpec_indent o first p pl P i l0 E0).
    + rewrite nth_error_app2 in H by exact Hge.
      destruct (IH false _ rest W _ l H) as [rest' E].
      exists rest'. rewrite E. unfold nth_indent. cbn [andb].
      rewrite map_length in Hge.
      pose proof (ParaSpec_nonempty o first p pl P) as Hne.
      destruct i as [|j].
      * destruct pl; [congruence|]. cbn [length] in Hge. lia.
      * change (S j =? 0)%nat with false. rewrite andb_false_r. reflexivity.
Qed.

Theorem wrap_indent o text ls : OfitOK ofit -> SplitterOK custom_sp ->
  wrap cw alnum lbc custom_sp ofit o text = Some ls ->
  forall i l, nth_error ls i = Some l ->
  exists rest, l_text l = (if (i =? 0)%nat then o_ii o else o_si o) ++ rest.
Proof.
  intros HO HS H. destruct (wrap_spec o text HO HS) as [ls' [E W]].
  rewrite H in E. injection E as <-.
  exact (WrapSpec_indent o _ true 0 ls W).
Qed.

(* (C01) the same, paragraph by paragraph and without recursion: paragraph k is wrapped
   on its own (it is the first one iff k = 0) and its lines are shifted by the byte
   offset of the paragraph in the text *)
Lemma join_offset le : forall paras k p, nth_error paras k = Some p ->
  exists pre post, join (le_str le) paras = pre ++ p ++ post /\
                   blen pre = paras_blen le (firstn k paras).
Proof.
  induction paras as [|x r IH]; intros k p H; [destruct k; discriminate|].
  destruct k as [|j].
  - cbn [nth_error] in H. injection H as ->. exists []. cbn [firstn paras_blen fold_right app].
    destruct r as [|y r'].
    + exists []. cbn [join]. rewrite app_nil_r. split; reflexivity.
    + eexists. split; [|reflexivity]. reflexivity.
  - cbn [nth_error] in H. destruct (IH j p H) as [pre [post [E B]]].
    destruct r as [|y r'] eqn:Er; [destruct j; discriminate|]. rewrite <- Er in *.
    exists (x ++ le_str le ++ pre), post. split.
    + replace (join (le_str le) (x :: r)) with (x ++ le_str le ++ join (le_str le) r)
        by (rewrite Er; reflexivity).
      rewrite E, <- !app_assoc. reflexivity.
    + cbn [firstn]. unfold paras_blen in *. cbn [fold_right].
      rewrite !SplitBreak.blen_app, B. lia.
Qed.

Lemma WrapSpec_paras o : forall paras first base ls, WrapSpec o first paras base ls ->
  exists pls, ls = concat pls /\ length pls = length paras /\
    forall k p, nth_error paras k = Some p ->
    exists pl, ParaSpec o (first && (k =? 0)%nat) p pl /\
      nth_error pls k =
      Some (map (shift_cow (base + paras_blen (o_le o) (firstn k paras))) pl).
Proof.
  induction paras as [|p0 r IH]; intros first base ls W; cbn [WrapSpec] in W.
  - subst ls. exists []. split; [reflexivity|]. split; [reflexivity|].
    intros k p H. destruct k; discriminate.
  - destruct W as [pl [rest [P [-> W]]]].
    destruct (IH false _ rest W) as [pls [E1 [E2 E3]]].
    exists (map (shift_cow base) pl :: pls). split; [cbn [concat]; rewrite E1; reflexivity|].
    split; [cbn [length]; rewrite E2; reflexivity|].
    intros k p H. destruct k as [|j].
    + cbn [nth_error] in H. injection H as <-. exists pl.
      change (0 =? 0)%nat with true. rewrite andb_true_r. split; [exact P|].
      cbn [nth_error firstn paras_blen fold_right]. rewrite N.add_0_r. reflexivity.
    + cbn [nth_error] in H. destruct (E3 j p H) as [pl' [P' N']].
      exists pl'. change (S j =? 0)%nat with false. rewrite andb_false_r.
      cbn [andb] in P'. split; [exact P'|].
      cbn [nth_error]. rewrite N'. do 3 f_equal.
      cbn [firstn]. unfold paras_blen. cbn [fold_right]. lia.
Qed.

Theorem wrap_paragraphs o text : OfitOK ofit -> SplitterOK custom_sp ->
  exists ls pls,
    wrap cw alnum lbc custom_sp ofit o text = Some ls /\
    text = join (le_str (o_le o)) (split_le (o_le o) text) /\
    ls = concat pls /\ length pls = length (split_le (o_le o) text) /\
    forall k p, nth_error (split_le (o_le o) text) k = Some p ->
    exists pre post pl,
      text = pre ++ p ++ post /\
      blen pre = paras_blen (o_le o) (firstn k (split_le (o_le o) text)) /\
      ParaSpec o (k =? 0)%nat p pl /\
      nth_error pls k = Some (map (shift_cow (blen pre)) pl).
Proof.
  intros HO HS. destruct (wrap_spec o text HO HS) as [ls [E W]].
  destruct (WrapSpec_paras o _ true 0 ls W) as [pls [E1 [E2 E3]]].
  exists ls, pls. split; [exact E|]. split; [symmetry; apply join_split_le|].
  split; [exact E1|]. split; [exact E2|].
  intros k p H.
  destruct (E3 k p H) as [pl [P N']].
  destruct (join_offset (o_le o) _ k p H) as [pre [post [J B]]].
  rewrite join_split_le in J.
  exists pre, post, pl. split; [exact J|]. split; [exact B|].
  cbn [andb] in P. split; [exact P|]. rewrite N', B. reflexivity.
Qed.

End Pipe.

(* ================================================================== *)
(* The reference instances: no hypothesis left                          *)
(* ================================================================== *)

Corollary wrap_total_reference cw alnum lbc o text :
  wrap cw alnum lbc custom3 ofit_dp o text <> None.
Proof. apply wrap_total; [exact ofit_dp_ok|exact custom3_ok]. Qed.

Corollary fill_total_reference cw alnum lbc o text :
  fill cw alnum lbc custom3 ofit_dp o text <> None.
Proof. apply fill_total; [exact ofit_dp_ok|exact custom3_ok]. Qed.

Corollary wrap_indent_reference cw alnum lbc o text ls :
  wrap cw alnum lbc custom3 ofit_dp o text = Some ls ->
  forall i l, nth_error ls i = Some l ->
  exists rest, l_text l = (if (i =? 0)%nat then o_ii o else o_si o) ++ rest.
Proof. apply wrap_indent; [exact ofit_dp_ok|exact custom3_ok]. Qed.

(* ================================================================== *)
(* Non-vacuity examples                                                 *)
(* ================================================================== *)

Definition pipe_cw : char -> N := fun _ => 1.
Definition pipe_lbc : str -> list N := fun _ => [].
Definition pipe_alnum : char -> bool :=
  fun c => (97 <=? c) && (c <=? 122) || (48 <=? c) && (c <=? 57).

(* "hello wonderful-world  foo" LF " bar baz " *)
Definition pipe_p1 : str :=
  [104;101;108;108;111;32;119;111;110;100;101;114;102;117;108;45;119;111;114;108;100;32;32;102;111;111].
Definition pipe_text : str := pipe_p1 ++ [10;32;98;97;114;32;98;97;122;32].

(* width 10, indents "> " and "  ", break_words, first fit, ASCII, hyphen splitter *)
Definition pipe_o1 := mkOptions 10 LE_LF [62;32] [32;32] true FirstFit SepAscii SplHyphen.

(* P1: sentinel, hyphen split "wonderful-" | "world", then "wonderful-" broken at 8 columns *)
Example ex_pipeline_words :
  pipeline_words pipe_cw pipe_alnum pipe_lbc custom3 pipe_o1 true pipe_p1 =
  Some [mkWord [] [] [] 0;
        mkWord [104;101;108;108;111] [32] [] 5;
        mkWord [119;111;110;100;101;114;102;117] [] [] 8;
        mkWord [108;45] [] [] 2;
        mkWord [119;111;114;108;100] [32;32] [] 5;
        mkWord [102;111;111] [] [] 3].
Proof. vm_compute. reflexivity. Qed.

(* C08: "> " on the first line only, "  " on every other line, also in paragraph 2 *)
Example ex_wrap_indent :
  wrap pipe_cw pipe_alnum pipe_lbc custom3 ofit_dp pipe_o1 pipe_text =
  Some [mkLine [62;32;104;101;108;108;111] Owned;
        mkLine [32;32;119;111;110;100;101;114;102;117] Owned;
        mkLine [32;32;108;45;119;111;114;108;100] Owned;
        mkLine [32;32;102;111;111] Owned;
        mkLine [32;32;32;98;97;114;32;98;97;122] Owned].
Proof. vm_compute. reflexivity. Qed.

(* C01: no indent, every line borrows at the byte offset of its body in the text;
   the second paragraph starts at offset 27 *)
Definition pipe_o2 := mkOptions 8 LE_LF [] [] true FirstFit SepAscii SplHyphen.
Example ex_wrap_borrowed :
  wrap pipe_cw pipe_alnum pipe_lbc custom3 ofit_dp pipe_o2 pipe_text =
  Some [mkLine [104;101;108;108;111] (Borrowed 0);
        mkLine [119;111;110;100;101;114;102;117] (Borrowed 6);
        mkLine [108;45;119;111;114;108;100] (Borrowed 14);
        mkLine [102;111;111] (Borrowed 23);
        mkLine [32;98;97;114;32;98;97;122] (Borrowed 27)].
Proof. vm_compute. reflexivity. Qed.

(* optimal fit (the reference oracle) with the custom splitter: inserted hyphens are Owned *)
Definition pipe_o3 := mkOptions 8 LE_LF [] [] true (OptimalFit default_penalties) SepAscii SplCustom.
Example ex_wrap_optimal_custom :
  wrap pipe_cw pipe_alnum pipe_lbc custom3 ofit_dp pipe_o3 pipe_text =
  Some [mkLine [104;101;108;108;111] (Borrowed 0);
        mkLine [119;111;110;100;101;114;45] Owned;
        mkLine [102;117;108;45;119;111;45] Owned;
        mkLine [114;108;100;32;32;102;111;111] (Borrowed 18);
        mkLine [32;98;97;114;32;98;97;122] (Borrowed 27)].
Proof. vm_compute. reflexivity. Qed.

(* the empty paragraph without words: the degenerate case of ParaSpec *)
Definition pipe_o4 := mkOptions 0 LE_LF [] [] false FirstFit SepAscii SplNone.
Example ex_wrap_degenerate :
  wrap pipe_cw pipe_alnum pipe_lbc custom3 ofit_dp pipe_o4 [] = Some [mkLine [] BorrowedStatic].
Proof. vm_compute. reflexivity. Qed.

(* The ASCII hypothesis of the trailing-space clause is necessary.  With the Unicode
   separator "a )" is one word (UAX 14 has no break opportunity between the space and
   ')', the only opportunity is the end of text at byte 3); at width 2 break_words
   cuts it after the space, so the first line is "a " -- it ends in a space. *)
Definition pipe_o5 := mkOptions 2 LE_LF [] [] true FirstFit SepUnicode SplNone.
Example ex_unicode_trailing_space :
  wrap pipe_cw pipe_alnum (fun _ => [3]) custom3 ofit_dp pipe_o5 [97;32;41] =
  Some [mkLine [97;32] (Borrowed 0); mkLine [41] (Borrowed 2)].
Proof. vm_compute. reflexivity. Qed.

Print Assumptions ofit_dp_ok.
Print Assumptions custom3_ok.
Print Assumptions slow_path_unfold.
Print Assumptions pipeline_words_spec.
Print Assumptions reassemble_spec.
Print Assumptions reassemble_degenerate.
Print Assumptions slow_path_spec.
Print Assumptions slow_path_groups.
Print Assumptions slow_path_para.
Print Assumptions slow_path_ascii_no_trailing_sp.
Print Assumptions seg_lines_line.
Print Assumptions wrap_single_line_para.
Print Assumptions slow_path_total.
Print Assumptions wrap_single_line_total.
Print Assumptions slow_path_indent.
Print Assumptions wrap_single_line_indent.
Print Assumptions wrap_spec.
Print Assumptions wrap_total.
Print Assumptions fill_total.
Print Assumptions wrap_indent.
Print Assumptions wrap_paragraphs.
Print Assumptions wrap_total_reference.
Print Assumptions fill_total_reference.
Print Assumptions wrap_indent_reference.
