(* C04: over exact integers every entry of the minima computed by wrap_optimal_fit is a
   non-negative integer below an explicit polynomial bound (far below the largest finite
   double when all widths and penalties are usize-valued).  B1: one application of the cost
   closure; B2: the reference search [dp_minima]; B3: the model of smawk
   ([smawk_minima]); B4: the usize instance. *)
From Coq Require Import List NArith ZArith Lia Bool Arith.
From TW Require Import FirstFit OptFit Smawk.
From TW Require Import Partition Bellman SmawkShape.
Import ListNotations.

Arguments N.add : simpl never. Arguments N.sub : simpl never. Arguments N.mul : simpl never.
Arguments N.leb : simpl never. Arguments N.ltb : simpl never. Arguments N.eqb : simpl never.
Arguments Z.add : simpl never. Arguments Z.sub : simpl never. Arguments Z.mul : simpl never.
Arguments Z.ltb : simpl never. Arguments Z.gtb : simpl never. Arguments Z.max : simpl never.

Local Open Scope Z_scope.

(* ---------- the setting ---------- *)

(* a fragment whose three widths are integers in [0, W] *)
Definition frag_ok (W : Z) (f : frag NumZ) : Prop :=
  0 <= fw f <= W /\ 0 <= fws f <= W /\ 0 <= fpen f <= W.

(* penalties whose five fields are at most M *)
Definition pen_ok (M : Z) (P : penalties) : Prop :=
  Z.of_N (p_nline P) <= M /\ Z.of_N (p_overflow P) <= M /\ Z.of_N (p_frac P) <= M /\
  Z.of_N (p_short P) <= M /\ Z.of_N (p_hyphen P) <= M.

(* the largest amount one line can add to the cost *)
Definition LB (n : nat) (W M : Z) : Z :=
  3 * M + Z.max ((2 * Z.of_nat n + 3) * W * M) ((W + 1) * (W + 1)).

Lemma LB_nonneg n W M : 0 <= M -> 0 <= LB n W M.
Proof.
  intros HM. unfold LB.
  assert (0 <= (W + 1) * (W + 1)) by apply Z.square_nonneg.
  lia.
Qed.

(* ---------- generic list facts ---------- *)

Lemma Forall_nth_default {X} (Q : X -> Prop) (l : list X) (d : X) k :
  Forall Q l -> Q d -> Q (nth k l d).
Proof.
  intros Hl Hd. destruct (Nat.lt_ge_cases k (length l)) as [Hlt|Hge].
  - rewrite Forall_forall in Hl. apply Hl. apply nth_In. exact Hlt.
  - rewrite nth_overflow by exact Hge. exact Hd.
Qed.

Lemma Forall_last {X} (Q : X -> Prop) (l : list X) (d : X) :
  Forall Q l -> Q d -> Q (last l d).
Proof.
  intros Hl Hd. induction l as [|x l IH]; [exact Hd|].
  destruct l as [|y l'].
  - cbn [last]. exact (Forall_inv Hl).
  - change (last (x :: y :: l') d) with (last (y :: l') d). apply IH. exact (Forall_inv_tail Hl).
Qed.

(* ---------- prefix widths ---------- *)

Lemma pw_nth_0 (fs : list (frag NumZ)) acc : nth 0 (prefix_widths NumZ fs acc) 0 = acc.
Proof. destruct fs; reflexivity. Qed.

Lemma pw_nth_S : forall (fs : list (frag NumZ)) acc k, (k < length fs)%nat ->
  nth (S k) (prefix_widths NumZ fs acc) 0 =
  nth k (prefix_widths NumZ fs acc) 0 + (fw (nth k fs (dfrag NumZ)) + fws (nth k fs (dfrag NumZ))).
Proof.
  induction fs as [|f r IH]; intros acc k Hk; cbn [length] in Hk; [lia|].
  change (prefix_widths NumZ (f :: r) acc)
    with (acc :: prefix_widths NumZ r (acc + (fw f + fws f))).
  destruct k as [|k].
  - cbn [nth]. rewrite pw_nth_0. reflexivity.
  - change (nth (S (S k)) (acc :: prefix_widths NumZ r (acc + (fw f + fws f))) 0)
      with (nth (S k) (prefix_widths NumZ r (acc + (fw f + fws f))) 0).
    change (nth (S k) (acc :: prefix_widths NumZ r (acc + (fw f + fws f))) 0)
      with (nth k (prefix_widths NumZ r (acc + (fw f + fws f))) 0).
    change (nth (S k) (f :: r) (dfrag NumZ)) with (nth k r (dfrag NumZ)).
    apply IH. lia.
Qed.

Lemma pw_diff (fs : list (frag NumZ)) acc W : Forall (frag_ok W) fs ->
  forall j i, (i <= j <= length fs)%nat ->
  0 <= nth j (prefix_widths NumZ fs acc) 0 - nth i (prefix_widths NumZ fs acc) 0
    <= 2 * W * Z.of_nat (j - i).
Proof.
  intros Hfs. induction j as [|j IH]; intros i Hij.
  - assert (i = 0%nat) by lia. subst i. cbn [Nat.sub Z.of_nat]. lia.
  - destruct (Nat.eq_dec i (S j)) as [->|Hne].
    + rewrite Nat.sub_diag. cbn [Z.of_nat]. lia.
    + specialize (IH i ltac:(lia)).
      rewrite pw_nth_S by lia.
      assert (Hf : frag_ok W (nth j fs (dfrag NumZ))).
      { rewrite Forall_forall in Hfs. apply Hfs. apply nth_In. lia. }
      destruct Hf as [Hf1 [Hf2 _]].
      replace (Z.of_nat (S j - i)) with (Z.of_nat (j - i) + 1) by lia.
      rewrite Z.mul_add_distr_l. lia.
Qed.

(* ---------- B1, B2 ---------- *)

Section Bound.
Variable P : penalties.
Variable fs : list (frag NumZ).
Variable lws : list Z.
Variables W M : Z.
Hypothesis HW : 0 <= W.
Hypothesis HP : pen_ok M P.
Hypothesis Hfs : Forall (frag_ok W) fs.
Hypothesis Hlws : Forall (fun lw => 0 <= lw <= W) lws.

Notation n := (length fs).
Notation widths := (prefix_widths NumZ fs 0%Z).
Notation d := (0%nat, 0%Z).
Notation costZ := (cost NumZ P fs widths lws).
Notation LBn := (LB (length fs) W M).

Lemma pen_M_nonneg : 0 <= M.
Proof. destruct HP as [H _]. pose proof (N2Z.is_nonneg (p_nline P)). lia. Qed.

Lemma LBn_nonneg : 0 <= LBn.
Proof. apply LB_nonneg. exact pen_M_nonneg. Qed.

Lemma nth_width_bound k : 0 <= nth_width (Nm := NumZ) lws k <= W.
Proof.
  unfold nth_width.
  apply (Forall_nth_default (fun lw => 0 <= lw <= W)); [exact Hlws|].
  apply (Forall_last (fun lw => 0 <= lw <= W)); [exact Hlws|].
  cbn [NumZ zero]. lia.
Qed.

(* the width of the line holding fragments i .. j-1 *)
Lemma line_width_bound i j : (i <= j)%nat -> (S j <= n)%nat ->
  0 <= nth (S j) widths 0 - nth i widths 0 - fws (nth j fs (dfrag NumZ)) + fpen (nth j fs (dfrag NumZ))
    <= 2 * W * Z.of_nat n.
Proof.
  intros Hij Hj.
  pose proof (pw_diff fs 0 W Hfs j i ltac:(lia)) as Hd.
  rewrite pw_nth_S by lia.
  assert (Hf : frag_ok W (nth j fs (dfrag NumZ))).
  { rewrite Forall_forall in Hfs. apply Hfs. apply nth_In. lia. }
  destruct Hf as [Hf1 [Hf2 Hf3]].
  assert (Hn : 2 * W * (Z.of_nat (j - i) + 1) <= 2 * W * Z.of_nat n).
  { apply Z.mul_le_mono_nonneg_l; lia. }
  rewrite Z.mul_add_distr_l in Hn. lia.
Qed.

(* what one line adds to a zero accumulated cost *)
Lemma cost0_bound lnum i j : (i < j <= n)%nat -> 0 <= costZ lnum 0 i j <= LBn.
Proof.
  intros Hij. destruct j as [|j]; [lia|].
  pose proof pen_M_nonneg as HM.
  destruct HP as [Hp1 [Hp2 [Hp3 [Hp4 Hp5]]]].
  pose proof (N2Z.is_nonneg (p_nline P)) as Hn1. pose proof (N2Z.is_nonneg (p_overflow P)) as Hn2.
  pose proof (N2Z.is_nonneg (p_short P)) as Hn4. pose proof (N2Z.is_nonneg (p_hyphen P)) as Hn5.
  unfold cost. replace (S j - 1)%nat with j by lia.
  cbn [NumZ T add Num.sub mul max_ gtb ltb zero one of_N].
  pose proof (nth_width_bound lnum) as Hw.
  set (lastf := nth j fs (dfrag NumZ)).
  set (target := Z.max (nth_width (Nm := NumZ) lws lnum) 1).
  match goal with |- context [Z.gtb ?lw target] => set (line_w := lw) end.
  assert (Hlw : 0 <= line_w <= 2 * W * Z.of_nat n)
    by exact (line_width_bound i j ltac:(lia) ltac:(lia)).
  assert (Ht : 1 <= target <= W + 1) by (unfold target; lia).
  set (sh := (i + 1 =? S j)%nat && lt_div NumZ line_w target (Z.of_N (p_frac P))).
  unfold LB.
  set (A := (2 * Z.of_nat n + 3) * W * M). set (B := (W + 1) * (W + 1)).
  assert (HWM : 0 <= W * M) by (apply Z.mul_nonneg_nonneg; lia).
  assert (HA : 2 * W * Z.of_nat n * M <= A).
  { unfold A.
    replace ((2 * Z.of_nat n + 3) * W * M) with (2 * W * Z.of_nat n * M + 3 * (W * M)) by ring. lia. }
  assert (HA0 : 0 <= A).
  { unfold A. apply Z.mul_nonneg_nonneg; [apply Z.mul_nonneg_nonneg|]; lia. }
  assert (HB0 : 0 <= B) by (unfold B; apply Z.square_nonneg).
  match goal with |- context [if fpen lastf >? 0 then ?x + _ else _] => set (c1 := x) end.
  assert (Hc1 : 0 <= c1 <= 2 * M + Z.max A B).
  { unfold c1. destruct (Z.gtb_spec line_w target) as [Hgt|Hle].
    - assert (Hov : 0 <= (line_w - target) * Z.of_N (p_overflow P) <= 2 * W * Z.of_nat n * M).
      { split; [apply Z.mul_nonneg_nonneg; lia|]. apply Z.mul_le_mono_nonneg; lia. }
      lia.
    - destruct (S j <? n)%nat.
      + assert (Hg : 0 <= (target - line_w) * (target - line_w) <= B).
        { split; [apply Z.square_nonneg|]. unfold B. apply Z.mul_le_mono_nonneg; lia. }
        lia.
      + destruct sh; lia. }
  destruct (fpen lastf >? 0); lia.
Qed.

(* B1.  One application of the closure adds between 0 and LB to the accumulated cost
   (the hypothesis 0 <= mi of the brief is not needed: [mi] enters additively). *)
Theorem cost_bound lnum mi i j : (i < j <= n)%nat ->
  mi <= costZ lnum mi i j <= mi + LBn.
Proof.
  intros Hij. rewrite cost_shift. pose proof (cost0_bound lnum i j Hij). lia.
Qed.

Lemma step_bound (mi c : Z) (i j : nat) : (i < j)%nat ->
  0 <= mi <= Z.of_nat i * LBn -> mi <= c <= mi + LBn -> 0 <= c <= Z.of_nat j * LBn.
Proof.
  intros Hij Hmi Hc. pose proof LBn_nonneg as HL.
  assert (H : (Z.of_nat i + 1) * LBn <= Z.of_nat j * LBn).
  { apply Z.mul_le_mono_nonneg_r; lia. }
  rewrite Z.mul_add_distr_r in H. lia.
Qed.

(* B2 for any state of the reference search satisfying the invariant of Bellman.v *)
Lemma Inv_bound k (minima : list (nat * Z)) lnums : Inv P fs lws k minima lnums -> (k <= S n)%nat ->
  forall j, (j < k)%nat -> 0 <= snd (nth j minima d) <= Z.of_nat j * LBn.
Proof.
  intros [Hlm [Hll [Hk [Hm0 [Hl0 Hent]]]]] Hkn.
  intros j. induction j as [j IH] using (well_founded_induction lt_wf). intros Hj.
  destruct j as [|j].
  - rewrite Hm0. cbn [snd Z.of_nat]. lia.
  - destruct (Hent (S j) ltac:(lia)) as [Hlt [Hc _]].
    set (i := fst (nth (S j) minima d)) in *.
    rewrite Hc. unfold cst.
    apply (step_bound (snd (nth i minima d)) _ i (S j) Hlt).
    + apply IH; lia.
    + apply cost_bound. lia.
Qed.

Lemma dp_minima_bound_nth : forall j, (j <= n)%nat ->
  0 <= snd (nth j (dp_minima NumZ P fs lws) d) <= Z.of_nat j * LBn.
Proof.
  destruct (dp_minima_inv P fs lws) as [lnums HI]. intros j Hj.
  apply (Inv_bound (S n) _ lnums HI); lia.
Qed.

Lemma bound_nth_error (minima : list (nat * Z)) (L : Z) :
  (forall j, (j < length minima)%nat -> 0 <= snd (nth j minima d) <= Z.of_nat j * L) ->
  forall j i c, nth_error minima j = Some (i, c) -> 0 <= c <= Z.of_nat j * L.
Proof.
  intros H j i c E.
  assert (Hj : (j < length minima)%nat) by (apply nth_error_Some; rewrite E; discriminate).
  specialize (H j Hj). rewrite (nth_error_nth _ _ d E) in H. exact H.
Qed.

(* B2.  Every entry of the reference minima is a non-negative integer at most j * LB *)
Theorem dp_minima_bound : forall j i c,
  nth_error (dp_minima NumZ P fs lws) j = Some (i, c) -> 0 <= c <= Z.of_nat j * LBn.
Proof.
  apply bound_nth_error. intros j Hj. apply dp_minima_bound_nth.
  destruct (dp_minima_inv P fs lws) as [lnums [Hlm _]].
  apply le_S_n. rewrite <- Hlm. exact Hj.
Qed.

End Bound.

(* ---------- B4: the usize instance ---------- *)

Lemma LB_mono n W M B : 0 <= W <= B -> 0 <= M <= B -> Z.of_nat n <= B ->
  Z.of_nat n * LB n W M <= B * (3 * B + ((2 * B + 3) * B * B + (B + 1) * (B + 1))).
Proof.
  intros HW HM Hn. pose proof (Nat2Z.is_nonneg n) as Hn0. unfold LB.
  assert (H1 : (2 * Z.of_nat n + 3) * W * M <= (2 * B + 3) * B * B).
  { assert (H0 : 0 <= (2 * Z.of_nat n + 3) * W) by (apply Z.mul_nonneg_nonneg; lia).
    assert (H1 : (2 * Z.of_nat n + 3) * W <= (2 * B + 3) * B) by (apply Z.mul_le_mono_nonneg; lia).
    apply Z.mul_le_mono_nonneg; [exact H0|exact H1|lia|lia]. }
  assert (H2 : (W + 1) * (W + 1) <= (B + 1) * (B + 1)).
  { apply Z.mul_le_mono_nonneg; lia. }
  assert (H3 : 0 <= (2 * B + 3) * B * B).
  { apply Z.mul_nonneg_nonneg; [apply Z.mul_nonneg_nonneg|]; lia. }
  assert (H4 : 0 <= (B + 1) * (B + 1)) by apply Z.square_nonneg.
  assert (H5 : 0 <= (W + 1) * (W + 1)) by apply Z.square_nonneg.
  apply Z.mul_le_mono_nonneg; lia.
Qed.

(* B4.  With usize-valued widths, penalties and fragment count the bound on the last
   (largest) entry is below 2^300, far below the largest finite double. *)
Theorem usize_bound n W M : 0 <= W <= 2 ^ 64 -> 0 <= M <= 2 ^ 64 -> Z.of_nat n <= 2 ^ 64 ->
  Z.of_nat n * LB n W M < 2 ^ 300.
Proof.
  intros HW HM Hn.
  eapply Z.le_lt_trans; [apply (LB_mono n W M (2 ^ 64)); assumption|].
  apply Z.ltb_lt. vm_compute. reflexivity.
Qed.

(* every column index is at most n, so every entry is below 2^300 *)
Corollary usize_bound_col n W M j : 0 <= W <= 2 ^ 64 -> 0 <= M <= 2 ^ 64 -> Z.of_nat n <= 2 ^ 64 ->
  (j <= n)%nat -> Z.of_nat j * LB n W M < 2 ^ 300.
Proof.
  intros HW HM Hn Hj. eapply Z.le_lt_trans; [|apply (usize_bound n W M HW HM Hn)].
  apply Z.mul_le_mono_nonneg_r; [apply LB_nonneg; lia|lia].
Qed.

(* ---------- B3: the model of smawk ---------- *)

Section SmawkBound.
Variable eqT : Z -> Z -> bool.
Variable P : penalties.
Variable fs : list (frag NumZ).
Variable lws : list Z.
Variables W M : Z.
Hypothesis HW : 0 <= W.
Hypothesis HP : pen_ok M P.
Hypothesis Hfs : Forall (frag_ok W) fs.
Hypothesis Hlws : Forall (fun lw => 0 <= lw <= W) lws.

Notation n := (length fs).
Notation d := (0%nat, 0%Z).
Notation LBn := (LB (length fs) W M).
Notation size := (S (length fs)).
Notation clo := (smawk_closure NumZ P fs lws).

(* every stored value, at whatever index (beyond the end [nth] returns (0, 0)), is within
   the bound for its column *)
Definition Bnd (result : list (nat * Z)) : Prop :=
  forall j, 0 <= snd (nth j result d) <= Z.of_nat j * LBn.

Lemma Bnd_default j : 0 <= snd d <= Z.of_nat j * LBn.
Proof.
  cbn [snd]. split; [lia|]. apply Z.mul_nonneg_nonneg; [lia|].
  apply (LBn_nonneg P fs W M HP).
Qed.

(* each value the closure can produce from a bounded state is bounded *)
Lemma closure_bound (result : list (nat * Z)) i j : Bnd result -> (i < j)%nat -> (j < size)%nat ->
  0 <= clo result i j <= Z.of_nat j * LBn.
Proof.
  intros HB Hij Hj. unfold smawk_closure.
  change (0%nat, zero NumZ) with d. change (zero NumZ) with 0.
  apply (step_bound P fs W M HP (snd (nth i result d)) _ i j Hij (HB i)).
  apply (cost_bound P fs lws W M HW HP Hfs Hlws). lia.
Qed.

Lemma m_at_bound (result : list (nat * Z)) i j v : Bnd result ->
  m_at NumZ clo size result i j = Some v -> 0 <= v <= Z.of_nat j * LBn.
Proof.
  intros HB E. pose proof (m_at_some NumZ clo size result i j v E) as [Hij Hj].
  rewrite (m_at_defined NumZ clo size result i j Hij Hj) in E. injection E as <-.
  apply closure_bound; assumption.
Qed.

Lemma nth_set_res (Q : nat * Z -> Prop) : forall (l : list (nat * Z)) k v j,
  Q (nth j l d) -> (j = k -> Q v) -> Q (nth j (set_res NumZ l k v) d).
Proof.
  induction l as [|x l IH]; intros k v j H1 H2; cbn [set_res]; [exact H1|].
  destruct k as [|k]; destruct j as [|j]; cbn [nth] in *.
  - apply H2. reflexivity.
  - exact H1.
  - exact H1.
  - apply IH; [exact H1|]. intros E. apply H2. rewrite E. reflexivity.
Qed.

Lemma Bnd_set_res (result : list (nat * Z)) k p v : Bnd result ->
  0 <= v <= Z.of_nat k * LBn -> Bnd (set_res NumZ result k (p, v)).
Proof.
  intros HB Hv j.
  apply (nth_set_res (fun x => 0 <= snd x <= Z.of_nat j * LBn)).
  - apply HB.
  - intros ->. exact Hv.
Qed.

Lemma Bnd_snoc (result : list (nat * Z)) p v : Bnd result ->
  0 <= v <= Z.of_nat (length result) * LBn -> Bnd (result ++ [(p, v)]).
Proof.
  intros HB Hv j. destruct (Nat.lt_ge_cases j (length result)) as [Hlt|Hge].
  - rewrite app_nth1 by exact Hlt. apply HB.
  - rewrite app_nth2 by exact Hge.
    destruct (j - length result)%nat as [|r] eqn:Er; cbn [nth].
    + assert (j = length result) by lia. subst j. exact Hv.
    + destruct r; apply Bnd_default.
Qed.

(* case 1 of the loop: entries are appended at their own column or replaced by values
   of the same form *)
Lemma merge_bnd minima : forall k a (result result' : list (nat * Z)),
  merge_cols NumZ clo size (seq a k) minima result = Some result' ->
  (a <= length result)%nat -> Bnd result ->
  Bnd result' /\ (length result <= length result')%nat.
Proof.
  induction k as [|k IH]; intros a result result' Hm Ha HB; cbn [seq merge_cols] in Hm;
    cbn [NumZ T] in Hm.
  - injection Hm as <-. split; [exact HB|lia].
  - destruct (m_at NumZ clo size result (nth a minima 0%nat) a) as [v|] eqn:Ev; [|discriminate].
    pose proof (m_at_bound result _ a v HB Ev) as Hv.
    destruct (Nat.leb_spec (length result) a) as [Hle|Hgt].
    + assert (Hlen : length result = a) by lia.
      apply IH in Hm.
      * rewrite app_length in Hm. cbn [length] in Hm. destruct Hm as [Hb Hl]. split; [exact Hb|lia].
      * rewrite app_length. cbn [length]. lia.
      * apply Bnd_snoc; [exact HB|]. rewrite Hlen. exact Hv.
    + destruct (nth_error result a) as [[o old]|] eqn:En.
      * destruct (ltb NumZ v old).
        -- pose proof (set_res_length NumZ result a (nth a minima 0%nat, v)) as Hsl.
           cbn [NumZ T] in Hsl.
           apply IH in Hm.
           ++ rewrite Hsl in Hm. exact Hm.
           ++ rewrite Hsl. lia.
           ++ apply Bnd_set_res; [exact HB|exact Hv].
        -- apply IH in Hm; [|lia|exact HB]. exact Hm.
      * apply IH in Hm; [|lia|exact HB]. exact Hm.
Qed.

Lemma online_step_bnd st st' :
  inv NumZ 0 size st -> Bnd (fst (fst (fst st))) ->
  online_step NumZ eqT clo size st = Some st' -> Bnd (fst (fst (fst st'))).
Proof.
  destruct st as [[[result finished] base] tentative].
  intros (Hb & Hft & Htl & Hls & Hs) HB Hstep. cbn [fst snd] in HB |- *.
  unfold online_step in Hstep. cbn [NumZ T] in Htl.
  destruct (Nat.ltb_spec tentative (S finished)) as [Hlt|Hge].
  - cbv zeta in Hstep.
    destruct (smawk_inner _ _ _ _ _ _ _) as [minima|]; [|discriminate].
    destruct (merge_cols NumZ clo size _ minima result) as [result'|] eqn:Em; [|discriminate].
    injection Hstep as <-. cbn [fst snd].
    apply merge_bnd in Em; [apply Em|lia|exact HB].
  - destruct (m_at NumZ clo size result (S finished - 1) (S finished)) as [diag|] eqn:Ed; [|discriminate].
    destruct (nth_error result (S finished)) as [[o ri]|] eqn:Er; [|discriminate].
    pose proof (m_at_bound result _ _ diag HB Ed) as Hdiag.
    destruct (ltb NumZ diag ri).
    + injection Hstep as <-. cbn [fst snd]. apply Bnd_set_res; [exact HB|exact Hdiag].
    + destruct (m_at NumZ clo size result (S finished - 1) tentative) as [v|]; [|discriminate].
      destruct (nth_error result tentative) as [[o2 rt]|]; [|discriminate].
      destruct (geb NumZ v rt); injection Hstep as <-; cbn [fst snd]; exact HB.
Qed.

Lemma online_loop_bnd : forall k st res,
  inv NumZ 0 size st -> Bnd (fst (fst (fst st))) ->
  (snd (fst (fst st)) + k = size - 1)%nat ->
  online_loop NumZ eqT clo k size st = Some res -> Bnd res.
Proof.
  induction k as [|k IH]; intros st res Hinv HB Hk Hl; cbn [online_loop] in Hl.
  - injection Hl as <-. exact HB.
  - destruct (online_step NumZ eqT clo size st) as [st'|] eqn:Es; [|discriminate].
    destruct (online_step_inv NumZ eqT clo 0 size st st' Hinv Es ltac:(lia)) as [Hinv' Hf].
    apply (IH st' res Hinv'); [|lia|exact Hl].
    apply (online_step_bnd st st' Hinv HB Es).
Qed.

(* B3.  Every entry of the minima computed by the model of smawk is a non-negative
   integer at most j * LB; [eqT] is arbitrary (it only influences which row wins a tie) *)
Theorem smawk_minima_bound minima :
  smawk_minima NumZ eqT P fs lws = Some minima ->
  forall j i c, nth_error minima j = Some (i, c) -> 0 <= c <= Z.of_nat j * LBn.
Proof.
  unfold smawk_minima, online_column_minima. intros H.
  apply bound_nth_error. intros j _.
  apply (online_loop_bnd (size - 1) ([(0%nat, 0)], 0%nat, 0%nat, 0%nat) minima).
  - cbn [inv length]. repeat split; try lia. intros j' p c Hj E.
    destruct j' as [|j']; [lia|]. destruct j'; discriminate.
  - cbn [fst]. intros k. destruct k as [|[|k]]; cbn [nth]; apply Bnd_default.
  - cbn [fst snd]. lia.
  - exact H.
Qed.

(* together with totality: the model always returns, and what it returns is bounded *)
Corollary smawk_minima_total_bounded :
  exists minima, smawk_minima NumZ eqT P fs lws = Some minima /\
    length minima = size /\
    forall j i c, nth_error minima j = Some (i, c) ->
      (j <= n)%nat /\ 0 <= c <= Z.of_nat j * LBn.
Proof.
  destruct (smawk_minima NumZ eqT P fs lws) as [minima|] eqn:E.
  - exists minima. split; [reflexivity|].
    destruct (smawk_minima_ok NumZ eqT P fs lws minima E) as [Hlen _].
    split; [exact Hlen|]. intros j i c Ej. split.
    + assert (Hj : (j < length minima)%nat) by (apply nth_error_Some; rewrite Ej; discriminate).
      rewrite Hlen in Hj. lia.
    + exact (smawk_minima_bound minima E j i c Ej).
  - exfalso. exact (smawk_minima_total NumZ eqT P fs lws E).
Qed.

End SmawkBound.

(* ---------- the usize instance of B2 and B3 ---------- *)

Section Usize.
Variable P : penalties.
Variable fs : list (frag NumZ).
Variable lws : list Z.
Hypothesis HP : pen_ok (2 ^ 64) P.
Hypothesis Hfs : Forall (frag_ok (2 ^ 64)) fs.
Hypothesis Hlws : Forall (fun lw => 0 <= lw <= 2 ^ 64) lws.
Hypothesis Hn : Z.of_nat (length fs) <= 2 ^ 64.

Lemma pow64_nonneg : 0 <= 2 ^ 64.
Proof. apply Z.pow_nonneg. lia. Qed.

Lemma usize_entry (minima : list (nat * Z)) : length minima = S (length fs) ->
  (forall j i c, nth_error minima j = Some (i, c) ->
     0 <= c <= Z.of_nat j * LB (length fs) (2 ^ 64) (2 ^ 64)) ->
  forall j i c, nth_error minima j = Some (i, c) -> 0 <= c < 2 ^ 300.
Proof.
  intros Hlen H j i c E. pose proof (H j i c E) as Hc.
  assert (Hj : (j < length minima)%nat) by (apply nth_error_Some; rewrite E; discriminate).
  rewrite Hlen in Hj. pose proof pow64_nonneg as Hp.
  pose proof (usize_bound_col (length fs) (2 ^ 64) (2 ^ 64) j ltac:(lia) ltac:(lia) Hn ltac:(lia)) as Hu.
  lia.
Qed.

(* the reference search never produces a value that a double cannot hold *)
Theorem dp_minima_usize : forall j i c,
  nth_error (dp_minima NumZ P fs lws) j = Some (i, c) -> 0 <= c < 2 ^ 300.
Proof.
  apply usize_entry.
  - destruct (dp_minima_ok P fs lws) as [Hlen _]. exact Hlen.
  - apply (dp_minima_bound P fs lws (2 ^ 64) (2 ^ 64) pow64_nonneg HP Hfs Hlws).
Qed.

(* neither does the model of smawk *)
Theorem smawk_minima_usize eqT minima : smawk_minima NumZ eqT P fs lws = Some minima ->
  forall j i c, nth_error minima j = Some (i, c) -> 0 <= c < 2 ^ 300.
Proof.
  intros E. apply usize_entry.
  - destruct (smawk_minima_ok NumZ eqT P fs lws minima E) as [Hlen _]. exact Hlen.
  - apply (smawk_minima_bound eqT P fs lws (2 ^ 64) (2 ^ 64) pow64_nonneg HP Hfs Hlws minima E).
Qed.
End Usize.

(* ---------- non-vacuity ---------- *)

(* the six fragments of Bellman.v, widths [10; 8], default penalties: W = 10, M = 2500 *)
Example ex_hyps :
  pen_ok 2500 default_penalties /\ Forall (frag_ok 10) ex1_fs /\
  Forall (fun lw => 0 <= lw <= 10) [10; 8] /\ LB (length ex1_fs) 10 2500 = 382500.
Proof.
  split; [|split; [|split]].
  - unfold pen_ok, default_penalties. cbn [p_nline p_overflow p_frac p_short p_hyphen]. lia.
  - unfold ex1_fs, ex_frag. repeat constructor; cbn [fw fws fpen]; lia.
  - repeat constructor; lia.
  - vm_compute. reflexivity.
Qed.

Example ex_dp_bound : forall j i c,
  nth_error (dp_minima NumZ default_penalties ex1_fs [10; 8]) j = Some (i, c) ->
  0 <= c <= Z.of_nat j * 382500.
Proof.
  destruct ex_hyps as [H1 [H2 [H3 H4]]]. rewrite <- H4.
  apply (dp_minima_bound default_penalties ex1_fs [10; 8] 10 2500 ltac:(lia) H1 H2 H3).
Qed.

Example ex_smawk_bound : forall minima,
  smawk_minima NumZ Z.eqb default_penalties ex1_fs [10; 8] = Some minima ->
  forall j i c, nth_error minima j = Some (i, c) -> 0 <= c <= Z.of_nat j * 382500.
Proof.
  destruct ex_hyps as [H1 [H2 [H3 H4]]]. rewrite <- H4.
  apply (smawk_minima_bound Z.eqb default_penalties ex1_fs [10; 8] 10 2500 ltac:(lia) H1 H2 H3).
Qed.

(* the values themselves (the last entry is 4008, the bound for it 6 * 382500) *)
Example ex_values :
  smawk_minima NumZ Z.eqb default_penalties ex1_fs [10; 8] =
    Some [(0%nat, 0); (0%nat, 1036); (0%nat, 1004); (2%nat, 2013); (2%nat, 2004); (4%nat, 3008); (5%nat, 4008)].
Proof. vm_compute. reflexivity. Qed.

(* the n * W * M term of LB is needed: one overlong line of k fragments of width W on a
   zero-width line costs about k * W * M.  Here three fragments of width 10 with
   penalties 2500 everywhere: the single line (0, 3) would cost 2500 + 29 * 2500 *)
Example ex_overflow_term :
  cost NumZ (mkPen 2500 2500 2500 2500 2500)
       [ex_frag 10 0 0; ex_frag 10 0 0; ex_frag 10 0 0]
       (prefix_widths NumZ [ex_frag 10 0 0; ex_frag 10 0 0; ex_frag 10 0 0] 0) [0] 0 0 0 3 = 75000 /\
  LB 3 10 2500 = 232500.
Proof. vm_compute. split; reflexivity. Qed.

(* the (W + 1)^2 term is needed as well: a short line before the last one costs
   gap^2 with gap up to max W 1 *)
Example ex_gap_term :
  cost NumZ (mkPen 0 0 0 0 0)
       [ex_frag 0 0 0; ex_frag 0 0 0]
       (prefix_widths NumZ [ex_frag 0 0 0; ex_frag 0 0 0] 0) [10] 0 0 0 1 = 100 /\
  LB 2 10 0 = 121.
Proof. vm_compute. split; reflexivity. Qed.

Print Assumptions cost_bound.
Print Assumptions dp_minima_bound.
Print Assumptions smawk_minima_bound.
Print Assumptions smawk_minima_total_bounded.
Print Assumptions usize_bound.
Print Assumptions usize_bound_col.
Print Assumptions dp_minima_usize.
Print Assumptions smawk_minima_usize.
Print Assumptions ex_hyps.
Print Assumptions ex_dp_bound.
Print Assumptions ex_smawk_bound.
Print Assumptions ex_values.
Print Assumptions ex_overflow_term.
Print Assumptions ex_gap_term.
