(* C14, the Unicode separator: the hypothesis [refind_b] of [fill_idem_refind] split into
     (L) LOCALITY, a condition on the line-break oracle: the fragments found in a
         first-pass line taken on its own are the fragments that were placed on that
         line (the last one without its whitespace), and the line does not end in a space;
     (F) the property's own condition: no fragment had to be force-broken.

   L1  [word_eqb], [words_eqb], [strip_last_ws]; the checks [local_b] and [no_forced_b]
       with their specifications [local_b_spec], [no_forced_b_spec]
   L2  [local_refind]           : local_b -> refind_b             (EmptyIndents only)
       [local_no_forced_refind] : the statement of the task, with all its hypotheses
   L3  [fill_idem_local]
   L3' what (F) buys: [no_forced_break_id] (break_words does nothing), and
       [local_nobreak] : under (F), locality may be checked with break_words switched OFF
       ([o_nobreak]), i.e. on find_words + split_words alone; [fill_idem_local_nobreak]
   L4  examples by vm_compute.

   FINDING.  (F) is NOT needed for L2: [fits1] says nothing about the first fragment of a
   line, and every first-fit group passes it ([group_fits]) whether or not a fragment is
   over-wide; so locality alone gives [refind_b] ([local_refind]).  (F) does real work only
   in L3': it allows the locality condition to be stated for the pipeline WITHOUT
   break_words, and there it cannot be dropped ([ex_nobreak_needs_F]).

   READING OF (F).  The fragments returned by [pipeline_words] are those AFTER break_words;
   with [o_bw o = true] they (almost) always fit, so "every fragment of pipeline_words fits"
   would be vacuous exactly where force-breaking happens.  [no_forced_b] therefore looks at
   the fragments BEFORE break_words (the pipeline of [o_nobreak o]): every fragment, as found
   and split, has [w_width <= o_width o].  With [o_bw o = true] this says that break_words
   was the identity (nothing was force-broken); with [o_bw o = false] it says that no
   fragment overflows a line on its own. *)
From Coq Require Import Lia ZArith.
From TW Require Import Wrap Custom.
From TW Require Import EscFacts Partition Greedy Lossless SplitBreak Bellman Paragraphs Pipeline WidthBound.
From TW Require Import Idempotent IdemUnicode.

Arguments N.add : simpl never.
Arguments N.sub : simpl never.
Arguments N.mul : simpl never.
Arguments N.leb : simpl never.
Arguments N.ltb : simpl never.
Arguments N.eqb : simpl never.

(* ================================================================== *)
(* L1a: boolean equality of fragments, "last word without whitespace"   *)
(* ================================================================== *)

Lemma str_eqb_eq : forall a b, str_eqb a b = true <-> a = b.
Proof.
  induction a as [|x a IH]; intros [|y b]; cbn [str_eqb]; try (split; congruence).
  rewrite andb_true_iff, N.eqb_eq, IH. split.
  - intros [-> ->]. reflexivity.
  - intros E. injection E as -> ->. split; reflexivity.
Qed.

Definition word_eqb (a b : word) : bool :=
  str_eqb (w_word a) (w_word b) && str_eqb (w_ws a) (w_ws b) &&
  str_eqb (w_pen a) (w_pen b) && (w_width a =? w_width b).

Lemma word_eqb_eq a b : word_eqb a b = true <-> a = b.
Proof.
  unfold word_eqb. rewrite !andb_true_iff, !str_eqb_eq, N.eqb_eq.
  destruct a as [a1 a2 a3 a4], b as [b1 b2 b3 b4]. cbn [w_word w_ws w_pen w_width]. split.
  - intros [[[-> ->] ->] ->]. reflexivity.
  - intros E. injection E as -> -> -> ->. repeat split.
Qed.

Fixpoint words_eqb (a b : list word) : bool :=
  match a, b with
  | [], [] => true
  | x :: a', y :: b' => word_eqb x y && words_eqb a' b'
  | _, _ => false
  end.

Lemma words_eqb_eq : forall a b, words_eqb a b = true <-> a = b.
Proof.
  induction a as [|x a IH]; intros [|y b]; cbn [words_eqb]; try (split; congruence).
  rewrite andb_true_iff, word_eqb_eq, IH. split.
  - intros [-> ->]. reflexivity.
  - intros E. injection E as -> ->. split; reflexivity.
Qed.

(* the group [g] with the whitespace of its last fragment removed *)
Fixpoint strip_last_ws (g : list word) : list word :=
  match g with
  | [] => []
  | x :: r => match r with [] => [nows x] | _ :: _ => x :: strip_last_ws r end
  end.

Lemma strip_last_ws_snoc : forall init lw, strip_last_ws (init ++ [lw]) = init ++ [nows lw].
Proof.
  induction init as [|x r IH]; intros lw; [reflexivity|].
  cbn [app strip_last_ws]. destruct (r ++ [lw]) as [|y r'] eqn:E.
  - destruct r; discriminate.
  - rewrite <- E, IH. reflexivity.
Qed.

Lemma body_nil_inv g : body g <> [] -> exists init lw, g = init ++ [lw].
Proof.
  intros H. destruct (nil_or_last _ g) as [->|[init [lw E]]].
  - exfalso. apply H. reflexivity.
  - exists init, lw. exact E.
Qed.

(* the options with break_words switched off *)
Definition o_nobreak (o : options) : options :=
  mkOptions (o_width o) (o_le o) (o_ii o) (o_si o) false (o_alg o) (o_sep o) (o_spl o).

Section LocalU.
Variable cw : char -> N.
Variable alnum : char -> bool.
Variable lbc : str -> list N.
Variable custom_sp : str -> list N.

Notation pwords := (pipeline_words cw alnum lbc custom_sp).

(* ================================================================== *)
(* L1b: the two checks                                                  *)
(* ================================================================== *)

(* (L) the second pass on the body of the group [g], taken as a paragraph of its own,
   finds the fragments of [g], the last one without its whitespace *)
Definition local_line_b (o : options) (first' : bool) (g : list word) : bool :=
  match pwords o first' (body g) with
  | None => false
  | Some fs => words_eqb fs (strip_last_ws g)
  end.

Definition local_group_b (o : options) (g : list word) : bool :=
  let L := body g in
  match L with
  | [] => true
  | _ :: _ => negb (ends_sp L) && local_line_b o true g && local_line_b o false g
  end.

Definition local_para_b (o : options) (first : bool) (p : str) : bool :=
  match pwords o first p with
  | None => false
  | Some bws => forallb (local_group_b o) (ff_groups cw o first bws)
  end.

Fixpoint local_paras_b (o : options) (first : bool) (ps : list str) : bool :=
  match ps with
  | [] => true
  | p :: r => local_para_b o first p && local_paras_b o false r
  end.

Definition local_b (o : options) (t : str) : bool :=
  local_paras_b o true (split_le (o_le o) t).

(* (F) every fragment of the paragraph, as found and split and BEFORE break_words, fits
   the line width on its own *)
Definition no_forced_para_b (o : options) (first : bool) (p : str) : bool :=
  match pwords (o_nobreak o) first p with
  | None => false
  | Some sws => forallb (fun w => w_width w <=? o_width o) sws
  end.

Fixpoint no_forced_paras_b (o : options) (first : bool) (ps : list str) : bool :=
  match ps with
  | [] => true
  | p :: r => no_forced_para_b o first p && no_forced_paras_b o false r
  end.

Definition no_forced_b (o : options) (t : str) : bool :=
  no_forced_paras_b o true (split_le (o_le o) t).

(* ---- what the checks mean ---- *)

Definition LocalGroup (o : options) (g : list word) : Prop :=
  body g <> [] ->
  no_trailing_sp (body g) /\
  forall first', pwords o first' (body g) = Some (strip_last_ws g).

Definition LocalPara (o : options) (first : bool) (p : str) : Prop :=
  exists bws, pwords o first p = Some bws /\
              Forall (LocalGroup o) (ff_groups cw o first bws).

Fixpoint LocalParas (o : options) (first : bool) (ps : list str) : Prop :=
  match ps with
  | [] => True
  | p :: r => LocalPara o first p /\ LocalParas o false r
  end.

Definition NoForcedPara (o : options) (first : bool) (p : str) : Prop :=
  exists sws, pwords (o_nobreak o) first p = Some sws /\
              Forall (fun w => w_width w <= o_width o) sws.

Fixpoint NoForcedParas (o : options) (first : bool) (ps : list str) : Prop :=
  match ps with
  | [] => True
  | p :: r => NoForcedPara o first p /\ NoForcedParas o false r
  end.

Lemma local_line_b_spec o first' g :
  local_line_b o first' g = true <-> pwords o first' (body g) = Some (strip_last_ws g).
Proof.
  unfold local_line_b. destruct (pwords o first' (body g)) as [fs|].
  - rewrite words_eqb_eq. split; [intros ->; reflexivity|congruence].
  - split; discriminate.
Qed.

Lemma local_group_b_spec o g : local_group_b o g = true <-> LocalGroup o g.
Proof.
  unfold local_group_b, LocalGroup. cbv zeta.
  destruct (body g) as [|c0 b0] eqn:Eb.
  - split; [intros _ H; congruence|reflexivity].
  - rewrite <- Eb.
    rewrite !andb_true_iff, !local_line_b_spec, negb_true_iff, ends_sp_spec. split.
    + intros [[H1 H2] H3] _. split; [exact H1|]. intros [|]; assumption.
    + intros H. destruct H as [H1 H2]; [rewrite Eb; discriminate|].
      split; [split|]; [exact H1|apply H2|apply H2].
Qed.

Lemma local_para_b_spec o first p : local_para_b o first p = true <-> LocalPara o first p.
Proof.
  unfold local_para_b, LocalPara. destruct (pwords o first p) as [bws|].
  - rewrite forallb_forall. split.
    + intros H. exists bws. split; [reflexivity|]. apply Forall_forall. intros g Hg.
      apply local_group_b_spec. exact (H g Hg).
    + intros [bws' [E H]]. injection E as <-. rewrite Forall_forall in H.
      intros g Hg. apply local_group_b_spec. exact (H g Hg).
  - split; [discriminate|]. intros [bws [E _]]. discriminate.
Qed.

Lemma local_paras_b_spec o : forall ps first,
  local_paras_b o first ps = true <-> LocalParas o first ps.
Proof.
  induction ps as [|p r IH]; intros first; cbn [local_paras_b LocalParas].
  - split; intros _; [exact I|reflexivity].
  - rewrite andb_true_iff, local_para_b_spec, IH. reflexivity.
Qed.

Theorem local_b_spec o t :
  local_b o t = true <-> LocalParas o true (split_le (o_le o) t).
Proof. apply local_paras_b_spec. Qed.

Lemma no_forced_para_b_spec o first p :
  no_forced_para_b o first p = true <-> NoForcedPara o first p.
Proof.
  unfold no_forced_para_b, NoForcedPara. destruct (pwords (o_nobreak o) first p) as [sws|].
  - rewrite forallb_forall. split.
    + intros H. exists sws. split; [reflexivity|]. apply Forall_forall. intros w Hw.
      apply N.leb_le. exact (H w Hw).
    + intros [sws' [E H]]. injection E as <-. rewrite Forall_forall in H.
      intros w Hw. apply N.leb_le. exact (H w Hw).
  - split; [discriminate|]. intros [sws [E _]]. discriminate.
Qed.

Lemma no_forced_paras_b_spec o : forall ps first,
  no_forced_paras_b o first ps = true <-> NoForcedParas o first ps.
Proof.
  induction ps as [|p r IH]; intros first; cbn [no_forced_paras_b NoForcedParas].
  - split; intros _; [exact I|reflexivity].
  - rewrite andb_true_iff, no_forced_para_b_spec, IH. reflexivity.
Qed.

Theorem no_forced_b_spec o t :
  no_forced_b o t = true <-> NoForcedParas o true (split_le (o_le o) t).
Proof. apply no_forced_paras_b_spec. Qed.

(* ================================================================== *)
(* L2: locality gives the re-find check                                 *)
(* ================================================================== *)

Lemma LocalGroup_Refind o first bws g : EmptyIndents o ->
  In g (ff_groups cw o first bws) -> LocalGroup o g ->
  RefindGroup cw alnum lbc custom_sp o g.
Proof.
  intros He Hin HL Hbne. destruct (HL Hbne) as [Hnt Hfs]. split; [exact Hnt|].
  intros first'. exists (strip_last_ws g). split; [apply Hfs|].
  destruct (body_nil_inv g Hbne) as [init [lw Eg]].
  destruct (In_nth_error _ _ Hin) as [k Hk].
  pose proof (group_fits cw o first bws k g He Hk) as Hfit.
  rewrite Eg in Hfit |- *. rewrite strip_last_ws_snoc. split; [|split].
  - intros E. destruct init; discriminate.
  - apply fits1_nows. exact Hfit.
  - apply lastw_ws_nows.
Qed.

Lemma LocalPara_Refind o first p : EmptyIndents o ->
  LocalPara o first p -> RefindPara cw alnum lbc custom_sp o first p.
Proof.
  intros He [bws [E HF]]. exists bws. split; [exact E|].
  rewrite Forall_forall in HF |- *. intros g Hg.
  exact (LocalGroup_Refind o first bws g He Hg (HF g Hg)).
Qed.

Lemma LocalParas_Refind o : EmptyIndents o -> forall ps first,
  LocalParas o first ps -> RefindParas cw alnum lbc custom_sp o first ps.
Proof.
  intros He. induction ps as [|p r IH]; intros first H; [exact I|].
  cbn [LocalParas RefindParas] in H |- *. destruct H as [H1 H2]. split.
  - exact (LocalPara_Refind o first p He H1).
  - exact (IH false H2).
Qed.

(* L2, as strong as it is true: locality alone, and of the hypotheses on the options only
   the empty indents (they make every line as wide as [o_width o]) *)
Theorem local_refind o t : EmptyIndents o ->
  local_b o t = true -> refind_b cw alnum lbc custom_sp o t = true.
Proof.
  intros He H. apply refind_b_spec. apply (LocalParas_Refind o He).
  apply local_b_spec. exact H.
Qed.

(* L2 as stated in the task; [no_forced_b], [o_alg o = FirstFit] and [SplitterOK] are not
   used *)
Theorem local_no_forced_refind o t :
  local_b o t = true -> no_forced_b o t = true -> EmptyIndents o ->
  o_alg o = FirstFit -> SplitterOK custom_sp ->
  refind_b cw alnum lbc custom_sp o t = true.
Proof. intros HL _ He _ _. exact (local_refind o t He HL). Qed.

(* ================================================================== *)
(* L3': what (F) buys                                                   *)
(* ================================================================== *)

Lemma o_nobreak_empty o : EmptyIndents o -> EmptyIndents (o_nobreak o).
Proof. intros [H1 H2]. split; assumption. Qed.

Lemma ff_groups_nobreak o first bws :
  ff_groups cw (o_nobreak o) first bws = ff_groups cw o first bws.
Proof. reflexivity. Qed.

(* the pipeline of [o] is break_words (when switched on) after the pipeline of
   [o_nobreak o] *)
Lemma pwords_nobreak o first p : EmptyIndents o ->
  pwords o first p =
  option_map (fun sws => if o_bw o then break_words cw (o_width o) sws else sws)
             (pwords (o_nobreak o) first p).
Proof.
  intros He. unfold pipeline_words. cbn [o_nobreak o_width o_si o_ii o_bw o_sep o_spl].
  rewrite (ind_empty o He first). destruct He as [_ H2]. rewrite H2.
  change (dw cw []) with 0. rewrite N.sub_0_r. cbn [nonempty].
  destruct (split_words cw (split_points alnum custom_sp (o_spl o))
              (find_words cw lbc (o_sep o) p)) as [sws|]; reflexivity.
Qed.

Lemma break_words_fits W sws :
  Forall (fun w => w_width w <= W) sws -> break_words cw W sws = sws.
Proof.
  intros H. apply break_words_fix. eapply Forall_impl; [|exact H].
  intros w Hw. left. exact Hw.
Qed.

(* (F) says that break_words does nothing to the paragraph *)
Theorem no_forced_break_id o first p : EmptyIndents o -> NoForcedPara o first p ->
  pwords o first p = pwords (o_nobreak o) first p.
Proof.
  intros He [sws [E HF]]. rewrite (pwords_nobreak o first p He), E. cbn [option_map].
  destruct (o_bw o); [|reflexivity]. rewrite (break_words_fits _ _ HF). reflexivity.
Qed.

Lemma strip_last_ws_width g w : In w (strip_last_ws g) -> exists w', In w' g /\ w_width w = w_width w'.
Proof.
  destruct (nil_or_last _ g) as [->|[init [lw ->]]]; [intros []|].
  rewrite strip_last_ws_snoc. intros H. apply in_app_or in H. destruct H as [H|[<-|[]]].
  - exists w. split; [apply in_or_app; left; exact H|reflexivity].
  - exists lw. split; [apply in_or_app; right; left; reflexivity|reflexivity].
Qed.

Lemma LocalPara_nobreak o first p : EmptyIndents o -> NoForcedPara o first p ->
  LocalPara (o_nobreak o) first p -> LocalPara o first p.
Proof.
  intros He HN [bws [E HF]]. exists bws.
  rewrite (no_forced_break_id o first p He HN). split; [exact E|].
  rewrite ff_groups_nobreak in HF. rewrite Forall_forall in HF |- *.
  intros g Hg Hbne. destruct (HF g Hg Hbne) as [Hnt Hfs]. split; [exact Hnt|].
  intros first'. rewrite (pwords_nobreak o first' (body g) He), Hfs. cbn [option_map].
  destruct (o_bw o); [|reflexivity]. rewrite break_words_fits; [reflexivity|].
  destruct HN as [sws [E' HW]]. rewrite E in E'. injection E' as <-.
  apply Forall_forall. intros w Hw.
  destruct (strip_last_ws_width g w Hw) as [w' [Hw' ->]].
  rewrite Forall_forall in HW. apply HW.
  destruct (In_nth_error _ _ Hg) as [k Hk].
  exact (ff_groups_incl cw o first bws k g Hk w' Hw').
Qed.

Lemma LocalParas_nobreak o : EmptyIndents o -> forall ps first,
  NoForcedParas o first ps -> LocalParas (o_nobreak o) first ps -> LocalParas o first ps.
Proof.
  intros He. induction ps as [|p r IH]; intros first HN HL; [exact I|].
  cbn [LocalParas NoForcedParas] in HN, HL |- *.
  destruct HN as [N1 N2]. destruct HL as [L1 L2]. split.
  - exact (LocalPara_nobreak o first p He N1 L1).
  - exact (IH false N2 L2).
Qed.

(* under (F), locality of the pipeline WITHOUT break_words (find_words and split_words
   only; for [o_spl o = SplNone] that is the oracle alone) is locality of the pipeline *)
Theorem local_nobreak o t : EmptyIndents o ->
  no_forced_b o t = true -> local_b (o_nobreak o) t = true -> local_b o t = true.
Proof.
  intros He HN HL. apply local_b_spec.
  apply (LocalParas_nobreak o He).
  - apply no_forced_b_spec. exact HN.
  - apply (local_b_spec (o_nobreak o) t). exact HL.
Qed.

End LocalU.

(* ================================================================== *)
(* L3: idempotence from (L) and (F)                                     *)
(* ================================================================== *)

Theorem fill_idem_local cw alnum lbc custom_sp ofit o :
  o_alg o = FirstFit -> SplitterOK custom_sp -> EmptyIndents o -> o_spl o <> SplCustom ->
  forall t r,
    local_b cw alnum lbc custom_sp o t = true ->
    no_forced_b cw alnum lbc custom_sp o t = true ->
    fill cw alnum lbc custom_sp ofit o t = Some r ->
    fill cw alnum lbc custom_sp ofit o r = Some r.
Proof.
  intros Ha Hs He Hspl t r HL HN.
  apply (fill_idem_refind cw alnum lbc custom_sp ofit o Ha Hs He Hspl).
  exact (local_no_forced_refind cw alnum lbc custom_sp o t HL HN He Ha Hs).
Qed.

(* the same without (F), which L2 does not use *)
Theorem fill_idem_local_only cw alnum lbc custom_sp ofit o :
  o_alg o = FirstFit -> SplitterOK custom_sp -> EmptyIndents o -> o_spl o <> SplCustom ->
  forall t r,
    local_b cw alnum lbc custom_sp o t = true ->
    fill cw alnum lbc custom_sp ofit o t = Some r ->
    fill cw alnum lbc custom_sp ofit o r = Some r.
Proof.
  intros Ha Hs He Hspl t r HL.
  apply (fill_idem_refind cw alnum lbc custom_sp ofit o Ha Hs He Hspl).
  exact (local_refind cw alnum lbc custom_sp o t He HL).
Qed.

(* locality checked with break_words switched off; here (F) is used, and it cannot be
   dropped (example [ex_nobreak_needs_F] below) *)
Theorem fill_idem_local_nobreak cw alnum lbc custom_sp ofit o :
  o_alg o = FirstFit -> SplitterOK custom_sp -> EmptyIndents o -> o_spl o <> SplCustom ->
  forall t r,
    local_b cw alnum lbc custom_sp (o_nobreak o) t = true ->
    no_forced_b cw alnum lbc custom_sp o t = true ->
    fill cw alnum lbc custom_sp ofit o t = Some r ->
    fill cw alnum lbc custom_sp ofit o r = Some r.
Proof.
  intros Ha Hs He Hspl t r HL HN.
  apply (fill_idem_local_only cw alnum lbc custom_sp ofit o Ha Hs He Hspl).
  exact (local_nobreak cw alnum lbc custom_sp o t He HN HL).
Qed.

(* ================================================================== *)
(* L4: examples (table oracle, SepUnicode, every char one column wide)  *)
(* ================================================================== *)

Module IdemLocalExamples.
Import IdemUExamples.
Definition ulocal tbl o t := local_b ucw uan (tbl_lbc tbl) custom3 o t.
Definition unof tbl o t := no_forced_b ucw uan (tbl_lbc tbl) custom3 o t.

(* (a) "foo bar baz" at width 7, the oracle answers on the two lines as on the paragraph:
   both checks hold, with break_words off and on; fill is idempotent *)
Example ex_local_both_hold :
  ulocal tbl1 (uo 7 false) t1 = true /\ unof tbl1 (uo 7 false) t1 = true /\
  ulocal tbl1 (uo 7 true) t1 = true /\ unof tbl1 (uo 7 true) t1 = true /\
  ufill tbl1 (uo 7 true) t1 = Some r1 /\ ufill tbl1 (uo 7 true) r1 = Some r1.
Proof. repeat split; vm_compute; reflexivity. Qed.

(* the same conclusion from the theorem: only the two checks are computed *)
Example ex_local_theorem_instance : forall r,
  ufill tbl1 (uo 7 true) t1 = Some r -> ufill tbl1 (uo 7 true) r = Some r.
Proof.
  intros r. apply fill_idem_local.
  - reflexivity.
  - exact custom3_ok.
  - split; reflexivity.
  - discriminate.
  - vm_compute. reflexivity.
  - vm_compute. reflexivity.
Qed.

(* (b1) (F) false, (L) true, fill idempotent: "abcdef gh" at width 3 with break_words; the
   word "abcdef" is force-broken into "abc", "def"; the oracle finds each of the three
   lines again as one word.  (F) is not necessary, and L2 does not need it. *)
Definition t5 : str := [97;98;99;100;101;102;32;103;104].
Definition r5 : str := [97;98;99;10;100;101;102;10;103;104].
Definition tbl5 := [(t5, [7;9]); ([97;98;99], [3]); ([100;101;102], [3]); ([103;104], [2])].
Example ex_forced_but_local :
  unof tbl5 (uo 3 true) t5 = false /\ ulocal tbl5 (uo 3 true) t5 = true /\
  ucheck tbl5 (uo 3 true) t5 = true /\
  ufill tbl5 (uo 3 true) t5 = Some r5 /\ ufill tbl5 (uo 3 true) r5 = Some r5.
Proof. repeat split; vm_compute; reflexivity. Qed.

(* (b2) (F) false and filling twice differs: "a )" at width 2 with break_words (the answers
   of the real crate): "a )" is one word, force-broken after the space; the first line
   "a " ends in a space.  (L) fails for the pipeline with break_words, but HOLDS for the
   pipeline without it: in [fill_idem_local_nobreak] (F) cannot be dropped. *)
Example ex_nobreak_needs_F :
  unof tbl3 (uo 2 true) t3 = false /\
  ulocal tbl3 (o_nobreak (uo 2 true)) t3 = true /\
  ulocal tbl3 (uo 2 true) t3 = false /\
  ufill tbl3 (uo 2 true) t3 = Some [97;32;10;41] /\
  ufill tbl3 (uo 2 true) [97;32;10;41] = Some [97;10;41].
Proof. repeat split; vm_compute; reflexivity. Qed.

(* (c1) (L) false because the oracle answers differently on the line alone: "foobar baz"
   at width 5, no break_words; alone, "foobar" gets an opportunity at 3.  fill is not
   idempotent.  ((F) is false as well: "foobar" is wider than 5.) *)
Example ex_local_fails_oracle :
  ulocal tbl2 (uo 5 false) t2 = false /\ unof tbl2 (uo 5 false) t2 = false /\
  ufill tbl2 (uo 5 false) t2 = Some (l2a ++ [10] ++ l1b) /\
  ufill tbl2 (uo 5 false) (l2a ++ [10] ++ l1b) =
    Some ([102;111;111] ++ [10] ++ [98;97;114] ++ [10] ++ l1b).
Proof. repeat split; vm_compute; reflexivity. Qed.

(* (c2) (L) is sufficient, not necessary: if the oracle sees FEWER opportunities in the line
   "foo bar" alone, the words differ ((L) false) but the single fragment still fits
   ([refind_b] true) and fill is idempotent.  (F) holds. *)
Example ex_local_stronger_than_refind :
  ulocal tbl1' (uo 7 false) t1 = false /\ unof tbl1' (uo 7 false) t1 = true /\
  ucheck tbl1' (uo 7 false) t1 = true /\
  ufill tbl1' (uo 7 false) t1 = Some r1 /\ ufill tbl1' (uo 7 false) r1 = Some r1.
Proof. repeat split; vm_compute; reflexivity. Qed.

(* (c3) (F) alone is not enough: "ab  cd" at width 3 with an oracle that reports an
   opportunity before a space; every fragment fits, the first line "ab " ends in a space,
   (L) fails and fill is not idempotent. *)
Example ex_no_forced_not_enough :
  unof tbl4 (uo 3 false) t4 = true /\ ulocal tbl4 (uo 3 false) t4 = false /\
  ufill tbl4 (uo 3 false) t4 = Some [97;98;32;10;99;100] /\
  ufill tbl4 (uo 3 false) [97;98;32;10;99;100] = Some [97;98;10;99;100].
Proof. repeat split; vm_compute; reflexivity. Qed.
End IdemLocalExamples.

Print Assumptions local_b_spec.
Print Assumptions no_forced_b_spec.
Print Assumptions local_refind.
Print Assumptions local_no_forced_refind.
Print Assumptions no_forced_break_id.
Print Assumptions local_nobreak.
Print Assumptions fill_idem_local.
Print Assumptions fill_idem_local_only.
Print Assumptions fill_idem_local_nobreak.
