(* C06 for the modelled smawk crate (Model/Smawk.v), and totality of the model (for C04).
   Everything is for an arbitrary [Num] and an arbitrary [eqT]: no laws are used, the
   shape of the answer and the absence of panics do not depend on arithmetic. *)
From Coq Require Import List Arith Lia Bool ZArith.
From TW Require Import OptFit Smawk WrapSmawk.
From TW Require Import Partition Pipeline.
Import ListNotations.

Arguments N.add : simpl never.
Arguments N.sub : simpl never.
Arguments N.mul : simpl never.
Arguments N.leb : simpl never.
Arguments N.ltb : simpl never.
Arguments N.eqb : simpl never.

Local Open Scope nat_scope.

(* ================================================================== *)
(* S1: shape of the answer of online_column_minima                     *)
(* ================================================================== *)

Section Shape.
Variable Nm : Num.
Notation T := (T Nm).
Variable eqT : T -> T -> bool.
Variable closure : list (nat * T) -> nat -> nat -> T.
Variable initial : T.
Variable size : nat.

Notation m_at := (m_at Nm closure).
Notation set_res := (set_res Nm).
Notation merge_cols := (merge_cols Nm closure).
Notation online_step := (online_step Nm eqT closure).
Notation online_loop := (online_loop Nm eqT closure).

Lemma m_at_some result i j v : m_at size result i j = Some v -> i < j /\ j < size.
Proof.
  unfold Smawk.m_at. destruct (i <? j) eqn:A; cbn [andb]; [|discriminate].
  destruct (i <? size) eqn:B; cbn [andb]; [|discriminate].
  destruct (j <? size) eqn:C; [|discriminate].
  intros _. apply Nat.ltb_lt in A. apply Nat.ltb_lt in C. lia.
Qed.

Lemma m_at_defined result i j : i < j -> j < size -> m_at size result i j = Some (closure result i j).
Proof.
  intros A B. unfold Smawk.m_at.
  destruct (Nat.ltb_spec i j); [|lia]. destruct (Nat.ltb_spec i size); [|lia].
  destruct (Nat.ltb_spec j size); [|lia]. reflexivity.
Qed.

Lemma set_res_length : forall (l : list (nat * T)) k v, length (set_res l k v) = length l.
Proof.
  induction l as [|x l IH]; intros k v; cbn [Smawk.set_res]; [reflexivity|].
  destruct k as [|k]; cbn [length]; [reflexivity|]. now rewrite IH.
Qed.

Lemma set_res_other : forall (l : list (nat * T)) k v j, j <> k ->
  nth_error (set_res l k v) j = nth_error l j.
Proof.
  induction l as [|x l IH]; intros k v j Hne; cbn [Smawk.set_res]; [reflexivity|].
  destruct k as [|k]; destruct j as [|j]; cbn [nth_error]; try reflexivity; try lia.
  apply IH. lia.
Qed.

Lemma set_res_same : forall (l : list (nat * T)) k v x,
  nth_error (set_res l k v) k = Some x -> x = v.
Proof.
  induction l as [|y l IH]; intros k v x; cbn [Smawk.set_res].
  - destruct k; cbn [nth_error]; discriminate.
  - destruct k as [|k]; cbn [nth_error]; [congruence|]. apply IH.
Qed.

(* entry 0 is (0, initial) and every later entry names a row above the diagonal *)
Definition shape (result : list (nat * T)) : Prop :=
  nth_error result 0 = Some (0, initial) /\
  forall j p c, 1 <= j -> nth_error result j = Some (p, c) -> p < j.

Lemma shape_set_res result k p v : shape result -> 1 <= k -> p < k ->
  shape (set_res result k (p, v)).
Proof.
  intros [H0 Hj] Hk Hp. split.
  - rewrite set_res_other by lia. exact H0.
  - intros j q c Hj1 E. destruct (Nat.eq_dec j k) as [->|Hne].
    + apply set_res_same in E. inversion E. subst. exact Hp.
    + rewrite set_res_other in E by exact Hne. eapply Hj; eassumption.
Qed.

Lemma shape_snoc result p v : shape result -> p < length result -> shape (result ++ [(p, v)]).
Proof.
  intros [H0 Hj] Hp. split.
  - rewrite nth_error_app1; [exact H0|]. lia.
  - intros j q c Hj1 E. destruct (Nat.lt_ge_cases j (length result)) as [Hlt|Hge].
    + rewrite nth_error_app1 in E by exact Hlt. eapply Hj; eassumption.
    + rewrite nth_error_app2 in E by exact Hge.
      destruct (j - length result) as [|d] eqn:Ed; cbn [nth_error] in E.
      * inversion E. subst. lia.
      * destruct d; discriminate.
Qed.

(* case 1 of the loop: the columns are finished+1 ..= tentative', all >= 1 and contiguous
   from an index that is already inside (or just past the end of) result *)
Lemma merge_seq minima : forall k a result result',
  merge_cols size (seq a k) minima result = Some result' ->
  1 <= a <= length result -> shape result ->
  length result' = Nat.max (length result) (a + k) /\ shape result'.
Proof.
  induction k as [|k IH]; intros a result result' Hm Ha Hs; cbn [seq Smawk.merge_cols] in Hm.
  - inversion Hm. subst. split; [lia|exact Hs].
  - destruct (m_at size result (nth a minima 0) a) as [v|] eqn:Ev; [|discriminate].
    apply m_at_some in Ev. destruct Ev as [Hrow Hsz].
    destruct (Nat.leb_spec (length result) a) as [Hle|Hgt].
    + apply IH in Hm.
      * rewrite app_length in Hm. cbn [length] in Hm. destruct Hm as [Hl Hs']. split; [lia|exact Hs'].
      * rewrite app_length. cbn [length]. lia.
      * apply shape_snoc; [exact Hs|lia].
    + destruct (nth_error result a) as [[o old]|] eqn:En.
      * destruct (ltb Nm v old).
        -- apply IH in Hm.
           ++ rewrite set_res_length in Hm. destruct Hm as [Hl Hs']. split; [lia|exact Hs'].
           ++ rewrite set_res_length. lia.
           ++ apply shape_set_res; [exact Hs|lia|exact Hrow].
        -- apply IH in Hm; [|lia|exact Hs]. destruct Hm as [Hl Hs']. split; [lia|exact Hs'].
      * apply IH in Hm; [|lia|exact Hs]. destruct Hm as [Hl Hs']. split; [lia|exact Hs'].
Qed.

(* the loop invariant.  Note: length result = tentative + 1 does NOT hold in general
   (cases 2 and 4 lower tentative without truncating result); the invariant is
   tentative + 1 <= length result <= size. *)
Definition inv (st : list (nat * T) * nat * nat * nat) : Prop :=
  let '(result, finished, base, tentative) := st in
  base <= finished /\ finished <= tentative /\ tentative + 1 <= length result /\
  length result <= size /\ shape result.

Lemma online_step_inv st st' :
  inv st -> online_step size st = Some st' ->
  snd (fst (fst st)) + 1 <= size - 1 ->
  inv st' /\ snd (fst (fst st')) = S (snd (fst (fst st))).
Proof.
  destruct st as [[[result finished] base] tentative].
  intros (Hb & Hft & Htl & Hls & Hs) Hstep Hfin. cbn [fst snd] in Hfin |- *.
  unfold Smawk.online_step in Hstep.
  destruct (Nat.ltb_spec tentative (S finished)) as [Hlt|Hge].
  - cbv zeta in Hstep. rewrite !seq_length in Hstep.
    remember (S finished - base) as nrows eqn:Enrows.
    remember (Nat.min (finished + nrows) (size - 1)) as t' eqn:Et'.
    destruct (smawk_inner _ _ _ _ _ _ _) as [minima|]; [|discriminate].
    destruct (merge_cols size _ minima result) as [result'|] eqn:Em; [|discriminate].
    inversion Hstep. subst st'. cbn [fst snd]. clear Hstep.
    apply merge_seq in Em; [|lia|exact Hs]. destruct Em as [Hl Hs'].
    assert (Ht' : S finished <= t' <= size - 1) by lia.
    split; [|reflexivity]. unfold inv. repeat split; try lia; apply Hs'.
  - destruct (m_at size result (S finished - 1) (S finished)) as [diag|] eqn:Ed; [|discriminate].
    destruct (nth_error result (S finished)) as [[o ri]|] eqn:Er; [|discriminate].
    apply m_at_some in Ed.
    destruct (ltb Nm diag ri).
    + inversion Hstep. subst st'. cbn [fst snd]. split; [|reflexivity].
      unfold inv. rewrite set_res_length. repeat split; try lia.
      * apply (shape_set_res result (S finished) (S finished - 1) diag Hs); lia.
      * apply (shape_set_res result (S finished) (S finished - 1) diag Hs); lia.
    + destruct (m_at size result (S finished - 1) tentative) as [v|]; [|discriminate].
      destruct (nth_error result tentative) as [[o2 rt]|]; [|discriminate].
      destruct (geb Nm v rt); inversion Hstep; subst st'; cbn [fst snd];
        (split; [|reflexivity]); unfold inv; repeat split; try lia; apply Hs.
Qed.

Lemma online_loop_inv : forall n st res,
  inv st -> snd (fst (fst st)) + n = size - 1 ->
  online_loop n size st = Some res ->
  length res = size /\ shape res.
Proof.
  induction n as [|n IH]; intros st res Hinv Hn Hl; cbn [Smawk.online_loop] in Hl.
  - inversion Hl. subst res. destruct st as [[[result finished] base] tentative].
    cbn [fst snd] in *. destruct Hinv as (Hb & Hft & Htl & Hls & Hs). split; [lia|exact Hs].
  - destruct (online_step size st) as [st'|] eqn:Es; [|discriminate].
    destruct (online_step_inv st st' Hinv Es ltac:(lia)) as [Hinv' Hf].
    apply (IH st' res Hinv'); [lia|exact Hl].
Qed.

Theorem online_column_minima_shape minima :
  online_column_minima Nm eqT closure initial size = Some minima -> 1 <= size ->
  length minima = size /\ nth_error minima 0 = Some (0, initial) /\
  forall j p c, 1 <= j -> nth_error minima j = Some (p, c) -> p < j.
Proof.
  unfold online_column_minima. intros H Hsz.
  apply online_loop_inv in H.
  - destruct H as [Hl [H0 Hj]]. auto.
  - cbn [inv length]. repeat split; try lia. intros j p c Hj E.
    destruct j as [|j]; [lia|]. destruct j; discriminate.
  - cbn [fst snd]. lia.
Qed.
End Shape.

Corollary smawk_minima_ok (Nm : Num) (eqT : T Nm -> T Nm -> bool) (P : penalties)
  (fs : list (frag Nm)) (lws : list (T Nm)) (minima : list (nat * T Nm)) :
  smawk_minima Nm eqT P fs lws = Some minima -> minima_ok Nm minima (length fs).
Proof.
  unfold smawk_minima. intros H. apply online_column_minima_shape in H; [|lia].
  destruct H as [Hl [H0 Hj]]. split; [exact Hl|]. split; [|exact Hj].
  exists (zero Nm). exact H0.
Qed.

(* ================================================================== *)
(* S2: C06 for the model of wrap_optimal_fit over smawk                *)
(* ================================================================== *)

(* whenever smawk itself does not panic, back-tracking cannot fail and the answer is an
   ordered partition of the fragments into non-empty lines *)
Theorem optimal_fit_smawk_partition (Nm : Num) (eqT : T Nm -> T Nm -> bool) (A : Type)
  (m : A -> frag Nm) (P : penalties) (xs : list A) (lws : list (T Nm)) :
  smawk_minima Nm eqT P (map m xs) lws <> None ->
  exists groups,
    optimal_fit_smawk eqT m P xs lws = Some groups /\
    concat groups = xs /\
    (xs <> [] -> Forall (fun l => l <> []) groups) /\
    (xs = [] -> groups = [[]]).
Proof.
  intros Hs. unfold optimal_fit_smawk.
  destruct (smawk_minima Nm eqT P (map m xs) lws) as [minima|] eqn:E; [|congruence].
  apply optimal_fit_with_partition. apply smawk_minima_ok in E.
  rewrite map_length in E. exact E.
Qed.

(* the same as a statement about any successful run *)
Theorem optimal_fit_smawk_some (Nm : Num) (eqT : T Nm -> T Nm -> bool) (A : Type)
  (m : A -> frag Nm) (P : penalties) (xs : list A) (lws : list (T Nm)) groups :
  optimal_fit_smawk eqT m P xs lws = Some groups ->
  concat groups = xs /\
  (xs <> [] -> Forall (fun l => l <> []) groups) /\
  (xs = [] -> groups = [[]]).
Proof.
  intros H.
  destruct (optimal_fit_smawk_partition Nm eqT A m P xs lws) as [g [Hg Hrest]].
  - unfold optimal_fit_smawk in H. destruct (smawk_minima Nm eqT P (map m xs) lws); congruence.
  - rewrite Hg in H. inversion H. subst g. exact Hrest.
Qed.

(* ================================================================== *)
(* S3: totality — none of the crate's asserts / index operations fail  *)
(* ================================================================== *)

(* ---- list helpers ---- *)

Lemma list_ind2 (A : Type) (P : list A -> Prop) :
  P [] -> (forall x, P [x]) -> (forall x y l, P l -> P (x :: y :: l)) -> forall l, P l.
Proof.
  intros H0 H1 H2 l. assert (H : P l /\ forall x, P (x :: l)).
  { induction l as [|y l [IHa IHb]]; [split; [exact H0|exact H1]|].
    split; [apply IHb|]. intros x. apply H2. exact IHa. }
  apply H.
Qed.

Lemma In_skipn (A : Type) : forall n (l : list A) x, In x (skipn n l) -> In x l.
Proof.
  induction n as [|n IH]; intros l x H; [exact H|].
  destruct l as [|y l]; [exact H|]. right. apply IH. exact H.
Qed.

Lemma nth_error_skipn (A : Type) : forall r (l : list A) k,
  nth_error (skipn r l) k = nth_error l (r + k).
Proof.
  induction r as [|r IH]; intros l k; [reflexivity|].
  destruct l as [|y l]; cbn [skipn Nat.add nth_error]; [destruct k; reflexivity|]. apply IH.
Qed.

Lemma nth_skipn (A : Type) (d : A) : forall r (l : list A) k,
  nth k (skipn r l) d = nth (r + k) l d.
Proof.
  induction r as [|r IH]; intros l k; [reflexivity|].
  destruct l as [|y l]; cbn [skipn Nat.add nth]; [destruct k; reflexivity|]. apply IH.
Qed.

Lemma skipn_skipn_add (A : Type) : forall r (l : list A) k, skipn k (skipn r l) = skipn (r + k) l.
Proof.
  induction r as [|r IH]; intros l k; [reflexivity|].
  destruct l as [|y l]; cbn [skipn Nat.add]; [destruct k; reflexivity|]. apply IH.
Qed.

Lemma skipn_cons_nth (A : Type) : forall r (l : list A) x,
  nth_error l r = Some x -> skipn r l = x :: skipn (S r) l.
Proof.
  induction r as [|r IH]; intros l x H; destruct l as [|y l]; cbn [nth_error] in H; try discriminate.
  - inversion H. reflexivity.
  - cbn [skipn]. rewrite (IH l x H). reflexivity.
Qed.

Lemma skipn_S_of_cons (A : Type) (l : list A) r x t : skipn r l = x :: t -> skipn (S r) l = t.
Proof.
  intros H. replace (S r) with (r + 1) by lia. rewrite <- skipn_skipn_add, H. reflexivity.
Qed.

Lemma last_nth_error (A : Type) (d : A) : forall l : list A, l <> [] ->
  nth_error l (length l - 1) = Some (last l d).
Proof.
  induction l as [|x l IH]; intros H; [congruence|].
  destruct l as [|y l]; [reflexivity|].
  cbn [length] in *. replace (S (S (length l)) - 1) with (S (S (length l) - 1)) by lia.
  cbn [nth_error]. rewrite IH by discriminate. reflexivity.
Qed.

Lemma set_nth_length : forall l k v, length (set_nth l k v) = length l.
Proof.
  induction l as [|x l IH]; intros k v; cbn [set_nth]; [reflexivity|].
  destruct k; cbn [length]; [reflexivity|]. now rewrite IH.
Qed.

Lemma nth_set_nth_same : forall l k v, k < length l -> nth k (set_nth l k v) 0 = v.
Proof.
  induction l as [|x l IH]; intros k v H; cbn [length] in H; [lia|].
  destruct k; cbn [set_nth nth]; [reflexivity|]. apply IH. lia.
Qed.

Lemma nth_set_nth_other : forall l k v j, j <> k -> nth j (set_nth l k v) 0 = nth j l 0.
Proof.
  induction l as [|x l IH]; intros k v j H; cbn [set_nth]; [reflexivity|].
  destruct k; destruct j; cbn [nth]; try reflexivity; try lia. apply IH. lia.
Qed.

(* odd_elems *)
Lemma In_odd_elems : forall l x, In x (odd_elems l) -> In x l.
Proof.
  induction l as [| |a b l IH] using list_ind2; intros z H; cbn [odd_elems] in H; try contradiction.
  destruct H as [H|H]; [right; left; exact H|]. right. right. apply IH. exact H.
Qed.

Lemma odd_elems_length : forall l, 2 * length (odd_elems l) <= length l.
Proof.
  induction l as [| |a b l IH] using list_ind2; cbn [odd_elems length]; lia.
Qed.

Lemma NoDup_odd_elems : forall l, NoDup l -> NoDup (odd_elems l).
Proof.
  induction l as [| |a b l IH] using list_ind2; intros H; cbn [odd_elems]; try constructor.
  - inversion H as [|? ? _ H1]. inversion H1 as [|? ? Hb _]. intros Hin. apply Hb.
    apply In_odd_elems. exact Hin.
  - apply IH. inversion H as [|? ? _ H1]. inversion H1. assumption.
Qed.

(* ---- sublists, and lists that can be read off left to right with repetitions ---- *)

Inductive sub : list nat -> list nat -> Prop :=
| sub_nil : sub [] []
| sub_skip x a l : sub a l -> sub a (x :: l)
| sub_take x a l : sub a l -> sub (x :: a) (x :: l).

Lemma sub_nil_l : forall l, sub [] l.
Proof. induction l as [|x l IH]; [constructor|apply sub_skip; exact IH]. Qed.

Lemma sub_refl : forall l, sub l l.
Proof. induction l as [|x l IH]; [constructor|apply sub_take; exact IH]. Qed.

Lemma sub_app a l b m : sub a l -> sub b m -> sub (a ++ b) (l ++ m).
Proof.
  intros H Hb. induction H as [|x a l H IH|x a l H IH]; cbn [app].
  - exact Hb.
  - apply sub_skip. exact IH.
  - apply sub_take. exact IH.
Qed.

Lemma sub_app_l_inv ab l : sub ab l -> forall a b, ab = a ++ b -> sub a l.
Proof.
  intros H. induction H as [|x a0 l H IH|x a0 l H IH]; intros a b E.
  - destruct a; [constructor|discriminate].
  - apply sub_skip. eapply IH. exact E.
  - destruct a as [|y a]; [apply sub_nil_l|]. cbn [app] in E. inversion E. subst.
    apply sub_take. eapply IH. reflexivity.
Qed.

Lemma sub_In a l : sub a l -> forall x, In x a -> In x l.
Proof.
  intros H. induction H as [|y a l H IH|y a l H IH]; intros x Hx.
  - exact Hx.
  - right. apply IH. exact Hx.
  - destruct Hx as [Hx|Hx]; [left; exact Hx|right; apply IH; exact Hx].
Qed.

(* [ssub l m]: m can be read off l left to right, staying on an element any number of times *)
Inductive ssub : list nat -> list nat -> Prop :=
| ssub_nil l : ssub l []
| ssub_skip x l m : ssub l m -> ssub (x :: l) m
| ssub_take x l m : ssub (x :: l) m -> ssub (x :: l) (x :: m).

Lemma ssub_app_l pre : forall l m, ssub l m -> ssub (pre ++ l) m.
Proof.
  induction pre as [|x pre IH]; intros l m H; cbn [app]; [exact H|]. apply ssub_skip. apply IH. exact H.
Qed.

Lemma ssub_cons_same x a l : forall xa m, ssub xa m -> xa = x :: a ->
  (forall m', ssub a m' -> ssub l m') -> ssub (x :: l) m.
Proof.
  intros xa m H. induction H as [l0|y l0 m H IH|y l0 m H IH]; intros E Himp.
  - constructor.
  - inversion E. subst. apply ssub_skip. apply Himp. exact H.
  - inversion E. subst. apply ssub_take. apply IH; [reflexivity|exact Himp].
Qed.

Lemma ssub_sub a l : sub a l -> forall m, ssub a m -> ssub l m.
Proof.
  intros H. induction H as [|x a l H IH|x a l H IH]; intros m Hm.
  - exact Hm.
  - apply ssub_skip. apply IH. exact Hm.
  - eapply ssub_cons_same; [exact Hm|reflexivity|exact IH].
Qed.

Lemma ssub_tail l xm : ssub l xm -> forall x m, xm = x :: m -> ssub l m.
Proof.
  intros H. induction H as [l|y l m0 H IH|y l m0 H IH]; intros x m E.
  - discriminate.
  - apply ssub_skip. eapply IH. exact E.
  - inversion E. subst. exact H.
Qed.

Lemma ssub_In l m : ssub l m -> forall x, In x m -> In x l.
Proof.
  intros H. induction H as [l|y l m H IH|y l m H IH]; intros x Hx.
  - contradiction.
  - right. apply IH. exact Hx.
  - destruct Hx as [Hx|Hx]; [left; exact Hx|apply IH; exact Hx].
Qed.

Lemma ssub_head_split l xm : ssub l xm -> forall x m, xm = x :: m ->
  exists pre post, l = pre ++ x :: post /\ ssub (x :: post) m.
Proof.
  intros H. induction H as [l|y l m0 H IH|y l m0 H IH]; intros x m E.
  - discriminate.
  - destruct (IH x m E) as [pre [post [El Hs]]]. exists (y :: pre), post. subst l. split; [reflexivity|exact Hs].
  - inversion E. subst. exists [], l. split; [reflexivity|exact H].
Qed.

(* the same facts in terms of positions in a fixed list [rows] *)
Lemma ssub_from_mono rows m a b : a <= b -> ssub (skipn b rows) m -> ssub (skipn a rows) m.
Proof.
  intros Hab H. rewrite <- (firstn_skipn (b - a) (skipn a rows)).
  apply ssub_app_l. rewrite skipn_skipn_add. replace (a + (b - a)) with b by lia. exact H.
Qed.

Lemma ssub_from_cons rows m a b x : nth_error rows b = Some x -> a <= b ->
  ssub (skipn b rows) m -> ssub (skipn a rows) (x :: m).
Proof.
  intros Hn Hab H. apply (ssub_from_mono rows (x :: m) a b Hab).
  rewrite (skipn_cons_nth _ b rows x Hn) in *. apply ssub_take. exact H.
Qed.

Lemma ssub_from_head rows r x m : ssub (skipn r rows) (x :: m) ->
  exists q, r <= q /\ nth_error rows q = Some x /\ ssub (skipn q rows) m.
Proof.
  intros H. destruct (ssub_head_split _ _ H x m eq_refl) as [pre [post [E Hs]]].
  exists (r + length pre). split; [lia|]. split.
  - rewrite <- nth_error_skipn, E. rewrite nth_error_app2 by lia. rewrite Nat.sub_diag. reflexivity.
  - rewrite <- skipn_skipn_add, E.
    replace (skipn (length pre) (pre ++ x :: post)) with (x :: post); [exact Hs|].
    clear. induction pre as [|y pre IH]; [reflexivity|exact IH].
Qed.

(* ---- smawk_inner ---- *)
Section InnerTotal.
Variable Nm : Num.
Notation T := (T Nm).
Variable eqT : T -> T -> bool.
Variable mat : nat -> nat -> option T.

Notation reduce_pop := (reduce_pop Nm mat).
Notation reduce := (reduce Nm mat).
Notation interp_scan := (interp_scan Nm eqT mat).
Notation interpolate := (interpolate Nm eqT mat).
Notation smawk_inner := (smawk_inner Nm eqT mat).

(* the pop loop never indexes outside cols (the stack is never longer than cols) and
   returns a suffix of the stack *)
Lemma reduce_pop_ok cols r : forall stack,
  length stack <= length cols ->
  (forall x c, In x stack -> In c cols -> mat x c <> None) ->
  (forall c, In c cols -> mat r c <> None) ->
  exists st pre, reduce_pop stack cols r = Some st /\ stack = pre ++ st.
Proof.
  induction stack as [|top rest IH]; intros Hlen Hst Hr; cbn [Smawk.reduce_pop].
  - exists [], []. split; reflexivity.
  - assert (Hc : In (nth (length (top :: rest) - 1) cols 0) cols).
    { apply nth_In. cbn [length] in *. lia. }
    destruct (mat top (nth (length (top :: rest) - 1) cols 0)) as [a|] eqn:Ea.
    2:{ exfalso. apply (Hst top _ (or_introl eq_refl) Hc). exact Ea. }
    destruct (mat r (nth (length (top :: rest) - 1) cols 0)) as [b|] eqn:Eb.
    2:{ exfalso. apply (Hr _ Hc). exact Eb. }
    destruct (gtb Nm a b).
    + destruct IH as [st [pre [E1 E2]]].
      * cbn [length] in Hlen. lia.
      * intros x c Hx. apply Hst. right. exact Hx.
      * exact Hr.
      * exists st, (top :: pre). split; [exact E1|]. rewrite E2. reflexivity.
    + exists (top :: rest), []. split; reflexivity.
Qed.

Lemma reduce_ok cols : cols <> [] -> forall rows stack pre,
  length stack <= length cols ->
  (forall x c, In x (stack ++ rows) -> In c cols -> mat x c <> None) ->
  sub (rev stack) pre ->
  exists res, reduce rows cols stack = Some res /\ sub res (pre ++ rows) /\
              length res <= length cols /\ (rows <> [] \/ stack <> [] -> res <> []).
Proof.
  intros Hcols. induction rows as [|r rest IH]; intros stack pre Hlen Hmat Hsub; cbn [Smawk.reduce].
  - exists (rev stack). split; [reflexivity|]. rewrite app_nil_r. split; [exact Hsub|].
    rewrite rev_length. split; [exact Hlen|]. intros [H|H]; [congruence|].
    intros E. apply H. rewrite <- (rev_involutive stack), E. reflexivity.
  - destruct (reduce_pop_ok cols r stack Hlen) as [st [pre0 [Ep Est]]].
    + intros x c Hx. apply Hmat. apply in_or_app. left. exact Hx.
    + intros c. apply Hmat. apply in_or_app. right. left. reflexivity.
    + rewrite Ep.
      assert (Hlst : length st <= length stack) by (rewrite Est, app_length; lia).
      assert (Hsubst : sub (rev st) pre).
      { eapply sub_app_l_inv; [exact Hsub|]. rewrite Est, rev_app_distr. reflexivity. }
      assert (Hin : forall x, In x st -> In x stack).
      { intros x Hx. rewrite Est. apply in_or_app. right. exact Hx. }
      destruct (Nat.eqb_spec (length st) (length cols)) as [Heq|Hne].
      * destruct (IH st (pre ++ [r])) as [res [E1 [E2 [E3 E4]]]].
        -- lia.
        -- intros x c Hx. apply Hmat. apply in_app_or in Hx. apply in_or_app.
           destruct Hx as [Hx|Hx]; [left; apply Hin; exact Hx|right; right; exact Hx].
        -- rewrite <- (app_nil_r (rev st)). apply sub_app; [exact Hsubst|apply sub_nil_l].
        -- exists res. split; [exact E1|]. rewrite <- app_assoc in E2. split; [exact E2|].
           split; [exact E3|]. intros _. apply E4. right. intros E. subst st.
           cbn [length] in Heq. destruct cols; [congruence|discriminate].
      * destruct (IH (r :: st) (pre ++ [r])) as [res [E1 [E2 [E3 E4]]]].
        -- cbn [length]. lia.
        -- intros x c Hx. apply Hmat. apply in_or_app. cbn [app] in Hx.
           destruct Hx as [Hx|Hx]; [right; left; exact Hx|]. apply in_app_or in Hx.
           destruct Hx as [Hx|Hx]; [left; apply Hin; exact Hx|right; right; exact Hx].
        -- cbn [rev]. apply sub_app; [exact Hsubst|apply sub_refl].
        -- exists res. split; [exact E1|]. rewrite <- app_assoc in E2. split; [exact E2|].
           split; [exact E3|]. intros _. apply E4. right. discriminate.
Qed.

(* the inner while loop: it stops at or before any position q >= r holding last_row, and the
   argmin it returns sits between the start position and the stopping position *)
Lemma interp_scan_ok rows col q last_row :
  (forall x, In x rows -> mat x col <> None) ->
  nth_error rows q = Some last_row ->
  forall fuel r row pa pr r0,
  nth_error rows r = Some row -> r <= q -> q - r <= fuel ->
  (exists p, r0 <= p <= r /\ nth_error rows p = Some pr) ->
  exists r' best, interp_scan fuel rows col r row last_row pa pr = Some (r', best) /\
     r <= r' <= q /\ nth_error rows r' = Some last_row /\
     exists p, r0 <= p <= r' /\ nth_error rows p = Some best.
Proof.
  intros Hmat Hq. induction fuel as [|f IH]; intros r row pa pr r0 Hr Hrq Hfuel [p [Hp1 Hp2]].
  - cbn [Smawk.interp_scan]. assert (q = r) by lia. subst q.
    assert (row = last_row) by congruence. subst row. rewrite Nat.eqb_refl.
    exists r, pr. split; [reflexivity|]. split; [lia|]. split; [exact Hr|]. exists p. split; [lia|exact Hp2].
  - cbn [Smawk.interp_scan]. destruct (Nat.eqb_spec row last_row) as [He|Hne].
    + subst row. exists r, pr. split; [reflexivity|]. split; [lia|]. split; [exact Hr|].
      exists p. split; [lia|exact Hp2].
    + assert (Hlt : r < q).
      { destruct (Nat.eq_dec r q) as [E|E]; [|lia]. subst q. congruence. }
      destruct (nth_error rows (S r)) as [row'|] eqn:En.
      2:{ apply nth_error_None in En. assert (q < length rows) by (apply nth_error_Some; congruence). lia. }
      destruct (mat row' col) as [v|] eqn:Ev.
      2:{ exfalso. apply (Hmat row'); [eapply nth_error_In; exact En|exact Ev]. }
      destruct (pair_lt Nm eqT v row' pa pr).
      * destruct (IH (S r) row' v row' r0 En ltac:(lia) ltac:(lia)) as [r' [best [E1 [E2 [E3 [p' [E4 E5]]]]]]].
        { exists (S r). split; [lia|exact En]. }
        exists r', best. split; [exact E1|]. split; [lia|]. split; [exact E3|]. exists p'. split; [lia|exact E5].
      * destruct (IH (S r) row' pa pr r0 En ltac:(lia) ltac:(lia)) as [r' [best [E1 [E2 [E3 [p' [E4 E5]]]]]]].
        { exists p. split; [lia|exact Hp2]. }
        exists r', best. split; [exact E1|]. split; [lia|]. split; [exact E3|]. exists p'. split; [lia|exact E5].
Qed.

Definition get (minima : list nat) (c : nat) : nat := nth c minima 0.

(* INTERPOLATE: given that the minima of the odd columns can be read off rows (from position
   r on) left to right, the scan for every even column reaches its last_row, and afterwards
   the minima of all remaining columns can be read off rows left to right *)
Lemma interpolate_ok rows cols :
  rows <> [] ->
  (forall x c, In x rows -> In c cols -> mat x c <> None) ->
  forall n rest c r minima, length rest <= n ->
  skipn c cols = rest -> NoDup rest -> Forall (fun col => col < length minima) rest ->
  r < length rows ->
  ssub (skipn r rows) (map (get minima) (odd_elems rest)) ->
  exists minima', interpolate rows cols rest c r minima = Some minima' /\
    length minima' = length minima /\
    ssub (skipn r rows) (map (get minima') rest) /\
    forall x, ~ In x rest -> get minima' x = get minima x.
Proof.
  intros Hrows Hmat. induction n as [|n IH]; intros rest c r minima Hn Hskip Hnd Hlt Hr Hss.
  - destruct rest; [|cbn [length] in Hn; lia]. exists minima. cbn [Smawk.interpolate map].
    split; [reflexivity|]. split; [reflexivity|]. split; [constructor|reflexivity].
  - destruct rest as [|col tl].
    { exists minima. cbn [Smawk.interpolate map].
      split; [reflexivity|]. split; [reflexivity|]. split; [constructor|reflexivity]. }
    cbn [Smawk.interpolate].
    destruct (nth_error rows r) as [row|] eqn:Erow.
    2:{ apply nth_error_None in Erow. lia. }
    assert (Hcol : In col cols). { apply (In_skipn _ c). rewrite Hskip. left. reflexivity. }
    assert (Hlen : length cols - c = length (col :: tl)) by (rewrite <- Hskip; symmetry; apply skipn_length).
    destruct (mat row col) as [v|] eqn:Ev.
    2:{ exfalso. apply (Hmat row col); [eapply nth_error_In; exact Erow|exact Hcol|exact Ev]. }
    assert (Hmatc : forall x, In x rows -> mat x col <> None) by (intros x Hx; apply Hmat; assumption).
    apply NoDup_cons_iff in Hnd. destruct Hnd as [Hnotin Hnd'].
    pose proof (Forall_inv Hlt) as Hcl. cbv beta in Hcl. pose proof (Forall_inv_tail Hlt) as Hlt'.
    destruct tl as [|col1 tl'].
    + (* last column *)
      cbn [length] in Hlen. destruct (Nat.eqb_spec c (length cols - 1)) as [_|Hne]; [|lia].
      destruct (interp_scan_ok rows col (length rows - 1) (last rows 0) Hmatc (last_nth_error _ 0 rows Hrows)
                  (length rows) r row v row r Erow ltac:(lia) ltac:(lia))
        as [r' [best [E1 [E2 [E3 [p [E4 E5]]]]]]].
      { exists r. split; [lia|exact Erow]. }
      rewrite E1. exists (set_nth minima col best).
      split; [reflexivity|]. split; [apply set_nth_length|]. split.
      * cbn [map]. unfold get at 1. rewrite nth_set_nth_same by exact Hcl.
        apply (ssub_from_cons rows [] r p best E5); [lia|constructor].
      * intros x Hx. unfold get. apply nth_set_nth_other. intros E. apply Hx. left. symmetry. exact E.
    + (* an odd column follows *)
      cbn [length] in Hlen. destruct (Nat.eqb_spec c (length cols - 1)) as [He|_]; [lia|].
      assert (Hn1 : nth (S c) cols 0 = col1).
      { replace (S c) with (c + 1) by lia. rewrite <- nth_skipn, Hskip. reflexivity. }
      rewrite Hn1. cbn [odd_elems map] in Hss.
      destruct (ssub_from_head rows r _ _ Hss) as [q [Hq1 [Hq2 Hq3]]].
      fold (get minima col1).
      destruct (interp_scan_ok rows col q (get minima col1) Hmatc Hq2
                  (length rows) r row v row r Erow Hq1)
        as [r' [best [E1 [E2 [E3 [p [E4 E5]]]]]]].
      { assert (q < length rows) by (apply nth_error_Some; congruence). lia. }
      { exists r. split; [lia|exact Erow]. }
      rewrite E1.
      apply NoDup_cons_iff in Hnd'. destruct Hnd' as [Hnotin1 Hnd''].
      pose proof (Forall_inv_tail Hlt') as Hlt''.
      destruct (IH tl' (S (S c)) r' (set_nth minima col best)) as [m2 [F1 [F2 [F3 F4]]]].
      * cbn [length] in Hn. lia.
      * apply skipn_S_of_cons with (x := col1). apply skipn_S_of_cons with (x := col). exact Hskip.
      * exact Hnd''.
      * rewrite set_nth_length. exact Hlt''.
      * apply nth_error_Some. congruence.
      * apply (ssub_from_mono rows _ r' q); [lia|].
        erewrite map_ext_in; [exact Hq3|]. intros x Hx. unfold get. apply nth_set_nth_other.
        intros E. subst x. apply Hnotin. right. apply In_odd_elems. exact Hx.
      * exists m2. split; [exact F1|]. split; [rewrite F2; apply set_nth_length|]. split.
        -- cbn [map]. rewrite (F4 col), (F4 col1).
           ++ unfold get at 1 2. rewrite nth_set_nth_same by exact Hcl.
              rewrite nth_set_nth_other.
              ** apply (ssub_from_cons rows _ r p best E5); [lia|].
                 apply (ssub_from_cons rows _ p r' _ E3); [lia|]. exact F3.
              ** intros E. apply Hnotin. left. exact E.
           ++ exact Hnotin1.
           ++ intros Hx. apply Hnotin. right. exact Hx.
        -- intros x Hx. rewrite F4.
           ++ unfold get. apply nth_set_nth_other. intros E. apply Hx. left. symmetry. exact E.
           ++ intros Hx'. apply Hx. right. right. exact Hx'.
Qed.

(* smawk_inner never panics on a non-empty row set and pairwise distinct in-range columns,
   provided the matrix is defined on rows x cols; and the minima it writes for cols can be
   read off rows left to right (this is the postcondition the caller's INTERPOLATE needs) *)
Theorem smawk_inner_ok : forall fuel rows cols minima,
  length cols < fuel -> rows <> [] -> NoDup cols ->
  Forall (fun c => c < length minima) cols ->
  (forall x c, In x rows -> In c cols -> mat x c <> None) ->
  exists minima', smawk_inner fuel rows cols minima = Some minima' /\
    length minima' = length minima /\ ssub rows (map (get minima') cols).
Proof.
  induction fuel as [|f IH]; intros rows cols minima Hfuel Hrows Hnd Hlt Hmat; [lia|].
  destruct cols as [|c0 cs].
  - exists minima. split; [reflexivity|]. split; [reflexivity|constructor].
  - cbn [Smawk.smawk_inner]. set (cols := c0 :: cs) in *.
    assert (Hcols : cols <> []) by discriminate.
    destruct (reduce_ok cols Hcols rows [] [] ltac:(cbn [length]; lia)) as [rows' [R1 [R2 [R3 R4]]]].
    + intros x c Hx. apply Hmat. exact Hx.
    + constructor.
    + rewrite R1. cbn [app] in R2.
      assert (Hrows' : rows' <> []) by (apply R4; left; exact Hrows).
      pose proof (odd_elems_length cols) as Hol.
      assert (Hcl : 1 <= length cols) by (unfold cols; cbn [length]; lia).
      destruct (IH rows' (odd_elems cols) minima) as [m1 [S1 [S2 S3]]].
      * lia.
      * exact Hrows'.
      * apply NoDup_odd_elems. exact Hnd.
      * rewrite Forall_forall in *. intros x Hx. apply Hlt. apply In_odd_elems. exact Hx.
      * intros x c Hx Hc. apply Hmat; [eapply sub_In; [exact R2|exact Hx]|apply In_odd_elems; exact Hc].
      * rewrite S1.
        destruct (interpolate_ok rows' cols Hrows') with (n := length cols) (rest := cols) (c := 0) (r := 0) (minima := m1)
          as [m2 [I1 [I2 [I3 _]]]].
        -- intros x c Hx Hc. apply Hmat; [eapply sub_In; [exact R2|exact Hx]|exact Hc].
        -- lia.
        -- reflexivity.
        -- exact Hnd.
        -- rewrite S2. exact Hlt.
        -- destruct rows'; [congruence|cbn [length]; lia].
        -- exact S3.
        -- exists m2. split; [exact I1|]. split; [congruence|]. eapply ssub_sub; [exact R2|exact I3].
Qed.
End InnerTotal.

(* ---- online_column_minima ---- *)
Section OnlineTotal.
Variable Nm : Num.
Notation T := (T Nm).
Variable eqT : T -> T -> bool.
Variable closure : list (nat * T) -> nat -> nat -> T.
Variable initial : T.
Variable size : nat.

Notation m_at := (m_at Nm closure).
Notation merge_cols := (merge_cols Nm closure).
Notation online_step := (online_step Nm eqT closure).
Notation online_loop := (online_loop Nm eqT closure).

Lemma merge_cols_total minima : forall cols result,
  (forall c, In c cols -> nth c minima 0 < c /\ c < size) ->
  exists result', merge_cols size cols minima result = Some result'.
Proof.
  induction cols as [|col r IH]; intros result H; cbn [Smawk.merge_cols].
  - exists result. reflexivity.
  - destruct (H col (or_introl eq_refl)) as [H1 H2].
    rewrite (m_at_defined Nm closure size result _ _ H1 H2).
    apply IH. intros c Hc. apply H. right. exact Hc.
Qed.

Lemma online_step_total st :
  inv Nm initial size st -> snd (fst (fst st)) + 1 <= size - 1 ->
  exists st', online_step size st = Some st'.
Proof.
  destruct st as [[[result finished] base] tentative].
  intros (Hb & Hft & Htl & Hls & Hs) Hfin. cbn [fst snd] in Hfin.
  unfold Smawk.online_step.
  destruct (Nat.ltb_spec tentative (S finished)) as [Hlt|Hge].
  - cbv zeta. rewrite !seq_length.
    remember (S finished - base) as nrows eqn:Enrows.
    remember (Nat.min (finished + nrows) (size - 1)) as t' eqn:Et'.
    assert (Ht' : S finished <= t' <= size - 1) by lia.
    destruct (smawk_inner_ok Nm eqT (m_at size result) (S (t' - finished))
                (seq base nrows) (seq (S finished) (t' - finished)) (repeat 0 (S t')))
      as [minima [E1 [E2 E3]]].
    + rewrite seq_length. lia.
    + destruct nrows; [lia|discriminate].
    + apply seq_NoDup.
    + rewrite Forall_forall. intros c Hc. apply in_seq in Hc. rewrite repeat_length. lia.
    + intros x c Hx Hc. apply in_seq in Hx. apply in_seq in Hc.
      rewrite (m_at_defined Nm closure size result x c); [discriminate|lia|lia].
    + rewrite E1.
      destruct (merge_cols_total minima (seq (S finished) (t' - finished)) result) as [result' Em].
      * intros c Hc. split.
        -- assert (Hin : In (nth c minima 0) (seq base nrows)).
           { eapply ssub_In; [exact E3|]. apply (in_map (get minima)). exact Hc. }
           apply in_seq in Hin. apply in_seq in Hc. lia.
        -- apply in_seq in Hc. lia.
      * rewrite Em. eexists. reflexivity.
  - assert (H1 : S finished - 1 < S finished) by lia.
    assert (H2 : S finished < size) by lia.
    rewrite (m_at_defined Nm closure size result _ _ H1 H2).
    destruct (nth_error result (S finished)) as [[o ri]|] eqn:Er.
    2:{ apply nth_error_None in Er. lia. }
    destruct (ltb Nm (closure result (S finished - 1) (S finished)) ri); [eexists; reflexivity|].
    assert (H3 : S finished - 1 < tentative) by lia.
    assert (H4 : tentative < size) by lia.
    rewrite (m_at_defined Nm closure size result _ _ H3 H4).
    destruct (nth_error result tentative) as [[o2 rt]|] eqn:Et.
    2:{ apply nth_error_None in Et. lia. }
    destruct (geb Nm (closure result (S finished - 1) tentative) rt); eexists; reflexivity.
Qed.

Lemma online_loop_total : forall n st,
  inv Nm initial size st -> snd (fst (fst st)) + n = size - 1 ->
  exists res, online_loop n size st = Some res.
Proof.
  induction n as [|n IH]; intros st Hinv Hn; cbn [Smawk.online_loop].
  - eexists. reflexivity.
  - destruct (online_step_total st Hinv ltac:(lia)) as [st' Es]. rewrite Es.
    destruct (online_step_inv Nm eqT closure initial size st st' Hinv Es ltac:(lia)) as [Hinv' Hf].
    apply IH; [exact Hinv'|lia].
Qed.

(* none of the asserts and index operations of smawk::online_column_minima (and of
   smawk_inner below it) can fail, whatever the closure and the comparisons do *)
Theorem online_column_minima_total : 1 <= size ->
  exists minima, online_column_minima Nm eqT closure initial size = Some minima.
Proof.
  intros Hsz. unfold online_column_minima. apply online_loop_total.
  - cbn [inv length]. repeat split; try lia. intros j p c Hj E.
    destruct j as [|j]; [lia|]. destruct j; discriminate.
  - cbn [fst snd]. lia.
Qed.
End OnlineTotal.

Theorem smawk_minima_total (Nm : Num) (eqT : T Nm -> T Nm -> bool) (P : penalties)
  (fs : list (frag Nm)) (lws : list (T Nm)) :
  smawk_minima Nm eqT P fs lws <> None.
Proof.
  unfold smawk_minima.
  destruct (online_column_minima_total Nm eqT (smawk_closure Nm P fs lws) (zero Nm) (S (length fs)))
    as [minima E]; [lia|]. rewrite E. discriminate.
Qed.

(* C06 for the model, unconditionally *)
Theorem optimal_fit_smawk_total (Nm : Num) (eqT : T Nm -> T Nm -> bool) (A : Type)
  (m : A -> frag Nm) (P : penalties) (xs : list A) (lws : list (T Nm)) :
  exists groups,
    optimal_fit_smawk eqT m P xs lws = Some groups /\
    concat groups = xs /\
    (xs <> [] -> Forall (fun l => l <> []) groups) /\
    (xs = [] -> groups = [[]]).
Proof. apply optimal_fit_smawk_partition. apply smawk_minima_total. Qed.

(* ================================================================== *)
(* S4: the smawk instance satisfies the hypothesis of the pipeline     *)
(* ================================================================== *)

Theorem ofit_smawk_ok : OfitOK ofit_smawk.
Proof. intros p ws lws. unfold ofit_smawk. apply optimal_fit_smawk_total. Qed.

(* ---- non-vacuity: the six-fragment example ---- *)
Definition fr (a b c : Z) : frag NumZ := @mkFrag NumZ a b c.
Definition ex_fs : list (frag NumZ) := [fr 3 1 0; fr 2 1 0; fr 4 1 0; fr 1 1 0; fr 5 0 0; fr 2 1 0].

Example smawk_minima_example :
  smawk_minima NumZ Z.eqb default_penalties ex_fs [10%Z; 8%Z]
  = Some (dp_minima NumZ default_penalties ex_fs [10%Z; 8%Z]).
Proof. vm_compute. reflexivity. Qed.

(* the equation  length result = tentative + 1  suggested for the loop invariant is false:
   after 5 iterations on this 12-fragment input the state is finished = 5, base = 4,
   tentative = 5 with length result = 8 (cases 2 and 4 lower tentative, result is never
   truncated); hence the invariant [inv] above uses tentative + 1 <= length result <= size *)
Fixpoint iter_step (n : nat) (size : nat) (clo : list (nat * Z) -> nat -> nat -> Z)
  (st : list (nat * Z) * nat * nat * nat) : option (nat * nat * nat * nat) :=
  match n with
  | O => let '(res, f, b, t) := st in Some (f, b, t, length res)
  | S k => match online_step NumZ Z.eqb clo size st with
           | None => None
           | Some st' => iter_step k size clo st'
           end
  end.
Definition ex_fs12 : list (frag NumZ) :=
  map (fun k => fr (Z.of_nat (k * 7 mod 5)) 1 (Z.of_nat (k mod 3) - 1)) (seq 0 12).
Example length_result_not_tentative_plus_1 :
  iter_step 5 13 (smawk_closure NumZ default_penalties ex_fs12 [10%Z; 8%Z]) ([(0, 0%Z)], 0, 0, 0)
  = Some (5, 4, 5, 8).
Proof. vm_compute. reflexivity. Qed.

Print Assumptions online_column_minima_shape.
Print Assumptions smawk_minima_ok.
Print Assumptions optimal_fit_smawk_partition.
Print Assumptions optimal_fit_smawk_some.
Print Assumptions smawk_inner_ok.
Print Assumptions online_column_minima_total.
Print Assumptions smawk_minima_total.
Print Assumptions optimal_fit_smawk_total.
Print Assumptions ofit_smawk_ok.
Print Assumptions smawk_minima_example.
