(* C01, the clause "a slice never ends in a space, except when break_words (or a
   custom splitter) had to cut a word that itself contains a space".

   Pipeline.v proves the clause for the ASCII separator.  Here it is proved for the
   Unicode separator too (T1), for lines WITH escape sequences as well, from the two
   facts the harness checks about the oracle: [OracleOK] and [NoBreakBetweenSpaces].
   T2 shows that neither exception can be dropped; T3 is the statement used by C01. *)
From Coq Require Import Lia ZArith.
From TW Require Import Wrap.
From TW Require Import EscFacts Lossless SplitBreak Pipeline.

Arguments N.add : simpl never.
Arguments N.sub : simpl never.
Arguments N.mul : simpl never.
Arguments N.leb : simpl never.
Arguments N.ltb : simpl never.
Arguments N.eqb : simpl never.

(* ================================================================== *)
(* Definitions                                                          *)
(* ================================================================== *)

Definition ends_with_sp (u : str) : Prop := exists u', u = u' ++ [SP].
Definition starts_with_sp (v : str) : Prop := exists v', v = SP :: v'.

(* no opportunity of the stripped line sits between two spaces *)
Definition NoBreakBetweenSpaces (stripped : str) (opps : list N) : Prop :=
  forall u v, stripped = u ++ v -> In (blen u) opps ->
    ~ (ends_with_sp u /\ starts_with_sp v).

(* ================================================================== *)
(* A. trailing / leading spaces                                         *)
(* ================================================================== *)

Lemma no_trailing_iff s : no_trailing_sp s <-> ~ ends_with_sp s.
Proof.
  split.
  - intros H [u E]. exact (H u E).
  - intros H u E. apply H. exists u. exact E.
Qed.

Lemma ends_with_sp_app a b : ends_with_sp b -> ends_with_sp (a ++ b).
Proof. intros [u E]. exists (a ++ u). rewrite E. apply app_assoc. Qed.

Lemma no_trailing_suffix a b : no_trailing_sp (a ++ b) -> no_trailing_sp b.
Proof. intros H u E. apply (H (a ++ u)). rewrite E. apply app_assoc. Qed.

Lemma allsp_nonnil_ends s : allsp s -> s <> [] -> ends_with_sp s.
Proof.
  intros Ha Hne. destruct (exists_last Hne) as [u [c E]]. subst s.
  apply Forall_app in Ha. destruct Ha as [_ Ha].
  inversion Ha as [|c0 r0 Hc _]; subst. exists u. reflexivity.
Qed.

Lemma allsp_nonnil_starts s : allsp s -> s <> [] -> starts_with_sp s.
Proof.
  intros Ha Hne. destruct s as [|c r]; [congruence|].
  inversion Ha as [|c0 r0 Hc _]; subst. exists r. reflexivity.
Qed.

(* ================================================================== *)
(* B. the invariant on the fragment list                                *)
(* ================================================================== *)

(* the text of the fragment does not end in a space *)
Definition ntw (w : word) : Prop := no_trailing_sp (w_word w).

(* a fragment after which a line may end even if an empty-text fragment follows:
   non-empty text, empty whitespace *)
Definition tight (w : word) : bool := nonempty (w_word w) && negb (nonempty (w_ws w)).

Lemma tight_true w : tight w = true <-> w_word w <> [] /\ w_ws w = [].
Proof.
  unfold tight. destruct (w_word w) as [|c r]; destruct (w_ws w) as [|d q]; cbn [nonempty andb negb];
    split; try discriminate; try (intros [H1 H2]; congruence); intros _; split; congruence.
Qed.

(* every fragment with an empty text is preceded by a tight fragment; [b] tells
   whether the fragment before the list is tight (true at the beginning of the line) *)
Fixpoint K (b : bool) (ws : list word) : Prop :=
  match ws with
  | [] => True
  | w :: r => (w_word w = [] -> b = true) /\ K (tight w) r
  end.

Definition endst (b : bool) (ws : list word) : bool := fold_left (fun _ w => tight w) ws b.

Lemma endst_app b a c : endst b (a ++ c) = endst (endst b a) c.
Proof. unfold endst. apply fold_left_app. Qed.

Lemma endst_snoc b a x : endst b (a ++ [x]) = tight x.
Proof. rewrite endst_app. reflexivity. Qed.

Lemma K_app a : forall b c, K b (a ++ c) <-> K b a /\ K (endst b a) c.
Proof.
  induction a as [|x a IH]; intros b c; cbn [app K].
  - unfold endst. cbn [fold_left]. tauto.
  - rewrite IH. unfold endst. cbn [fold_left]. tauto.
Qed.

Lemma K_text_ne ws : Forall text_ne ws -> forall b, K b ws.
Proof.
  induction 1 as [|w r Hw _ IH]; intros b; cbn [K]; [exact I|].
  split; [|apply IH]. intros E. contradiction.
Qed.

(* what the reassembly needs: for ANY grouping, no body ends in a space *)
Lemma body_no_trailing_K bws : Forall ntw bws -> K true bws ->
  forall groups, concat groups = bws -> Forall (fun g => no_trailing_sp (body g)) groups.
Proof.
  intros Hns HK groups Hc. apply Forall_forall. intros g Hg.
  destruct (in_split g groups Hg) as [G1 [G2 EG]].
  destruct g as [|x0 g'] eqn:Eg; [exact no_trailing_nil|]. rewrite <- Eg in *.
  assert (Hne : g <> []) by (rewrite Eg; discriminate).
  destruct (exists_last Hne) as [init [lw E]].
  assert (Ebws : bws = (concat G1 ++ init) ++ lw :: concat G2).
  { rewrite <- Hc, EG, concat_app. cbn [concat]. rewrite E, <- !app_assoc. reflexivity. }
  rewrite E, body_snoc.
  destruct (w_word lw) as [|c r] eqn:Elw.
  - rewrite app_nil_r.
    rewrite Ebws in HK. apply K_app in HK. destruct HK as [_ HK].
    cbn [K] in HK. destruct HK as [HK _]. specialize (HK Elw).
    destruct init as [|y init0] eqn:Ei; [exact no_trailing_nil|]. rewrite <- Ei in *.
    assert (Hni : init <> []) by (rewrite Ei; discriminate).
    destruct (exists_last Hni) as [init' [x Ex]].
    rewrite Ex, app_assoc, endst_snoc in HK. apply tight_true in HK. destruct HK as [K1 K2].
    rewrite Ex, gtext_snoc, K2, app_nil_r.
    apply no_trailing_app; [exact K1|].
    rewrite Ebws, Ex in Hns. apply Forall_app in Hns. destruct Hns as [Hns _].
    apply Forall_app in Hns. destruct Hns as [_ Hns].
    apply Forall_app in Hns. destruct Hns as [_ Hns].
    inversion Hns as [|w0 r0 Hx _]; subst. exact Hx.
  - apply no_trailing_app; [discriminate|].
    rewrite Ebws in Hns. apply Forall_app in Hns. destruct Hns as [_ Hns].
    inversion Hns as [|w0 r0 Hlw _]; subst. unfold ntw in Hlw. rewrite Elw in Hlw. exact Hlw.
Qed.

(* ================================================================== *)
(* C. split_words with split points that are never just after a space   *)
(* ================================================================== *)

(* the prefix that ends at byte offset [o] does not end in a space *)
Definition SafePt (w : str) (o : N) : Prop :=
  forall p q, w = p ++ q -> blen p = o -> no_trailing_sp p.

Section Split.
Variable cw : char -> N.

Lemma sw_loop_ntw w : ntw w -> forall pts prev ps,
  Forall (SafePt (w_word w)) pts -> sw_loop cw w pts prev = Some ps -> Forall ntw ps.
Proof.
  intros Hw. induction pts as [|idx r IH]; intros prev ps Hs H; cbn [sw_loop] in H.
  - destruct ((prev <? blen (w_word w)) || (prev =? 0)).
    + destruct (bdrop (w_word w) prev) as [piece|] eqn:Ed; [|discriminate].
      injection H as <-. constructor; [|constructor].
      destruct (bdrop_some _ _ _ Ed) as [p [Ep _]].
      unfold ntw in *. cbn [w_word]. rewrite Ep in Hw. exact (no_trailing_suffix _ _ Hw).
    + injection H as <-. constructor.
  - inversion Hs as [|i0 r0 Hidx Hr]; subst i0 r0.
    destruct (bslice (w_word w) 0 idx) as [pre|]; [|discriminate].
    destruct (bslice (w_word w) prev idx) as [piece|] eqn:Es; [|discriminate].
    destruct (sw_loop cw w r idx) as [rest|] eqn:E; [|discriminate].
    injection H as <-. constructor; [|exact (IH idx rest Hr E)].
    destruct (bslice_some _ _ _ _ Es) as (p & q & Ew & _ & Hpx).
    unfold ntw. cbn [w_word].
    apply (no_trailing_suffix p). apply (Hidx (p ++ piece) q); [|exact Hpx].
    rewrite Ew, app_assoc. reflexivity.
Qed.

Lemma sw_loop_K w pts ps b : valid_pts (w_word w) pts ->
  sw_loop cw w pts 0 = Some ps -> (w_word w = [] -> b = true) ->
  K b ps /\ endst b ps = tight w.
Proof.
  intros Hv Hps Hb.
  destruct (w_word w) as [|c r] eqn:Ew.
  - destruct pts as [|o pts'].
    + rewrite sw_loop_nil in Hps. injection Hps as <-. rewrite Ew.
      cbn [K w_word]. split; [split; [intros _; exact (Hb eq_refl)|exact I]|].
      unfold endst, tight. cbn [fold_left w_word nonempty andb]. rewrite Ew. reflexivity.
    + destruct Hv as [_ Hv]. inversion Hv as [|o0 r0 Ho _]; subst.
      exfalso. exact (proper_cut_nil o Ho).
  - rewrite <- Ew in Hv.
    destruct (sw_loop_valid cw w pts Hv) as [ps' [E [_ [_ [Hlen [Hne [_ [Hlast _]]]]]]]].
    rewrite Hps in E. injection E as <-.
    assert (Hne' : Forall text_ne ps) by (apply Hne; rewrite Ew; discriminate).
    split; [exact (K_text_ne ps Hne' b)|].
    assert (Hnn : ps <> []) by (intros ->; discriminate).
    destruct (exists_last Hnn) as [init [l El]].
    destruct (Hlast init l El) as [Hws _].
    rewrite El, endst_snoc. rewrite El in Hne'. apply Forall_app in Hne'.
    destruct Hne' as [_ Hl]. inversion Hl as [|l0 r0 Hl0 _]; subst l0 r0.
    unfold tight. rewrite Hws, Ew. unfold text_ne in Hl0.
    destruct (w_word l); [congruence|reflexivity].
Qed.

Lemma split_words_K sp : (forall w, valid_pts w (sp w)) -> (forall w, Forall (SafePt w) (sp w)) ->
  forall ws ps b, split_words cw sp ws = Some ps -> Forall ntw ws -> K b ws ->
  Forall ntw ps /\ K b ps /\ endst b ps = endst b ws.
Proof.
  intros Hsp Hsafe. induction ws as [|w r IH]; intros ps b H Hws HK; cbn [split_words] in H.
  - injection H as <-. split; [constructor|]. split; [exact I|reflexivity].
  - inversion Hws as [|w0 r0 Hw Hr]; subst w0 r0.
    cbn [K] in HK. destruct HK as [HK1 HK2].
    destruct (sw_loop cw w (sp (w_word w)) 0) as [a|] eqn:Ea; [|discriminate].
    destruct (split_words cw sp r) as [b0|] eqn:Eb; [|discriminate].
    injection H as <-.
    destruct (sw_loop_K w _ a b (Hsp (w_word w)) Ea HK1) as [A1 A2].
    destruct (IH b0 (tight w) eq_refl Hr HK2) as [B1 [B2 B3]].
    split; [|split].
    + apply Forall_app. split; [|exact B1].
      exact (sw_loop_ntw w Hw _ _ _ (Hsafe (w_word w)) Ea).
    + apply K_app. split; [exact A1|]. rewrite A2. exact B2.
    + rewrite endst_app, A2, B3. reflexivity.
Qed.
End Split.

(* the two built-in splitters never cut just after a space *)
Lemma split_points_safe alnum custom_sp k : k <> SplCustom ->
  forall w, Forall (SafePt w) (split_points alnum custom_sp k w).
Proof.
  intros Hk w. destruct k; cbn [split_points]; [constructor| |congruence].
  apply Forall_forall. intros o Ho. apply hyphen_points_spec in Ho.
  destruct Ho as (pre & c1 & c2 & post & E & _ & _ & Ho).
  intros p q Ew Hp u Eu.
  assert (E' : p ++ q = (pre ++ [c1; HY]) ++ c2 :: post).
  { rewrite <- Ew, E, <- app_assoc. reflexivity. }
  destruct (blen_prefix_unique p q (pre ++ [c1; HY]) (c2 :: post) E') as [Ep _]; [lia|].
  rewrite Eu in Ep. change [c1; HY] with ([c1] ++ [HY]) in Ep. rewrite app_assoc in Ep.
  apply app_inj_tail in Ep. destruct Ep as [_ Ep]. discriminate.
Qed.

(* ================================================================== *)
(* D. the Unicode separator                                             *)
(* ================================================================== *)

Lemma st_normal_dec (s : st) : {s = Normal} + {s <> Normal}.
Proof. destruct s; [left; reflexivity|right; discriminate..]. Qed.

Lemma strip_from_invis s c : s <> Normal -> strip_from s [c] = [].
Proof.
  intros Hs. cbn [strip_from]. pose proof (step_not_normal s c Hs) as Hv.
  destruct (step s c) as [s' v]. cbn [snd] in Hv. subst v. reflexivity.
Qed.

(* when the machine is inside an escape sequence after [l], some strictly earlier
   top-level position has the same stripped text *)
Lemma last_normal : forall l, final_state Normal l <> Normal ->
  exists k, (k < length l)%nat /\ final_state Normal (firstn k l) = Normal /\
            strip (firstn k l) = strip l.
Proof.
  induction l as [|c l IH] using rev_ind; intros H.
  - exfalso. apply H. reflexivity.
  - destruct (st_normal_dec (final_state Normal l)) as [En|En].
    + exists (length l). rewrite app_length. cbn [length]. split; [lia|].
      rewrite firstn_length_app. split; [exact En|].
      unfold strip. rewrite strip_from_app, En.
      rewrite final_state_app, En in H. cbn [final_state step] in H.
      cbn [strip_from step].
      destruct (c =? ESC); [rewrite app_nil_r; reflexivity|].
      exfalso. apply H. reflexivity.
    + destruct (IH En) as [k [Hk [Hf Hs]]]. exists k.
      rewrite app_length. cbn [length]. split; [lia|].
      assert (Ek : firstn k (l ++ [c]) = firstn k l).
      { rewrite firstn_app. replace (k - length l)%nat with 0%nat by lia.
        cbn [firstn]. apply app_nil_r. }
      rewrite Ek. split; [exact Hf|]. rewrite Hs.
      unfold strip. rewrite strip_from_app, (strip_from_invis _ c En), app_nil_r. reflexivity.
Qed.

(* a cut found for an opportunity that is not between two spaces of the stripped
   line is not between two spaces of the line itself *)
Lemma good_cut line opps p o :
  NoBreakBetweenSpaces (strip line) opps -> In o opps ->
  final_state Normal (firstn p line) = Normal ->
  blen (strip (firstn p line)) = o ->
  (forall p', (p' < p)%nat -> final_state Normal (firstn p' line) = Normal ->
              blen (strip (firstn p' line)) < o) ->
  forall l1 l2, line = l1 ++ l2 -> length l1 = p -> ~ (ends_with_sp l1 /\ starts_with_sp l2).
Proof.
  intros HN Hin Hf Hb Hfirst l1 l2 E Hl [[l1' E1] [l2' E2]].
  subst line.
  assert (Efn : firstn p (l1 ++ l2) = l1) by (rewrite <- Hl; apply firstn_length_app).
  rewrite Efn in Hf, Hb. subst l1 l2.
  destruct (st_normal_dec (final_state Normal l1')) as [En|En].
  - apply (HN (strip (l1' ++ [SP])) (strip (SP :: l2'))).
    + unfold strip. rewrite strip_from_app, Hf. reflexivity.
    + rewrite Hb. exact Hin.
    + split.
      * exists (strip l1'). unfold strip. rewrite strip_from_app, En. reflexivity.
      * exists (strip l2'). reflexivity.
  - destruct (last_normal l1' En) as [k [Hk [Hfk Hsk]]].
    assert (Ek : firstn k ((l1' ++ [SP]) ++ SP :: l2') = firstn k l1').
    { rewrite <- app_assoc, firstn_app. replace (k - length l1')%nat with 0%nat by lia.
      cbn [firstn]. apply app_nil_r. }
    assert (Hlt : (k < p)%nat).
    { rewrite <- Hl, app_length. cbn [length]. lia. }
    specialize (Hfirst k Hlt). rewrite Ek in Hfirst. specialize (Hfirst Hfk).
    rewrite Hsk in Hfirst.
    unfold strip in Hb. rewrite strip_from_app, (strip_from_invis _ SP En), app_nil_r in Hb.
    unfold strip in Hfirst. lia.
Qed.

Section Uni.
Variable cw : char -> N.

Lemma word_from_text_nil s : w_word (word_from cw s) = [] -> allsp s.
Proof.
  intros E. destruct (word_from_spec cw s) as [Hs [Hsp _]]. cbv zeta in Hs, Hsp.
  rewrite E in Hs. cbn [app] in Hs. rewrite <- Hs. exact Hsp.
Qed.

Lemma word_from_tight s : s <> [] -> no_trailing_sp s -> tight (word_from cw s) = true.
Proof.
  intros Hne Hnt. destruct (word_from_spec cw s) as [Hs [Hsp _]]. cbv zeta in Hs, Hsp.
  apply tight_true.
  assert (Hws : w_ws (word_from cw s) = []).
  { destruct (w_ws (word_from cw s)) as [|d q] eqn:Ews; [reflexivity|]. exfalso.
    assert (Hq : d :: q <> []) by discriminate.
    destruct (allsp_nonnil_ends (d :: q) Hsp Hq) as [u Eu].
    apply (Hnt (w_word (word_from cw s) ++ u)). rewrite <- app_assoc, <- Eu. symmetry. exact Hs. }
  split; [|exact Hws]. rewrite Hws, app_nil_r in Hs. rewrite Hs. exact Hne.
Qed.

(* the pieces: a piece of spaces only is preceded by a non-empty piece that does not
   end in a space, when no cut is between two spaces *)
Lemma pieces_K : forall cuts start t b,
  t <> [] ->
  Forall (fun p => (p < start + length t)%nat) cuts ->
  ForallOrdPairs lt cuts -> Forall (lt start) cuts ->
  Forall (fun p => forall l1 l2, t = l1 ++ l2 -> length l1 = (p - start)%nat ->
                   ~ (ends_with_sp l1 /\ starts_with_sp l2)) cuts ->
  (starts_with_sp t -> b = true) ->
  K b (map (word_from cw) (pieces cuts start t)).
Proof.
  induction cuts as [|p r IH]; intros start t b Hne Hb Hinc Hlt Hgood Hhd; cbn [pieces].
  - destruct t as [|c t']; [congruence|]. cbn [map K]. split; [|exact I].
    intros E. apply Hhd. apply allsp_nonnil_starts; [exact (word_from_text_nil _ E)|discriminate].
  - inversion Hb as [|p0 r0 Hp Hbr]; subst p0 r0.
    inversion Hinc as [|p0 r0 Hpr Hincr]; subst p0 r0.
    inversion Hlt as [|p0 r0 Hsp Hltr]; subst p0 r0.
    inversion Hgood as [|p0 r0 Hgp Hgr]; subst p0 r0.
    remember (p - start)%nat as n eqn:En.
    assert (Hn : (0 < n < length t)%nat) by lia.
    assert (Hl1 : length (firstn n t) = n) by (rewrite firstn_length; lia).
    assert (Hf1 : firstn n t <> []).
    { intros E0. rewrite E0 in Hl1. cbn [length] in Hl1. lia. }
    cbn [map K]. split.
    + intros E.
      destruct (allsp_nonnil_starts _ (word_from_text_nil _ E) Hf1) as [v' Ev].
      apply Hhd. exists (v' ++ skipn n t).
      rewrite <- (firstn_skipn n t) at 1. rewrite Ev. reflexivity.
    + apply IH.
      * intros E0. apply (f_equal (@length char)) in E0. rewrite skipn_length in E0.
        cbn [length] in E0. lia.
      * rewrite skipn_length. eapply Forall_impl; [|exact Hbr].
        intros a Ha. cbv beta in Ha. lia.
      * exact Hincr.
      * exact Hpr.
      * rewrite Forall_forall in Hgr, Hpr |- *. intros p' Hp' l1 l2 E12 Hl12.
        specialize (Hpr p' Hp'). intros [He Hs].
        apply (Hgr p' Hp' (firstn n t ++ l1) l2).
        -- rewrite <- app_assoc, <- E12. symmetry. apply firstn_skipn.
        -- rewrite app_length, Hl1, Hl12. lia.
        -- split; [apply ends_with_sp_app; exact He|exact Hs].
      * intros Hs. apply word_from_tight; [exact Hf1|]. apply no_trailing_iff. intros He.
        apply (Hgp (firstn n t) (skipn n t)).
        -- symmetry. apply firstn_skipn.
        -- exact Hl1.
        -- split; assumption.
Qed.

Variable lbc : str -> list N.

Theorem find_words_unicode_K line :
  OracleOK (strip line) (lbc (strip line)) ->
  NoBreakBetweenSpaces (strip line) (lbc (strip line)) ->
  Forall ntw (find_words_unicode cw lbc line) /\ K true (find_words_unicode cw lbc line).
Proof.
  intros Hok Hnb. split.
  - destruct (unicode_lossless cw lbc line) as [_ Hw].
    eapply Forall_impl; [|exact Hw]. intros w [_ [Hnt _]]. exact Hnt.
  - unfold find_words_unicode. cbv zeta.
    destruct (unicode_cuts_found line _ Hok) as [_ [Hfop Hlt]]. cbv zeta in Hfop, Hlt.
    pose proof (unicode_cuts_top line _ Hok) as Htop. cbv zeta in Htop.
    set (kept := filter (keep_opportunity (strip line)) (lbc (strip line))) in *.
    set (cuts := cut_positions kept (idx_map line)) in *.
    assert (Hkept : Forall (fun o => 0 < o /\ In o (lbc (strip line))) kept).
    { apply Forall_forall. intros o Ho. unfold kept in Ho. apply filter_In in Ho.
      destruct Ho as [Hin _]. split; [|exact Hin].
      destruct Hok as [_ [Hpre _]]. rewrite Forall_forall in Hpre.
      exact (proj1 (Hpre o Hin)). }
    assert (Hcuts : Forall (fun p => (0 < p)%nat /\
                     forall l1 l2, line = l1 ++ l2 -> length l1 = p ->
                                   ~ (ends_with_sp l1 /\ starts_with_sp l2)) cuts).
    { refine (Forall2_Forall_l _ _ _ cuts kept Hkept _ Htop).
      intros p o [Hpos Hin] [Hf [Hb Hfirst]]. split.
      - destruct p as [|p']; [|lia]. cbn [firstn] in Hb. cbn in Hb. lia.
      - exact (good_cut line _ p o Hnb Hin Hf Hb Hfirst). }
    destruct line as [|c l].
    + destruct cuts as [|p r]; [exact I|].
      inversion Hlt as [|p0 r0 Hp _]. cbn [length] in Hp. lia.
    + apply pieces_K.
      * discriminate.
      * exact Hlt.
      * exact Hfop.
      * eapply Forall_impl; [|exact Hcuts]. intros p [Hp _]. exact Hp.
      * eapply Forall_impl; [|exact Hcuts]. intros p [_ Hg] l1 l2 E12 Hl12.
        rewrite Nat.sub_0_r in Hl12. exact (Hg l1 l2 E12 Hl12).
      * intros _. reflexivity.
Qed.
End Uni.

(* ================================================================== *)
(* T1. the main theorem, any separator                                  *)
(* ================================================================== *)

(* Exactly the target statement; no hypothesis had to be added.  In particular the
   line may contain escape sequences: a cut is the FIRST top-level position with the
   stripped offset of its opportunity, so the character just before a cut is always a
   visible character (otherwise the ESC that starts the sequence would be an earlier
   position with the same offset), and "the line has a space on both sides of the cut"
   implies the same for the stripped line ([good_cut]). *)
Theorem no_trailing_sp_unbroken cw alnum lbc custom_sp o first line bws :
  SplitterOK custom_sp ->
  o_bw o = false -> o_spl o <> SplCustom ->
  (o_sep o = SepUnicode ->
     OracleOK (strip line) (lbc (strip line)) /\
     NoBreakBetweenSpaces (strip line) (lbc (strip line))) ->
  pipeline_words cw alnum lbc custom_sp o first line = Some bws ->
  forall groups, concat groups = bws ->
    Forall (fun g => no_trailing_sp (body g)) groups.
Proof.
  intros HS Hbw Hspl Hor Hp groups Hc.
  destruct (o_sep o) eqn:Hsep.
  - exact (slow_path_ascii_no_trailing_sp cw alnum lbc custom_sp o first line bws groups
             HS Hsep Hp Hc).
  - destruct (Hor eq_refl) as [Hok Hnb].
    unfold pipeline_words in Hp. rewrite Hsep, Hbw in Hp. cbn [find_words] in Hp.
    destruct (split_words cw (split_points alnum custom_sp (o_spl o))
                (find_words_unicode cw lbc line)) as [sws|] eqn:Es; [|discriminate].
    injection Hp as <-.
    destruct (find_words_unicode_K cw lbc line Hok Hnb) as [F1 F2].
    destruct (split_words_K cw _ (split_points_valid alnum custom_sp HS (o_spl o))
                (split_points_safe alnum custom_sp (o_spl o) Hspl) _ sws true Es F1 F2)
      as [S1 [S2 _]].
    exact (body_no_trailing_K sws S1 S2 groups Hc).
Qed.

(* ================================================================== *)
(* T3. the statement used by C01                                        *)
(* ================================================================== *)

Theorem body_ends_in_space_only_if cw alnum lbc custom_sp o first line bws groups g :
  SplitterOK custom_sp ->
  (o_sep o = SepUnicode -> OracleOK (strip line) (lbc (strip line)) /\
                           NoBreakBetweenSpaces (strip line) (lbc (strip line))) ->
  pipeline_words cw alnum lbc custom_sp o first line = Some bws ->
  concat groups = bws -> In g groups ->
  ~ no_trailing_sp (body g) ->
  o_sep o = SepUnicode /\ (o_bw o = true \/ o_spl o = SplCustom).
Proof.
  intros HS Hor Hp Hc Hg Hn.
  destruct (o_sep o) eqn:Hsep.
  - exfalso. apply Hn.
    pose proof (slow_path_ascii_no_trailing_sp cw alnum lbc custom_sp o first line bws groups
                  HS Hsep Hp Hc) as H.
    rewrite Forall_forall in H. exact (H g Hg).
  - split; [reflexivity|].
    destruct (o_bw o) eqn:Hbw; [left; reflexivity|right].
    destruct (o_spl o) eqn:Hspl; [exfalso|exfalso|reflexivity]; apply Hn.
    + assert (Hs : o_spl o <> SplCustom) by (rewrite Hspl; discriminate).
      assert (Hor' : o_sep o = SepUnicode -> OracleOK (strip line) (lbc (strip line)) /\
                       NoBreakBetweenSpaces (strip line) (lbc (strip line))) by (intros _; exact (Hor eq_refl)).
      pose proof (no_trailing_sp_unbroken cw alnum lbc custom_sp o first line bws
                    HS Hbw Hs Hor' Hp groups Hc) as H.
      rewrite Forall_forall in H. exact (H g Hg).
    + assert (Hs : o_spl o <> SplCustom) by (rewrite Hspl; discriminate).
      assert (Hor' : o_sep o = SepUnicode -> OracleOK (strip line) (lbc (strip line)) /\
                       NoBreakBetweenSpaces (strip line) (lbc (strip line))) by (intros _; exact (Hor eq_refl)).
      pose proof (no_trailing_sp_unbroken cw alnum lbc custom_sp o first line bws
                    HS Hbw Hs Hor' Hp groups Hc) as H.
      rewrite Forall_forall in H. exact (H g Hg).
Qed.

(* ================================================================== *)
(* T2. neither exception can be dropped                                 *)
(* ================================================================== *)

Definition ex_cw1 : char -> N := fun _ => 1.

(* (i) break_words cuts inside a Unicode word that contains a space.
   Text "a )", width 2, unicode-linebreak answers [3] (no break before ')', LB13):
   ONE word "a )" of width 3, which break_words must cut into "a " and ")".
   Both hypotheses on the oracle hold; the first line is "a " -- it ends in a space. *)
Definition ex_o1 : options := mkOptions 2 LE_LF [] [] true FirstFit SepUnicode SplHyphen.
Definition ex_t1 : str := [97; 32; 41].
Definition ex_lbc1 : str -> list N := fun _ => [3].

Example exception_break_words :
  OracleOK (strip ex_t1) (ex_lbc1 (strip ex_t1)) /\
  NoBreakBetweenSpaces (strip ex_t1) (ex_lbc1 (strip ex_t1)) /\
  find_words_unicode ex_cw1 ex_lbc1 ex_t1 = [mkWord [97; 32; 41] [] [] 3] /\
  pipeline_words ex_cw1 ex_alnum ex_lbc1 (fun _ => []) ex_o1 true ex_t1 =
    Some [mkWord [97; 32] [] [] 2; mkWord [41] [] [] 1] /\
  run_alg ofit_dp (o_alg ex_o1) [mkWord [97; 32] [] [] 2; mkWord [41] [] [] 1]
          (line_widths ex_cw1 ex_o1 true) =
    Some [[mkWord [97; 32] [] [] 2]; [mkWord [41] [] [] 1]] /\
  body [mkWord [97; 32] [] [] 2] = [97; 32] /\
  ~ no_trailing_sp (body [mkWord [97; 32] [] [] 2]) /\
  wrap ex_cw1 ex_alnum ex_lbc1 (fun _ => []) ofit_dp ex_o1 ex_t1 =
    Some [mkLine [97; 32] (Borrowed 0); mkLine [41] (Borrowed 2)].
Proof.
  split; [|split; [|split; [|split; [|split; [|split; [|split]]]]]].
  - split; [|split].
    + repeat constructor.
    + repeat constructor. exists [97; 32; 41], []. split; vm_compute; reflexivity.
    + intros _. vm_compute. reflexivity.
  - intros u v E Hin [_ [v' Ev]]. subst v.
    change (strip ex_t1) with [97; 32; 41] in E. cbn [ex_lbc1 In] in Hin.
    destruct Hin as [Hin|[]].
    assert (Hb : blen (u ++ SP :: v') = 3) by (rewrite <- E; reflexivity).
    rewrite Lossless.blen_app in Hb. cbn [blen] in Hb.
    pose proof (utf8_len_pos SP). lia.
  - vm_compute. reflexivity.
  - vm_compute. reflexivity.
  - vm_compute. reflexivity.
  - vm_compute. reflexivity.
  - intros H. apply (H [97]). vm_compute. reflexivity.
  - vm_compute. reflexivity.
Qed.

(* (ii) an oracle that breaks between two spaces.  Text "ab  cd", width 3, oracle
   [3; 4; 6] (a real UAX #14 implementation answers [4; 6]): OracleOK holds,
   NoBreakBetweenSpaces does not; the pieces are "ab ", " ", "cd", the second word has
   an empty text, and although nothing is broken (o_bw = false, no custom splitter)
   the first line is "ab " -- it ends in a space. *)
Definition ex_o2 : options := mkOptions 3 LE_LF [] [] false FirstFit SepUnicode SplHyphen.
Definition ex_t2 : str := [97; 98; 32; 32; 99; 100].
Definition ex_lbc2 : str -> list N := fun _ => [3; 4; 6].

Example exception_break_between_spaces :
  OracleOK (strip ex_t2) (ex_lbc2 (strip ex_t2)) /\
  ~ NoBreakBetweenSpaces (strip ex_t2) (ex_lbc2 (strip ex_t2)) /\
  o_bw ex_o2 = false /\ o_spl ex_o2 <> SplCustom /\
  pipeline_words ex_cw1 ex_alnum ex_lbc2 (fun _ => []) ex_o2 true ex_t2 =
    Some [mkWord [97; 98] [32] [] 2; mkWord [] [32] [] 0; mkWord [99; 100] [] [] 2] /\
  run_alg ofit_dp (o_alg ex_o2)
          [mkWord [97; 98] [32] [] 2; mkWord [] [32] [] 0; mkWord [99; 100] [] [] 2]
          (line_widths ex_cw1 ex_o2 true) =
    Some [[mkWord [97; 98] [32] [] 2; mkWord [] [32] [] 0]; [mkWord [99; 100] [] [] 2]] /\
  body [mkWord [97; 98] [32] [] 2; mkWord [] [32] [] 0] = [97; 98; 32] /\
  ~ no_trailing_sp (body [mkWord [97; 98] [32] [] 2; mkWord [] [32] [] 0]) /\
  wrap ex_cw1 ex_alnum ex_lbc2 (fun _ => []) ofit_dp ex_o2 ex_t2 =
    Some [mkLine [97; 98; 32] (Borrowed 0); mkLine [99; 100] (Borrowed 4)].
Proof.
  split; [|split; [|split; [|split; [|split; [|split; [|split; [|split]]]]]]].
  - split; [|split].
    + repeat constructor.
    + repeat constructor.
      * exists [97; 98; 32], [32; 99; 100]. split; vm_compute; reflexivity.
      * exists [97; 98; 32; 32], [99; 100]. split; vm_compute; reflexivity.
      * exists [97; 98; 32; 32; 99; 100], []. split; vm_compute; reflexivity.
    + intros _. vm_compute. reflexivity.
  - intros H. apply (H [97; 98; 32] [32; 99; 100]).
    + vm_compute. reflexivity.
    + vm_compute. left. reflexivity.
    + split; [exists [97; 98]|exists [99; 100]]; reflexivity.
  - reflexivity.
  - discriminate.
  - vm_compute. reflexivity.
  - vm_compute. reflexivity.
  - vm_compute. reflexivity.
  - intros H. apply (H [97; 98]). vm_compute. reflexivity.
  - vm_compute. reflexivity.
Qed.

(* (iii) the custom splitter of the harness (a split point before every third
   character) cuts the Unicode word "ab )x" (oracle [5]) into "ab " and ")x":
   o_bw = false, both oracle hypotheses hold, the first line is "ab -". *)
Definition ex_o3 : options := mkOptions 3 LE_LF [] [] false FirstFit SepUnicode SplCustom.
Definition ex_t3 : str := [97; 98; 32; 41; 120].
Definition ex_lbc3 : str -> list N := fun _ => [5].

Example exception_custom_splitter :
  OracleOK (strip ex_t3) (ex_lbc3 (strip ex_t3)) /\
  NoBreakBetweenSpaces (strip ex_t3) (ex_lbc3 (strip ex_t3)) /\
  pipeline_words ex_cw1 ex_alnum ex_lbc3 Custom.custom3 ex_o3 true ex_t3 =
    Some [mkWord [97; 98; 32] [] [45] 3; mkWord [41; 120] [] [] 2] /\
  run_alg ofit_dp (o_alg ex_o3) [mkWord [97; 98; 32] [] [45] 3; mkWord [41; 120] [] [] 2]
          (line_widths ex_cw1 ex_o3 true) =
    Some [[mkWord [97; 98; 32] [] [45] 3]; [mkWord [41; 120] [] [] 2]] /\
  ~ no_trailing_sp (body [mkWord [97; 98; 32] [] [45] 3]) /\
  wrap ex_cw1 ex_alnum ex_lbc3 Custom.custom3 ofit_dp ex_o3 ex_t3 =
    Some [mkLine [97; 98; 32; 45] Owned; mkLine [41; 120] (Borrowed 3)].
Proof.
  split; [|split; [|split; [|split; [|split]]]].
  - split; [|split].
    + repeat constructor.
    + repeat constructor. exists [97; 98; 32; 41; 120], []. split; vm_compute; reflexivity.
    + intros _. vm_compute. reflexivity.
  - intros u v E Hin [_ [v' Ev]]. subst v.
    change (strip ex_t3) with [97; 98; 32; 41; 120] in E. cbn [ex_lbc3 In] in Hin.
    destruct Hin as [Hin|[]].
    assert (Hb : blen (u ++ SP :: v') = 5) by (rewrite <- E; reflexivity).
    rewrite Lossless.blen_app in Hb. cbn [blen] in Hb.
    pose proof (utf8_len_pos SP). lia.
  - vm_compute. reflexivity.
  - vm_compute. reflexivity.
  - intros H. apply (H [97; 98]). vm_compute. reflexivity.
  - vm_compute. reflexivity.
Qed.

Print Assumptions find_words_unicode_K.
Print Assumptions no_trailing_sp_unbroken.
Print Assumptions body_ends_in_space_only_if.
Print Assumptions exception_break_words.
Print Assumptions exception_break_between_spaces.
Print Assumptions exception_custom_splitter.
