(* C07: first-fit is greedy-maximal, and the declarative greedy property
   characterises the output of first_fit (over exact integers, NumZ). *)
From Coq Require Import List ZArith Lia Bool Arith.
From TW Require Import FirstFit Partition.
Import ListNotations.

Arguments N.add : simpl never. Arguments N.sub : simpl never. Arguments N.mul : simpl never.
Arguments N.leb : simpl never. Arguments N.ltb : simpl never. Arguments N.eqb : simpl never.
Local Arguments Z.add : simpl never. Local Arguments Z.gtb : simpl never.

Local Open Scope Z_scope.

Section Greedy.
Variable A : Type.
Variable m : A -> frag NumZ.

(* accumulated width of a run of fragments as the loop computes it *)
Definition run_width (l : list A) : Z :=
  fold_left (fun a x => (a + (fw (m x) + fws (m x)))%Z) l 0%Z.

(* lines is a greedy arrangement for the line widths lws *)
Definition Greedy (lws : list Z) (lines : list (list A)) : Prop :=
  forall k pre x post,
    nth_error lines k = Some (pre ++ x :: post) ->
    (* every fragment that is not the first of its line fitted when it was added *)
    (pre <> [] -> (run_width pre + fw (m x) + fpen (m x) <= @nth_width NumZ lws k)%Z) /\
    (* and the first fragment of the following line did not fit on this one *)
    (post = [] -> forall y rest, nth_error lines (S k) = Some (y :: rest) ->
       (run_width (pre ++ [x]) + fw (m y) + fpen (m y) > @nth_width NumZ lws k)%Z).

(* the same, for a list of lines whose first line has number k0 *)
Definition GreedyFrom (lws : list Z) (k0 : nat) (lines : list (list A)) : Prop :=
  forall k pre x post,
    nth_error lines k = Some (pre ++ x :: post) ->
    (pre <> [] -> (run_width pre + fw (m x) + fpen (m x) <= @nth_width NumZ lws (k0 + k))%Z) /\
    (post = [] -> forall y rest, nth_error lines (S k) = Some (y :: rest) ->
       (run_width (pre ++ [x]) + fw (m y) + fpen (m y) > @nth_width NumZ lws (k0 + k))%Z).

Lemma Greedy_from0 lws lines : Greedy lws lines <-> GreedyFrom lws 0 lines.
Proof. unfold Greedy, GreedyFrom. cbn [Nat.add]. tauto. Qed.

(* every non-first fragment of the (partial) line fitted on line k *)
Definition CurOK (lws : list Z) (k : nat) (cur : list A) : Prop :=
  forall pre x post, cur = pre ++ x :: post -> pre <> [] ->
    (run_width pre + fw (m x) + fpen (m x) <= @nth_width NumZ lws k)%Z.

Lemma run_width_nil : run_width [] = 0.
Proof. reflexivity. Qed.

Lemma run_width_snoc l x : run_width (l ++ [x]) = run_width l + (fw (m x) + fws (m x)).
Proof. unfold run_width. rewrite fold_left_app. reflexivity. Qed.

Lemma run_width_single x : run_width [x] = 0 + (fw (m x) + fws (m x)).
Proof. reflexivity. Qed.

(* ---- a forward (non-accumulating) presentation of the loop ---- *)
Fixpoint ffr (lws : list Z) (k : nat) (xs : list A) (cur : list A) (w : Z) : list (list A) :=
  match xs with
  | [] => [cur]
  | x :: rest =>
      if (w + fw (m x) + fpen (m x) >? @nth_width NumZ lws k)
         && match cur with [] => false | _ => true end
      then cur :: ffr lws (S k) rest [x] (0 + (fw (m x) + fws (m x)))
      else ffr lws k rest (cur ++ [x]) (w + (fw (m x) + fws (m x)))
  end.

Lemma nonnil_rev (l : list A) :
  match rev l with [] => false | _ => true end = match l with [] => false | _ => true end.
Proof.
  destruct l as [|c l']; [reflexivity|]. cbn [rev].
  destruct (rev l') as [|d r]; reflexivity.
Qed.

Lemma ff_loop_ffr lws xs : forall done cur w,
  ff_loop NumZ A m lws xs done cur w = rev done ++ ffr lws (length done) xs (rev cur) w.
Proof.
  induction xs as [|x rest IH]; intros done cur w; cbn [ff_loop ffr].
  - reflexivity.
  - rewrite nonnil_rev. cbn [gtb add zero NumZ T].
    destruct ((w + fw (m x) + fpen (m x) >? @nth_width NumZ lws (length done))
              && match cur with [] => false | _ => true end).
    + rewrite IH. cbn [rev length app]. rewrite <- app_assoc. reflexivity.
    + rewrite IH. cbn [rev]. reflexivity.
Qed.

Lemma first_fit_ffr xs lws : first_fit m xs lws = ffr lws 0 xs [] 0.
Proof. unfold first_fit. rewrite ff_loop_ffr. reflexivity. Qed.

(* the first line of the result extends the current partial line *)
Lemma ffr_head lws xs : forall k cur w, exists l0 ls, ffr lws k xs cur w = (cur ++ l0) :: ls.
Proof.
  induction xs as [|x rest IH]; intros k cur w; cbn [ffr].
  - exists [], []. rewrite app_nil_r. reflexivity.
  - destruct (_ && _).
    + exists [], (ffr lws (S k) rest [x] (0 + (fw (m x) + fws (m x)))).
      rewrite app_nil_r. reflexivity.
    + destruct (IH k (cur ++ [x]) (w + (fw (m x) + fws (m x)))) as [l0 [ls E]].
      exists (x :: l0), ls. rewrite E, <- app_assoc. reflexivity.
Qed.

(* ---- structural lemmas about GreedyFrom ---- *)
Lemma greedy_cons lws k cur L :
  CurOK lws k cur ->
  (forall y rest, nth_error L 0 = Some (y :: rest) -> cur <> [] ->
     (run_width cur + fw (m y) + fpen (m y) > @nth_width NumZ lws k)%Z) ->
  GreedyFrom lws (S k) L ->
  GreedyFrom lws k (cur :: L).
Proof.
  intros Hc Hn HL j pre x post Hj. destruct j as [|j']; cbn [nth_error] in Hj.
  - injection Hj as Hj. rewrite Nat.add_0_r. split.
    + intros Hpre. exact (Hc pre x post Hj Hpre).
    + intros Hpost y rest Hy. cbn [nth_error] in Hy. subst post.
      rewrite <- Hj. apply (Hn y rest Hy). rewrite Hj. intros E.
      apply app_eq_nil in E. destruct E as [_ E]. discriminate.
  - rewrite Nat.add_succ_r. destruct (HL j' pre x post Hj) as [H1 H2]. split.
    + exact H1.
    + intros Hpost y rest Hy. cbn [nth_error] in Hy. exact (H2 Hpost y rest Hy).
Qed.

Lemma greedy_tail lws k l L : GreedyFrom lws k (l :: L) -> GreedyFrom lws (S k) L.
Proof.
  intros H j pre x post Hj. destruct (H (S j) pre x post Hj) as [H1 H2].
  rewrite Nat.add_succ_r in H1, H2. split; [exact H1|].
  intros Hpost y rest Hy. exact (H2 Hpost y rest Hy).
Qed.

Lemma greedy_head_ok lws k l L : GreedyFrom lws k (l :: L) -> CurOK lws k l.
Proof.
  intros H pre x post E Hpre. destruct (H 0%nat pre x post) as [H1 _].
  - cbn [nth_error]. rewrite E. reflexivity.
  - rewrite Nat.add_0_r in H1. exact (H1 Hpre).
Qed.

Lemma greedy_head_next lws k l y r L : l <> [] -> GreedyFrom lws k (l :: (y :: r) :: L) ->
  (run_width l + fw (m y) + fpen (m y) > @nth_width NumZ lws k)%Z.
Proof.
  intros Hl H. destruct (exists_last Hl) as [pre [x E]]. subst l.
  destruct (H 0%nat pre x []) as [_ H2]; [reflexivity|].
  rewrite Nat.add_0_r in H2. exact (H2 eq_refl y r eq_refl).
Qed.

Lemma CurOK_single lws k x : CurOK lws k [x].
Proof.
  intros pre x' post E Hpre. exfalso. apply (f_equal (@length A)) in E.
  rewrite app_length in E. cbn [length] in E. destruct pre as [|p pre']; [congruence|].
  cbn [length] in E. lia.
Qed.

Lemma CurOK_nil lws k : CurOK lws k [].
Proof.
  intros pre x post E _. exfalso. destruct pre; discriminate.
Qed.

Lemma nil_or_last (l : list A) : l = [] \/ exists l' z, l = l' ++ [z].
Proof.
  destruct l as [|a l0]; [left; reflexivity|right].
  assert (H : a :: l0 <> []) by discriminate.
  destruct (exists_last H) as [l' [z E]]. exists l', z. exact E.
Qed.

Lemma CurOK_snoc lws k cur x :
  CurOK lws k cur ->
  (cur <> [] -> (run_width cur + fw (m x) + fpen (m x) <= @nth_width NumZ lws k)%Z) ->
  CurOK lws k (cur ++ [x]).
Proof.
  intros Hc Hx pre x' post E Hpre.
  destruct (nil_or_last post) as [Hp | [post' [z Hp]]].
  - subst post. apply app_inj_tail in E. destruct E as [E1 E2]. subst pre x'. exact (Hx Hpre).
  - subst post. change (pre ++ x' :: post' ++ [z]) with (pre ++ (x' :: post') ++ [z]) in E.
    rewrite app_assoc in E. apply app_inj_tail in E. destruct E as [E1 _].
    exact (Hc pre x' post' E1 Hpre).
Qed.

(* ---- target 1: the loop output is greedy ---- *)
Lemma ffr_greedy lws xs : forall k cur w,
  w = run_width cur -> CurOK lws k cur -> GreedyFrom lws k (ffr lws k xs cur w).
Proof.
  induction xs as [|x rest IH]; intros k cur w Hw Hc; cbn [ffr].
  - apply greedy_cons.
    + exact Hc.
    + intros y r Hy. discriminate.
    + intros j pre x post Hj. destruct j; discriminate.
  - destruct (Z.gtb_spec (w + fw (m x) + fpen (m x)) (@nth_width NumZ lws k)) as [Hgt|Hle];
      cbn [andb].
    + destruct cur as [|c cur'] eqn:Ecur.
      * (* empty current line: no break *)
        apply IH.
        -- rewrite run_width_snoc, Hw. reflexivity.
        -- apply CurOK_snoc; [exact Hc|]. intros Hne. congruence.
      * rewrite <- Ecur in *. apply greedy_cons.
        -- exact Hc.
        -- intros y r Hy _.
           destruct (ffr_head lws rest (S k) [x] (0 + (fw (m x) + fws (m x)))) as [l0 [ls E]].
           rewrite E in Hy. cbn [nth_error app] in Hy. injection Hy as Hy1 Hy2. subst y.
           rewrite <- Hw. lia.
        -- apply IH; [apply run_width_single|apply CurOK_single].
    + apply IH.
      * rewrite run_width_snoc, Hw. reflexivity.
      * apply CurOK_snoc; [exact Hc|]. intros _. rewrite <- Hw. exact Hle.
Qed.

Theorem first_fit_greedy : forall xs lws, Greedy lws (first_fit m xs lws).
Proof.
  intros xs lws. apply Greedy_from0. rewrite first_fit_ffr.
  apply ffr_greedy; [reflexivity|apply CurOK_nil].
Qed.

(* ---- target 2: a greedy arrangement of xs into non-empty lines is the output ---- *)
Lemma concat_nil_nonempty (ls : list (list A)) :
  Forall (fun l => l <> []) ls -> concat ls = [] -> ls = [].
Proof.
  intros Hne Hc. destruct ls as [|l ls']; [reflexivity|]. exfalso.
  cbn [concat] in Hc. apply app_eq_nil in Hc. destruct Hc as [Hl _].
  inversion Hne as [|? ? Hl' _]. exact (Hl' Hl).
Qed.

Lemma ffr_unique lws xs : forall k cur w l0 ls,
  w = run_width cur ->
  concat (l0 :: ls) = xs ->
  Forall (fun l => l <> []) ((cur ++ l0) :: ls) ->
  GreedyFrom lws k ((cur ++ l0) :: ls) ->
  (cur ++ l0) :: ls = ffr lws k xs cur w.
Proof.
  induction xs as [|x rest IH]; intros k cur w l0 ls Hw Hcat Hne Hg; cbn [ffr].
  - cbn [concat] in Hcat. apply app_eq_nil in Hcat. destruct Hcat as [Hl0 Hls]. subst l0.
    inversion Hne as [|? ? _ Hne']. subst.
    rewrite (concat_nil_nonempty ls Hne' Hls), app_nil_r. reflexivity.
  - inversion Hne as [|? ? Hne0 Hne']. subst.
    destruct l0 as [|x0 l0'].
    + (* the current line is complete: x starts the next line *)
      rewrite app_nil_r in *. cbn [concat app] in Hcat.
      destruct ls as [|l1 ls']; [discriminate|].
      inversion Hne' as [|? ? Hne1 Hne'']. subst.
      destruct l1 as [|y r1]; [congruence|].
      cbn [concat app] in Hcat. injection Hcat as Hy Hrest. subst y.
      pose proof (greedy_head_next lws k cur x r1 ls' Hne0 Hg) as Hgt.
      destruct (Z.gtb_spec (run_width cur + fw (m x) + fpen (m x)) (@nth_width NumZ lws k))
        as [_|Hle]; [|lia].
      destruct cur as [|c cur'] eqn:Ecur; [congruence|]. rewrite <- Ecur in *.
      cbn [andb]. f_equal.
      change (x :: r1) with ([x] ++ r1).
      apply IH.
      * apply run_width_single.
      * cbn [concat]. exact Hrest.
      * constructor; [discriminate|exact Hne''].
      * apply (greedy_tail lws k cur). exact Hg.
    + (* x continues the current line *)
      cbn [concat app] in Hcat. injection Hcat as Hx Hrest. subst x0.
      assert (Htest : (run_width cur + fw (m x) + fpen (m x) >? @nth_width NumZ lws k)
                      && match cur with [] => false | _ => true end = false).
      { destruct cur as [|c cur'] eqn:Ecur; [apply andb_false_r|]. rewrite <- Ecur in *.
        pose proof (greedy_head_ok lws k _ _ Hg cur x l0' eq_refl) as Hle.
        assert (Hc : cur <> []) by (rewrite Ecur; discriminate). specialize (Hle Hc).
        destruct (Z.gtb_spec (run_width cur + fw (m x) + fpen (m x)) (@nth_width NumZ lws k))
          as [Hgt|_]; [lia|reflexivity]. }
      rewrite Htest.
      replace (cur ++ x :: l0') with ((cur ++ [x]) ++ l0') in *
        by (rewrite <- app_assoc; reflexivity).
      apply IH.
      * rewrite run_width_snoc. reflexivity.
      * cbn [concat]. exact Hrest.
      * constructor; [exact Hne0|exact Hne'].
      * exact Hg.
Qed.

Theorem greedy_unique : forall xs lws lines,
  xs <> [] -> concat lines = xs ->
  Forall (fun l => l <> []) lines -> Greedy lws lines ->
  lines = first_fit m xs lws.
Proof.
  intros xs lws lines Hxs Hcat Hne Hg. rewrite first_fit_ffr.
  destruct lines as [|l0 ls].
  - cbn [concat] in Hcat. congruence.
  - apply Greedy_from0 in Hg.
    apply (ffr_unique lws xs 0%nat [] 0 l0 ls); auto.
Qed.

End Greedy.

(* ---- target 3: non-vacuity ---- *)
Section Example.
Let f1 : frag NumZ := mkFrag (Nm:=NumZ) 3 1 0.
Let f2 : frag NumZ := mkFrag (Nm:=NumZ) 2 1 0.
Let f3 : frag NumZ := mkFrag (Nm:=NumZ) 4 1 0.
Let f4 : frag NumZ := mkFrag (Nm:=NumZ) 1 1 1.
Let f5 : frag NumZ := mkFrag (Nm:=NumZ) 5 0 0.
Let idf : frag NumZ -> frag NumZ := fun f => f.

(* line 0 has width 6, line 1 and all later lines width 8 *)
Example greedy_example :
  first_fit idf [f1; f2; f3; f4; f5] [6; 8] = [[f1; f2]; [f3; f4]; [f5]] /\
  Greedy _ idf [6; 8] [[f1; f2]; [f3; f4]; [f5]] /\
  Nat.le 2 (length (first_fit idf [f1; f2; f3; f4; f5] [6; 8])).
Proof.
  assert (E : first_fit idf [f1; f2; f3; f4; f5] [6; 8] = [[f1; f2]; [f3; f4]; [f5]])
    by (vm_compute; reflexivity).
  split; [exact E|]. split.
  - rewrite <- E. apply first_fit_greedy.
  - rewrite E. cbn [length]. lia.
Qed.

(* and the predicate does discriminate: another partition of the same fragments into
   non-empty lines is not greedy *)
Example not_greedy_example :
  ~ Greedy _ idf [6; 8] [[f1]; [f2; f3; f4]; [f5]].
Proof.
  intros Hg.
  assert (E : [[f1]; [f2; f3; f4]; [f5]] = first_fit idf [f1; f2; f3; f4; f5] [6; 8]).
  { apply greedy_unique.
    - discriminate.
    - reflexivity.
    - repeat constructor; discriminate.
    - exact Hg. }
  vm_compute in E. discriminate E.
Qed.
End Example.

Print Assumptions first_fit_greedy.
Print Assumptions greedy_unique.
Print Assumptions greedy_example.
Print Assumptions not_greedy_example.
