(* C09: paragraphs wrap independently; fill = join of wrap; LF/CRLF equivariance. *)
From Coq Require Import Lia ZArith.
From TW Require Import Wrap.
From TW Require Import Partition.

Arguments N.add : simpl never.
Arguments N.sub : simpl never.
Arguments N.mul : simpl never.
Arguments N.leb : simpl never.
Arguments N.ltb : simpl never.
Arguments N.eqb : simpl never.

(* ================================================================== *)
(* Part 1: split_lf / split_crlf / join                                 *)
(* ================================================================== *)

Definition lf_free (s : str) : Prop := ~ In LF s.

Lemma list_ind2 (A : Type) (P : list A -> Prop) :
  P [] -> (forall x, P [x]) -> (forall x y l, P l -> P (y :: l) -> P (x :: y :: l)) ->
  forall l, P l.
Proof.
  intros H0 H1 H2 l.
  assert (H : P l /\ forall x, P (x :: l)).
  { induction l as [|y l [IHa IHb]].
    - split; [exact H0|exact H1].
    - split; [apply IHb|]. intros x. apply H2; [exact IHa|apply IHb]. }
  exact (proj1 H).
Qed.

Lemma cons_first_nonnil c l : cons_first c l <> [].
Proof. destruct l; discriminate. Qed.

Lemma cons_first_app c l l' : l <> [] -> cons_first c (l ++ l') = cons_first c l ++ l'.
Proof. destruct l as [|p ps]; [congruence|reflexivity]. Qed.

Lemma cons_first_length c l : l <> [] -> length (cons_first c l) = length l.
Proof. destruct l as [|p ps]; [congruence|reflexivity]. Qed.

Lemma split_lf_nonnil s : split_lf s <> [].
Proof.
  destruct s as [|c r]; cbn [split_lf]; [discriminate|].
  destruct (c =? LF); [discriminate|apply cons_first_nonnil].
Qed.

Theorem split_lf_app a b : split_lf (a ++ LF :: b) = split_lf a ++ split_lf b.
Proof.
  induction a as [|c a IH]; cbn [app split_lf].
  - rewrite N.eqb_refl. reflexivity.
  - destruct (c =? LF).
    + rewrite IH. reflexivity.
    + rewrite IH. apply cons_first_app. apply split_lf_nonnil.
Qed.

Lemma split_crlf_cons2 c d r :
  split_crlf (c :: d :: r) =
  if (c =? CR) && (d =? LF) then [] :: split_crlf r else cons_first c (split_crlf (d :: r)).
Proof. reflexivity. Qed.

Lemma split_crlf_crlf b : split_crlf (CR :: LF :: b) = [] :: split_crlf b.
Proof. reflexivity. Qed.

Lemma split_crlf_nonnil s : split_crlf s <> [].
Proof.
  destruct s as [|c [|d r]]; [discriminate|discriminate|].
  rewrite split_crlf_cons2. destruct (_ && _); [discriminate|apply cons_first_nonnil].
Qed.

(* No hypothesis is needed when [a] ends in CR: "\r\n" has no self-overlap, and the
   scan never looks at a (CR, CR) pair as a separator; e.g. a = [CR] gives
   split_crlf [CR;CR;LF] = [[CR];[]] = split_crlf [CR] ++ split_crlf []. *)
Theorem split_crlf_app a b :
  split_crlf (a ++ CR :: LF :: b) = split_crlf a ++ split_crlf b.
Proof.
  induction a as [|x|x y a IH1 IH2] using list_ind2.
  - reflexivity.
  - cbn [app]. rewrite split_crlf_cons2, split_crlf_crlf.
    replace (CR =? LF) with false by reflexivity. rewrite andb_false_r. reflexivity.
  - change ((x :: y :: a) ++ CR :: LF :: b) with (x :: y :: (a ++ CR :: LF :: b)).
    rewrite !split_crlf_cons2. destruct (_ && _).
    + rewrite IH1. reflexivity.
    + change (y :: a ++ CR :: LF :: b) with ((y :: a) ++ CR :: LF :: b).
      rewrite IH2. apply cons_first_app. apply split_crlf_nonnil.
Qed.

Example split_crlf_app_cr : split_crlf ([CR] ++ CR :: LF :: [1]) = [[CR]; [1]].
Proof. reflexivity. Qed.

Lemma lf_free_cons c s : lf_free (c :: s) <-> c <> LF /\ lf_free s.
Proof.
  unfold lf_free. cbn [In]. split.
  - intros H. split; [intros E; apply H; left; congruence|intros E; apply H; right; exact E].
  - intros [H1 H2] [E|E]; [congruence|auto].
Qed.

Lemma lf_free_nil : lf_free [].
Proof. intros H. exact H. Qed.

Lemma lf_free_app a b : lf_free (a ++ b) <-> lf_free a /\ lf_free b.
Proof.
  unfold lf_free. split.
  - intros H. split; intros E; apply H; apply in_or_app; auto.
  - intros [H1 H2] E. apply in_app_or in E. destruct E; auto.
Qed.

Lemma Forall_lf_free_cons_first c l :
  c <> LF -> Forall lf_free l -> Forall lf_free (cons_first c l).
Proof.
  intros Hc Hl. destruct l as [|p ps]; cbn [cons_first].
  - constructor; [|constructor]. apply lf_free_cons. split; [exact Hc|apply lf_free_nil].
  - inversion Hl as [|p' ps' Hp Hps]; subst. constructor; [|exact Hps].
    apply lf_free_cons. split; assumption.
Qed.

Theorem split_lf_pieces_lf_free s : Forall lf_free (split_lf s).
Proof.
  induction s as [|c r IH]; cbn [split_lf].
  - constructor; [apply lf_free_nil|constructor].
  - destruct (N.eqb_spec c LF) as [E|E].
    + constructor; [apply lf_free_nil|exact IH].
    + apply Forall_lf_free_cons_first; assumption.
Qed.

Theorem split_lf_length s : length (split_lf s) = S (count_occ N.eq_dec s LF).
Proof.
  induction s as [|c r IH]; cbn [split_lf count_occ]; [reflexivity|].
  destruct (N.eqb_spec c LF) as [E|E].
  - destruct (N.eq_dec c LF) as [_|N]; [|congruence]. cbn [length]. rewrite IH. reflexivity.
  - destruct (N.eq_dec c LF) as [E'|_]; [congruence|].
    rewrite cons_first_length by apply split_lf_nonnil. exact IH.
Qed.

Lemma split_lf_lf_free s : lf_free s -> split_lf s = [s].
Proof.
  induction s as [|c r IH]; intros H; cbn [split_lf]; [reflexivity|].
  apply lf_free_cons in H. destruct H as [Hc Hr].
  destruct (N.eqb_spec c LF) as [E|_]; [congruence|]. rewrite IH by exact Hr. reflexivity.
Qed.

(* join is a left inverse of split *)
Lemma join_cons_first sep c l : l <> [] -> join sep (cons_first c l) = c :: join sep l.
Proof.
  destruct l as [|p ps]; [congruence|]. intros _. cbn [cons_first].
  destruct ps as [|q qs]; reflexivity.
Qed.

Lemma join_cons sep x l : l <> [] -> join sep (x :: l) = x ++ sep ++ join sep l.
Proof. destruct l as [|p ps]; [congruence|reflexivity]. Qed.

Theorem join_split_lf s : join [LF] (split_lf s) = s.
Proof.
  induction s as [|c r IH]; cbn [split_lf]; [reflexivity|].
  destruct (N.eqb_spec c LF) as [E|_].
  - rewrite join_cons by apply split_lf_nonnil. rewrite IH. cbn [app]. congruence.
  - rewrite join_cons_first by apply split_lf_nonnil. rewrite IH. reflexivity.
Qed.

Theorem join_split_crlf s : join [CR; LF] (split_crlf s) = s.
Proof.
  induction s as [|x|x y s IH1 IH2] using list_ind2; [reflexivity|reflexivity|].
  rewrite split_crlf_cons2. destruct (N.eqb_spec x CR) as [Ex|_]; cbn [andb].
  - destruct (N.eqb_spec y LF) as [Ey|_].
    + rewrite join_cons by apply split_crlf_nonnil. rewrite IH1. cbn [app]. congruence.
    + rewrite join_cons_first by apply split_crlf_nonnil. rewrite IH2. reflexivity.
  - rewrite join_cons_first by apply split_crlf_nonnil. rewrite IH2. reflexivity.
Qed.

(* LF -> CRLF substitution *)
Fixpoint crlf_subst (t : str) : str :=
  match t with
  | [] => []
  | c :: r => if c =? LF then CR :: LF :: crlf_subst r else c :: crlf_subst r
  end.

Lemma crlf_subst_app a b : crlf_subst (a ++ b) = crlf_subst a ++ crlf_subst b.
Proof.
  induction a as [|c a IH]; cbn [app crlf_subst]; [reflexivity|].
  rewrite IH. destruct (c =? LF); reflexivity.
Qed.

Lemma crlf_subst_lf_free s : lf_free s -> crlf_subst s = s.
Proof.
  induction s as [|c r IH]; intros H; cbn [crlf_subst]; [reflexivity|].
  apply lf_free_cons in H. destruct H as [Hc Hr].
  destruct (N.eqb_spec c LF) as [E|_]; [congruence|]. rewrite IH by exact Hr. reflexivity.
Qed.

Lemma crlf_subst_hd_not_lf t d r : crlf_subst t = d :: r -> d <> LF.
Proof.
  destruct t as [|c t']; cbn [crlf_subst]; [discriminate|].
  destruct (N.eqb_spec c LF) as [E|E]; intros H; inversion H; subst.
  - discriminate.
  - exact E.
Qed.

Theorem split_crlf_subst t : split_crlf (crlf_subst t) = split_lf t.
Proof.
  induction t as [|c r IH]; [reflexivity|]. cbn [crlf_subst split_lf].
  destruct (N.eqb_spec c LF) as [E|E].
  - rewrite split_crlf_crlf, IH. reflexivity.
  - destruct (crlf_subst r) as [|d r'] eqn:Er.
    + destruct r as [|c' r'']; [reflexivity|].
      cbn [crlf_subst] in Er. destruct (c' =? LF); discriminate.
    + rewrite split_crlf_cons2. apply crlf_subst_hd_not_lf in Er.
      destruct (N.eqb_spec d LF) as [Ed|_]; [congruence|]. rewrite andb_false_r.
      rewrite IH. reflexivity.
Qed.

Lemma split_crlf_lf_free s : lf_free s -> split_crlf s = [s].
Proof.
  intros H. rewrite <- (crlf_subst_lf_free s H) at 1.
  rewrite split_crlf_subst. apply split_lf_lf_free. exact H.
Qed.

Lemma existsb_lf s : existsb (N.eqb LF) s = false <-> lf_free s.
Proof.
  induction s as [|c r IH]; cbn [existsb].
  - split; [intros _; apply lf_free_nil|reflexivity].
  - rewrite lf_free_cons, <- IH. destruct (N.eqb_spec LF c) as [E|E]; cbn [orb].
    + split; [discriminate|intros [H _]; congruence].
    + split; [intros H; split; [congruence|exact H]|intros [_ H]; exact H].
Qed.

Lemma existsb_lf_subst s : existsb (N.eqb LF) (crlf_subst s) = existsb (N.eqb LF) s.
Proof.
  induction s as [|c r IH]; cbn [crlf_subst existsb]; [reflexivity|].
  destruct (N.eqb_spec c LF) as [E|E].
  - subst c. cbn [existsb]. rewrite N.eqb_refl. rewrite orb_true_r. reflexivity.
  - cbn [existsb]. rewrite IH. reflexivity.
Qed.

(* ---- byte lengths of the paragraphs ---- *)

Lemma blen_app a b : blen (a ++ b) = blen a + blen b.
Proof. induction a as [|c a IH]; cbn [app blen]; [reflexivity|]. rewrite IH. lia. Qed.

(* what [wrap_loop] adds to [base] while running over [ps] *)
Definition paras_blen (le : line_ending) (ps : list str) : N :=
  fold_right (fun p acc => blen p + blen (le_str le) + acc) 0 ps.

Lemma paras_blen_join le ps :
  ps <> [] -> paras_blen le ps = blen (join (le_str le) ps) + blen (le_str le).
Proof.
  induction ps as [|p ps IH]; intros Hne; [congruence|].
  destruct ps as [|q qs].
  - cbn [paras_blen fold_right join]. lia.
  - rewrite join_cons by discriminate. rewrite !blen_app.
    change (paras_blen le (p :: q :: qs))
      with (blen p + blen (le_str le) + paras_blen le (q :: qs)).
    rewrite IH by discriminate. lia.
Qed.

Lemma split_le_nonnil le t : split_le le t <> [].
Proof. destruct le; [apply split_lf_nonnil|apply split_crlf_nonnil]. Qed.

Theorem join_split_le le t : join (le_str le) (split_le le t) = t.
Proof. destruct le; [apply join_split_lf|apply join_split_crlf]. Qed.

Theorem split_le_app le a b :
  split_le le (a ++ le_str le ++ b) = split_le le a ++ split_le le b.
Proof. destruct le; cbn [split_le le_str app]; [apply split_lf_app|apply split_crlf_app]. Qed.

Lemma paras_blen_split_le le t : paras_blen le (split_le le t) = blen t + blen (le_str le).
Proof. rewrite paras_blen_join by apply split_le_nonnil. rewrite join_split_le. reflexivity. Qed.

Lemma split_le_lf_free le t : lf_free t -> split_le le t = [t].
Proof. destruct le; [apply split_lf_lf_free|apply split_crlf_lf_free]. Qed.

(* ================================================================== *)
(* Part 2: wrap, paragraph by paragraph                                 *)
(* ================================================================== *)

Lemma shift_cow_text b l : l_text (shift_cow b l) = l_text l.
Proof. unfold shift_cow. destruct (l_cow l); reflexivity. Qed.

Lemma shift_cow_add b k l : shift_cow (b + k) l = shift_cow b (shift_cow k l).
Proof.
  destruct l as [t [|off|]]; unfold shift_cow; cbn [l_cow l_text]; try reflexivity.
  rewrite N.add_assoc. reflexivity.
Qed.

Lemma shift_cow_0 l : shift_cow 0 l = l.
Proof.
  destruct l as [t [|off|]]; unfold shift_cow; cbn [l_cow l_text];
    rewrite ?N.add_0_l; reflexivity.
Qed.

Lemma map_shift_cow_text b ls : map l_text (map (shift_cow b) ls) = map l_text ls.
Proof. rewrite map_map. apply map_ext. intros l. apply shift_cow_text. Qed.

Lemma map_shift_cow_0 ls : map (shift_cow 0) ls = ls.
Proof. rewrite <- (map_id ls) at 2. apply map_ext. apply shift_cow_0. Qed.

Section Paragraphs.
Variable cw : char -> N.
Variable alnum : char -> bool.
Variable lbc : str -> list N.
Variable custom_sp : str -> list N.
Variable ofit : penalties -> list word -> list N -> option (list (list word)).

Notation wsl := (wrap_single_line cw alnum lbc custom_sp ofit).
Notation wloop := (wrap_loop cw alnum lbc custom_sp ofit).
Notation wrp := (wrap cw alnum lbc custom_sp ofit).

(* ---- facts that need no hypothesis on the oracle ---- *)

Lemma reassemble_length o line : forall groups first idx ls,
  reassemble o line first groups idx = Some ls -> length ls = length groups.
Proof.
  induction groups as [|g rest IH]; intros first idx ls H; cbn [reassemble] in H.
  - inversion H. reflexivity.
  - destruct (last (map Some g) None) as [lw|].
    + destruct (_ <? _); [discriminate|].
      destruct (bslice _ _ _) as [sl|]; [|discriminate].
      destruct (reassemble o line false rest _) as [r|] eqn:Er; [|discriminate].
      inversion H. cbn [length]. f_equal. eapply IH. exact Er.
    + destruct (reassemble o line false rest idx) as [r|] eqn:Er; [|discriminate].
      inversion H. cbn [length]. f_equal. eapply IH. exact Er.
Qed.

Lemma wrap_loop_app o : forall ps1 ps2 acc base,
  wloop o (ps1 ++ ps2) acc base =
  match wloop o ps1 acc base with
  | Some acc1 => wloop o ps2 acc1 (base + paras_blen (o_le o) ps1)
  | None => None
  end.
Proof.
  induction ps1 as [|p ps1 IH]; intros ps2 acc base; cbn [app wrap_loop].
  - cbn [paras_blen fold_right]. rewrite N.add_0_r. reflexivity.
  - destruct (wsl o _ p) as [ls|]; [|reflexivity].
    rewrite IH. destruct (wloop o ps1 _ _) as [acc1|]; [|reflexivity].
    f_equal. cbn [paras_blen fold_right]. fold (paras_blen (o_le o) ps1). lia.
Qed.

Lemma wrap_loop_prefix o : forall ps acc base l,
  wloop o ps acc base = Some l -> exists l', l = acc ++ l'.
Proof.
  induction ps as [|p ps IH]; intros acc base l H; cbn [wrap_loop] in H.
  - inversion H. exists []. rewrite app_nil_r. reflexivity.
  - destruct (wsl o _ p) as [ls|]; [|discriminate].
    apply IH in H. destruct H as [l' Hl]. rewrite <- app_assoc in Hl. eexists. exact Hl.
Qed.

(* the lines of the paragraphs [ps] when they are not the first ones of the text;
   [base] is the byte offset of the first of them *)
Fixpoint tail_lines (o : options) (ps : list str) (base : N) : option (list oline) :=
  match ps with
  | [] => Some []
  | p :: r =>
      match wsl o false p, tail_lines o r (base + blen p + blen (le_str (o_le o))) with
      | Some ls, Some rs => Some (map (shift_cow base) ls ++ rs)
      | _, _ => None
      end
  end.

(* once a line has been produced (or when the two indents coincide) [wrap_loop]
   appends [tail_lines] to its accumulator *)
Lemma wrap_loop_tail o : forall ps acc base,
  acc <> [] \/ (forall p, wsl o true p = wsl o false p) ->
  wloop o ps acc base = option_map (app acc) (tail_lines o ps base).
Proof.
  induction ps as [|p ps IH]; intros acc base H; cbn [wrap_loop tail_lines option_map].
  - rewrite app_nil_r. reflexivity.
  - assert (E : wsl o (match acc with [] => true | _ => false end) p = wsl o false p).
    { destruct acc as [|x acc']; [|reflexivity]. destruct H as [H|H]; [congruence|apply H]. }
    rewrite E. destruct (wsl o false p) as [ls|]; [|reflexivity].
    rewrite IH.
    + destruct (tail_lines o ps _) as [rs|]; cbn [option_map]; [|reflexivity].
      rewrite app_assoc. reflexivity.
    + destruct H as [H|H]; [left|right; exact H].
      destruct acc as [|x acc']; [congruence|discriminate].
Qed.

(* the tail depends on [base] only through the Borrowed offsets *)
Lemma tail_lines_shift o : forall ps b k,
  tail_lines o ps (b + k) = option_map (map (shift_cow b)) (tail_lines o ps k).
Proof.
  induction ps as [|p ps IH]; intros b k; cbn [tail_lines]; [reflexivity|].
  destruct (wsl o false p) as [ls|]; [|reflexivity].
  replace (b + k + blen p + blen (le_str (o_le o)))
    with (b + (k + blen p + blen (le_str (o_le o)))) by lia.
  rewrite IH. destruct (tail_lines o ps _) as [rs|]; cbn [option_map]; [|reflexivity].
  rewrite map_app, map_map. f_equal. f_equal. apply map_ext. intros l. apply shift_cow_add.
Qed.

Lemma tail_lines_base o ps base :
  tail_lines o ps base = option_map (map (shift_cow base)) (tail_lines o ps 0).
Proof. rewrite <- (N.add_0_r base) at 1. apply tail_lines_shift. Qed.

Lemma tail_lines_texts o ps base base' :
  option_map (map l_text) (tail_lines o ps base) = option_map (map l_text) (tail_lines o ps base').
Proof.
  rewrite (tail_lines_base o ps base), (tail_lines_base o ps base').
  destruct (tail_lines o ps 0) as [r|]; cbn [option_map]; [|reflexivity].
  rewrite !map_shift_cow_text. reflexivity.
Qed.

(* the lines produced for [ps] depend on the accumulator only through whether it is
   empty (no hypothesis on the oracle needed) *)
Lemma wrap_loop_acc_indep o : forall ps acc acc' base,
  (acc = [] <-> acc' = []) ->
  match wloop o ps acc base, wloop o ps acc' base with
  | Some l, Some l' => exists r, l = acc ++ r /\ l' = acc' ++ r
  | None, None => True
  | _, _ => False
  end.
Proof.
  induction ps as [|p ps IH]; intros acc acc' base Hacc; cbn [wrap_loop].
  - exists []. rewrite !app_nil_r. split; reflexivity.
  - assert (E : match acc' with [] => true | _ => false end =
                match acc with [] => true | _ => false end).
    { destruct acc as [|x acc0], acc' as [|x' acc0']; try reflexivity.
      - destruct Hacc as [Hacc _]. discriminate (Hacc eq_refl).
      - destruct Hacc as [_ Hacc]. discriminate (Hacc eq_refl). }
    rewrite E. destruct (wsl o _ p) as [ls|]; [|exact I].
    set (m := map (shift_cow base) ls).
    assert (Hm : acc ++ m = [] <-> acc' ++ m = []).
    { split; intros H; apply app_eq_nil in H; destruct H as [H1 H2]; rewrite H2, app_nil_r;
        apply Hacc; exact H1. }
    specialize (IH (acc ++ m) (acc' ++ m) (base + blen p + blen (le_str (o_le o))) Hm).
    destruct (wloop o ps (acc ++ m) _) as [l|]; destruct (wloop o ps (acc' ++ m) _) as [l'|];
      try exact IH.
    destruct IH as [r [Hl Hl']]. exists (m ++ r). rewrite !app_assoc. split; assumption.
Qed.

(* ---- Target 2: every paragraph yields at least one line ---- *)

Hypothesis ofit_nonempty : forall p ws lws g, ofit p ws lws = Some g -> g <> [].

Lemma run_alg_nonempty a ws lws g : run_alg ofit a ws lws = Some g -> g <> [].
Proof.
  destruct a as [|p]; cbn [run_alg]; [|apply ofit_nonempty].
  intros H. inversion H as [Hg]. clear H Hg. intros E.
  pose proof (first_fit_concat NumZ word word_frag ws (map Z.of_N lws)) as Hc.
  rewrite E in Hc. cbn [concat] in Hc. subst ws. discriminate E.
Qed.

Theorem slow_path_nonempty o first p ls :
  slow_path cw alnum lbc custom_sp ofit o first p = Some ls -> ls <> [].
Proof.
  unfold slow_path. destruct (split_words _ _ _) as [sws|]; [|discriminate].
  destruct (run_alg _ _ _ _) as [groups|] eqn:Eg; [|discriminate].
  intros H. apply reassemble_length in H. apply run_alg_nonempty in Eg.
  intros E. subst ls. destruct groups; [congruence|discriminate].
Qed.

Theorem wrap_single_line_nonempty o first p ls : wsl o first p = Some ls -> ls <> [].
Proof.
  unfold wrap_single_line. destruct (_ && _).
  - intros H. inversion H. discriminate.
  - apply slow_path_nonempty.
Qed.

Lemma wrap_loop_length o : forall ps acc base l,
  wloop o ps acc base = Some l -> (length acc + length ps <= length l)%nat.
Proof.
  induction ps as [|p ps IH]; intros acc base l H; cbn [wrap_loop] in H.
  - inversion H. cbn [length]. lia.
  - destruct (wsl o _ p) as [ls|] eqn:E; [|discriminate].
    apply wrap_single_line_nonempty in E. apply IH in H.
    rewrite app_length, map_length in H. cbn [length].
    destruct ls as [|x ls']; [congruence|]. cbn [length] in H. lia.
Qed.

(* never fewer lines than paragraphs *)
Theorem wrap_length_ge o t l :
  wrp o t = Some l -> (length (split_le (o_le o) t) <= length l)%nat.
Proof. unfold wrap. intros H. apply wrap_loop_length in H. cbn [length] in H. lia. Qed.

Corollary wrap_nonempty o t l : wrp o t = Some l -> l <> [].
Proof.
  intros H. apply wrap_length_ge in H. pose proof (split_le_nonnil (o_le o) t) as Hn.
  destruct (split_le (o_le o) t); [congruence|]. destruct l; [cbn [length] in H; lia|discriminate].
Qed.

(* ---- Target 3: wrap decomposes at a line ending ---- *)

(* the lines of text [b] when it follows other text: no paragraph is "first";
   offsets relative to the start of [b] *)
Definition wrap_tail (o : options) (b : str) : option (list oline) :=
  tail_lines o (split_le (o_le o) b) 0.

Theorem wrap_app o a b :
  wrp o (a ++ le_str (o_le o) ++ b) =
  match wrp o a with
  | None => None
  | Some la =>
      option_map (fun lb => la ++ map (shift_cow (blen a + blen (le_str (o_le o)))) lb)
                 (wrap_tail o b)
  end.
Proof.
  unfold wrap at 1. rewrite split_le_app, wrap_loop_app. fold (wrp o a).
  destruct (wrp o a) as [la|] eqn:Ea; [|reflexivity].
  rewrite wrap_loop_tail by (left; eapply wrap_nonempty; exact Ea).
  rewrite paras_blen_split_le, N.add_0_l. unfold wrap_tail.
  rewrite tail_lines_base. destruct (tail_lines o _ 0) as [r|]; reflexivity.
Qed.

(* wrap of the longer text begins with exactly the lines of wrap of [a] *)
Corollary wrap_app_prefix o a b la l :
  wrp o a = Some la -> wrp o (a ++ le_str (o_le o) ++ b) = Some l ->
  exists lb, l = la ++ lb.
Proof.
  intros Ha H. rewrite wrap_app, Ha in H.
  destruct (wrap_tail o b) as [r|]; cbn [option_map] in H; [|discriminate].
  inversion H. eexists. reflexivity.
Qed.

Corollary wrap_app_none o a b :
  wrp o (a ++ le_str (o_le o) ++ b) = None <-> wrp o a = None \/ wrap_tail o b = None.
Proof.
  rewrite wrap_app. destruct (wrp o a) as [la|].
  - destruct (wrap_tail o b) as [r|]; cbn [option_map].
    + split; [discriminate|intros [H|H]; discriminate].
    + split; [right; reflexivity|reflexivity].
  - split; [left; reflexivity|reflexivity].
Qed.

(* the remaining lines do not depend on the first text except through the offset
   [blen a + blen le] added to Borrowed lines *)
Theorem wrap_app_tail_indep o a a' b la la' :
  wrp o a = Some la -> wrp o a' = Some la' ->
  match wrp o (a ++ le_str (o_le o) ++ b), wrp o (a' ++ le_str (o_le o) ++ b) with
  | Some l, Some l' =>
      exists t, l = la ++ map (shift_cow (blen a + blen (le_str (o_le o)))) t /\
                l' = la' ++ map (shift_cow (blen a' + blen (le_str (o_le o)))) t
  | None, None => True
  | _, _ => False
  end.
Proof.
  intros Ha Ha'. rewrite !wrap_app, Ha, Ha'.
  destruct (wrap_tail o b) as [r|]; cbn [option_map]; [|exact I].
  exists r. split; reflexivity.
Qed.

Corollary wrap_app_tail_texts o a a' b la la' l l' :
  wrp o a = Some la -> wrp o a' = Some la' ->
  wrp o (a ++ le_str (o_le o) ++ b) = Some l ->
  wrp o (a' ++ le_str (o_le o) ++ b) = Some l' ->
  map l_text (skipn (length la) l) = map l_text (skipn (length la') l').
Proof.
  intros Ha Ha' Hl Hl'. pose proof (wrap_app_tail_indep o a a' b la la' Ha Ha') as H.
  rewrite Hl, Hl' in H. destruct H as [t [E E']]. subst l l'.
  rewrite !skipn_app, !skipn_all, !Nat.sub_diag. cbn [skipn app].
  rewrite !map_shift_cow_text. reflexivity.
Qed.

(* when the two indents coincide, no paragraph is special *)
Lemma reassemble_first_irrelevant o line groups idx :
  o_ii o = o_si o ->
  reassemble o line true groups idx = reassemble o line false groups idx.
Proof. intros H. destruct groups as [|g rest]; cbn [reassemble]; [reflexivity|]. rewrite H. reflexivity. Qed.

Lemma wrap_single_line_first_irrelevant o p :
  o_ii o = o_si o -> wsl o true p = wsl o false p.
Proof.
  intros H. unfold wrap_single_line, slow_path. rewrite H.
  destruct (_ && _); [reflexivity|].
  destruct (split_words _ _ _) as [sws|]; [|reflexivity].
  destruct (run_alg _ _ _ _) as [groups|]; [|reflexivity].
  apply reassemble_first_irrelevant. exact H.
Qed.

Theorem wrap_tail_same_indent o b : o_ii o = o_si o -> wrap_tail o b = wrp o b.
Proof.
  intros H. unfold wrap, wrap_tail. rewrite wrap_loop_tail.
  - destruct (tail_lines o _ 0); reflexivity.
  - right. intros p. apply wrap_single_line_first_irrelevant. exact H.
Qed.

(* paragraphs wrap independently (equal indents, in particular empty indents) *)
Theorem wrap_app_same_indent o a b :
  o_ii o = o_si o ->
  wrp o (a ++ le_str (o_le o) ++ b) =
  match wrp o a, wrp o b with
  | Some la, Some lb => Some (la ++ map (shift_cow (blen a + blen (le_str (o_le o)))) lb)
  | _, _ => None
  end.
Proof.
  intros H. rewrite wrap_app, (wrap_tail_same_indent o b H).
  destruct (wrp o a) as [la|]; [|reflexivity]. destruct (wrp o b); reflexivity.
Qed.

Corollary wrap_app_empty_indent_texts o a b la l :
  o_ii o = [] /\ o_si o = [] ->
  wrp o a = Some la -> wrp o (a ++ le_str (o_le o) ++ b) = Some l ->
  exists lb, wrp o b = Some lb /\
             map l_text (skipn (length la) l) = map l_text lb /\
             map l_text l = map l_text la ++ map l_text lb.
Proof.
  intros [Hi Hs] Ha Hl. rewrite wrap_app_same_indent, Ha in Hl by congruence.
  destruct (wrp o b) as [lb|]; [|discriminate]. inversion Hl as [E]. exists lb.
  split; [reflexivity|].
  rewrite skipn_app, skipn_all, Nat.sub_diag. cbn [skipn app].
  rewrite map_app, !map_shift_cow_text. split; reflexivity.
Qed.

(* ---- Target 4: fill is the join of wrap, shortcut included ---- *)

Theorem fill_is_join o t :
  fill cw alnum lbc custom_sp ofit o t =
  match wrp o t with
  | Some ls => Some (join (le_str (o_le o)) (map l_text ls))
  | None => None
  end.
Proof.
  unfold fill. destruct (_ && _) eqn:C; [|reflexivity].
  apply andb_true_iff in C. destruct C as [C Hii]. apply andb_true_iff in C.
  destruct C as [Hlen Hlf]. apply negb_true_iff in Hlf. apply existsb_lf in Hlf.
  unfold wrap. rewrite split_le_lf_free by exact Hlf. cbn [wrap_loop].
  unfold wrap_single_line. rewrite Hlen, Hii. cbn [andb app map].
  rewrite shift_cow_text. reflexivity.
Qed.

(* ---- Target 5: LF -> CRLF equivariance ---- *)

(* [o] with its line ending replaced *)
Definition set_le (o : options) (le : line_ending) : options :=
  mkOptions (o_width o) le (o_ii o) (o_si o) (o_bw o) (o_alg o) (o_sep o) (o_spl o).

Lemma reassemble_ext o o' line :
  o_ii o = o_ii o' -> o_si o = o_si o' ->
  forall groups first idx, reassemble o line first groups idx = reassemble o' line first groups idx.
Proof.
  intros Hi Hs. induction groups as [|g rest IH]; intros first idx; cbn [reassemble]; [reflexivity|].
  rewrite Hi, Hs. destruct (last (map Some g) None) as [lw|].
  - destruct (_ <? _); [reflexivity|]. destruct (bslice _ _ _) as [sl|]; [|reflexivity].
    rewrite IH. reflexivity.
  - rewrite IH. reflexivity.
Qed.

(* a paragraph is wrapped without looking at the line ending *)
Lemma wrap_single_line_set_le o le first p : wsl (set_le o le) first p = wsl o first p.
Proof.
  unfold wrap_single_line, slow_path.
  cbn [set_le o_width o_ii o_si o_bw o_alg o_sep o_spl].
  destruct (_ && _); [reflexivity|].
  destruct (split_words _ _ _) as [sws|]; [|reflexivity].
  destruct (run_alg _ _ _ _) as [groups|]; [|reflexivity].
  apply reassemble_ext; reflexivity.
Qed.

Lemma wrap_loop_texts_le o le : forall ps acc acc' base base',
  map l_text acc' = map l_text acc ->
  option_map (map l_text) (wloop (set_le o le) ps acc' base') =
  option_map (map l_text) (wloop o ps acc base).
Proof.
  induction ps as [|p ps IH]; intros acc acc' base base' Hacc; cbn [wrap_loop option_map].
  - rewrite Hacc. reflexivity.
  - assert (E : match acc' with [] => true | _ => false end =
                match acc with [] => true | _ => false end).
    { destruct acc, acc'; try reflexivity; discriminate Hacc. }
    rewrite E, wrap_single_line_set_le.
    destruct (wsl o _ p) as [ls|]; [|reflexivity].
    apply IH. rewrite !map_app, !map_shift_cow_text, Hacc. reflexivity.
Qed.

(* the texts of the wrapped lines do not depend on the line ending used to split,
   as long as the same paragraphs come out *)
Theorem wrap_crlf_subst_texts o t :
  o_le o = LE_LF ->
  option_map (map l_text) (wrp (set_le o LE_CRLF) (crlf_subst t)) =
  option_map (map l_text) (wrp o t).
Proof.
  intros Hle. unfold wrap. cbn [set_le o_le split_le]. rewrite Hle. cbn [split_le].
  rewrite split_crlf_subst. apply (wrap_loop_texts_le o LE_CRLF). reflexivity.
Qed.

(* -- the lines of an LF-free paragraph are LF-free -- *)

Definition pen_ok (w : word) : Prop := lf_free (w_pen w).

Lemma lf_free_incl a b : incl a b -> lf_free b -> lf_free a.
Proof. intros Hi Hb H. apply Hb. apply Hi. exact H. Qed.

Lemma bdrop_incl : forall s a r, bdrop s a = Some r -> incl r s.
Proof.
  induction s as [|c s IH]; intros a r H; cbn [bdrop] in H.
  - destruct (a =? 0); inversion H. apply incl_refl.
  - destruct (a =? 0); [inversion H; apply incl_refl|].
    destruct (utf8_len c <=? a); [|discriminate]. apply IH in H. apply incl_tl. exact H.
Qed.

Lemma btake_incl : forall s n t, btake s n = Some t -> incl t s.
Proof.
  induction s as [|c s IH]; intros n t H; cbn [btake] in H.
  - destruct (n =? 0); inversion H. apply incl_refl.
  - destruct (n =? 0); [inversion H; apply incl_nil_l|].
    destruct (utf8_len c <=? n); [|discriminate].
    destruct (btake s _) as [t0|] eqn:E; [|discriminate]. inversion H.
    apply IH in E. intros x [Hx|Hx]; [left; exact Hx|right; apply E; exact Hx].
Qed.

Lemma bslice_incl s a b x : bslice s a b = Some x -> incl x s.
Proof.
  unfold bslice. destruct (b <? a); [discriminate|].
  destruct (bdrop s a) as [r|] eqn:E; [|discriminate]. intros H.
  apply btake_incl in H. apply bdrop_incl in E. eapply incl_tran; eassumption.
Qed.

Lemma split_ws_app s : fst (split_ws s) ++ snd (split_ws s) = s.
Proof.
  induction s as [|c r IH]; cbn [split_ws]; [reflexivity|].
  destruct (split_ws r) as [w ws]. cbn [fst snd] in IH.
  destruct w as [|x w'].
  - cbn [app] in IH. subst r. destruct (c =? SP); reflexivity.
  - cbn [fst snd]. rewrite <- IH. reflexivity.
Qed.

Lemma trim_end_sp_incl s : incl (trim_end_sp s) s.
Proof.
  unfold trim_end_sp. intros x Hx. rewrite <- (split_ws_app s). apply in_or_app. left. exact Hx.
Qed.

Lemma last_some_in (g : list word) lw : last (map Some g) None = Some lw -> In lw g.
Proof.
  induction g as [|x g IH]; intros H; [discriminate H|].
  destruct g as [|y g'].
  - inversion H. left. reflexivity.
  - right. apply IH. exact H.
Qed.

Lemma word_from_pen s : w_pen (word_from cw s) = [].
Proof. unfold word_from. destruct (split_ws s). reflexivity. Qed.

Lemma word_from_pen_ok s : pen_ok (word_from cw s).
Proof. unfold pen_ok. rewrite word_from_pen. apply lf_free_nil. Qed.

Lemma fwa_loop_pen_ok : forall t cur in_ws, Forall pen_ok (fwa_loop cw t cur in_ws).
Proof.
  induction t as [|c r IH]; intros cur in_ws; cbn [fwa_loop].
  - destruct cur; constructor; [apply word_from_pen_ok|constructor].
  - destruct (in_ws && negb (c =? SP)).
    + constructor; [apply word_from_pen_ok|apply IH].
    + apply IH.
Qed.

Lemma find_words_pen_ok k line : Forall pen_ok (find_words cw lbc k line).
Proof.
  destruct k; cbn [find_words].
  - apply fwa_loop_pen_ok.
  - unfold find_words_unicode. apply Forall_map. apply Forall_forall.
    intros x _. apply word_from_pen_ok.
Qed.

Lemma sw_loop_pen_ok w : pen_ok w -> forall pts prev ps,
  sw_loop cw w pts prev = Some ps -> Forall pen_ok ps.
Proof.
  intros Hw. induction pts as [|idx r IH]; intros prev ps H; cbn [sw_loop] in H.
  - destruct (_ || _).
    + destruct (bdrop _ _) as [piece|]; [|discriminate]. inversion H.
      constructor; [exact Hw|constructor].
    + inversion H. constructor.
  - destruct (bslice (w_word w) 0 idx) as [pre|]; [|discriminate].
    destruct (bslice (w_word w) prev idx) as [piece|]; [|discriminate].
    destruct (sw_loop cw w r idx) as [rest|] eqn:Er; [|discriminate].
    inversion H. constructor; [|eapply IH; exact Er].
    unfold pen_ok. cbn [w_pen]. destruct (ends_with pre [HY]); [apply lf_free_nil|].
    intros [E|[]]. discriminate E.
Qed.

Lemma split_words_pen_ok sp : forall ws ps,
  Forall pen_ok ws -> split_words cw sp ws = Some ps -> Forall pen_ok ps.
Proof.
  induction ws as [|w ws IH]; intros ps Hws H; cbn [split_words] in H.
  - inversion H. constructor.
  - inversion Hws as [|w' r' Hw Hr]; subst.
    destruct (sw_loop cw w _ 0) as [a0|] eqn:Ea; [|discriminate].
    destruct (split_words cw sp ws) as [b0|] eqn:Eb; [|discriminate].
    inversion H. apply Forall_app. split.
    + eapply sw_loop_pen_ok; eassumption.
    + apply IH; [exact Hr|reflexivity].
Qed.

Lemma ba_finish_pen_ok ws pen : lf_free pen -> forall ps, Forall pen_ok (ba_finish ps ws pen).
Proof.
  intros Hp. induction ps as [|[p w] r IH]; [constructor|].
  destruct r as [|q r'].
  - constructor; [exact Hp|constructor].
  - change (ba_finish ((p, w) :: q :: r') ws pen)
      with (mkWord p [] [] w :: ba_finish (q :: r') ws pen).
    constructor; [apply lf_free_nil|exact IH].
Qed.

Lemma break_words_pen_ok lim ws : Forall pen_ok ws -> Forall pen_ok (break_words cw lim ws).
Proof.
  intros H. unfold break_words. apply Forall_flat_map. eapply Forall_impl; [|exact H].
  intros w Hw. cbv beta. destruct (lim <? w_width w).
  - unfold break_apart. apply ba_finish_pen_ok. exact Hw.
  - constructor; [exact Hw|constructor].
Qed.

Lemma reassemble_lf_free o line :
  lf_free line -> lf_free (o_ii o) -> lf_free (o_si o) ->
  forall groups first idx ls,
    Forall (Forall pen_ok) groups -> reassemble o line first groups idx = Some ls ->
    Forall (fun l => lf_free (l_text l)) ls.
Proof.
  intros Hline Hii Hsi.
  induction groups as [|g rest IH]; intros first idx ls Hg H; cbn [reassemble] in H.
  - inversion H. constructor.
  - inversion Hg as [|g' rest' Hg1 Hg2]; subst.
    assert (Hind : lf_free (if first then o_ii o else o_si o)) by (destruct first; assumption).
    destruct (last (map Some g) None) as [lw|] eqn:El.
    + destruct (_ <? _); [discriminate|].
      destruct (bslice _ _ _) as [sl|] eqn:Es; [|discriminate].
      destruct (reassemble o line false rest _) as [r|] eqn:Er; [|discriminate].
      inversion H. constructor; [|eapply IH; [exact Hg2|exact Er]].
      cbn [l_text]. apply lf_free_app. split; [exact Hind|]. apply lf_free_app. split.
      * eapply lf_free_incl; [eapply bslice_incl; exact Es|exact Hline].
      * apply last_some_in in El. rewrite Forall_forall in Hg1. apply Hg1. exact El.
    + destruct (reassemble o line false rest idx) as [r|] eqn:Er; [|discriminate].
      inversion H. constructor; [exact Hind|eapply IH; [exact Hg2|exact Er]].
Qed.

(* What is needed from the optimal-fit oracle here: it does not invent words whose
   penalty text contains a line feed.  It follows from [concat g = ws] (C06 for the
   oracle), see [ofit_pen_of_concat] after the section. *)
Hypothesis ofit_pen : forall p ws lws g,
  ofit p ws lws = Some g -> Forall pen_ok ws -> Forall (Forall pen_ok) g.

Lemma run_alg_pen_ok a ws lws g :
  run_alg ofit a ws lws = Some g -> Forall pen_ok ws -> Forall (Forall pen_ok) g.
Proof.
  destruct a as [|p]; cbn [run_alg]; [|apply ofit_pen].
  intros H Hws. inversion H. apply Forall_concat. rewrite first_fit_concat. exact Hws.
Qed.

Theorem slow_path_lf_free o first line ls :
  lf_free line -> lf_free (o_ii o) -> lf_free (o_si o) ->
  slow_path cw alnum lbc custom_sp ofit o first line = Some ls ->
  Forall (fun l => lf_free (l_text l)) ls.
Proof.
  intros Hline Hii Hsi. unfold slow_path.
  destruct (split_words _ _ _) as [sws|] eqn:Esw; [|discriminate].
  destruct (run_alg _ _ _ _) as [groups|] eqn:Eg; [|discriminate].
  intros H. apply (reassemble_lf_free o line Hline Hii Hsi groups first 0 ls); [|exact H].
  eapply run_alg_pen_ok; [exact Eg|].
  assert (Hsws : Forall pen_ok sws).
  { eapply split_words_pen_ok; [|exact Esw]. apply find_words_pen_ok. }
  destruct (o_bw o); [|exact Hsws].
  destruct (nonempty _).
  - constructor; [apply word_from_pen_ok|]. apply break_words_pen_ok. exact Hsws.
  - apply break_words_pen_ok. exact Hsws.
Qed.

Theorem wrap_single_line_lf_free o first line ls :
  lf_free line -> lf_free (o_ii o) -> lf_free (o_si o) ->
  wsl o first line = Some ls -> Forall (fun l => lf_free (l_text l)) ls.
Proof.
  intros Hline Hii Hsi. unfold wrap_single_line. destruct (_ && _).
  - intros H. inversion H. constructor; [|constructor]. cbn [l_text].
    eapply lf_free_incl; [apply trim_end_sp_incl|exact Hline].
  - apply slow_path_lf_free; assumption.
Qed.

Lemma wrap_loop_lf_free o : lf_free (o_ii o) -> lf_free (o_si o) ->
  forall ps acc base l,
    Forall lf_free ps -> Forall (fun l => lf_free (l_text l)) acc ->
    wloop o ps acc base = Some l -> Forall (fun l => lf_free (l_text l)) l.
Proof.
  intros Hii Hsi. induction ps as [|p ps IH]; intros acc base l Hps Hacc H; cbn [wrap_loop] in H.
  - inversion H. subst. exact Hacc.
  - inversion Hps as [|p' ps' Hp Hps']; subst.
    destruct (wsl o _ p) as [ls|] eqn:E; [|discriminate].
    eapply IH; [exact Hps'| |exact H]. apply Forall_app. split; [exact Hacc|].
    apply wrap_single_line_lf_free in E; try assumption.
    apply Forall_map. eapply Forall_impl; [|exact E]. intros x Hx. cbv beta.
    rewrite shift_cow_text. exact Hx.
Qed.

(* with LF as line ending and LF-free indents, no output line contains LF *)
Theorem wrap_lines_lf_free o t l :
  o_le o = LE_LF -> lf_free (o_ii o) -> lf_free (o_si o) ->
  wrp o t = Some l -> Forall (fun l => lf_free (l_text l)) l.
Proof.
  intros Hle Hii Hsi. unfold wrap. rewrite Hle. cbn [split_le]. intros H.
  eapply wrap_loop_lf_free; try eassumption; [apply split_lf_pieces_lf_free|constructor].
Qed.

Lemma join_crlf_subst l :
  Forall lf_free l -> join [CR; LF] l = crlf_subst (join [LF] l).
Proof.
  induction l as [|x l IH]; intros H; [reflexivity|].
  inversion H as [|x' l' Hx Hl]; subst. destruct l as [|y l'].
  - cbn [join]. symmetry. apply crlf_subst_lf_free. exact Hx.
  - rewrite (join_cons [CR; LF] x (y :: l')), (join_cons [LF] x (y :: l')) by discriminate.
    rewrite !crlf_subst_app.
    rewrite (crlf_subst_lf_free x Hx), <- IH by exact Hl. reflexivity.
Qed.

Theorem fill_crlf_equivariant o t :
  o_le o = LE_LF -> lf_free (o_ii o) -> lf_free (o_si o) ->
  fill cw alnum lbc custom_sp ofit (set_le o LE_CRLF) (crlf_subst t) =
  option_map crlf_subst (fill cw alnum lbc custom_sp ofit o t).
Proof.
  intros Hle Hii Hsi. rewrite !fill_is_join.
  pose proof (wrap_crlf_subst_texts o t Hle) as Ht.
  pose proof (wrap_lines_lf_free o t) as Hf.
  destruct (wrp o t) as [ls|]; destruct (wrp (set_le o LE_CRLF) (crlf_subst t)) as [ls'|];
    cbn [option_map] in *; try discriminate Ht; [|reflexivity].
  inversion Ht as [Ht']. rewrite Hle. cbn [set_le o_le le_str]. f_equal.
  rewrite Ht'. apply join_crlf_subst. apply Forall_map. apply (Hf ls Hle Hii Hsi eq_refl).
Qed.

End Paragraphs.

(* discharging the oracle hypotheses from the partition property (C06) *)
Lemma ofit_nonempty_of_concat
  (ofit : penalties -> list word -> list N -> option (list (list word))) :
  (forall p ws lws g, ofit p ws lws = Some g -> concat g = ws /\ (ws = [] -> g = [[]])) ->
  forall p ws lws g, ofit p ws lws = Some g -> g <> [].
Proof.
  intros Hc p ws lws g H E. destruct (Hc p ws lws g H) as [H1 H2]. subst g.
  cbn [concat] in H1. subst ws. specialize (H2 eq_refl). discriminate H2.
Qed.

Lemma ofit_pen_of_concat
  (ofit : penalties -> list word -> list N -> option (list (list word))) :
  (forall p ws lws g, ofit p ws lws = Some g -> concat g = ws) ->
  forall p ws lws g, ofit p ws lws = Some g -> Forall pen_ok ws -> Forall (Forall pen_ok) g.
Proof.
  intros Hc p ws lws g H Hws. apply Forall_concat. rewrite (Hc p ws lws g H). exact Hws.
Qed.

(* ================================================================== *)
(* Non-vacuity                                                          *)
(* ================================================================== *)
Module Examples.
Definition cw1 : char -> N := fun _ => 1.
Definition an0 : char -> bool := fun _ => false.
Definition lbc0 : str -> list N := fun _ => [].
Definition ofit0 : penalties -> list word -> list N -> option (list (list word)) :=
  fun _ _ _ => None.
Definition o1 := mkOptions 5 LE_LF [] [] true FirstFit SepAscii SplNone.
(* initial indent "> ", no subsequent indent *)
Definition o2 := mkOptions 6 LE_LF [62; 32] [] true FirstFit SepAscii SplNone.
(* "ab cd ef" and "gh ij kl" *)
Definition ta : str := [97; 98; 32; 99; 100; 32; 101; 102].
Definition tb : str := [103; 104; 32; 105; 106; 32; 107; 108].
Definition t1 : str := ta ++ [LF] ++ tb.

Example wrap_two_paragraphs :
  wrap cw1 an0 lbc0 lbc0 ofit0 o1 t1 =
  Some [mkLine [97; 98; 32; 99; 100] (Borrowed 0); mkLine [101; 102] (Borrowed 6);
        mkLine [103; 104; 32; 105; 106] (Borrowed 9); mkLine [107; 108] (Borrowed 15)].
Proof. vm_compute. reflexivity. Qed.

Example wrap_first_paragraph :
  wrap cw1 an0 lbc0 lbc0 ofit0 o1 ta =
  Some [mkLine [97; 98; 32; 99; 100] (Borrowed 0); mkLine [101; 102] (Borrowed 6)].
Proof. vm_compute. reflexivity. Qed.

Example wrap_second_paragraph :
  wrap cw1 an0 lbc0 lbc0 ofit0 o1 tb =
  Some [mkLine [103; 104; 32; 105; 106] (Borrowed 0); mkLine [107; 108] (Borrowed 6)].
Proof. vm_compute. reflexivity. Qed.

(* the hypothesis [o_ii o = o_si o] of [wrap_tail_same_indent] is needed: with an initial
   indent the second paragraph inside a text is not wrapped like a text of its own *)
Example wrap_tail_differs :
  option_map (map l_text) (wrap_tail cw1 an0 lbc0 lbc0 ofit0 o2 tb) <>
  option_map (map l_text) (wrap cw1 an0 lbc0 lbc0 ofit0 o2 tb).
Proof. vm_compute. discriminate. Qed.

Example fill_lf :
  fill cw1 an0 lbc0 lbc0 ofit0 o1 t1 =
  Some [97; 98; 32; 99; 100; 10; 101; 102; 10; 103; 104; 32; 105; 106; 10; 107; 108].
Proof. vm_compute. reflexivity. Qed.

Example fill_crlf :
  fill cw1 an0 lbc0 lbc0 ofit0 (set_le o1 LE_CRLF) (crlf_subst t1) =
  Some [97; 98; 32; 99; 100; 13; 10; 101; 102; 13; 10; 103; 104; 32; 105; 106; 13; 10; 107; 108].
Proof. vm_compute. reflexivity. Qed.

(* the LF-free-indent hypothesis of [fill_crlf_equivariant] is needed *)
Definition o3 := mkOptions 5 LE_LF [LF] [] true FirstFit SepAscii SplNone.
Example fill_crlf_lf_indent :
  fill cw1 an0 lbc0 lbc0 ofit0 (set_le o3 LE_CRLF) (crlf_subst ta) <>
  option_map crlf_subst (fill cw1 an0 lbc0 lbc0 ofit0 o3 ta).
Proof. vm_compute. discriminate. Qed.

(* the oracle hypotheses hold for this instance, so the theorems apply to it *)
Example ofit0_nonempty : forall p ws lws g, ofit0 p ws lws = Some g -> g <> [].
Proof. discriminate. Qed.
Example ofit0_pen : forall p ws lws g,
  ofit0 p ws lws = Some g -> Forall pen_ok ws -> Forall (Forall pen_ok) g.
Proof. discriminate. Qed.
End Examples.

Print Assumptions split_lf_app.
Print Assumptions split_crlf_app.
Print Assumptions split_lf_nonnil.
Print Assumptions split_crlf_nonnil.
Print Assumptions split_lf_pieces_lf_free.
Print Assumptions split_lf_length.
Print Assumptions join_split_lf.
Print Assumptions join_split_crlf.
Print Assumptions split_crlf_subst.
Print Assumptions wrap_single_line_nonempty.
Print Assumptions wrap_loop_app.
Print Assumptions wrap_loop_acc_indep.
Print Assumptions wrap_loop_tail.
Print Assumptions wrap_app.
Print Assumptions wrap_app_prefix.
Print Assumptions wrap_app_none.
Print Assumptions wrap_app_tail_indep.
Print Assumptions wrap_app_tail_texts.
Print Assumptions wrap_tail_same_indent.
Print Assumptions wrap_app_same_indent.
Print Assumptions wrap_app_empty_indent_texts.
Print Assumptions wrap_length_ge.
Print Assumptions fill_is_join.
Print Assumptions wrap_crlf_subst_texts.
Print Assumptions slow_path_lf_free.
Print Assumptions wrap_lines_lf_free.
Print Assumptions fill_crlf_equivariant.
Print Assumptions ofit_nonempty_of_concat.
Print Assumptions ofit_pen_of_concat.
