(* Facts about the escape machine and display_width (C10, and used everywhere). *)
From Coq Require Import Lia.
From TW Require Import Esc.

Arguments N.add : simpl never.
Arguments N.sub : simpl never.
Arguments N.leb : simpl never.
Arguments N.ltb : simpl never.
Arguments N.eqb : simpl never.

Lemma final_state_app s a b : final_state s (a ++ b) = final_state (final_state s a) b.
Proof. revert s; induction a as [|c a IH]; intros s; cbn [app final_state]; auto. Qed.

Lemma strip_from_app s a b :
  strip_from s (a ++ b) = strip_from s a ++ strip_from (final_state s a) b.
Proof.
  revert s; induction a as [|c a IH]; intros s; cbn [app strip_from final_state]; [reflexivity|].
  destruct (step s c) as [s' v] eqn:E; cbn [fst]. rewrite IH. destruct v; reflexivity.
Qed.

Section W.
Variable cw : char -> N.

Lemma dw_from_app s a b :
  dw_from cw s (a ++ b) = dw_from cw s a + dw_from cw (final_state s a) b.
Proof.
  revert s; induction a as [|c a IH]; intros s; cbn [app dw_from final_state]; [reflexivity|].
  destruct (step s c) as [s' v] eqn:E; cbn [fst]. rewrite IH. lia.
Qed.

(* additivity when the cut is where the machine is back in Normal *)
Lemma dw_cut a b : final_state Normal a = Normal -> dw cw (a ++ b) = dw cw a + dw cw b.
Proof. intros H. unfold dw. rewrite dw_from_app, H. reflexivity. Qed.

Definition sum_cw (v : str) : N := fold_right (fun c acc => cw c + acc) 0 v.

Lemma sum_cw_app a b : sum_cw (a ++ b) = sum_cw a + sum_cw b.
Proof. induction a as [|c a IH]; cbn [app sum_cw fold_right]; [reflexivity|]. fold (sum_cw (a ++ b)) (sum_cw a). lia. Qed.

(* display_width is the sum of the widths of the characters that survive stripping *)
Lemma dw_from_strip s t : dw_from cw s t = sum_cw (strip_from s t).
Proof.
  revert s; induction t as [|c t IH]; intros s; cbn [dw_from strip_from]; [reflexivity|].
  destruct (step s c) as [s' v]. rewrite IH. destruct v; cbn [sum_cw fold_right]; reflexivity.
Qed.
Lemma dw_strip t : dw cw t = sum_cw (strip t).
Proof. apply dw_from_strip. Qed.

(* never more than the byte length, from any state *)
Hypothesis cw_le : forall c, cw c <= utf8_len c.
Lemma utf8_len_pos c : 1 <= utf8_len c.
Proof. unfold utf8_len. destruct (c <? 128), (c <? 2048), (c <? 65536); lia. Qed.
Lemma dw_from_le_blen s t : dw_from cw s t <= blen t.
Proof.
  revert s; induction t as [|c t IH]; intros s; cbn [dw_from blen]; [lia|].
  destruct (step s c) as [s' v]. specialize (IH s'). specialize (cw_le c).
  pose proof (utf8_len_pos c). destruct v; lia.
Qed.
Lemma dw_le_blen t : dw cw t <= blen t.
Proof. apply dw_from_le_blen. Qed.
End W.

(* ---- the grammar of well-formed text, independent of the machine ---- *)

Definition csi_body_ok (c : char) : Prop := is_final c = false /\ c <> ESC.
Definition osc_body_ok (c : char) : Prop := c <> BEL /\ c <> ESC.

(* Parse t v : t is well-formed (every ESC begins a CSI or OSC sequence with
   ESC-free payload) and v is t with those sequences removed *)
Inductive Parse : str -> str -> Prop :=
| P_nil : Parse [] []
| P_char c t v : c <> ESC -> Parse t v -> Parse (c :: t) (c :: v)
| P_csi body fin t v :
    Forall csi_body_ok body -> is_final fin = true -> Parse t v ->
    Parse (ESC :: LBRACK :: body ++ fin :: t) v
| P_osc_bel body t v :
    Forall osc_body_ok body -> Parse t v ->
    Parse (ESC :: RBRACK :: body ++ BEL :: t) v
| P_osc_st body t v :
    Forall osc_body_ok body -> Parse t v ->
    Parse (ESC :: RBRACK :: body ++ ESC :: BSLASH :: t) v.

Lemma neqb_false (a b : N) : a <> b -> (a =? b) = false.
Proof. intros H. apply N.eqb_neq. exact H. Qed.

Lemma csi_body_run body rest :
  Forall csi_body_ok body ->
  final_state Csi (body ++ rest) = final_state Csi rest /\
  strip_from Csi (body ++ rest) = strip_from Csi rest.
Proof.
  induction 1 as [|c body [Hf _] _ IH]; cbn [app]; [auto|].
  cbn [final_state strip_from step]. rewrite Hf. cbn [fst]. exact IH.
Qed.

Lemma osc_body_run body rest :
  Forall osc_body_ok body ->
  final_state (Osc false) (body ++ rest) = final_state (Osc false) rest /\
  strip_from (Osc false) (body ++ rest) = strip_from (Osc false) rest.
Proof.
  induction 1 as [|c body [Hb He] _ IH]; cbn [app]; [auto|].
  cbn [final_state strip_from step].
  rewrite (neqb_false _ _ Hb), (neqb_false _ _ He). rewrite andb_false_r. cbn [orb fst]. exact IH.
Qed.

(* the machine implements the grammar: it ends in Normal and strips exactly the sequences *)
Lemma parse_machine t v : Parse t v -> final_state Normal t = Normal /\ strip t = v.
Proof.
  unfold strip. induction 1 as [|c t v Hc _ [IH1 IH2]|body fin t v Hb Hf _ [IH1 IH2]
                                |body t v Hb _ [IH1 IH2]|body t v Hb _ [IH1 IH2]].
  - split; reflexivity.
  - cbn [final_state strip_from step]. rewrite (neqb_false _ _ Hc). cbn [fst].
    split; [exact IH1|]. rewrite IH2. reflexivity.
  - cbn [final_state strip_from step fst]. change (ESC =? ESC) with true. cbn [fst].
    cbn [final_state strip_from step fst]. change (LBRACK =? LBRACK) with true. cbn [fst].
    destruct (csi_body_run body (fin :: t) Hb) as [E1 E2]. rewrite E1, E2.
    cbn [final_state strip_from step]. rewrite Hf. cbn [fst]. split; assumption.
  - cbn [final_state strip_from step fst]. change (ESC =? ESC) with true. cbn [fst].
    cbn [final_state strip_from step fst]. change (RBRACK =? LBRACK) with false.
    change (RBRACK =? RBRACK) with true. cbn [fst].
    destruct (osc_body_run body (BEL :: t) Hb) as [E1 E2]. rewrite E1, E2.
    cbn [final_state strip_from step]. change (BEL =? BEL) with true. cbn [orb fst]. split; assumption.
  - cbn [final_state strip_from step fst]. change (ESC =? ESC) with true. cbn [fst].
    cbn [final_state strip_from step fst]. change (RBRACK =? LBRACK) with false.
    change (RBRACK =? RBRACK) with true. cbn [fst].
    destruct (osc_body_run body (ESC :: BSLASH :: t) Hb) as [E1 E2]. rewrite E1, E2.
    cbn [final_state strip_from step]. change (ESC =? BEL) with false.
    change (ESC =? BSLASH) with false. change (ESC =? ESC) with true. cbn [orb andb fst].
    cbn [final_state strip_from step]. change (BSLASH =? BEL) with false.
    change (BSLASH =? BSLASH) with true. cbn [orb andb fst]. split; assumption.
Qed.

Lemma parse_app a va b vb : Parse a va -> Parse b vb -> Parse (a ++ b) (va ++ vb).
Proof.
  induction 1; intros Hb; cbn [app]; try assumption.
  - constructor; auto.
  - rewrite <- app_assoc. cbn [app]. apply P_csi; auto.
  - rewrite <- app_assoc. cbn [app]. apply P_osc_bel; auto.
  - rewrite <- app_assoc. cbn [app]. apply P_osc_st; auto.
Qed.

Lemma esc_free_parse t : Forall (fun c => c <> ESC) t -> Parse t t.
Proof. induction 1; constructor; auto. Qed.
