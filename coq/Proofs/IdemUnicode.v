(* C14, the separator-independent half: filling is idempotent for BOTH word separators
   (first-fit, empty indents, built-in splitters) on every text that passes the computable
   check [refind_b].

   For the Unicode separator the words of a line depend on the oracle [lbc] (the crate
   unicode-linebreak).  Whether the second pass finds, in a first-pass line taken on its
   own, words that still fit on one line is a fact about that crate which an abstract
   oracle cannot give; [refind_b] isolates exactly this fact, per text, as a boolean.

   U0  [ends_sp], [fits1_b] and their specifications
   U1  [refind_b] (with [refind_line_b], [refind_group_b], [refind_para_b],
       [refind_paras_b]) and its specification [refind_b_spec]
   U2  theorem [fill_idem_refind]
   U3  for the ASCII separator the check never fails ([refind_b_ascii], from [Refind])
   U4  examples by vm_compute: a table oracle for which the check holds, and one for
       which it fails and fill is NOT idempotent. *)
From Coq Require Import Lia ZArith.
From TW Require Import Wrap Custom.
From TW Require Import EscFacts Partition Greedy Lossless SplitBreak Bellman Paragraphs Pipeline WidthBound.
From TW Require Import Idempotent.

Arguments N.add : simpl never.
Arguments N.sub : simpl never.
Arguments N.mul : simpl never.
Arguments N.leb : simpl never.
Arguments N.ltb : simpl never.
Arguments N.eqb : simpl never.

(* ================================================================== *)
(* U0: the boolean pieces                                               *)
(* ================================================================== *)

(* the string ends in a space *)
Fixpoint ends_sp (s : str) : bool :=
  match s with
  | [] => false
  | c :: r => match r with [] => c =? SP | _ :: _ => ends_sp r end
  end.

Lemma ends_sp_true s : ends_sp s = true -> exists u, s = u ++ [SP].
Proof.
  induction s as [|c r IH]; intros H; [discriminate|].
  cbn [ends_sp] in H. destruct r as [|d r'].
  - apply N.eqb_eq in H. subst c. exists []. reflexivity.
  - destruct (IH H) as [u Eu]. exists (c :: u). rewrite Eu. reflexivity.
Qed.

Lemma ends_sp_false s : ends_sp s = false -> no_trailing_sp s.
Proof.
  induction s as [|c r IH]; intros H; [exact no_trailing_nil|].
  cbn [ends_sp] in H. destruct r as [|d r'].
  - apply N.eqb_neq in H. intros u E. destruct u as [|x u'].
    + injection E as E. contradiction.
    + destruct u'; discriminate.
  - intros u E. destruct u as [|x u']; [discriminate|].
    injection E as _ E. exact (IH H u' E).
Qed.

Lemma ends_sp_spec s : ends_sp s = false <-> no_trailing_sp s.
Proof.
  split; [apply ends_sp_false|].
  intros H. destruct (ends_sp s) eqn:E; [|reflexivity].
  destruct (ends_sp_true s E) as [u Eu]. exfalso. exact (H u Eu).
Qed.

(* every fragment but the first passes the first-fit test: [acc] is the cached width of
   the fragments before *)
Fixpoint fits1_aux (W acc : N) (fs : list word) : bool :=
  match fs with
  | [] => true
  | x :: r => (acc + w_width x + blen (w_pen x) <=? W) &&
              fits1_aux W (acc + w_width x + blen (w_ws x)) r
  end.

Definition fits1_b (W : N) (fs : list word) : bool :=
  match fs with
  | [] => true
  | x :: r => fits1_aux W (w_width x + blen (w_ws x)) r
  end.

Lemma fits1_aux_spec W : forall fs acc,
  fits1_aux W acc fs = true <->
  (forall pre x post, fs = pre ++ x :: post ->
     acc + cached pre + w_width x + blen (w_pen x) <= W).
Proof.
  induction fs as [|y r IH]; intros acc; cbn [fits1_aux].
  - split; [|reflexivity]. intros _ pre x post E. destruct pre; discriminate.
  - rewrite andb_true_iff, IH, N.leb_le. split.
    + intros [H1 H2] pre x post E. destruct pre as [|p pre'].
      * cbn [app] in E. injection E as <- _. rewrite cached_nil. lia.
      * cbn [app] in E. injection E as <- E. specialize (H2 pre' x post E).
        rewrite cached_cons. lia.
    + intros H. split.
      * specialize (H [] y r eq_refl). rewrite cached_nil in H. lia.
      * intros pre x post E. specialize (H (y :: pre) x post).
        cbn [app] in H. rewrite E in H. specialize (H eq_refl).
        rewrite cached_cons in H. lia.
Qed.

Theorem fits1_b_spec W fs : fits1_b W fs = true <-> fits1 W fs.
Proof.
  destruct fs as [|y r]; cbn [fits1_b].
  - split; [|reflexivity]. intros _ pre x post E. destruct pre; discriminate.
  - rewrite fits1_aux_spec. unfold fits1. split.
    + intros H pre x post E Hne. destruct pre as [|p pre']; [congruence|].
      cbn [app] in E. injection E as <- E. specialize (H pre' x post E).
      rewrite cached_cons. lia.
    + intros H pre x post E. specialize (H (y :: pre) x post).
      cbn [app] in H. rewrite E in H. specialize (H eq_refl).
      rewrite cached_cons in H. apply H. discriminate.
Qed.

Definition is_nil {A : Type} (l : list A) : bool :=
  match l with [] => true | _ :: _ => false end.

Lemma is_nil_true {A : Type} (l : list A) : is_nil l = true <-> l = [].
Proof. destruct l; cbn [is_nil]; split; congruence. Qed.

Lemma is_nil_false {A : Type} (l : list A) : negb (is_nil l) = true <-> l <> [].
Proof. destruct l; cbn [is_nil negb]; split; congruence. Qed.

(* no oracle answer can produce a word in the empty line *)
Lemma cut_positions_nil opps : cut_positions opps [] = [].
Proof. induction opps as [|x r IH]; [reflexivity|]. cbn [cut_positions find_idx]. exact IH. Qed.

Lemma find_words_unicode_nil cw lbc : find_words_unicode cw lbc [] = [].
Proof.
  unfold find_words_unicode, idx_map. cbn [idx_map_from].
  rewrite cut_positions_nil. reflexivity.
Qed.

Section IdemU.
Variable cw : char -> N.
Variable alnum : char -> bool.
Variable lbc : str -> list N.
Variable custom_sp : str -> list N.

Notation pwords := (pipeline_words cw alnum lbc custom_sp).

(* ================================================================== *)
(* U1: the check                                                        *)
(* ================================================================== *)

(* the second pass on the line [L], taken as a paragraph of its own: it finds fragments,
   they pass the greedy test of one line, and the last one has no whitespace *)
Definition refind_line_b (o : options) (first' : bool) (L : str) : bool :=
  match pwords o first' L with
  | None => false
  | Some fs => negb (is_nil fs) && fits1_b (o_width o) fs && is_nil (lastw_ws fs)
  end.

(* one first-pass line (group [g] of the fragments of a paragraph) *)
Definition refind_group_b (o : options) (g : list word) : bool :=
  let L := body g in
  match L with
  | [] => true
  | _ :: _ => negb (ends_sp L) && refind_line_b o true L && refind_line_b o false L
  end.

(* one paragraph; [first] as in [wrap_loop] *)
Definition refind_para_b (o : options) (first : bool) (p : str) : bool :=
  match pwords o first p with
  | None => false
  | Some bws => forallb (refind_group_b o) (ff_groups cw o first bws)
  end.

Fixpoint refind_paras_b (o : options) (first : bool) (ps : list str) : bool :=
  match ps with
  | [] => true
  | p :: r => refind_para_b o first p && refind_paras_b o false r
  end.

Definition refind_b (o : options) (t : str) : bool :=
  refind_paras_b o true (split_le (o_le o) t).

(* ---- what the check means ---- *)

Definition RefindLine (o : options) (first' : bool) (L : str) : Prop :=
  exists fs, pwords o first' L = Some fs /\ fs <> [] /\
             fits1 (o_width o) fs /\ lastw_ws fs = [].

Definition RefindGroup (o : options) (g : list word) : Prop :=
  body g <> [] ->
  no_trailing_sp (body g) /\ forall first', RefindLine o first' (body g).

Definition RefindPara (o : options) (first : bool) (p : str) : Prop :=
  exists bws, pwords o first p = Some bws /\
              Forall (RefindGroup o) (ff_groups cw o first bws).

Fixpoint RefindParas (o : options) (first : bool) (ps : list str) : Prop :=
  match ps with
  | [] => True
  | p :: r => RefindPara o first p /\ RefindParas o false r
  end.

Lemma refind_line_b_spec o first' L :
  refind_line_b o first' L = true <-> RefindLine o first' L.
Proof.
  unfold refind_line_b, RefindLine. destruct (pwords o first' L) as [fs|].
  - rewrite !andb_true_iff, is_nil_false, fits1_b_spec, is_nil_true. split.
    + intros [[H1 H2] H3]. exists fs. repeat split; assumption.
    + intros [fs' [E [H1 [H2 H3]]]]. injection E as <-. repeat split; assumption.
  - split; [discriminate|]. intros [fs [E _]]. discriminate.
Qed.

Lemma refind_group_b_spec o g : refind_group_b o g = true <-> RefindGroup o g.
Proof.
  unfold refind_group_b, RefindGroup. cbv zeta.
  destruct (body g) as [|c0 b0] eqn:Eb.
  - split; [intros _ H; congruence|reflexivity].
  - rewrite !andb_true_iff, !refind_line_b_spec, negb_true_iff, ends_sp_spec. split.
    + intros [[H1 H2] H3] _. split; [exact H1|]. intros [|]; assumption.
    + intros H. destruct H as [H1 H2]; [discriminate|].
      split; [split|]; [exact H1|apply H2|apply H2].
Qed.

Lemma refind_para_b_spec o first p : refind_para_b o first p = true <-> RefindPara o first p.
Proof.
  unfold refind_para_b, RefindPara. destruct (pwords o first p) as [bws|].
  - rewrite forallb_forall. split.
    + intros H. exists bws. split; [reflexivity|]. apply Forall_forall. intros g Hg.
      apply refind_group_b_spec. exact (H g Hg).
    + intros [bws' [E H]]. injection E as <-. rewrite Forall_forall in H.
      intros g Hg. apply refind_group_b_spec. exact (H g Hg).
  - split; [discriminate|]. intros [bws [E _]]. discriminate.
Qed.

Lemma refind_paras_b_spec o : forall ps first,
  refind_paras_b o first ps = true <-> RefindParas o first ps.
Proof.
  induction ps as [|p r IH]; intros first; cbn [refind_paras_b RefindParas].
  - split; intros _; [exact I|reflexivity].
  - rewrite andb_true_iff, refind_para_b_spec, IH. reflexivity.
Qed.

(* U1: [refind_b] decides the property described in the task *)
Theorem refind_b_spec o t :
  refind_b o t = true <-> RefindParas o true (split_le (o_le o) t).
Proof. apply refind_paras_b_spec. Qed.

(* ================================================================== *)
(* U2: idempotence from the check                                       *)
(* ================================================================== *)

Variable ofit : penalties -> list word -> list N -> option (list (list word)).

Notation spath := (slow_path cw alnum lbc custom_sp ofit).
Notation wsl := (wrap_single_line cw alnum lbc custom_sp ofit).
Notation wloop := (wrap_loop cw alnum lbc custom_sp ofit).
Notation wrp := (wrap cw alnum lbc custom_sp ofit).
Notation fil := (fill cw alnum lbc custom_sp ofit).
Notation LFix := (LineFix cw alnum lbc custom_sp ofit).
Notation ptx := (ptexts cw alnum lbc custom_sp ofit).

Section GenericU.
Variable o : options.
Hypothesis Ha : o_alg o = FirstFit.
Hypothesis Hs : SplitterOK custom_sp.
Hypothesis He : EmptyIndents o.
Hypothesis Hspl : o_spl o <> SplCustom.

(* with empty indents the flag [first] changes neither the fragments nor the groups *)
Lemma pwords_irr first first' p : pwords o first p = pwords o first' p.
Proof.
  unfold pipeline_words. rewrite (ind_empty o He first), (ind_empty o He first'). reflexivity.
Qed.

Lemma ff_groups_irr first first' bws : ff_groups cw o first bws = ff_groups cw o first' bws.
Proof.
  unfold ff_groups, line_widths. destruct He as [H1 H2]. rewrite H1, H2.
  destruct first, first'; reflexivity.
Qed.

(* the per-paragraph fact used below, for either value of the flag *)
Definition RefindP (p : str) : Prop :=
  forall first bws k g, pwords o first p = Some bws ->
    nth_error (ff_groups cw o first bws) k = Some g -> RefindGroup o g.

Lemma RefindPara_P first0 p : RefindPara o first0 p -> RefindP p.
Proof.
  intros [bws0 [E0 HF]] first bws k g Hp Hk.
  rewrite (pwords_irr first first0) in Hp. rewrite E0 in Hp. injection Hp as <-.
  rewrite (ff_groups_irr first first0) in Hk.
  rewrite Forall_forall in HF. apply HF. eapply nth_error_In. exact Hk.
Qed.

Lemma RefindParas_P : forall ps first0, RefindParas o first0 ps -> Forall RefindP ps.
Proof.
  induction ps as [|p r IH]; intros first0 H; [constructor|].
  cbn [RefindParas] in H. destruct H as [H1 H2]. constructor.
  - exact (RefindPara_P first0 p H1).
  - exact (IH false H2).
Qed.

(* the empty paragraph has no words, whatever the separator and the oracle *)
Lemma find_words_nil : find_words cw lbc (o_sep o) [] = [].
Proof. destruct (o_sep o); cbn [find_words]; [reflexivity|apply find_words_unicode_nil]. Qed.

Lemma pwords_nil_u first : pwords o first [] = Some [].
Proof.
  unfold pipeline_words. rewrite find_words_nil. cbn [split_words].
  rewrite (ind_empty o He first). destruct (o_bw o); reflexivity.
Qed.

Lemma LineFix_nil_u : LFix o [].
Proof.
  intros first. rewrite (wsl_unfold cw alnum lbc custom_sp ofit o He).
  destruct (blen [] <? o_width o); [reflexivity|].
  destruct (slow_path_first_fit cw alnum lbc custom_sp ofit o first [] Ha Hs)
    as [bws [Hp [_ [_ Hsp]]]].
  rewrite pwords_nil_u in Hp. injection Hp as <-. rewrite Hsp.
  unfold indent_line. rewrite (ind_empty o He first). reflexivity.
Qed.

(* one first-pass line that passes the check, wrapped again as a paragraph of its own, is
   that line, borrowed from offset 0 *)
Theorem wsl_line_u g first' : RefindGroup o g -> body g <> [] ->
  wsl o first' (body g) = Some [mkLine (body g) (Borrowed 0)].
Proof.
  intros HG Hbne. destruct (HG Hbne) as [Hnt HL].
  rewrite (wsl_unfold cw alnum lbc custom_sp ofit o He).
  destruct (blen (body g) <? o_width o) eqn:Eb2.
  - rewrite trim_end_sp_no_trailing; [reflexivity|exact Hnt].
  - destruct (HL first') as [fs [Hf1 [Hf2 [Hf3 Hf4]]]].
    assert (Hfp : lastw_pen fs = []).
    { apply lastw_pen_nil.
      exact (pipeline_words_pen_nil cw alnum lbc custom_sp o first' _ fs Hspl Hf1). }
    exact (one_line cw alnum lbc custom_sp ofit o first' (body g) fs Ha Hs He Hf1 Hf2 Hf3 Hf4 Hfp).
Qed.

Lemma wsl_lines_u first p ls : RefindP p -> wsl o first p = Some ls ->
  ls <> [] /\ forall l, In l ls ->
    LFix o (l_text l) /\ exists a b, p = a ++ l_text l ++ b.
Proof.
  intros HRp H. rewrite (wsl_unfold cw alnum lbc custom_sp ofit o He) in H.
  destruct (blen p <? o_width o) eqn:Eb.
  - injection H as <-. split; [discriminate|]. intros l [<-|[]]. cbn [l_text]. split.
    + apply (LineFix_trim cw alnum lbc custom_sp ofit o He). apply N.ltb_lt. exact Eb.
    + exists [], (snd (split_ws p)). cbn [app]. apply trim_end_sp_decomp.
  - destruct (slow_path_first_fit cw alnum lbc custom_sp ofit o first p Ha Hs)
      as [bws [Hp [Hg [_ Hsp]]]].
    rewrite Hsp in H. injection H as <-.
    destruct bws as [|w0 bws'] eqn:Ebws.
    + split; [discriminate|]. intros l [<-|[]]. unfold indent_line.
      rewrite (ind_empty o He first). cbn [nonempty l_text]. split; [apply LineFix_nil_u|].
      exists [], p. reflexivity.
    + rewrite <- Ebws in *. assert (Hne : bws <> []) by (rewrite Ebws; discriminate).
      clear Ebws w0 bws'.
      assert (Hc : concat (ff_groups cw o first bws) = bws) by apply first_fit_concat.
      split.
      * destruct (ff_groups cw o first bws) as [|g0 gr]; [cbn [concat] in Hc; congruence|].
        cbn [lines_of]. discriminate.
      * intros l Hin. destruct (In_nth_error _ _ Hin) as [k Hk].
        destruct (lines_of_nth o _ _ _ _ _ Hk) as [g [Hgk Ht]].
        rewrite (nth_indent_empty o first k He) in Ht. cbn [app] in Ht.
        assert (Hpen : lastw_pen g = []).
        { apply lastw_pen_nil. apply Forall_forall. intros x Hx.
          pose proof (pipeline_words_pen_nil cw alnum lbc custom_sp o first p bws Hspl Hp) as HP.
          rewrite Forall_forall in HP. apply HP.
          exact (ff_groups_incl cw o first bws k g Hgk x Hx). }
        rewrite Hpen, app_nil_r in Ht. rewrite Ht. split.
        -- destruct (body g) as [|c0 b0] eqn:Ebody; [apply LineFix_nil_u|].
           rewrite <- Ebody in *. assert (Hbne : body g <> []) by (rewrite Ebody; discriminate).
           clear Ebody c0 b0.
           intros first'.
           rewrite (wsl_line_u g first' (HRp first bws k g Hp Hgk) Hbne). reflexivity.
        -- destruct (nth_error_split _ _ Hgk) as [G1 [G2 [EG _]]].
           exists (gtext (concat G1)), (lastw_ws g ++ gtext (concat G2)).
           rewrite <- Hg, <- Hc, EG, concat_app, gtext_app. cbn [concat].
           rewrite gtext_app, (gtext_body g), <- !app_assoc. reflexivity.
Qed.

Lemma paras_lines_u le : forall ps tss,
  Forall2 (fun p ts => ptx o p = Some ts) ps tss -> Forall (le_free le) ps ->
  Forall RefindP ps ->
  Forall (fun l => LFix o l /\ le_free le l) (concat tss) /\ (ps <> [] -> concat tss <> []).
Proof.
  intros ps tss HF. induction HF as [|p ts r tss' Hp _ IH]; intros Hfree HRs.
  - split; [constructor|congruence].
  - inversion Hfree as [|p0 r0 Hpf Hrf]; subst.
    inversion HRs as [|p0 r0 HRp HRr]; subst.
    destruct (IH Hrf HRr) as [IH1 _].
    unfold ptexts in Hp. destruct (wsl o false p) as [ls|] eqn:El; [|discriminate].
    cbn [option_map] in Hp. injection Hp as <-.
    destruct (wsl_lines_u false p ls HRp El) as [Hne Hall].
    cbn [concat]. split.
    + apply Forall_app. split; [|exact IH1]. apply Forall_forall. intros t Ht.
      apply in_map_iff in Ht. destruct Ht as [l [<- Hl]].
      destruct (Hall l Hl) as [HL [a [b Eab]]]. split; [exact HL|].
      apply (le_free_sub le a (l_text l) b). rewrite <- Eab. exact Hpf.
    + intros _ E. apply app_eq_nil in E. destruct E as [E _].
      destruct ls; [congruence|discriminate].
Qed.

Theorem fill_idem_refind_sec t r :
  refind_b o t = true -> fil o t = Some r -> fil o r = Some r.
Proof.
  intros HB H.
  assert (HRs : Forall RefindP (split_le (o_le o) t)).
  { apply (RefindParas_P _ true). apply refind_b_spec. exact HB. }
  pose proof (wsl_irr cw alnum lbc custom_sp ofit o He) as Hirr.
  rewrite fill_is_join in H.
  destruct (wrp o t) as [ls|] eqn:Ew; [|discriminate]. injection H as <-.
  unfold wrap in Ew.
  destruct (wloop_texts_fwd cw alnum lbc custom_sp ofit o Hirr _ _ _ _ Ew) as [tss [HF Ht]].
  cbn [map app] in Ht.
  destruct (paras_lines_u (o_le o) _ _ HF (split_le_pieces_free (o_le o) t) HRs) as [Hall Hne].
  specialize (Hne (split_le_nonnil (o_le o) t)).
  rewrite Ht. set (lines := concat tss) in *.
  rewrite fill_is_join. unfold wrap.
  rewrite split_join_free; [|exact Hne|].
  2:{ eapply Forall_impl; [|exact Hall]. intros a [_ Ha']. exact Ha'. }
  assert (HF2 : Forall2 (fun p ts => ptx o p = Some ts) lines (map (fun l => [l]) lines)).
  { clear -Hall. induction Hall as [|l r [HL _] _ IH]; [constructor|].
    cbn [map]. constructor; [|exact IH]. exact (HL false). }
  destruct (wloop_texts_bwd cw alnum lbc custom_sp ofit o Hirr _ _ HF2 [] 0) as [out [Ho Hto]].
  rewrite Ho. cbn [map app] in Hto. rewrite Hto.
  assert (Ec : concat (map (fun l : str => [l]) lines) = lines).
  { clear. induction lines as [|l r IH]; [reflexivity|]. cbn [map concat app]. rewrite IH. reflexivity. }
  rewrite Ec. reflexivity.
Qed.

End GenericU.
End IdemU.

(* U2.  No hypothesis on [o_sep o], none on the oracle [lbc] (the empty paragraph has no
   words whatever the oracle answers: [find_words_unicode_nil]). *)
Theorem fill_idem_refind cw alnum lbc custom_sp ofit o :
  o_alg o = FirstFit -> SplitterOK custom_sp -> EmptyIndents o -> o_spl o <> SplCustom ->
  forall t r,
    refind_b cw alnum lbc custom_sp o t = true ->
    fill cw alnum lbc custom_sp ofit o t = Some r ->
    fill cw alnum lbc custom_sp ofit o r = Some r.
Proof.
  intros Ha Hs He Hspl t r.
  exact (fill_idem_refind_sec cw alnum lbc custom_sp ofit o Ha Hs He Hspl t r).
Qed.

Print Assumptions fill_idem_refind.

(* ================================================================== *)
(* U3: the ASCII separator always passes the check                      *)
(* ================================================================== *)

Section AsciiPasses.
Variable cw : char -> N.
Variable alnum : char -> bool.
Variable lbc : str -> list N.
Variable custom_sp : str -> list N.
Variable o : options.
Hypothesis Hs : SplitterOK custom_sp.
Hypothesis Hsep : o_sep o = SepAscii.
Hypothesis HR : Refind cw alnum lbc custom_sp o.

Notation pwords := (pipeline_words cw alnum lbc custom_sp).

Lemma RefindPara_ascii first p : RefindPara cw alnum lbc custom_sp o first p.
Proof.
  destruct (pipeline_words_spec cw alnum lbc custom_sp o first p Hs) as [bws [Hp _]].
  exists bws. split; [exact Hp|]. apply Forall_forall. intros g Hin Hbne.
  destruct (In_nth_error _ _ Hin) as [k Hk].
  assert (Hne : bws <> []).
  { intros ->. pose proof (ff_groups_incl cw o first [] k g Hk) as Hi.
    destruct g as [|x g']; [apply Hbne; reflexivity|]. exact (Hi x (or_introl eq_refl)). }
  split.
  - pose proof (slow_path_ascii_no_trailing_sp cw alnum lbc custom_sp o first p bws
                  (ff_groups cw o first bws) Hs Hsep Hp
                  (first_fit_concat _ _ word_frag bws _)) as HT.
    rewrite Forall_forall in HT. exact (HT g Hin).
  - intros first'. exact (HR first p bws k g first' Hp Hne Hk Hbne).
Qed.

Theorem refind_b_ascii t : refind_b cw alnum lbc custom_sp o t = true.
Proof.
  apply refind_b_spec. generalize (split_le (o_le o) t) as ps. generalize true as first.
  intros first ps. revert first. induction ps as [|p r IH]; intros first; cbn [RefindParas].
  - exact I.
  - split; [apply RefindPara_ascii|apply IH].
Qed.
End AsciiPasses.

(* every configuration covered by [fill_idempotent] (stages S1, S2, S3 of Idempotent.v)
   passes the check on every text, so [fill_idem_refind] subsumes the generic part of
   [fill_idempotent] *)
Corollary refind_b_ascii_builtin cw alnum lbc custom_sp o :
  SplitterOK custom_sp -> EmptyIndents o -> o_sep o = SepAscii -> o_spl o <> SplCustom ->
  forall t, refind_b cw alnum lbc custom_sp o t = true.
Proof.
  intros Hs He Hsep Hspl t. apply refind_b_ascii; [exact Hs|exact Hsep|].
  destruct (o_spl o) eqn:Espl.
  - destruct (o_bw o) eqn:Ebw.
    + apply refind_S2; assumption.
    + apply refind_S1; assumption.
  - apply refind_S3; assumption.
  - congruence.
Qed.

(* the record asked for: stage S1 *)
Corollary refind_b_S1 cw alnum lbc custom_sp o :
  SplitterOK custom_sp -> EmptyIndents o -> o_sep o = SepAscii ->
  o_spl o = SplNone -> o_bw o = false ->
  forall t, refind_b cw alnum lbc custom_sp o t = true.
Proof.
  intros Hs He Hsep Hspl Hbw t. apply refind_b_ascii_builtin; try assumption.
  rewrite Hspl. discriminate.
Qed.

Print Assumptions refind_b_ascii_builtin.

(* ================================================================== *)
(* U4: examples (non-vacuity, and the hypothesis cannot be removed)     *)
(* ================================================================== *)

Module IdemUExamples.
Definition ucw : char -> N := fun _ => 1.
Definition uan : char -> bool := fun c => (97 <=? c) && (c <=? 122).
(* a table oracle: byte offsets of the break opportunities of the listed strings *)
Definition tbl_lbc (tbl : list (str * list N)) : str -> list N :=
  fun s => match find (fun kv => str_eqb (fst kv) s) tbl with
           | Some kv => snd kv
           | None => []
           end.
Definition uo w bw := mkOptions w LE_LF [] [] bw FirstFit SepUnicode SplNone.
Definition ufill tbl o t := fill ucw uan (tbl_lbc tbl) custom3 ofit_dp o t.
Definition ucheck tbl o t := refind_b ucw uan (tbl_lbc tbl) custom3 o t.

(* "foo bar baz" at width 7: the oracle answers on the two lines as on the paragraph *)
Definition t1 : str := [102;111;111;32;98;97;114;32;98;97;122].
Definition l1a : str := [102;111;111;32;98;97;114].          (* "foo bar" *)
Definition l1b : str := [98;97;122].                         (* "baz" *)
Definition r1 : str := l1a ++ [10] ++ l1b.
Definition tbl1 := [(t1, [4;8;11]); (l1a, [4;7]); (l1b, [3])].

Example ex_unicode_check_holds :
  ucheck tbl1 (uo 7 false) t1 = true /\
  ufill tbl1 (uo 7 false) t1 = Some r1 /\
  ufill tbl1 (uo 7 false) r1 = Some r1.
Proof. repeat split; vm_compute; reflexivity. Qed.

(* the same conclusion from the theorem: only the check is computed *)
Example ex_unicode_theorem_instance : forall r,
  ufill tbl1 (uo 7 false) t1 = Some r -> ufill tbl1 (uo 7 false) r = Some r.
Proof.
  intros r. apply fill_idem_refind.
  - reflexivity.
  - exact custom3_ok.
  - split; reflexivity.
  - discriminate.
  - vm_compute. reflexivity.
Qed.

(* Fewer opportunities on the line alone are harmless as long as the line fits: if the
   oracle sees no opportunity at 4 in "foo bar" taken alone, the second pass finds the
   single fragment "foo bar", which is kept on one line.  The check holds. *)
Definition tbl1' := [(t1, [4;8;11]); (l1a, [7]); (l1b, [3])].
Example ex_unicode_fewer_opportunities :
  ucheck tbl1' (uo 7 false) t1 = true /\
  ufill tbl1' (uo 7 false) t1 = Some r1 /\
  ufill tbl1' (uo 7 false) r1 = Some r1.
Proof. repeat split; vm_compute; reflexivity. Qed.

(* The hypothesis cannot be removed (1): the oracle answers differently on the line alone.
   "foobar baz" at width 5, no break_words: "foobar" is one word of the paragraph and gets
   a line of its own; on the line "foobar" alone the oracle reports an opportunity at 3,
   and the second pass breaks there.  Clause (b) of the check fails ("foo","bar" do not
   pass the greedy test of one line), and fill is not idempotent. *)
Definition t2 : str := [102;111;111;98;97;114;32;98;97;122].
Definition l2a : str := [102;111;111;98;97;114].             (* "foobar" *)
Definition tbl2 := [(t2, [7;10]); (l2a, [3;6]); (l1b, [3])].
Example ex_unicode_check_fails_oracle :
  ucheck tbl2 (uo 5 false) t2 = false /\
  ufill tbl2 (uo 5 false) t2 = Some (l2a ++ [10] ++ l1b) /\
  ufill tbl2 (uo 5 false) (l2a ++ [10] ++ l1b) =
    Some ([102;111;111] ++ [10] ++ [98;97;114] ++ [10] ++ l1b) /\
  ufill tbl2 (uo 5 false) (l2a ++ [10] ++ l1b) <> Some (l2a ++ [10] ++ l1b).
Proof. repeat split; try (vm_compute; reflexivity). vm_compute. discriminate. Qed.

(* The hypothesis cannot be removed (2), with the answers the real crate gives: "a )" is one
   word for UAX 14 (no opportunity between the space and ')'); at width 2 break_words cuts
   it after the space, the first line is "a " and ends in a space.  Clause (a) of the check
   fails; the second pass trims the space. *)
Definition t3 : str := [97;32;41].
Definition tbl3 := [(t3, [3]); ([97;32], [2]); ([41], [1])].
Example ex_unicode_check_fails_trailing_space :
  ucheck tbl3 (uo 2 true) t3 = false /\
  ufill tbl3 (uo 2 true) t3 = Some [97;32;10;41] /\
  ufill tbl3 (uo 2 true) [97;32;10;41] = Some [97;10;41] /\
  ufill tbl3 (uo 2 true) [97;32;10;41] <> Some [97;32;10;41].
Proof. repeat split; try (vm_compute; reflexivity). vm_compute. discriminate. Qed.

(* The hypothesis cannot be removed (3): no word wider than the width, no break_words, but
   an oracle that reports an opportunity before a space ("ab  cd" cut at 3, 4; UAX 14 never
   does this): the first line is "ab " and clause (a) fails. *)
Definition t4 : str := [97;98;32;32;99;100].
Definition tbl4 := [(t4, [3;4;6]); ([97;98;32], [3]); ([99;100], [2])].
Example ex_unicode_check_fails_space_run :
  ucheck tbl4 (uo 3 false) t4 = false /\
  ufill tbl4 (uo 3 false) t4 = Some [97;98;32;10;99;100] /\
  ufill tbl4 (uo 3 false) [97;98;32;10;99;100] = Some [97;98;10;99;100].
Proof. repeat split; vm_compute; reflexivity. Qed.

(* the ASCII separator: the check holds by theorem, for every text *)
Example ex_ascii_always : forall t,
  refind_b ucw uan (fun _ => []) custom3
    (mkOptions 5 LE_CRLF [] [] true FirstFit SepAscii SplHyphen) t = true.
Proof.
  intros t. apply refind_b_ascii_builtin; try reflexivity.
  - exact custom3_ok.
  - split; reflexivity.
  - discriminate.
Qed.
End IdemUExamples.

Print Assumptions fits1_b_spec.
Print Assumptions refind_b_spec.
Print Assumptions wsl_line_u.
Print Assumptions refind_b_ascii.
Print Assumptions fill_idem_refind.
