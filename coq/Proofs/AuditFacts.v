(* Three short facts found missing by an audit of the property statements:
   S1 (C04) refill is total; S2 (C18) dedent preserves the line breaks; S3 (C19) indent
   preserves the line breaks. *)
From Coq Require Import Lia.
From TW Require Import Chars Indent Refill.
From TW Require Import IndentFacts UnfillFacts Pipeline.

Arguments N.add : simpl never.
Arguments N.sub : simpl never.
Arguments N.mul : simpl never.
Arguments N.leb : simpl never.
Arguments N.ltb : simpl never.
Arguments N.eqb : simpl never.

(* ================================================================== *)
(* S1 (C04): refill never fails                                        *)
(* ================================================================== *)

(* [fill_total] needs exactly the two hypotheses of the target statement: the optimal-fit
   oracle returns a partition ([OfitOK]) and the custom splitter returns valid split points
   ([SplitterOK]); [unfill_total] needs none. *)
Theorem refill_total : forall cw alnum lbc custom_sp ofit o t,
  OfitOK ofit -> SplitterOK custom_sp ->
  exists r, refill cw alnum lbc custom_sp ofit o t = Some r.
Proof.
  intros cw alnum lbc custom_sp ofit o t HO HS. unfold refill.
  destruct (unfill_total cw t) as [u Hu]. rewrite Hu.
  match goal with
  | |- context [fill cw alnum lbc custom_sp ofit ?o' ?x] =>
      pose proof (fill_total cw alnum lbc custom_sp ofit o' x HO HS) as HF;
      destruct (fill cw alnum lbc custom_sp ofit o' x) as [r|]
  end.
  - eexists. reflexivity.
  - congruence.
Qed.

(* ================================================================== *)
(* counting line feeds                                                 *)
(* ================================================================== *)

Definition count_lf (s : str) : nat := count_occ N.eq_dec s LF.

Lemma count_lf_app a b : count_lf (a ++ b) = (count_lf a + count_lf b)%nat.
Proof. apply count_occ_app. Qed.

Lemma count_lf_cons c r :
  count_lf (c :: r) = if c =? LF then S (count_lf r) else count_lf r.
Proof.
  unfold count_lf. cbn [count_occ].
  destruct (N.eq_dec c LF) as [E|E]; destruct (N.eqb_spec c LF) as [E'|E']; congruence.
Qed.

Lemma count_lf_lf_free l : lf_free l -> count_lf l = 0%nat.
Proof.
  induction 1 as [|c l Hc Hl IH]; [reflexivity|].
  rewrite count_lf_cons. destruct (N.eqb_spec c LF); [congruence|exact IH].
Qed.

Lemma length_cons_first c P : P <> [] -> length (cons_first c P) = length P.
Proof. destruct P; [congruence|reflexivity]. Qed.

(* str::split('\n') yields one piece more than there are line feeds *)
Theorem length_split_lf : forall s, length (split_lf s) = S (count_lf s).
Proof.
  induction s as [|c r IH]; [reflexivity|].
  cbn [split_lf]. rewrite count_lf_cons. destruct (c =? LF).
  - cbn [length]. rewrite IH. reflexivity.
  - rewrite length_cons_first by apply split_lf_nonnil. exact IH.
Qed.

Lemma count_lf_join L : Forall lf_free L -> count_lf (join [LF] L) = pred (length L).
Proof.
  induction 1 as [|l r Hl Hr IH]; [reflexivity|].
  destruct r as [|l2 r2].
  - cbn [join length pred]. apply count_lf_lf_free, Hl.
  - rewrite join_cons by discriminate. rewrite count_lf_app. rewrite count_lf_lf_free by assumption.
    cbn [app]. rewrite count_lf_cons. change (LF =? LF) with true. rewrite IH. reflexivity.
Qed.

(* ================================================================== *)
(* S2 (C18): dedent preserves the line breaks                          *)
(* ================================================================== *)

(* [f] on every piece but the last, [g] on the last one *)
Fixpoint map_pieces (f g : str -> str) (P : list str) : list str :=
  match P with
  | [] => []
  | p :: ps => match ps with [] => [g p] | _ => f p :: map_pieces f g ps end
  end.

Lemma map_pieces_length f g P : length (map_pieces f g P) = length P.
Proof.
  induction P as [|p ps IH]; [reflexivity|]. cbn [map_pieces]. destruct ps as [|q qs].
  - reflexivity.
  - cbn [length] in *. rewrite IH. reflexivity.
Qed.

Lemma map_pieces_nth f g P : forall k, (k < length P)%nat ->
  nth k (map_pieces f g P) [] =
  if (S k <? length P)%nat then f (nth k P []) else g (nth k P []).
Proof.
  induction P as [|p ps IH]; intros k Hk; [cbn [length] in Hk; lia|].
  cbn [map_pieces]. destruct ps as [|q qs].
  - cbn [length] in Hk. assert (k = 0%nat) by lia. subst k. reflexivity.
  - destruct k as [|k].
    + reflexivity.
    + cbn [nth]. rewrite IH by (cbn [length] in *; lia).
      change (length (p :: q :: qs)) with (S (length (q :: qs))).
      change (S (S k) <? S (length (q :: qs)))%nat with (S k <? length (q :: qs))%nat.
      reflexivity.
Qed.

Lemma split_lf_unlines L : Forall lf_free L -> split_lf (unlines L) = L ++ [[]].
Proof.
  induction 1 as [|l r Hl Hr IH]; [reflexivity|].
  rewrite unlines_cons, split_lf_line by assumption. rewrite IH. reflexivity.
Qed.

Lemma lop_cons2 p q qs :
  lines_of_pieces (p :: q :: qs) = strip_cr p :: lines_of_pieces (q :: qs).
Proof. reflexivity. Qed.

Lemma lop_nil_inv P : P <> [] -> lines_of_pieces P = [] -> P = [[]].
Proof.
  destruct P as [|p ps]; [congruence|]. intros _. destruct ps as [|q qs].
  - cbn [lines_of_pieces]. destruct p; [reflexivity|discriminate].
  - rewrite lop_cons2. discriminate.
Qed.

Lemma lop_lf_free P : Forall lf_free P -> Forall lf_free (lines_of_pieces P).
Proof.
  induction 1 as [|p ps Hp Hps IH]; [constructor|]. destruct ps as [|q qs].
  - cbn [lines_of_pieces]. destruct p as [|c p']; [constructor|].
    constructor; [exact Hp|constructor].
  - rewrite lop_cons2. constructor; [apply strip_cr_lf_free, Hp|exact IH].
Qed.

Lemma join_nil_inv (L : list str) : L <> [] -> join [LF] L = [] -> L = [[]].
Proof.
  destruct L as [|l r]; [congruence|]. intros _. destruct r as [|l2 r2].
  - cbn [join]. intros ->. reflexivity.
  - rewrite join_cons by discriminate. intros E. apply app_eq_nil in E.
    destruct E as [_ E]. discriminate.
Qed.

(* the pieces of the text re-assembled from the mapped lines *)
Lemma split_lf_relines (sm : str -> str) P :
  sm [] = [] -> (forall l, lf_free l -> lf_free (sm l)) ->
  P <> [] -> Forall lf_free P ->
  split_lf (if last_is_lf (join [LF] P)
            then unlines (map sm (lines_of_pieces P))
            else join [LF] (map sm (lines_of_pieces P)))
  = map_pieces (fun p => sm (strip_cr p)) sm P.
Proof.
  intros Hnil Hsm. induction P as [|p ps IH]; [congruence|]. intros _ HF.
  inversion HF as [|? ? Hp Hps]; subst. destruct ps as [|q qs].
  - cbn [join map_pieces]. rewrite last_is_lf_lf_free by assumption.
    cbn [lines_of_pieces]. destruct p as [|c p'].
    + cbn [map join]. rewrite Hnil. reflexivity.
    + cbn [map join]. apply split_lf_lf_free, Hsm, Hp.
  - specialize (IH ltac:(discriminate) Hps).
    rewrite join_cons by discriminate. cbn [app].
    rewrite lop_cons2. cbn [map].
    change (map_pieces (fun p0 => sm (strip_cr p0)) sm (p :: q :: qs))
      with (sm (strip_cr p) :: map_pieces (fun p0 => sm (strip_cr p0)) sm (q :: qs)).
    assert (HL : Forall lf_free (map sm (lines_of_pieces (q :: qs)))).
    { apply Forall_forall. intros x Hx. apply in_map_iff in Hx. destruct Hx as [l [<- Hl]].
      apply Hsm. pose proof (lop_lf_free _ Hps) as H. rewrite Forall_forall in H. apply H, Hl. }
    assert (Hfp : lf_free (sm (strip_cr p))) by apply Hsm, strip_cr_lf_free, Hp.
    destruct (join [LF] (q :: qs)) as [|d t] eqn:EJ.
    + (* the text ends right after this line's LF *)
      apply join_nil_inv in EJ; [|discriminate]. injection EJ as -> ->.
      rewrite last_is_lf_app by discriminate. cbn [last_is].
      change (LF =? LF) with true.
      cbn [lines_of_pieces map map_pieces]. rewrite Hnil.
      apply (split_lf_unlines [sm (strip_cr p)]). repeat constructor. exact Hfp.
    + rewrite last_is_lf_app by discriminate.
      change (last_is_lf (LF :: d :: t)) with (last_is_lf (d :: t)).
      destruct (last_is_lf (d :: t)).
      * rewrite unlines_cons, split_lf_line by assumption. f_equal. exact IH.
      * assert (Hne : map sm (lines_of_pieces (q :: qs)) <> []).
        { intros E. apply map_eq_nil in E. apply lop_nil_inv in E; [|discriminate].
          rewrite E in EJ. discriminate. }
        rewrite join_cons by assumption. cbn [app].
        rewrite split_lf_line by assumption. f_equal. exact IH.
Qed.

(* (b), closed form: split the input at every LF; dedent maps the pieces one by one.  A piece
   that is followed by LF is a line of [str::lines()] and loses one trailing CR; the last
   piece (the unterminated remainder) is taken as is.  Each line then loses the margin
   (non-blank line) or everything (whitespace-only line): [strip_margin]. *)
Theorem dedent_pieces : forall s,
  let mg := margin (lines s) in
  split_lf (dedent s) =
  map_pieces (fun p => strip_margin mg (strip_cr p)) (strip_margin mg) (split_lf s).
Proof.
  intros s mg. rewrite dedent_form, ends_with_lf. fold mg. unfold lines.
  rewrite <- (join_split_lf s) at 1.
  apply (split_lf_relines (strip_margin mg)).
  - reflexivity.
  - apply strip_margin_lf_free.
  - apply split_lf_nonnil.
  - apply split_lf_pieces_lf_free.
Qed.

(* (a) the number of pieces of split('\n') is preserved *)
Theorem dedent_split_lf_length : forall s,
  length (split_lf (dedent s)) = length (split_lf s).
Proof. intros s. rewrite dedent_pieces. apply map_pieces_length. Qed.

(* S2: the number of LF characters is preserved.  No restriction on CR is needed: lines()
   removes a CR before an LF from the line, never the LF, and never merges lines. *)
Theorem dedent_count_lf : forall s,
  count_occ N.eq_dec (dedent s) LF = count_occ N.eq_dec s LF.
Proof.
  intros s. pose proof (dedent_split_lf_length s) as H.
  rewrite !length_split_lf in H. unfold count_lf in H. congruence.
Qed.

(* every non-empty line built from a piece is a line of lines() *)
Lemma lop_in P : forall k, (k < length P)%nat ->
  let l := if (S k <? length P)%nat then strip_cr (nth k P []) else nth k P [] in
  l <> [] -> In l (lines_of_pieces P).
Proof.
  induction P as [|p ps IH]; intros k Hk; [cbn [length] in Hk; lia|].
  destruct ps as [|q qs].
  - cbn [length] in Hk. assert (k = 0%nat) by lia. subst k. cbn [length nth].
    change (1 <? 1)%nat with false. cbv zeta. intros Hl.
    cbn [lines_of_pieces]. destruct p; [congruence|left; reflexivity].
  - rewrite lop_cons2. destruct k as [|k].
    + cbv zeta. intros _. left. reflexivity.
    + cbv zeta. change (length (p :: q :: qs)) with (S (length (q :: qs))).
      change (S (S k) <? S (length (q :: qs)))%nat with (S k <? length (q :: qs))%nat.
      cbn [nth]. intros Hl. right. apply IH; [cbn [length] in *; lia|exact Hl].
Qed.

(* (b), piece by piece.  [line] is the k-th line as lines() sees it.  The k-th piece of the
   result is empty when the line is whitespace-only, and otherwise it is the line with the
   margin removed: the line is the margin followed by the piece. *)
Theorem dedent_piece : forall s k, (k < length (split_lf s))%nat ->
  let mg := margin (lines s) in
  let p := nth k (split_lf s) [] in
  let line := if (S k <? length (split_lf s))%nat then strip_cr p else p in
  let p' := nth k (split_lf (dedent s)) [] in
  has_nonws line = has_nonws p /\
  (has_nonws p = false -> p' = []) /\
  (has_nonws p = true -> line = mg ++ p').
Proof.
  intros s k Hk mg p line p'.
  assert (Hw : has_nonws line = has_nonws p).
  { unfold line. destruct (S k <? length (split_lf s))%nat; [apply has_nonws_strip_cr|reflexivity]. }
  assert (Hp' : p' = strip_margin mg line).
  { unfold p'. rewrite dedent_pieces. fold mg. rewrite map_pieces_nth by assumption.
    fold p. unfold line. destruct (S k <? length (split_lf s))%nat; reflexivity. }
  split; [exact Hw|]. split.
  - intros H. rewrite Hp'. apply strip_margin_blank. congruence.
  - intros H. rewrite <- Hw in H.
    assert (HI : In line (lines s)).
    { unfold lines. apply (lop_in (split_lf s) k Hk). fold p. fold line.
      apply has_nonws_nonnil, H. }
    pose proof (margin_prefix (lines s) line HI H) as HP. fold mg in HP.
    apply starts_with_iff in HP. destruct HP as [t Ht].
    rewrite Hp'. unfold strip_margin. rewrite H. rewrite Ht at 2.
    rewrite skipn_length_app. exact Ht.
Qed.

(* the literal reading of the property ("preserves the presence or absence of a final
   newline") is false: a whitespace-only last line without a newline becomes the empty
   string, so the result ends in the newline of the line before *)
Example dedent_final_newline_not_preserved :
  dedent [97; 10; 32] = [97; 10] /\
  ends_with (dedent [97; 10; 32]) [LF] = true /\ ends_with [97; 10; 32] [LF] = false.
Proof. vm_compute. repeat split. Qed.

(* and so is "preserves the number of lines" when lines are counted as str::lines() does *)
Example dedent_lines_count_not_preserved :
  length (lines (dedent [97; 10; 32])) = 1%nat /\ length (lines [97; 10; 32]) = 2%nat.
Proof. vm_compute. split; reflexivity. Qed.

(* ================================================================== *)
(* S3 (C19): indent preserves the line breaks                          *)
(* ================================================================== *)

Lemma count_lf_stl s :
  count_lf s = (pred (length (split_terminator_lf s)) + if ends_with s [LF] then 1 else 0)%nat.
Proof.
  rewrite <- (join_split_terminator s) at 1.
  rewrite count_lf_app, count_lf_join by apply stl_pieces_lf_free.
  destruct (ends_with s [LF]); reflexivity.
Qed.

Theorem indent_count_lf : forall s p, Forall (fun c => c <> LF) p ->
  count_occ N.eq_dec (indent s p) LF = count_occ N.eq_dec s LF.
Proof.
  intros s p Hp. change (count_lf (indent s p) = count_lf s).
  rewrite (count_lf_stl (indent s p)), (count_lf_stl s).
  destruct (indent_lines_structure s p Hp) as [H1 H2].
  rewrite H1, H2, map_length. reflexivity.
Qed.

(* the hypothesis on the prefix is needed *)
Example indent_count_lf_needs_lf_free_prefix :
  count_occ N.eq_dec (indent [97] [LF]) LF <> count_occ N.eq_dec [97] LF.
Proof. vm_compute. discriminate. Qed.

Print Assumptions refill_total.
Print Assumptions length_split_lf.
Print Assumptions dedent_pieces.
Print Assumptions dedent_split_lf_length.
Print Assumptions dedent_count_lf.
Print Assumptions dedent_piece.
Print Assumptions dedent_final_newline_not_preserved.
Print Assumptions dedent_lines_count_not_preserved.
Print Assumptions indent_count_lf.
Print Assumptions indent_count_lf_needs_lf_free_prefix.
