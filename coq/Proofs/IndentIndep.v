(* C08, second half: what follows the indent of every output line of [wrap]
   depends on the two indents only through their display widths and their
   emptiness.

   Two option records related by [SameShape] (equal in every field except the
   indents; the indents have pairwise equal display widths and are pairwise
   empty/non-empty together) produce, at every stage of the pipeline
   (pipeline_words, line_widths, reassemble, slow_path, wrap_single_line,
   wrap_loop, wrap), either [None] on both sides or lines that are obtained
   from ONE common list of "bodies" (text after the indent, and Cow kind) by
   prepending the respective indents. *)
From Coq Require Import Lia ZArith List Bool Arith.
From TW Require Import Wrap Custom.
From TW Require Import EscFacts Pipeline.
Import ListNotations.

Arguments N.add : simpl never.
Arguments N.sub : simpl never.
Arguments N.mul : simpl never.
Arguments N.leb : simpl never.
Arguments N.ltb : simpl never.
Arguments N.eqb : simpl never.

Local Open Scope N_scope.

(* ================================================================== *)
(* Definitions                                                          *)
(* ================================================================== *)

(* the indent used for a line: initial indent iff [first] *)
Definition ind_of (o : options) (first : bool) : str :=
  if first then o_ii o else o_si o.

(* a line without its indent: the text after the indent and the Cow kind *)
Definition lbody : Type := (str * cow)%type.

Definition prepend (ind : str) (b : lbody) : oline := mkLine (ind ++ fst b) (snd b).

(* prepend the initial indent to the first body (iff [first]) and the
   subsequent indent to all others *)
Fixpoint with_indents (o : options) (first : bool) (bs : list lbody) : list oline :=
  match bs with
  | [] => []
  | b :: r => prepend (ind_of o first) b :: with_indents o false r
  end.

(* the text after the prefix [ind]; None if [ind] is not a prefix *)
Fixpoint strip_prefix (ind t : str) : option str :=
  match ind with
  | [] => Some t
  | c :: r =>
      match t with
      | [] => None
      | d :: t' => if c =? d then strip_prefix r t' else None
      end
  end.

Definition rest_of (ind : str) (l : oline) : option str := strip_prefix ind (l_text l).

Definition shift_body (base : N) (b : lbody) : lbody :=
  (fst b, match snd b with Borrowed off => Borrowed (base + off) | c => c end).

Definition is_nil (A : Type) (l : list A) : bool :=
  match l with [] => true | _ => false end.
Arguments is_nil {A} l.

(* ================================================================== *)
(* rest_of                                                              *)
(* ================================================================== *)

Lemma strip_prefix_spec : forall ind t rest,
  strip_prefix ind t = Some rest <-> t = ind ++ rest.
Proof.
  induction ind as [|c r IH]; intros t rest; cbn [strip_prefix app].
  - split; intros H; [injection H as ->; reflexivity | rewrite H; reflexivity].
  - destruct t as [|d t'].
    + split; intros H; discriminate.
    + destruct (N.eqb_spec c d) as [->|Hne].
      * rewrite IH. split; intros H; [rewrite H; reflexivity | injection H as ->; reflexivity].
      * split; intros H; [discriminate | injection H as H1 _; congruence].
Qed.

Lemma strip_prefix_app ind rest : strip_prefix ind (ind ++ rest) = Some rest.
Proof. apply strip_prefix_spec. reflexivity. Qed.

Lemma rest_of_spec ind l rest : rest_of ind l = Some rest <-> l_text l = ind ++ rest.
Proof. apply strip_prefix_spec. Qed.

Lemma rest_of_prepend ind b : rest_of ind (prepend ind b) = Some (fst b).
Proof. unfold rest_of, prepend. cbn [l_text]. apply strip_prefix_app. Qed.

(* ================================================================== *)
(* with_indents                                                         *)
(* ================================================================== *)

Lemma with_indents_length o : forall bs first,
  length (with_indents o first bs) = length bs.
Proof.
  induction bs as [|b r IH]; intros first; [reflexivity|].
  cbn [with_indents length]. rewrite IH. reflexivity.
Qed.

Lemma with_indents_is_nil o first bs :
  is_nil (with_indents o first bs) = is_nil bs.
Proof. destruct bs; reflexivity. Qed.

Lemma with_indents_app o : forall a first b,
  with_indents o first (a ++ b) =
  with_indents o first a ++ with_indents o (if is_nil a then first else false) b.
Proof.
  induction a as [|x a' IH]; intros first b; [reflexivity|].
  cbn [app with_indents is_nil]. rewrite IH.
  destruct (is_nil a'); reflexivity.
Qed.

Lemma with_indents_shift o base : forall bs first,
  map (shift_cow base) (with_indents o first bs) =
  with_indents o first (map (shift_body base) bs).
Proof.
  induction bs as [|b r IH]; intros first; [reflexivity|].
  cbn [with_indents map]. rewrite IH. f_equal.
  destruct b as [t c]. unfold shift_cow, prepend, shift_body. cbn [l_cow l_text fst snd].
  destruct c; reflexivity.
Qed.

Lemma with_indents_nth_error o : forall bs first i,
  nth_error (with_indents o first bs) i =
  option_map (prepend (nth_indent o first i)) (nth_error bs i).
Proof.
  induction bs as [|b r IH]; intros first i.
  - destruct i; reflexivity.
  - destruct i as [|j].
    + cbn [with_indents nth_error option_map]. unfold nth_indent, ind_of.
      change (0 =? 0)%nat with true. rewrite andb_true_r. reflexivity.
    + cbn [with_indents nth_error]. rewrite IH. unfold nth_indent.
      change (S j =? 0)%nat with false. rewrite andb_false_r. reflexivity.
Qed.

Section Indep.
Variable cw : char -> N.
Variable alnum : char -> bool.
Variable lbc : str -> list N.
Variable custom_sp : str -> list N.
Variable ofit : penalties -> list word -> list N -> option (list (list word)).

(* ================================================================== *)
(* The relation between the two option records                          *)
(* ================================================================== *)

Record SameShape (o o' : options) : Prop := mkSameShape {
  ss_width : o_width o = o_width o';
  ss_le    : o_le o = o_le o';
  ss_bw    : o_bw o = o_bw o';
  ss_alg   : o_alg o = o_alg o';
  ss_sep   : o_sep o = o_sep o';
  ss_spl   : o_spl o = o_spl o';
  ss_dw_ii : dw cw (o_ii o) = dw cw (o_ii o');
  ss_dw_si : dw cw (o_si o) = dw cw (o_si o');
  ss_ne_ii : nonempty (o_ii o) = nonempty (o_ii o');
  ss_ne_si : nonempty (o_si o) = nonempty (o_si o') }.

Lemma SameShape_refl o : SameShape o o.
Proof. constructor; reflexivity. Qed.

Lemma SameShape_sym o o' : SameShape o o' -> SameShape o' o.
Proof. intros [H1 H2 H3 H4 H5 H6 H7 H8 H9 H10]. constructor; symmetry; assumption. Qed.

Lemma SameShape_trans o1 o2 o3 : SameShape o1 o2 -> SameShape o2 o3 -> SameShape o1 o3.
Proof.
  intros [A1 A2 A3 A4 A5 A6 A7 A8 A9 A10] [B1 B2 B3 B4 B5 B6 B7 B8 B9 B10].
  constructor; etransitivity; eassumption.
Qed.

Lemma nonempty_ind o o' first : SameShape o o' ->
  nonempty (ind_of o first) = nonempty (ind_of o' first).
Proof. intros HS. destruct first; [apply (ss_ne_ii _ _ HS)|apply (ss_ne_si _ _ HS)]. Qed.

(* two results that come from one common list of bodies *)
Definition Corr (o o' : options) (first : bool) (r r' : option (list oline)) : Prop :=
  (r = None /\ r' = None) \/
  (exists bs, r = Some (with_indents o first bs) /\ r' = Some (with_indents o' first bs)).

(* ================================================================== *)
(* I1: the words and the line widths handed to the algorithm            *)
(* ================================================================== *)

Theorem pipeline_words_indep o o' first line : SameShape o o' ->
  pipeline_words cw alnum lbc custom_sp o first line =
  pipeline_words cw alnum lbc custom_sp o' first line.
Proof.
  intros HS. unfold pipeline_words.
  change (if first then o_ii o else o_si o) with (ind_of o first).
  change (if first then o_ii o' else o_si o') with (ind_of o' first).
  rewrite (nonempty_ind o o' first HS).
  rewrite (ss_width _ _ HS), (ss_bw _ _ HS), (ss_sep _ _ HS), (ss_spl _ _ HS), (ss_dw_si _ _ HS).
  reflexivity.
Qed.

Theorem line_widths_indep o o' first : SameShape o o' ->
  line_widths cw o first = line_widths cw o' first.
Proof.
  intros HS. unfold line_widths.
  rewrite (ss_width _ _ HS), (ss_dw_ii _ _ HS), (ss_dw_si _ _ HS). reflexivity.
Qed.

(* ================================================================== *)
(* I2: reassemble                                                       *)
(* ================================================================== *)

(* No hypothesis on [groups] (empty groups, i.e. the degenerate [[]], included),
   on [line] or on [idx]: both sides fail together, or both succeed with lines
   built from the same bodies, one body per group. *)
Theorem reassemble_bodies o o' line : SameShape o o' ->
  forall groups first idx,
  (reassemble o line first groups idx = None /\
   reassemble o' line first groups idx = None) \/
  (exists bs, length bs = length groups /\
     reassemble o line first groups idx = Some (with_indents o first bs) /\
     reassemble o' line first groups idx = Some (with_indents o' first bs)).
Proof.
  intros HS. induction groups as [|g rest IH]; intros first idx.
  - right. exists []. split; [reflexivity|]. split; reflexivity.
  - cbn [reassemble].
    change (if first then o_ii o else o_si o) with (ind_of o first).
    change (if first then o_ii o' else o_si o') with (ind_of o' first).
    rewrite (nonempty_ind o o' first HS).
    destruct (last (map Some g) None) as [lw|].
    + destruct (sum_N (map (fun w => blen (w_word w) + blen (w_ws w)) g) <? blen (w_ws lw)).
      * left. split; reflexivity.
      * destruct (bslice line idx
                   (idx + (sum_N (map (fun w => blen (w_word w) + blen (w_ws w)) g)
                           - blen (w_ws lw)))) as [sl|].
        -- destruct (IH false
                      (idx + (sum_N (map (fun w => blen (w_word w) + blen (w_ws w)) g)
                              - blen (w_ws lw)) + blen (w_ws lw)))
             as [[E1 E2]|[bs [Hl [E1 E2]]]]; rewrite E1, E2.
           ++ left. split; reflexivity.
           ++ right.
              exists ((sl ++ w_pen lw,
                       if nonempty (ind_of o' first) || nonempty (w_pen lw)
                       then Owned else Borrowed idx) :: bs).
              split; [cbn [length]; rewrite Hl; reflexivity|].
              split; reflexivity.
        -- left. split; reflexivity.
    + destruct (IH false idx) as [[E1 E2]|[bs [Hl [E1 E2]]]]; rewrite E1, E2.
      * left. split; reflexivity.
      * right.
        exists (([], if nonempty (ind_of o' first) then Owned else BorrowedStatic) :: bs).
        split; [cbn [length]; rewrite Hl; reflexivity|].
        cbn [with_indents]. unfold prepend. cbn [fst snd].
        rewrite !app_nil_r. split; reflexivity.
Qed.

Corollary reassemble_corr o o' line first groups idx : SameShape o o' ->
  Corr o o' first (reassemble o line first groups idx) (reassemble o' line first groups idx).
Proof.
  intros HS.
  destruct (reassemble_bodies o o' line HS groups first idx) as [H|[bs [_ H]]].
  - left. exact H.
  - right. exists bs. exact H.
Qed.

(* consequences of [Corr], in the "line by line" form *)
Lemma Corr_none o o' first r r' : Corr o o' first r r' -> (r = None <-> r' = None).
Proof.
  intros [[-> ->]|[bs [-> ->]]]; split; intros H; try reflexivity; discriminate.
Qed.

Lemma Corr_lines o o' first ls ls' : Corr o o' first (Some ls) (Some ls') ->
  length ls = length ls' /\
  forall i l l', nth_error ls i = Some l -> nth_error ls' i = Some l' ->
    (exists rest, rest_of (nth_indent o first i) l = Some rest /\
                  rest_of (nth_indent o' first i) l' = Some rest) /\
    l_cow l = l_cow l'.
Proof.
  intros [[H _]|[bs [H1 H2]]]; [discriminate|].
  injection H1 as ->. injection H2 as ->. split.
  - rewrite !with_indents_length. reflexivity.
  - intros i l l' Hl Hl'. rewrite with_indents_nth_error in Hl, Hl'.
    destruct (nth_error bs i) as [b|]; [|discriminate].
    cbn [option_map] in Hl, Hl'. injection Hl as <-. injection Hl' as <-.
    split; [|reflexivity].
    exists (fst b). split; apply rest_of_prepend.
Qed.

(* I2 as stated in the task *)
Theorem reassemble_indep o o' line first groups idx ls ls' : SameShape o o' ->
  reassemble o line first groups idx = Some ls ->
  reassemble o' line first groups idx = Some ls' ->
  length ls = length groups /\ length ls = length ls' /\
  forall i l l', nth_error ls i = Some l -> nth_error ls' i = Some l' ->
    (exists rest, rest_of (nth_indent o first i) l = Some rest /\
                  rest_of (nth_indent o' first i) l' = Some rest) /\
    l_cow l = l_cow l'.
Proof.
  intros HS E E'. split.
  - destruct (reassemble_bodies o o' line HS groups first idx) as [[H _]|[bs [Hl [H _]]]].
    + congruence.
    + rewrite E in H. injection H as ->. rewrite with_indents_length. exact Hl.
  - apply Corr_lines. rewrite <- E, <- E'. apply reassemble_corr. exact HS.
Qed.

Theorem reassemble_none_iff o o' line first groups idx : SameShape o o' ->
  (reassemble o line first groups idx = None <-> reassemble o' line first groups idx = None).
Proof. intros HS. eapply Corr_none. apply reassemble_corr. exact HS. Qed.

(* the degenerate case, explicitly: the single body is empty *)
Corollary reassemble_degenerate_indep o o' line first idx : SameShape o o' ->
  exists c,
    reassemble o line first [[]] idx = Some (with_indents o first [([], c)]) /\
    reassemble o' line first [[]] idx = Some (with_indents o' first [([], c)]).
Proof.
  intros HS. exists (if nonempty (ind_of o' first) then Owned else BorrowedStatic).
  rewrite !reassemble_degenerate. unfold indent_line.
  change (if first then o_ii o else o_si o) with (ind_of o first).
  change (if first then o_ii o' else o_si o') with (ind_of o' first).
  rewrite (nonempty_ind o o' first HS).
  cbn [with_indents]. unfold prepend. cbn [fst snd]. rewrite !app_nil_r.
  split; reflexivity.
Qed.

(* ================================================================== *)
(* I3: slow_path, wrap_single_line, wrap_loop, wrap                     *)
(* ================================================================== *)

Theorem slow_path_indep o o' first line : SameShape o o' ->
  Corr o o' first (slow_path cw alnum lbc custom_sp ofit o first line)
                  (slow_path cw alnum lbc custom_sp ofit o' first line).
Proof.
  intros HS. rewrite !slow_path_unfold.
  rewrite (pipeline_words_indep o o' first line HS), (line_widths_indep o o' first HS),
    (ss_alg _ _ HS).
  destruct (pipeline_words cw alnum lbc custom_sp o' first line) as [bws|].
  - destruct (run_alg ofit (o_alg o') bws (line_widths cw o' first)) as [groups|].
    + apply reassemble_corr. exact HS.
    + left. split; reflexivity.
  - left. split; reflexivity.
Qed.

Lemma nonempty_false s : nonempty s = false -> s = [].
Proof. destruct s; [reflexivity|discriminate]. Qed.

Theorem wrap_single_line_indep o o' first line : SameShape o o' ->
  Corr o o' first (wrap_single_line cw alnum lbc custom_sp ofit o first line)
                  (wrap_single_line cw alnum lbc custom_sp ofit o' first line).
Proof.
  intros HS. unfold wrap_single_line.
  change (if first then o_ii o else o_si o) with (ind_of o first).
  change (if first then o_ii o' else o_si o') with (ind_of o' first).
  rewrite (ss_width _ _ HS).
  pose proof (nonempty_ind o o' first HS) as Hne. rewrite Hne.
  destruct (blen line <? o_width o'); cbn [andb].
  - destruct (nonempty (ind_of o' first)) eqn:E; cbn [negb].
    + apply slow_path_indep. exact HS.
    + right. exists [(trim_end_sp line, Borrowed 0)].
      cbn [with_indents]. unfold prepend. cbn [fst snd].
      rewrite (nonempty_false _ E), (nonempty_false _ Hne). split; reflexivity.
  - apply slow_path_indep. exact HS.
Qed.

Lemma wrap_loop_indep o o' : SameShape o o' -> forall paras acc base,
  Corr o o' true
    (wrap_loop cw alnum lbc custom_sp ofit o paras (with_indents o true acc) base)
    (wrap_loop cw alnum lbc custom_sp ofit o' paras (with_indents o' true acc) base).
Proof.
  intros HS. induction paras as [|p r IH]; intros acc base.
  - right. exists acc. split; reflexivity.
  - cbn [wrap_loop].
    change (match with_indents o true acc with [] => true | _ :: _ => false end)
      with (is_nil (with_indents o true acc)).
    change (match with_indents o' true acc with [] => true | _ :: _ => false end)
      with (is_nil (with_indents o' true acc)).
    rewrite !with_indents_is_nil.
    destruct (wrap_single_line_indep o o' (is_nil acc) p HS) as [[E1 E2]|[bs [E1 E2]]];
      rewrite E1, E2.
    + left. split; reflexivity.
    + rewrite !with_indents_shift.
      assert (Happ : forall o0, with_indents o0 true acc ++
                       with_indents o0 (is_nil acc) (map (shift_body base) bs) =
                     with_indents o0 true (acc ++ map (shift_body base) bs)).
      { intros o0. rewrite with_indents_app. destruct (is_nil acc); reflexivity. }
      rewrite !Happ, (ss_le _ _ HS). apply IH.
Qed.

(* the main theorem, in the "common bodies" form *)
Theorem wrap_indep o o' text : SameShape o o' ->
  Corr o o' true (wrap cw alnum lbc custom_sp ofit o text)
                 (wrap cw alnum lbc custom_sp ofit o' text).
Proof.
  intros HS. unfold wrap. rewrite (ss_le _ _ HS).
  apply (wrap_loop_indep o o' HS (split_le (o_le o') text) [] 0).
Qed.

(* I3 as stated in the task.  The bound [i < length ls] is necessary: beyond it
   [nth] returns the arbitrary default lines, which need not start with an indent.
   The Cow kinds agree as well (with the same Borrowed offsets). *)
Theorem wrap_indent_indep o o' text : SameShape o o' ->
  (wrap cw alnum lbc custom_sp ofit o text = None /\
   wrap cw alnum lbc custom_sp ofit o' text = None) \/
  (exists ls ls',
     wrap cw alnum lbc custom_sp ofit o text = Some ls /\
     wrap cw alnum lbc custom_sp ofit o' text = Some ls' /\
     length ls = length ls' /\
     forall i d d', (i < length ls)%nat ->
       exists rest,
         l_text (nth i ls d) = (if (i =? 0)%nat then o_ii o else o_si o) ++ rest /\
         l_text (nth i ls' d') = (if (i =? 0)%nat then o_ii o' else o_si o') ++ rest /\
         l_cow (nth i ls d) = l_cow (nth i ls' d')).
Proof.
  intros HS. destruct (wrap_indep o o' text HS) as [H|[bs [E1 E2]]]; [left; exact H|].
  right. exists (with_indents o true bs), (with_indents o' true bs).
  split; [exact E1|]. split; [exact E2|].
  split; [rewrite !with_indents_length; reflexivity|].
  intros i d d' Hi. rewrite with_indents_length in Hi.
  destruct (nth_error bs i) as [b|] eqn:Eb.
  - assert (N1 : nth_error (with_indents o true bs) i = Some (prepend (nth_indent o true i) b))
      by (rewrite with_indents_nth_error, Eb; reflexivity).
    assert (N2 : nth_error (with_indents o' true bs) i = Some (prepend (nth_indent o' true i) b))
      by (rewrite with_indents_nth_error, Eb; reflexivity).
    rewrite (nth_error_nth _ _ d N1), (nth_error_nth _ _ d' N2).
    exists (fst b). unfold prepend, nth_indent. cbn [l_text l_cow andb].
    split; [reflexivity|]. split; reflexivity.
  - apply nth_error_None in Eb. lia.
Qed.

(* the same through [rest_of] *)
Corollary wrap_rest_of_indep o o' text ls ls' : SameShape o o' ->
  wrap cw alnum lbc custom_sp ofit o text = Some ls ->
  wrap cw alnum lbc custom_sp ofit o' text = Some ls' ->
  length ls = length ls' /\
  forall i l l', nth_error ls i = Some l -> nth_error ls' i = Some l' ->
    (exists rest, rest_of (nth_indent o true i) l = Some rest /\
                  rest_of (nth_indent o' true i) l' = Some rest) /\
    l_cow l = l_cow l'.
Proof.
  intros HS E E'. apply Corr_lines. rewrite <- E, <- E'. apply wrap_indep. exact HS.
Qed.

Corollary wrap_none_iff o o' text : SameShape o o' ->
  (wrap cw alnum lbc custom_sp ofit o text = None <->
   wrap cw alnum lbc custom_sp ofit o' text = None).
Proof. intros HS. eapply Corr_none. apply wrap_indep. exact HS. Qed.

End Indep.

(* ================================================================== *)
(* Non-vacuity examples                                                 *)
(* ================================================================== *)

(* pipe_o1 has indents "> " / "  "; here "# " / ".." *)
Definition indep_o1' := mkOptions 10 LE_LF [35;32] [46;46] true FirstFit SepAscii SplHyphen.

Example ex_same_shape : SameShape pipe_cw pipe_o1 indep_o1'.
Proof. constructor; reflexivity. Qed.

Example ex_wrap_hash :
  wrap pipe_cw pipe_alnum pipe_lbc custom3 ofit_dp indep_o1' pipe_text =
  Some [mkLine [35;32;104;101;108;108;111] Owned;
        mkLine [46;46;119;111;110;100;101;114;102;117] Owned;
        mkLine [46;46;108;45;119;111;114;108;100] Owned;
        mkLine [46;46;102;111;111] Owned;
        mkLine [46;46;32;98;97;114;32;98;97;122] Owned].
Proof. vm_compute. reflexivity. Qed.

(* the common bodies of ex_wrap_indent (Pipeline.v) and ex_wrap_hash *)
Definition indep_bodies : list lbody :=
  [([104;101;108;108;111], Owned);
   ([119;111;110;100;101;114;102;117], Owned);
   ([108;45;119;111;114;108;100], Owned);
   ([102;111;111], Owned);
   ([32;98;97;114;32;98;97;122], Owned)].

Example ex_wrap_common_bodies :
  wrap pipe_cw pipe_alnum pipe_lbc custom3 ofit_dp pipe_o1 pipe_text =
    Some (with_indents pipe_o1 true indep_bodies) /\
  wrap pipe_cw pipe_alnum pipe_lbc custom3 ofit_dp indep_o1' pipe_text =
    Some (with_indents indep_o1' true indep_bodies).
Proof. split; vm_compute; reflexivity. Qed.

Example ex_rest_of :
  rest_of [62;32] (mkLine [62;32;104;101;108;108;111] Owned) = Some [104;101;108;108;111] /\
  rest_of [35;32] (mkLine [35;32;104;101;108;108;111] Owned) = Some [104;101;108;108;111] /\
  rest_of [35;32] (mkLine [62;32;104;101;108;108;111] Owned) = None.
Proof. vm_compute. repeat split; reflexivity. Qed.

(* The emptiness hypotheses are necessary: equal display widths alone are not
   enough.  With a zero-width character (here 8203, ZERO WIDTH SPACE, given width 0)
   as initial indent the display width is that of the empty indent, but the line
   is no longer borrowed: the fast path of wrap_single_line is not taken and
   reassemble marks the line Owned. *)
Definition indep_cw0 : char -> N := fun c => if c =? 8203 then 0 else 1.
Definition indep_o6 := mkOptions 10 LE_LF [] [] true FirstFit SepAscii SplNone.
Definition indep_o6' := mkOptions 10 LE_LF [8203] [] true FirstFit SepAscii SplNone.

Example ex_emptiness_needed :
  dw indep_cw0 (o_ii indep_o6) = dw indep_cw0 (o_ii indep_o6') /\
  wrap indep_cw0 pipe_alnum pipe_lbc custom3 ofit_dp indep_o6 [97] =
    Some [mkLine [97] (Borrowed 0)] /\
  wrap indep_cw0 pipe_alnum pipe_lbc custom3 ofit_dp indep_o6' [97] =
    Some [mkLine [8203;97] Owned].
Proof. vm_compute. repeat split; reflexivity. Qed.

Print Assumptions pipeline_words_indep.
Print Assumptions line_widths_indep.
Print Assumptions reassemble_bodies.
Print Assumptions reassemble_indep.
Print Assumptions reassemble_none_iff.
Print Assumptions reassemble_degenerate_indep.
Print Assumptions slow_path_indep.
Print Assumptions wrap_single_line_indep.
Print Assumptions wrap_loop_indep.
Print Assumptions wrap_indep.
Print Assumptions wrap_indent_indep.
Print Assumptions wrap_rest_of_indep.
Print Assumptions wrap_none_iff.
