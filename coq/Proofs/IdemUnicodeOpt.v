(* C14, optimal-fit clause, for ANY word separator: with the reference optimal-fit oracle
   [ofit_dp], empty indents and a built-in splitter, filling is idempotent on every text
   that passes the computable check [refind_opt_b] and whose first result has no line wider
   than the width.

   For the Unicode separator the words of a line depend on the oracle [lbc] (the crate
   unicode-linebreak).  Whether the second pass finds, in a first-pass line taken on its
   own, words that still go on one line is a fact about that crate; [refind_opt_b] isolates
   exactly this fact, per text, as a boolean, on the lines the reference oracle forms.

   O1  [refind_opt_b] (with [refind_opt_line_b], [refind_opt_group_b], [refind_opt_para_b],
       [refind_opt_paras_b]) and its specification [refind_opt_b_spec]
   O2  theorem [fill_idem_refind_opt] (no hypothesis on the separator, none on the oracle
       [lbc], no escape-freedom hypothesis; [fill_idem_refind_opt_nosp] is the same without
       the hypothesis [cw SP = 1], which is not used)
   O3  examples by vm_compute: a table oracle for which the check holds, and two for which
       it fails and fill is NOT idempotent although no line overflows
   O4  for the ASCII separator and escape-free text the check never fails
       ([refind_opt_b_ascii_builtin], from [refind_core_S1/S2/S3]), so the new theorem
       subsumes [fill_idempotent_optimal]. *)
From Coq Require Import Lia ZArith.
From TW Require Import Wrap Custom.
From TW Require Import EscFacts Partition Greedy Lossless SplitBreak Bellman Paragraphs Pipeline WidthBound.
From TW Require Import Idempotent IdemUnicode.

Arguments N.add : simpl never.
Arguments N.sub : simpl never.
Arguments N.mul : simpl never.
Arguments N.leb : simpl never.
Arguments N.ltb : simpl never.
Arguments N.eqb : simpl never.

Section IdemUO.
Variable cw : char -> N.
Variable alnum : char -> bool.
Variable lbc : str -> list N.
Variable custom_sp : str -> list N.

Notation pwords := (pipeline_words cw alnum lbc custom_sp).

(* ================================================================== *)
(* O1: the check                                                        *)
(* ================================================================== *)

(* the slow path of the second pass on the line [L], taken as a paragraph of its own: it
   finds fragments, the last one has no whitespace, and their cached widths add up to at
   most the width (so that the optimal-fit oracle puts them on one line) *)
Definition refind_opt_line_b (o : options) (first' : bool) (L : str) : bool :=
  match pwords o first' L with
  | None => false
  | Some fs => negb (is_nil fs) && is_nil (lastw_ws fs) && (cached fs <=? o_width o)
  end.

(* one first-pass line (group [g] of the fragments of a paragraph).  Nothing is asked of
   an empty line, nor of a line wider than the width (the theorem assumes there is none).
   Otherwise the test mirrors the branch [wrap_single_line] takes on the line: a line
   shorter (in bytes) than the width is trimmed, so it must not end in a space; any other
   line goes through the slow path. *)
Definition refind_opt_group_b (o : options) (g : list word) : bool :=
  let L := body g in
  match L with
  | [] => true
  | _ :: _ =>
      implb (dw cw L <=? o_width o)
        (if blen L <? o_width o then negb (ends_sp L)
         else refind_opt_line_b o true L && refind_opt_line_b o false L)
  end.

(* one paragraph; [first] as in [wrap_loop]; the groups are those [slow_path] computes
   ([run_alg] with the reference oracle: for [OptimalFit pen] this is
   [ofit_dp pen bws (line_widths cw o first)]) *)
Definition refind_opt_para_b (o : options) (first : bool) (p : str) : bool :=
  match pwords o first p with
  | None => false
  | Some bws =>
      match run_alg ofit_dp (o_alg o) bws (line_widths cw o first) with
      | None => false
      | Some groups => forallb (refind_opt_group_b o) groups
      end
  end.

Fixpoint refind_opt_paras_b (o : options) (first : bool) (ps : list str) : bool :=
  match ps with
  | [] => true
  | p :: r => refind_opt_para_b o first p && refind_opt_paras_b o false r
  end.

Definition refind_opt_b (o : options) (t : str) : bool :=
  refind_opt_paras_b o true (split_le (o_le o) t).

(* ---- what the check means ---- *)

Definition RefindOptLine (o : options) (first' : bool) (L : str) : Prop :=
  exists fs, pwords o first' L = Some fs /\ fs <> [] /\
             lastw_ws fs = [] /\ cached fs <= o_width o.

Definition RefindOptGroup (o : options) (g : list word) : Prop :=
  body g <> [] -> dw cw (body g) <= o_width o ->
  (blen (body g) < o_width o -> no_trailing_sp (body g)) /\
  (o_width o <= blen (body g) -> forall first', RefindOptLine o first' (body g)).

Definition RefindOptPara (o : options) (first : bool) (p : str) : Prop :=
  exists bws groups,
    pwords o first p = Some bws /\
    run_alg ofit_dp (o_alg o) bws (line_widths cw o first) = Some groups /\
    Forall (RefindOptGroup o) groups.

Fixpoint RefindOptParas (o : options) (first : bool) (ps : list str) : Prop :=
  match ps with
  | [] => True
  | p :: r => RefindOptPara o first p /\ RefindOptParas o false r
  end.

Lemma refind_opt_line_b_spec o first' L :
  refind_opt_line_b o first' L = true <-> RefindOptLine o first' L.
Proof.
  unfold refind_opt_line_b, RefindOptLine. destruct (pwords o first' L) as [fs|].
  - rewrite !andb_true_iff, is_nil_false, is_nil_true, N.leb_le. split.
    + intros [[H1 H2] H3]. exists fs. repeat split; assumption.
    + intros [fs' [E [H1 [H2 H3]]]]. injection E as <-. repeat split; assumption.
  - split; [discriminate|]. intros [fs [E _]]. discriminate.
Qed.

Lemma refind_opt_group_b_spec o g : refind_opt_group_b o g = true <-> RefindOptGroup o g.
Proof.
  unfold refind_opt_group_b, RefindOptGroup. cbv zeta.
  destruct (body g) as [|c0 b0] eqn:Eb.
  - split; [intros _ H; congruence|reflexivity].
  - set (L := c0 :: b0) in *. split.
    + intros H _ Hdw. apply N.leb_le in Hdw. rewrite Hdw in H. cbn [implb] in H.
      destruct (N.ltb_spec (blen L) (o_width o)) as [Hlt|Hge].
      * split; [|intros Hc; lia]. intros _. apply ends_sp_spec.
        apply negb_true_iff. exact H.
      * split; [intros Hc; lia|]. intros _ first'.
        apply andb_true_iff in H. destruct H as [H1 H2].
        apply refind_opt_line_b_spec. destruct first'; assumption.
    + intros H. destruct (N.leb_spec (dw cw L) (o_width o)) as [Hdw|Hdw]; [|reflexivity].
      cbn [implb]. destruct H as [H1 H2]; [discriminate|exact Hdw|].
      destruct (N.ltb_spec (blen L) (o_width o)) as [Hlt|Hge].
      * apply negb_true_iff. apply ends_sp_spec. exact (H1 Hlt).
      * apply andb_true_iff. split; apply refind_opt_line_b_spec; exact (H2 Hge _).
Qed.

Lemma refind_opt_para_b_spec o first p :
  refind_opt_para_b o first p = true <-> RefindOptPara o first p.
Proof.
  unfold refind_opt_para_b, RefindOptPara. destruct (pwords o first p) as [bws|].
  - destruct (run_alg ofit_dp (o_alg o) bws (line_widths cw o first)) as [groups|] eqn:Er.
    + rewrite forallb_forall. split.
      * intros H. exists bws, groups. split; [reflexivity|]. split; [exact Er|].
        apply Forall_forall. intros g Hg. apply refind_opt_group_b_spec. exact (H g Hg).
      * intros [bws' [groups' [E [E' H]]]]. injection E as <-.
        rewrite Er in E'. injection E' as <-.
        rewrite Forall_forall in H. intros g Hg. apply refind_opt_group_b_spec. exact (H g Hg).
    + split; [discriminate|]. intros [bws' [groups' [E [E' _]]]]. injection E as <-.
      rewrite Er in E'. discriminate.
  - split; [discriminate|]. intros [bws [groups [E _]]]. discriminate.
Qed.

Lemma refind_opt_paras_b_spec o : forall ps first,
  refind_opt_paras_b o first ps = true <-> RefindOptParas o first ps.
Proof.
  induction ps as [|p r IH]; intros first; cbn [refind_opt_paras_b RefindOptParas].
  - split; intros _; [exact I|reflexivity].
  - rewrite andb_true_iff, refind_opt_para_b_spec, IH. reflexivity.
Qed.

(* O1: [refind_opt_b] decides the property threaded through the proof below *)
Theorem refind_opt_b_spec o t :
  refind_opt_b o t = true <-> RefindOptParas o true (split_le (o_le o) t).
Proof. apply refind_opt_paras_b_spec. Qed.

(* ================================================================== *)
(* O2: idempotence from the check                                       *)
(* ================================================================== *)

Notation spath := (slow_path cw alnum lbc custom_sp ofit_dp).
Notation wsl := (wrap_single_line cw alnum lbc custom_sp ofit_dp).
Notation wloop := (wrap_loop cw alnum lbc custom_sp ofit_dp).
Notation wrp := (wrap cw alnum lbc custom_sp ofit_dp).
Notation fil := (fill cw alnum lbc custom_sp ofit_dp).
Notation LFix := (LineFix cw alnum lbc custom_sp ofit_dp).
Notation ptx := (ptexts cw alnum lbc custom_sp ofit_dp).

Section GenericUO.
Variable o : options.
Variable pen : penalties.
Hypothesis Ha : o_alg o = OptimalFit pen.
Hypothesis Hnl : 0 < p_nline pen.
Hypothesis Hs : SplitterOK custom_sp.
Hypothesis He : EmptyIndents o.
Hypothesis Hspl : o_spl o <> SplCustom.

(* the per-paragraph fact used below, for either value of the flag: every group of the
   reference oracle passes the group check *)
Definition RefindOptP (p : str) : Prop :=
  forall first bws groups g, pwords o first p = Some bws ->
    ofit_dp pen bws (line_widths cw o first) = Some groups -> In g groups ->
    RefindOptGroup o g.

Lemma line_widths_irr first first' : line_widths cw o first = line_widths cw o first'.
Proof. rewrite !(line_widths_empty cw o He). reflexivity. Qed.

Lemma RefindOptPara_P first0 p : RefindOptPara o first0 p -> RefindOptP p.
Proof.
  intros [bws0 [groups0 [E0 [E1 HF]]]] first bws groups g Hp Hgr Hin.
  rewrite (pwords_irr cw alnum lbc custom_sp o He first first0) in Hp.
  rewrite E0 in Hp. injection Hp as <-.
  rewrite Ha in E1. cbn [run_alg] in E1.
  rewrite (line_widths_irr first first0), E1 in Hgr. injection Hgr as <-.
  rewrite Forall_forall in HF. exact (HF g Hin).
Qed.

Lemma RefindOptParas_P : forall ps first0, RefindOptParas o first0 ps -> Forall RefindOptP ps.
Proof.
  induction ps as [|p r IH]; intros first0 H; [constructor|].
  cbn [RefindOptParas] in H. destruct H as [H1 H2]. constructor.
  - exact (RefindOptPara_P first0 p H1).
  - exact (IH false H2).
Qed.

(* the empty line is a fixed point, whatever the separator and the oracle *)
Lemma LineFix_nil_uo : LFix o [].
Proof.
  intros first. rewrite (wsl_unfold cw alnum lbc custom_sp ofit_dp o He).
  destruct (blen [] <? o_width o); [reflexivity|].
  rewrite slow_path_unfold, (pwords_nil_u cw alnum lbc custom_sp o He first), Ha.
  cbn [run_alg].
  destruct (ofit_dp_ok pen [] (line_widths cw o first)) as [g [Eg [_ [_ Hg]]]].
  rewrite Eg, (Hg eq_refl), reassemble_degenerate.
  unfold indent_line. rewrite (ind_empty o He first). reflexivity.
Qed.

(* [one_line_opt] of Idempotent.v, proved again here so that it does not carry the section
   hypothesis [cw SP = 1] (there it enters the proof term only through [lia]) *)
Lemma one_line_uo first L fs :
  pwords o first L = Some fs -> fs <> [] -> Forall (fun x => w_pen x = []) fs ->
  lastw_ws fs = [] -> cached fs <= o_width o ->
  spath o first L = Some [mkLine L (Borrowed 0)].
Proof.
  intros Hp Hne Hpen Hws Hfit.
  destruct (pipeline_words_spec cw alnum lbc custom_sp o first L Hs) as [bws [Hp' [Hg _]]].
  rewrite Hp in Hp'. injection Hp' as <-.
  rewrite slow_path_unfold, Hp, Ha. cbn [run_alg]. rewrite (line_widths_empty cw o He).
  destruct (nil_or_last _ fs) as [->|[init [lw Efs]]]; [congruence|]. subst fs.
  rewrite lastw_ws_snoc in Hws.
  rewrite cached_app, cached_cons, cached_nil, Hws in Hfit. change (blen []) with 0 in Hfit.
  rewrite (ofit_dp_one_line pen Hnl (o_width o) init lw).
  - change 0 with (blen []) at 1.
    rewrite (reassemble_spec o L [init ++ [lw]] [] [] first).
    + cbn [lines_of blen]. rewrite (ind_empty o He first).
      rewrite (lastw_pen_nil _ Hpen). cbn [nonempty orb app]. rewrite app_nil_r.
      rewrite body_snoc. rewrite <- Hg, gtext_snoc, Hws, app_nil_r. reflexivity.
    + constructor; [|constructor]. intros E. apply app_eq_nil in E. destruct E as [_ E]. discriminate.
    + cbn [concat app]. rewrite !app_nil_r. symmetry. exact Hg.
  - apply Forall_app in Hpen. destruct Hpen as [_ Hl]. inversion Hl; assumption.
  - clear -Hfit. lia.
Qed.

(* one first-pass line that passes the check and is not wider than the width, wrapped
   again as a paragraph of its own, is that line, borrowed from offset 0 *)
Theorem wsl_line_uo g first' : RefindOptGroup o g -> body g <> [] ->
  dw cw (body g) <= o_width o ->
  wsl o first' (body g) = Some [mkLine (body g) (Borrowed 0)].
Proof.
  intros HG Hbne Hdw. destruct (HG Hbne Hdw) as [Hnt HL].
  rewrite (wsl_unfold cw alnum lbc custom_sp ofit_dp o He).
  destruct (N.ltb_spec (blen (body g)) (o_width o)) as [Hlt|Hge].
  - rewrite trim_end_sp_no_trailing; [reflexivity|exact (Hnt Hlt)].
  - destruct (HL Hge first') as [fs [Hf1 [Hf2 [Hf3 Hf4]]]].
    apply (one_line_uo first' (body g) fs Hf1 Hf2); [|exact Hf3|exact Hf4].
    exact (pipeline_words_pen_nil cw alnum lbc custom_sp o first' _ fs Hspl Hf1).
Qed.

(* the lines of one paragraph: each is a fixed point provided it is not too wide *)
Lemma wsl_lines_uo first p ls : RefindOptP p -> wsl o first p = Some ls ->
  ls <> [] /\ forall l, In l ls ->
    (dw cw (l_text l) <= o_width o -> LFix o (l_text l)) /\
    exists a b, p = a ++ l_text l ++ b.
Proof.
  intros HRp H. rewrite (wsl_unfold cw alnum lbc custom_sp ofit_dp o He) in H.
  destruct (blen p <? o_width o) eqn:Eb.
  - injection H as <-. split; [discriminate|]. intros l [<-|[]]. cbn [l_text]. split.
    + intros _. apply (LineFix_trim cw alnum lbc custom_sp ofit_dp o He). apply N.ltb_lt. exact Eb.
    + exists [], (snd (split_ws p)). cbn [app]. apply trim_end_sp_decomp.
  - destruct (pipeline_words_spec cw alnum lbc custom_sp o first p Hs) as [bws [Hp [Hg _]]].
    destruct (ofit_dp_ok pen bws (line_widths cw o first)) as [groups [Egr [Hc [Hgall Hgnil]]]].
    rewrite slow_path_unfold, Hp, Ha in H. cbn [run_alg] in H. rewrite Egr in H.
    destruct bws as [|w0 bws'] eqn:Ebws.
    + rewrite (Hgnil eq_refl), reassemble_degenerate in H. injection H as <-.
      split; [discriminate|]. intros l [<-|[]]. unfold indent_line.
      rewrite (ind_empty o He first). cbn [nonempty l_text]. split; [intros _; apply LineFix_nil_uo|].
      exists [], p. reflexivity.
    + rewrite <- Ebws in *. assert (Hne : bws <> []) by (rewrite Ebws; discriminate).
      clear Ebws w0 bws'. specialize (Hgall Hne).
      change 0 with (blen []) in H.
      rewrite (reassemble_spec o p groups [] [] first Hgall) in H
        by (rewrite Hc, Hg, app_nil_r; reflexivity).
      injection H as <-. change (blen []) with 0.
      split.
      * destruct groups as [|g0 gr]; [cbn [concat] in Hc; congruence|]. cbn [lines_of]. discriminate.
      * intros l Hin. destruct (In_nth_error _ _ Hin) as [k Hk].
        destruct (lines_of_nth o _ _ _ _ _ Hk) as [g [Hgk Ht]].
        rewrite (nth_indent_empty o first k He) in Ht. cbn [app] in Ht.
        destruct (nth_error_split _ _ Hgk) as [G1 [G2 [EG _]]].
        assert (Esub : bws = concat G1 ++ g ++ concat G2).
        { rewrite <- Hc, EG, concat_app. reflexivity. }
        pose proof (pipeline_words_pen_nil cw alnum lbc custom_sp o first p bws Hspl Hp) as HPen.
        assert (HPg : Forall (fun x => w_pen x = []) g).
        { rewrite Esub in HPen. apply Forall_app in HPen. destruct HPen as [_ HPen].
          apply Forall_app in HPen. destruct HPen as [HPen _]. exact HPen. }
        rewrite (lastw_pen_nil g HPg), app_nil_r in Ht. rewrite Ht. split.
        -- intros Hdw.
           destruct (body g) as [|c0 b0] eqn:Ebody; [apply LineFix_nil_uo|].
           rewrite <- Ebody in *. assert (Hbne : body g <> []) by (rewrite Ebody; discriminate).
           clear Ebody c0 b0.
           intros first'.
           rewrite (wsl_line_uo g first'
                      (HRp first bws groups g Hp Egr (nth_error_In _ _ Hgk)) Hbne Hdw).
           reflexivity.
        -- exists (gtext (concat G1)), (lastw_ws g ++ gtext (concat G2)).
           rewrite <- Hg, Esub, !gtext_app, (gtext_body g), <- !app_assoc. reflexivity.
Qed.

Lemma paras_lines_uo le : forall ps tss,
  Forall2 (fun p ts => ptx o p = Some ts) ps tss -> Forall (le_free le) ps ->
  Forall RefindOptP ps ->
  Forall (fun l => (dw cw l <= o_width o -> LFix o l) /\ le_free le l) (concat tss) /\
  (ps <> [] -> concat tss <> []).
Proof.
  intros ps tss HF. induction HF as [|p ts r tss' Hp _ IH]; intros Hfree HRs.
  - split; [constructor|congruence].
  - inversion Hfree as [|p0 r0 Hpf Hrf]; subst.
    inversion HRs as [|p0 r0 HRp HRr]; subst.
    destruct (IH Hrf HRr) as [IH1 _].
    unfold ptexts in Hp. destruct (wsl o false p) as [ls|] eqn:El; [|discriminate].
    cbn [option_map] in Hp. injection Hp as <-.
    destruct (wsl_lines_uo false p ls HRp El) as [Hne Hall].
    cbn [concat]. split.
    + apply Forall_app. split; [|exact IH1]. apply Forall_forall. intros t Ht.
      apply in_map_iff in Ht. destruct Ht as [l [<- Hl]].
      destruct (Hall l Hl) as [HL [a [b Eab]]]. split; [exact HL|].
      apply (le_free_sub le a (l_text l) b). rewrite <- Eab. exact Hpf.
    + intros _ E. apply app_eq_nil in E. destruct E as [E _].
      destruct ls; [congruence|discriminate].
Qed.

Theorem fill_idem_refind_opt_sec t r :
  refind_opt_b o t = true -> fil o t = Some r ->
  (forall l, In l (split_le (o_le o) r) -> dw cw l <= o_width o) ->
  fil o r = Some r.
Proof.
  intros HB H Hw.
  assert (HRs : Forall RefindOptP (split_le (o_le o) t)).
  { apply (RefindOptParas_P _ true). apply refind_opt_b_spec. exact HB. }
  pose proof (wsl_irr cw alnum lbc custom_sp ofit_dp o He) as Hirr.
  rewrite fill_is_join in H.
  destruct (wrp o t) as [ls|] eqn:Ew; [|discriminate]. injection H as <-.
  unfold wrap in Ew.
  destruct (wloop_texts_fwd cw alnum lbc custom_sp ofit_dp o Hirr _ _ _ _ Ew) as [tss [HF Ht]].
  cbn [map app] in Ht.
  destruct (paras_lines_uo (o_le o) _ _ HF (split_le_pieces_free (o_le o) t) HRs) as [Hall Hne].
  specialize (Hne (split_le_nonnil (o_le o) t)).
  rewrite Ht in Hw |- *. set (lines := concat tss) in *.
  assert (Esplit : split_le (o_le o) (join (le_str (o_le o)) lines) = lines).
  { apply split_join_free; [exact Hne|].
    eapply Forall_impl; [|exact Hall]. intros a [_ Ha']. exact Ha'. }
  rewrite Esplit in Hw.
  rewrite fill_is_join. unfold wrap. rewrite Esplit.
  assert (HF2 : Forall2 (fun p ts => ptx o p = Some ts) lines (map (fun l => [l]) lines)).
  { clear -Hall Hw. induction Hall as [|l r' [HL _] _ IH]; [constructor|].
    cbn [map]. constructor.
    - exact (HL (Hw l (or_introl eq_refl)) false).
    - apply IH. intros l' Hl'. apply Hw. right. exact Hl'. }
  destruct (wloop_texts_bwd cw alnum lbc custom_sp ofit_dp o Hirr _ _ HF2 [] 0) as [out [Ho Hto]].
  rewrite Ho. cbn [map app] in Hto. rewrite Hto.
  assert (Ec : concat (map (fun l : str => [l]) lines) = lines).
  { clear. induction lines as [|l r' IH]; [reflexivity|]. cbn [map concat app]. rewrite IH. reflexivity. }
  rewrite Ec. reflexivity.
Qed.

End GenericUO.
End IdemUO.

(* O2, without the hypothesis [cw SP = 1] (it is not needed: the widths the proof compares
   are the cached ones, which the check reads off the second pass) *)
Theorem fill_idem_refind_opt_nosp cw alnum lbc custom_sp o pen :
  o_alg o = OptimalFit pen -> 0 < p_nline pen ->
  SplitterOK custom_sp -> EmptyIndents o -> o_spl o <> SplCustom ->
  forall t r,
    refind_opt_b cw alnum lbc custom_sp o t = true ->
    fill cw alnum lbc custom_sp ofit_dp o t = Some r ->
    (forall l, In l (split_le (o_le o) r) -> dw cw l <= o_width o) ->
    fill cw alnum lbc custom_sp ofit_dp o r = Some r.
Proof.
  intros Ha Hnl Hs He Hspl t r.
  exact (fill_idem_refind_opt_sec cw alnum lbc custom_sp o pen Ha Hnl Hs He Hspl t r).
Qed.

(* O2, as asked.  No hypothesis on [o_sep o], none on the oracle [lbc], none on the text
   (escape sequences allowed). *)
Theorem fill_idem_refind_opt cw alnum lbc custom_sp o pen :
  cw SP = 1 -> o_alg o = OptimalFit pen -> 0 < p_nline pen ->
  SplitterOK custom_sp -> EmptyIndents o -> o_spl o <> SplCustom ->
  forall t r,
    refind_opt_b cw alnum lbc custom_sp o t = true ->
    fill cw alnum lbc custom_sp ofit_dp o t = Some r ->
    (forall l, In l (split_le (o_le o) r) -> dw cw l <= o_width o) ->
    fill cw alnum lbc custom_sp ofit_dp o r = Some r.
Proof.
  intros _. apply fill_idem_refind_opt_nosp.
Qed.

Print Assumptions fill_idem_refind_opt.

(* ================================================================== *)
(* O4: the ASCII separator passes the check on escape-free text         *)
(* ================================================================== *)

Section AsciiPassesOpt.
Variable cw : char -> N.
Variable alnum : char -> bool.
Variable lbc : str -> list N.
Variable custom_sp : str -> list N.
Hypothesis cw_SP : cw SP = 1.
Variable o : options.
Hypothesis Hs : SplitterOK custom_sp.
Hypothesis Hsep : o_sep o = SepAscii.
Hypothesis Hspl : o_spl o <> SplCustom.
Hypothesis HRC : RefindCore cw alnum lbc custom_sp o.

Notation pwords := (pipeline_words cw alnum lbc custom_sp).

Lemma RefindOptPara_ascii first p : Forall (fun c => c <> ESC) p ->
  RefindOptPara cw alnum lbc custom_sp o first p.
Proof.
  intros Hesc.
  destruct (pipeline_words_spec cw alnum lbc custom_sp o first p Hs)
    as [bws [Hp [Hg [F1 [F2 F3]]]]].
  destruct (run_alg_spec ofit_dp (o_alg o) bws (line_widths cw o first) ofit_dp_ok)
    as [groups [Er [Hc _]]].
  exists bws, groups. split; [exact Hp|]. split; [exact Er|].
  apply Forall_forall. intros g Hin Hbne Hdw.
  split.
  - intros _.
    pose proof (slow_path_ascii_no_trailing_sp cw alnum lbc custom_sp o first p bws
                  groups Hs Hsep Hp Hc) as HT.
    rewrite Forall_forall in HT. exact (HT g Hin).
  - intros _ first'.
    destruct (In_nth_error _ _ Hin) as [k Hgk].
    destruct (nth_error_split _ _ Hgk) as [G1 [G2 [EG _]]].
    assert (Esub : bws = concat G1 ++ g ++ concat G2).
    { rewrite <- Hc, EG, concat_app. reflexivity. }
    pose proof (pipeline_words_pen_nil cw alnum lbc custom_sp o first p bws Hspl Hp) as HPen.
    assert (HPg : Forall (fun x => w_pen x = []) g).
    { rewrite Esub in HPen. apply Forall_app in HPen. destruct HPen as [_ HPen].
      apply Forall_app in HPen. destruct HPen as [HPen _]. exact HPen. }
    destruct (nil_or_last _ g) as [->|[init [lw Eg]]]; [exfalso; apply Hbne; reflexivity|].
    pose proof (PW_of_facts cw bws F1 F2 F3) as HPW.
    assert (HTop : TopLevelCuts bws) by (apply esc_free_top; rewrite Hg; exact Hesc).
    rewrite Esub in HPW, HTop.
    apply Forall_app in HPW. destruct HPW as [_ HPW].
    apply Forall_app in HPW. destruct HPW as [HPW _].
    apply TopLevelCuts_app in HTop. destruct HTop as [_ HTop].
    apply TopLevelCuts_app in HTop. destruct HTop as [HTop _].
    subst g.
    rewrite (dw_body cw cw_SP default_penalties eq_refl init lw HPW HTop) in Hdw.
    pose proof (total_fits1 cw cw_SP default_penalties eq_refl (o_width o) init lw HPg Hdw) as Hfit.
    destruct (HRC first p bws _ _ _ first' Hp Esub Hfit Hbne)
      as [fs [Hf1 [Hf2 [_ [Hf4 Hf5]]]]].
    exists fs. split; [exact Hf1|]. split; [exact Hf2|]. split; [exact Hf4|].
    rewrite lastw_ws_snoc, cached_app, cached_cons, cached_nil in Hf5.
    clear -Hf5 Hdw. lia.
Qed.

Theorem refind_opt_b_ascii t : Forall (fun c => c <> ESC) t ->
  refind_opt_b cw alnum lbc custom_sp o t = true.
Proof.
  intros Hesc. apply refind_opt_b_spec.
  assert (Hpe : Forall (Forall (fun c => c <> ESC)) (split_le (o_le o) t)).
  { apply Forall_forall. intros p Hp.
    apply (Forall_join_pieces _ (le_str (o_le o)) (split_le (o_le o) t)); [|exact Hp].
    rewrite join_split_le. exact Hesc. }
  revert Hpe. generalize (split_le (o_le o) t) as ps. generalize true as first.
  intros first ps. revert first.
  induction ps as [|p r IH]; intros first Hpe; cbn [RefindOptParas].
  - exact I.
  - inversion Hpe as [|p0 r0 H1 H2]; subst.
    split; [apply RefindOptPara_ascii; exact H1|apply IH; exact H2].
Qed.
End AsciiPassesOpt.

(* every configuration covered by [fill_idempotent_optimal] passes the check on every
   escape-free text (whatever the algorithm), so [fill_idem_refind_opt] subsumes it *)
Corollary refind_opt_b_ascii_builtin cw alnum lbc custom_sp o :
  cw SP = 1 -> SplitterOK custom_sp -> EmptyIndents o -> o_sep o = SepAscii ->
  o_spl o <> SplCustom ->
  forall t, Forall (fun c => c <> ESC) t -> refind_opt_b cw alnum lbc custom_sp o t = true.
Proof.
  intros Hsp Hs He Hsep Hspl t. apply refind_opt_b_ascii; try assumption.
  destruct (o_spl o) eqn:Espl.
  - destruct (o_bw o) eqn:Ebw.
    + apply refind_core_S2; assumption.
    + apply refind_core_S1; assumption.
  - apply refind_core_S3; assumption.
  - congruence.
Qed.

(* [fill_idempotent_optimal] again, as an instance of the new theorem *)
Corollary fill_idempotent_optimal_again cw alnum lbc custom_sp o pen :
  cw SP = 1 -> o_alg o = OptimalFit pen -> 0 < p_nline pen ->
  o_ii o = [] -> o_si o = [] -> o_sep o = SepAscii -> o_spl o <> SplCustom ->
  forall t r, Forall (fun c => c <> ESC) t ->
    fill cw alnum lbc custom_sp ofit_dp o t = Some r ->
    (forall l, In l (split_le (o_le o) r) -> dw cw l <= o_width o) ->
    fill cw alnum lbc custom_sp ofit_dp o r = Some r.
Proof.
  intros Hsp Ha Hnl Hii Hsi Hsep Hn t r Hesc.
  assert (He : EmptyIndents o) by (split; assumption).
  rewrite !(fill_sp_ext cw alnum lbc custom_sp (fun _ => []) ofit_dp o Hn).
  apply (fill_idem_refind_opt cw alnum lbc (fun _ => []) o pen Hsp Ha Hnl nosplit_ok He Hn).
  apply refind_opt_b_ascii_builtin; try assumption. exact nosplit_ok.
Qed.

Print Assumptions refind_opt_b_ascii_builtin.

(* ================================================================== *)
(* O3: examples (non-vacuity, and the hypotheses cannot be removed)     *)
(* ================================================================== *)

Module IdemUOExamples.
Import IdemUExamples.
(* [ucw], [uan], [tbl_lbc] (table oracle), [t1], [l1a], [l1b], [r1], [tbl1], [t2], [l2a],
   [tbl2], [t3], [tbl3], [t4], [tbl4] are those of IdemUnicode.v *)
Definition oo w bw :=
  mkOptions w LE_LF [] [] bw (OptimalFit default_penalties) SepUnicode SplNone.
Definition ofill tbl o t := fill ucw uan (tbl_lbc tbl) custom3 ofit_dp o t.
Definition ocheck tbl o t := refind_opt_b ucw uan (tbl_lbc tbl) custom3 o t.
Definition fits_all (o : options) (r : str) : bool :=
  forallb (fun l => dw ucw l <=? o_width o) (split_le (o_le o) r).

Lemma fits_all_spec o r : fits_all o r = true ->
  forall l, In l (split_le (o_le o) r) -> dw ucw l <= o_width o.
Proof.
  unfold fits_all. rewrite forallb_forall. intros H l Hl. apply N.leb_le. exact (H l Hl).
Qed.

(* "foo bar baz" at width 7, Unicode separator, default penalties: two lines,
   "foo bar" / "baz"; the oracle answers on the two lines as on the paragraph.  The first
   line is as long as the width, so the second pass takes the slow path on it. *)
Example ex_opt_unicode_check_holds :
  ocheck tbl1 (oo 7 false) t1 = true /\
  ofill tbl1 (oo 7 false) t1 = Some r1 /\
  fits_all (oo 7 false) r1 = true /\
  ofill tbl1 (oo 7 false) r1 = Some r1.
Proof. repeat split; vm_compute; reflexivity. Qed.

(* the same conclusion from the theorem: only the check and the widths are computed *)
Example ex_opt_unicode_theorem_instance :
  ofill tbl1 (oo 7 false) r1 = Some r1.
Proof.
  apply (fill_idem_refind_opt ucw uan (tbl_lbc tbl1) custom3 (oo 7 false) default_penalties)
    with (t := t1).
  - reflexivity.
  - reflexivity.
  - reflexivity.
  - exact custom3_ok.
  - split; reflexivity.
  - discriminate.
  - vm_compute. reflexivity.
  - vm_compute. reflexivity.
  - apply fits_all_spec. vm_compute. reflexivity.
Qed.

Example ex_opt_unicode_theorem_instance_r : forall r,
  ofill tbl1 (oo 7 false) t1 = Some r -> fits_all (oo 7 false) r = true ->
  ofill tbl1 (oo 7 false) r = Some r.
Proof.
  intros r H Hw.
  apply (fill_idem_refind_opt ucw uan (tbl_lbc tbl1) custom3 (oo 7 false) default_penalties)
    with (t := t1); try reflexivity.
  - exact custom3_ok.
  - split; reflexivity.
  - discriminate.
  - exact H.
  - apply fits_all_spec. exact Hw.
Qed.

(* escape sequences are allowed: ESC[1m foo ESC[0m " bar baz" at width 7 (the oracle sees
   the stripped text, the same table serves) *)
Definition t5 : str := [27;91;49;109;102;111;111;27;91;48;109;32;98;97;114;32;98;97;122].
Definition r5 : str := [27;91;49;109;102;111;111;27;91;48;109;32;98;97;114;10;98;97;122].
Example ex_opt_unicode_escapes :
  ocheck tbl1 (oo 7 false) t5 = true /\
  ofill tbl1 (oo 7 false) t5 = Some r5 /\
  fits_all (oo 7 false) r5 = true /\
  ofill tbl1 (oo 7 false) r5 = Some r5.
Proof. repeat split; vm_compute; reflexivity. Qed.

(* The check cannot be removed (1), slow-path branch: an oracle that reports an opportunity
   before a space ("ab  cd" cut at 3, 4).  At width 3 the first line is "ab " (3 bytes, 3
   columns: no overflow); the second pass takes the slow path on it and finds the one
   fragment "ab" followed by whitespace: the check fails, and the second fill drops the
   space. *)
Example ex_opt_check_fails_slow_path :
  ocheck tbl4 (oo 3 false) t4 = false /\
  ofill tbl4 (oo 3 false) t4 = Some [97;98;32;10;99;100] /\
  fits_all (oo 3 false) [97;98;32;10;99;100] = true /\
  ofill tbl4 (oo 3 false) [97;98;32;10;99;100] = Some [97;98;10;99;100] /\
  ofill tbl4 (oo 3 false) [97;98;32;10;99;100] <> Some [97;98;32;10;99;100].
Proof. repeat split; try (vm_compute; reflexivity). vm_compute. discriminate. Qed.

(* The check cannot be removed (2), fast-path branch: the same text at width 4.  The first
   line "ab " is shorter than the width and ends in a space; the second pass trims it. *)
Example ex_opt_check_fails_fast_path :
  ocheck tbl4 (oo 4 false) t4 = false /\
  ofill tbl4 (oo 4 false) t4 = Some [97;98;32;10;99;100] /\
  fits_all (oo 4 false) [97;98;32;10;99;100] = true /\
  ofill tbl4 (oo 4 false) [97;98;32;10;99;100] = Some [97;98;10;99;100] /\
  ofill tbl4 (oo 4 false) [97;98;32;10;99;100] <> Some [97;98;32;10;99;100].
Proof. repeat split; try (vm_compute; reflexivity). vm_compute. discriminate. Qed.

(* The check cannot be removed (3), with the answers the real crate gives: "a )" is one
   word for UAX 14; at width 2 break_words cuts it after the space, the first line is
   "a " (no overflow) and ends in a space. *)
Example ex_opt_check_fails_break_words :
  ocheck tbl3 (oo 2 true) t3 = false /\
  ofill tbl3 (oo 2 true) t3 = Some [97;32;10;41] /\
  fits_all (oo 2 true) [97;32;10;41] = true /\
  ofill tbl3 (oo 2 true) [97;32;10;41] = Some [97;10;41] /\
  ofill tbl3 (oo 2 true) [97;32;10;41] <> Some [97;32;10;41].
Proof. repeat split; try (vm_compute; reflexivity). vm_compute. discriminate. Qed.

(* The no-overflow premise cannot be removed: "foobar baz" at width 5.  The line "foobar"
   overflows; nothing is asked of it, so the check holds; on "foobar" alone the oracle
   reports an opportunity at 3 and the second pass breaks there. *)
Example ex_opt_overflow_premise_needed :
  ocheck tbl2 (oo 5 false) t2 = true /\
  ofill tbl2 (oo 5 false) t2 = Some (l2a ++ [10] ++ l1b) /\
  fits_all (oo 5 false) (l2a ++ [10] ++ l1b) = false /\
  ofill tbl2 (oo 5 false) (l2a ++ [10] ++ l1b) =
    Some ([102;111;111] ++ [10] ++ [98;97;114] ++ [10] ++ l1b).
Proof. repeat split; vm_compute; reflexivity. Qed.

(* the ASCII separator: the check holds by theorem, for every escape-free text *)
Example ex_opt_ascii_always : forall t, Forall (fun c => c <> ESC) t ->
  refind_opt_b ucw uan (fun _ => []) custom3
    (mkOptions 5 LE_CRLF [] [] true (OptimalFit default_penalties) SepAscii SplHyphen) t = true.
Proof.
  intros t. apply refind_opt_b_ascii_builtin; try reflexivity.
  - exact custom3_ok.
  - split; reflexivity.
  - discriminate.
Qed.
End IdemUOExamples.

Print Assumptions refind_opt_b_spec.
Print Assumptions wsl_line_uo.
Print Assumptions refind_opt_b_ascii.
Print Assumptions fill_idempotent_optimal_again.
Print Assumptions IdemUOExamples.ex_opt_unicode_theorem_instance.
Print Assumptions fill_idem_refind_opt_nosp.
Print Assumptions fill_idem_refind_opt.
