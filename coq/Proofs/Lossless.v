(* C11 — word finding is lossless and breaks exactly at the opportunities.
   A: split_ws   B: Word::from   C: losslessness of both word separators
   D: ASCII boundaries   E: Unicode boundaries   F: non-vacuity examples *)
From Coq Require Import Lia.
From TW Require Import Separators.
From TW Require Import EscFacts.

Arguments N.add : simpl never.
Arguments N.sub : simpl never.
Arguments N.mul : simpl never.
Arguments N.leb : simpl never.
Arguments N.ltb : simpl never.
Arguments N.eqb : simpl never.

(* ------------------------------------------------------------------ *)
(* generic list helpers                                                 *)

Lemma Forall2_len {A B} (R : A -> B -> Prop) l1 l2 :
  Forall2 R l1 l2 -> length l1 = length l2.
Proof. induction 1 as [|a b l1 l2 _ _ IH]; cbn [length]; [reflexivity|]. now rewrite IH. Qed.

Lemma Forall2_impl_r {A B} (P : B -> Prop) (R1 R2 : A -> B -> Prop) l1 l2 :
  Forall P l2 -> (forall a b, P b -> R1 a b -> R2 a b) ->
  Forall2 R1 l1 l2 -> Forall2 R2 l1 l2.
Proof.
  intros HP Himp H2. induction H2 as [|a b l1 l2 Hab _ IH]; [constructor|].
  inversion HP as [|b' l2' Hb Hl2]; subst. constructor; auto.
Qed.

Lemma Forall2_Forall_l {A B} (P : B -> Prop) (Q : A -> Prop) (R : A -> B -> Prop) l1 l2 :
  Forall P l2 -> (forall a b, P b -> R a b -> Q a) -> Forall2 R l1 l2 -> Forall Q l1.
Proof.
  intros HP Himp H2. induction H2 as [|a b l1 l2 Hab _ IH]; [constructor|].
  inversion HP as [|b' l2' Hb Hl2]; subst. constructor; eauto.
Qed.

Lemma FOP_filter {A} (R : A -> A -> Prop) (f : A -> bool) l :
  ForallOrdPairs R l -> ForallOrdPairs R (filter f l).
Proof.
  induction 1 as [|a l Ha _ IH]; cbn [filter]; [constructor|].
  destruct (f a); [|exact IH]. constructor; [|exact IH].
  apply Forall_forall. intros x Hx. apply filter_In in Hx. destruct Hx as [Hx _].
  rewrite Forall_forall in Ha. auto.
Qed.

Lemma Forall_filter {A} (P : A -> Prop) (f : A -> bool) l :
  Forall P l -> Forall P (filter f l).
Proof.
  intros H. apply Forall_forall. intros x Hx. apply filter_In in Hx. destruct Hx as [Hx _].
  rewrite Forall_forall in H. auto.
Qed.

Lemma blen_app a b : blen (a ++ b) = blen a + blen b.
Proof. induction a as [|c a IH]; cbn [app blen]; [lia|]. rewrite IH. lia. Qed.

(* ------------------------------------------------------------------ *)
(* A. split_ws                                                          *)

Theorem split_ws_spec : forall s w ws, split_ws s = (w, ws) ->
  s = w ++ ws /\ Forall (fun c => c = SP) ws /\ (forall u, w <> u ++ [SP]).
Proof.
  induction s as [|c r IH]; intros w ws H.
  - cbn [split_ws] in H. inversion H; subst. repeat split; [constructor|].
    intros u. apply app_cons_not_nil.
  - cbn [split_ws] in H. destruct (split_ws r) as [w' ws'] eqn:E.
    destruct (IH w' ws' eq_refl) as [Hr [Hsp Hne]].
    destruct w' as [|x w''].
    + destruct (N.eqb_spec c SP) as [Hc|Hc]; inversion H; subst w ws.
      * repeat split; [cbn [app] in *; now rewrite Hr | constructor; auto |].
        intros u. apply app_cons_not_nil.
      * repeat split; [cbn [app] in *; now rewrite Hr | exact Hsp |].
        intros u Hu. apply (app_inj_tail [] u c SP) in Hu. destruct Hu as [_ Hu]. contradiction.
    + inversion H; subst w ws. repeat split; [cbn [app]; now rewrite Hr | exact Hsp |].
      intros u Hu. destruct u as [|y u']; cbn [app] in Hu; [discriminate|].
      inversion Hu as [[Hy Hu']]. exact (Hne u' Hu').
Qed.

Lemma split_ws_spaces ws : Forall (fun c => c = SP) ws -> split_ws ws = ([], ws).
Proof.
  induction 1 as [|c ws Hc _ IH]; [reflexivity|].
  cbn [split_ws]. rewrite IH. subst c. reflexivity.
Qed.

(* the converse: the decomposition characterises split_ws *)
Theorem split_ws_unique : forall s w ws,
  s = w ++ ws -> Forall (fun c => c = SP) ws -> (forall u, w <> u ++ [SP]) ->
  split_ws s = (w, ws).
Proof.
  intros s w ws Hs Hsp. subst s. induction w as [|c w IH]; intros Hne.
  - cbn [app]. apply split_ws_spaces. exact Hsp.
  - cbn [app split_ws]. rewrite IH.
    + destruct w as [|x w']; [|reflexivity].
      destruct (N.eqb_spec c SP) as [Hc|Hc]; [|reflexivity].
      exfalso. apply (Hne []). cbn [app]. now rewrite Hc.
    + intros u Hu. apply (Hne (c :: u)). cbn [app]. now rewrite Hu.
Qed.

Section S.
Variable cw : char -> N.

(* ------------------------------------------------------------------ *)
(* B. Word::from                                                        *)

Theorem word_from_spec : forall s, let w := word_from cw s in
  w_word w ++ w_ws w = s /\ Forall (fun c => c = SP) (w_ws w) /\
  (forall u, w_word w <> u ++ [SP]) /\ w_pen w = [] /\ w_width w = dw cw (w_word w).
Proof.
  intros s. unfold word_from. destruct (split_ws s) as [w ws] eqn:E.
  destruct (split_ws_spec s w ws E) as [Hs [Hsp Hne]].
  cbn [w_word w_ws w_pen w_width]. repeat split; auto.
Qed.

(* ------------------------------------------------------------------ *)
(* C. losslessness                                                      *)

Definition WordOK (w : word) : Prop :=
  Forall (fun c => c = SP) (w_ws w) /\ (forall u, w_word w <> u ++ [SP]) /\
  w_pen w = [] /\ w_width w = dw cw (w_word w).
Definition Lossless (line : str) (ws : list word) : Prop :=
  concat (map (fun w => w_word w ++ w_ws w) ws) = line /\ Forall WordOK ws.

(* the text of a word: the word proper and its trailing whitespace *)
Definition wtext (w : word) : str := w_word w ++ w_ws w.

Lemma wtext_word_from s : wtext (word_from cw s) = s.
Proof. exact (proj1 (word_from_spec s)). Qed.

Lemma wtext_word_from_len s :
  length (w_word (word_from cw s) ++ w_ws (word_from cw s)) = length s.
Proof. change (length (wtext (word_from cw s)) = length s). now rewrite wtext_word_from. Qed.

Lemma word_from_ok s : WordOK (word_from cw s).
Proof. exact (proj2 (word_from_spec s)). Qed.

Lemma fwa_loop_concat : forall t cur b,
  concat (map wtext (fwa_loop cw t cur b)) = rev cur ++ t.
Proof.
  induction t as [|c r IH]; intros cur b; cbn [fwa_loop].
  - destruct cur as [|x cur']; [reflexivity|].
    cbn [map concat]. rewrite wtext_word_from. reflexivity.
  - destruct (b && negb (c =? SP)).
    + cbn [map concat]. rewrite wtext_word_from, IH. reflexivity.
    + rewrite IH. cbn [rev]. rewrite <- app_assoc. reflexivity.
Qed.

Lemma fwa_loop_ok : forall t cur b, Forall WordOK (fwa_loop cw t cur b).
Proof.
  induction t as [|c r IH]; intros cur b; cbn [fwa_loop].
  - destruct cur as [|x cur']; constructor; [apply word_from_ok|constructor].
  - destruct (b && negb (c =? SP)); [constructor; [apply word_from_ok|]|]; apply IH.
Qed.

Theorem ascii_lossless : forall line, Lossless line (find_words_ascii cw line).
Proof.
  intros line. split.
  - exact (fwa_loop_concat line [] false).
  - apply fwa_loop_ok.
Qed.

Lemma pieces_concat : forall cuts start t, concat (pieces cuts start t) = t.
Proof.
  induction cuts as [|p r IH]; intros start t; cbn [pieces].
  - destruct t; cbn [concat]; [reflexivity|apply app_nil_r].
  - cbn [concat]. rewrite IH. apply firstn_skipn.
Qed.

Lemma map_word_from_lossless : forall ps,
  concat (map wtext (map (word_from cw) ps)) = concat ps /\
  Forall WordOK (map (word_from cw) ps).
Proof.
  induction ps as [|p ps [IH1 IH2]]; cbn [map concat]; [split; [reflexivity|constructor]|].
  split; [rewrite wtext_word_from, IH1; reflexivity|].
  constructor; [apply word_from_ok|exact IH2].
Qed.

(* true for ANY oracle [lbc] *)
Theorem unicode_lossless : forall lbc line, Lossless line (find_words_unicode cw lbc line).
Proof.
  intros lbc line. unfold find_words_unicode. cbv zeta.
  destruct (map_word_from_lossless
              (pieces (cut_positions (filter (keep_opportunity (strip line)) (lbc (strip line)))
                                     (idx_map line)) 0 line)) as [H1 H2].
  split; [|exact H2]. change (fun w => w_word w ++ w_ws w) with wtext.
  etransitivity; [exact H1|]. apply pieces_concat.
Qed.

(* ------------------------------------------------------------------ *)
(* D. ASCII boundaries                                                  *)

(* character offsets at which the words begin, the first word beginning at [off] *)
Fixpoint begins (off : nat) (ws : list word) : list nat :=
  match ws with
  | [] => []
  | w :: r => off :: begins (off + length (w_word w ++ w_ws w)) r
  end.
(* offsets at which the words after the first begin *)
Definition starts (ws : list word) : list nat := tl (begins 0 ws).

Lemma fwa_loop_nonnil : forall t cur b, cur <> [] -> fwa_loop cw t cur b <> [].
Proof.
  induction t as [|c r IH]; intros cur b Hc; cbn [fwa_loop].
  - destruct cur; [congruence|discriminate].
  - destruct (b && negb (c =? SP)); [discriminate|]. apply IH. discriminate.
Qed.

Lemma tl_begins_cons off ws : ws <> [] -> begins off ws = off :: tl (begins off ws).
Proof. destruct ws; [congruence|reflexivity]. Qed.

(* position k of t is a boundary, [b] telling whether the character before t is a space *)
Definition isb (b : bool) (t : str) (k : nat) : Prop :=
  nth k t SP <> SP /\ match k with O => b = true | S k' => nth k' t 0 = SP end.

Lemma fwa_loop_starts : forall t cur b off p,
  (b = true -> cur <> []) ->
  In p (tl (begins off (fwa_loop cw t cur b))) <->
  exists k, p = (off + length cur + k)%nat /\ (k < length t)%nat /\ isb b t k.
Proof.
  induction t as [|c r IH]; intros cur b off p Hb; cbn [fwa_loop].
  - split.
    + destruct cur; cbn [begins tl In]; intros [].
    + intros [k [_ [Hk _]]]. cbn [length] in Hk. lia.
  - destruct (b && negb (c =? SP)) eqn:Ec.
    + apply andb_true_iff in Ec. destruct Ec as [Eb Ec]. apply negb_true_iff in Ec.
      apply N.eqb_neq in Ec.
      cbn [begins tl]. rewrite wtext_word_from_len, rev_length.
      rewrite (tl_begins_cons _ (fwa_loop cw r [c] false))
        by (apply fwa_loop_nonnil; discriminate).
      cbn [In]. rewrite (IH [c] false (off + length cur)%nat p) by discriminate.
      cbn [length]. split.
      * intros [Hp|[k [Hp [Hk [Hn Hprev]]]]].
        -- exists 0%nat. repeat split; [lia|lia|exact Ec|exact Eb].
        -- exists (S k). repeat split; [lia|lia|exact Hn|].
           destruct k as [|k']; [discriminate|exact Hprev].
      * intros [k [Hp [Hk [Hn Hprev]]]]. destruct k as [|k]; [left; lia|right].
        exists k. repeat split; [lia|lia|exact Hn|].
        destruct k as [|k']; [|exact Hprev]. cbn [nth] in Hprev. contradiction.
    + rewrite (IH (c :: cur) (c =? SP) off p) by discriminate.
      cbn [length]. split.
      * intros [k [Hp [Hk [Hn Hprev]]]]. exists (S k). repeat split; [lia|lia|exact Hn|].
        destruct k as [|k']; [|exact Hprev]. cbn [nth]. apply N.eqb_eq. exact Hprev.
      * intros [k [Hp [Hk [Hn Hprev]]]]. destruct k as [|k].
        -- exfalso. cbn [nth] in Hn. rewrite Hprev in Ec. cbn [andb] in Ec.
           apply negb_false_iff in Ec. apply N.eqb_eq in Ec. contradiction.
        -- exists k. repeat split; [lia|lia|exact Hn|].
           destruct k as [|k']; [|exact Hprev]. cbn [nth] in Hprev. apply N.eqb_eq. exact Hprev.
Qed.


Theorem ascii_boundaries : forall line p,
  In p (starts (find_words_ascii cw line)) <->
  (0 < p < length line)%nat /\ nth (p - 1) line 0 = SP /\ nth p line SP <> SP.
Proof.
  intros line p. unfold starts, find_words_ascii.
  rewrite (fwa_loop_starts line [] false 0%nat p) by discriminate.
  cbn [length]. split.
  - intros [k [Hp [Hk [Hn Hprev]]]]. assert (Hpk : p = k) by lia. subst k.
    destruct p as [|p']; [discriminate|]. split; [lia|].
    replace (S p' - 1)%nat with p' by lia. split; assumption.
  - intros [Hp [Hprev Hn]]. exists p. repeat split; [lia|exact Hn|].
    destruct p as [|p']; [lia|]. replace (S p' - 1)%nat with p' in Hprev by lia. exact Hprev.
Qed.

Lemma rev_nonnil' (l : str) : l <> [] -> rev l <> [].
Proof.
  destruct l as [|x l']; [congruence|]. intros _ H. cbn [rev] in H.
  apply app_eq_nil in H. destruct H as [_ H]. discriminate.
Qed.

Lemma word_from_nonempty s : s <> [] -> w_word (word_from cw s) ++ w_ws (word_from cw s) <> [].
Proof. intros H. change (wtext (word_from cw s) <> []). now rewrite wtext_word_from. Qed.

Lemma fwa_loop_nonempty : forall t cur b, (b = true -> cur <> []) ->
  Forall (fun w => w_word w ++ w_ws w <> []) (fwa_loop cw t cur b).
Proof.
  induction t as [|c r IH]; intros cur b Hb; cbn [fwa_loop].
  - destruct cur as [|x cur']; constructor; [|constructor].
    apply word_from_nonempty, rev_nonnil'. discriminate.
  - destruct (b && negb (c =? SP)) eqn:Ec.
    + apply andb_true_iff in Ec. destruct Ec as [Eb _]. constructor.
      * apply word_from_nonempty, rev_nonnil'. auto.
      * apply IH. discriminate.
    + apply IH. discriminate.
Qed.

(* every word found is non-empty as a whole *)
Theorem ascii_words_nonempty : forall line,
  Forall (fun w => w_word w ++ w_ws w <> []) (find_words_ascii cw line).
Proof. intros line. apply fwa_loop_nonempty. discriminate. Qed.

Lemma begins_inc : forall ws off,
  Forall (fun w => w_word w ++ w_ws w <> []) ws ->
  ForallOrdPairs lt (begins off ws) /\ Forall (le off) (begins off ws).
Proof.
  induction ws as [|w r IH]; intros off H; cbn [begins].
  - split; constructor.
  - inversion H as [|w' r' Hw Hr]; subst.
    destruct (IH (off + length (w_word w ++ w_ws w))%nat Hr) as [I1 I2].
    assert (Hlen : (0 < length (w_word w ++ w_ws w))%nat).
    { destruct (w_word w ++ w_ws w); [congruence|cbn [length]; lia]. }
    split; constructor; auto.
    + eapply Forall_impl; [|exact I2]. intros a Ha. cbv beta in Ha. lia.
    + eapply Forall_impl; [|exact I2]. intros a Ha. cbv beta in Ha. lia.
Qed.

Lemma FOP_tl {A} (R : A -> A -> Prop) l : ForallOrdPairs R l -> ForallOrdPairs R (tl l).
Proof. destruct 1; [constructor|assumption]. Qed.

(* the boundaries are strictly increasing *)
Theorem ascii_starts_increasing : forall line,
  ForallOrdPairs lt (starts (find_words_ascii cw line)).
Proof.
  intros line. unfold starts. apply FOP_tl.
  exact (proj1 (begins_inc _ 0%nat (ascii_words_nonempty line))).
Qed.

End S.

(* ------------------------------------------------------------------ *)
(* E. Unicode boundaries                                                *)

(* E.3: the filter on the opportunities *)

Lemma char_before_0 s prev : char_before s 0 prev = prev.
Proof. destruct s; reflexivity. Qed.

Lemma char_before_app : forall pre prev c post,
  char_before (pre ++ c :: post) (blen (pre ++ [c])) prev = Some c.
Proof.
  induction pre as [|d pre IH]; intros prev c post; cbn [app blen char_before].
  - pose proof (utf8_len_pos c) as Hc.
    destruct (N.eqb_spec (utf8_len c + 0) 0) as [E|E]; [lia|].
    destruct (N.leb_spec (utf8_len c) (utf8_len c + 0)) as [L|L]; [|lia].
    replace (utf8_len c + 0 - utf8_len c) with 0 by lia. apply char_before_0.
  - pose proof (utf8_len_pos d) as Hd.
    destruct (N.eqb_spec (utf8_len d + blen (pre ++ [c])) 0) as [E|E]; [lia|].
    destruct (N.leb_spec (utf8_len d) (utf8_len d + blen (pre ++ [c]))) as [L|L]; [|lia].
    replace (utf8_len d + blen (pre ++ [c]) - utf8_len d) with (blen (pre ++ [c])) by lia.
    apply IH.
Qed.

Lemma char_before_inv : forall s o prev c,
  char_before s o prev = Some c ->
  (o = 0 /\ prev = Some c) \/
  exists pre post, s = pre ++ c :: post /\ blen (pre ++ [c]) = o.
Proof.
  induction s as [|d r IH]; intros o prev c H; cbn [char_before] in H.
  - destruct (N.eqb_spec o 0) as [E|E]; [left; auto|discriminate].
  - destruct (N.eqb_spec o 0) as [E|E]; [left; auto|].
    destruct (N.leb_spec (utf8_len d) o) as [L|L]; [|discriminate].
    right. destruct (IH _ _ _ H) as [[Ho Hp]|[pre [post [Hr Hb]]]].
    + inversion Hp; subst d. exists [], r. split; [reflexivity|]. cbn [app blen]. lia.
    + exists (d :: pre), post. split; [cbn [app]; now rewrite Hr|]. cbn [app blen]. lia.
Qed.

(* an opportunity at byte o is kept iff it is not at the end of the line and the
   character ending at byte o is neither '-' nor the soft hyphen *)
Theorem keep_opportunity_spec : forall s o,
  keep_opportunity s o = true <->
  o < blen s /\
  forall pre c post, s = pre ++ [c] ++ post -> blen (pre ++ [c]) = o -> c <> HY /\ c <> SHY.
Proof.
  intros s o. unfold keep_opportunity. rewrite andb_true_iff, N.ltb_lt. split.
  - intros [Hlt Hc]. split; [exact Hlt|]. intros pre c post Hs Hb. subst s o.
    cbn [app] in Hc. rewrite char_before_app in Hc.
    apply negb_true_iff, orb_false_iff in Hc. destruct Hc as [H1 H2].
    split; apply N.eqb_neq; assumption.
  - intros [Hlt Hc]. split; [exact Hlt|].
    destruct (char_before s o None) as [c|] eqn:E; [|reflexivity].
    destruct (char_before_inv _ _ _ _ E) as [[_ Hp]|[pre [post [Hs Hb]]]]; [discriminate|].
    destruct (Hc pre c post Hs Hb) as [H1 H2].
    apply negb_true_iff, orb_false_iff. split; apply N.eqb_neq; assumption.
Qed.

(* E.1 / E.2: the cut positions.  Everything is first proved relative to an arbitrary
   machine state [s], position [pos] and stripped byte offset [sidx], by induction
   on the text still to be read. *)

(* state of the machine, and stripped byte offset, after k more characters *)
Definition fs (s : st) (t : str) (k : nat) : st := final_state s (firstn k t).
Definition ob (s : st) (t : str) (sidx : N) (k : nat) : N :=
  sidx + blen (strip_from s (firstn k t)).
Definition next_sidx (s : st) (c : char) (sidx : N) : N :=
  if snd (step s c) then sidx + utf8_len c else sidx.

Lemma fs_0 s t : fs s t 0 = s.
Proof. reflexivity. Qed.
Lemma ob_0 s t sidx : ob s t sidx 0 = sidx.
Proof. unfold ob. cbn [firstn strip_from blen]. lia. Qed.
Lemma fs_S s c t k : fs s (c :: t) (S k) = fs (fst (step s c)) t k.
Proof. reflexivity. Qed.
Lemma ob_S s c t sidx k :
  ob s (c :: t) sidx (S k) = ob (fst (step s c)) t (next_sidx s c sidx) k.
Proof.
  unfold ob, next_sidx. cbn [firstn strip_from]. destruct (step s c) as [s' v].
  cbn [fst snd]. destruct v; cbn [blen]; lia.
Qed.

Lemma step_not_normal s c : s <> Normal -> snd (step s c) = false.
Proof.
  destruct s as [| | |l]; [congruence| | |]; intros _; cbn [step].
  - destruct (c =? LBRACK); [reflexivity|]. destruct (c =? RBRACK); reflexivity.
  - destruct (is_final c); reflexivity.
  - destruct ((c =? BEL) || ((c =? BSLASH) && l)); reflexivity.
Qed.

Lemma step_visible s c : snd (step s c) = true -> s = Normal.
Proof.
  intros H. destruct s as [| | |l]; [reflexivity|exfalso..];
    rewrite step_not_normal in H by discriminate; discriminate.
Qed.

Lemma imf_normal c t pos sidx :
  idx_map_from Normal (c :: t) pos sidx =
  (pos, sidx) :: idx_map_from (fst (step Normal c)) t (S pos) (next_sidx Normal c sidx).
Proof.
  unfold next_sidx. cbn [idx_map_from]. destruct (step Normal c) as [s' v]. reflexivity.
Qed.

Lemma imf_other s c t pos sidx : s <> Normal ->
  idx_map_from s (c :: t) pos sidx =
  idx_map_from (fst (step s c)) t (S pos) (next_sidx s c sidx).
Proof.
  intros H. unfold next_sidx. rewrite (step_not_normal s c H). cbn [idx_map_from].
  destruct (step s c) as [s' v]. cbn [fst]. destruct s; [congruence|reflexivity..].
Qed.

Lemma cp_hit c t pos sidx r :
  cut_positions (sidx :: r) (idx_map_from Normal (c :: t) pos sidx) =
  pos :: cut_positions r (idx_map_from (fst (step Normal c)) t (S pos) (next_sidx Normal c sidx)).
Proof. rewrite imf_normal. cbn [cut_positions find_idx]. rewrite N.eqb_refl. reflexivity. Qed.

Lemma cp_skip s c t pos sidx o r : ~ (s = Normal /\ sidx = o) ->
  cut_positions (o :: r) (idx_map_from s (c :: t) pos sidx) =
  cut_positions (o :: r) (idx_map_from (fst (step s c)) t (S pos) (next_sidx s c sidx)).
Proof.
  intros H. destruct s as [| | |l].
  - rewrite imf_normal. cbn [cut_positions find_idx].
    destruct (N.eqb_spec sidx o) as [E|E]; [exfalso; auto|reflexivity].
  - rewrite imf_other by discriminate. reflexivity.
  - rewrite imf_other by discriminate. reflexivity.
  - rewrite imf_other by discriminate. reflexivity.
Qed.

(* byte offset o is the offset of some top-level position of t *)
Definition Reach (s : st) (t : str) (sidx : N) (o : N) : Prop :=
  exists k, (k < length t)%nat /\ fs s t k = Normal /\ ob s t sidx k = o.

(* p is the FIRST top-level position of t whose offset is o *)
Definition CutRel (s : st) (t : str) (pos : nat) (sidx : N) (p : nat) (o : N) : Prop :=
  exists k, p = (pos + k)%nat /\ (k < length t)%nat /\ fs s t k = Normal /\ ob s t sidx k = o /\
            forall k', (k' < k)%nat -> fs s t k' = Normal -> ob s t sidx k' < o.

Lemma reach_ge s t sidx o : Reach s t sidx o -> sidx <= o.
Proof. intros [k [_ [_ H]]]. unfold ob in H. lia. Qed.

Lemma reach_tail s c t sidx o :
  Reach s (c :: t) sidx o -> (s = Normal -> sidx <> o) ->
  Reach (fst (step s c)) t (next_sidx s c sidx) o.
Proof.
  intros [k [Hk [Hf Ho]]] Hne. destruct k as [|k].
  - rewrite fs_0 in Hf. rewrite ob_0 in Ho. exfalso. exact (Hne Hf Ho).
  - rewrite fs_S in Hf. rewrite ob_S in Ho. exists k. cbn [length] in Hk.
    repeat split; [lia|exact Hf|exact Ho].
Qed.

Lemma cutrel_here c t pos sidx : CutRel Normal (c :: t) pos sidx pos sidx.
Proof.
  exists 0%nat. repeat split; [lia|cbn [length]; lia|apply ob_0|]. intros k' Hk'. lia.
Qed.

Lemma cutrel_lift s c t pos sidx p o :
  (s = Normal -> sidx < o) ->
  CutRel (fst (step s c)) t (S pos) (next_sidx s c sidx) p o ->
  CutRel s (c :: t) pos sidx p o.
Proof.
  intros Hlow [k [Hp [Hk [Hf [Ho Hfirst]]]]]. exists (S k).
  repeat split; [lia|cbn [length]; lia|rewrite fs_S; exact Hf|rewrite ob_S; exact Ho|].
  intros k' Hk' Hf'. destruct k' as [|k''].
  - rewrite fs_0 in Hf'. rewrite ob_0. auto.
  - rewrite fs_S in Hf'. rewrite ob_S. apply Hfirst; [lia|exact Hf'].
Qed.

Lemma cuts_spec : forall t s pos sidx opps,
  ForallOrdPairs N.lt opps ->
  Forall (Reach s t sidx) opps ->
  Forall2 (CutRel s t pos sidx) (cut_positions opps (idx_map_from s t pos sidx)) opps /\
  ForallOrdPairs lt (cut_positions opps (idx_map_from s t pos sidx)) /\
  Forall (le pos) (cut_positions opps (idx_map_from s t pos sidx)).
Proof.
  induction t as [|c t IH]; intros s pos sidx opps Hinc Hreach.
  - destruct opps as [|o r].
    + cbn [cut_positions]. repeat split; constructor.
    + exfalso. inversion Hreach as [|o' r' [k [Hk _]] _]. cbn [length] in Hk. lia.
  - destruct opps as [|o r].
    + cbn [cut_positions]. repeat split; constructor.
    + inversion Hinc as [|o' r' Hor Hincr]; subst o' r'.
      inversion Hreach as [|o' r' Hro Hrr]; subst o' r'.
      pose proof (reach_ge _ _ _ _ Hro) as Hge.
      assert (Hcases : (s = Normal /\ sidx = o) \/ ~ (s = Normal /\ sidx = o)).
      { destruct (N.eq_dec sidx o) as [E|E]; [|right; tauto].
        destruct s; [left; auto|right; intros [? _]; discriminate..]. }
      destruct Hcases as [[Hs Ho]|Hno].
      * subst s o. rewrite cp_hit.
        assert (Hreach' : Forall (Reach (fst (step Normal c)) t (next_sidx Normal c sidx)) r).
        { rewrite Forall_forall in *. intros o' Ho'. apply reach_tail; [auto|].
          intros _. specialize (Hor o' Ho'). lia. }
        destruct (IH _ (S pos) _ r Hincr Hreach') as [H2 [Hfop Hle]].
        split; [|split].
        -- constructor; [apply cutrel_here|].
           apply (Forall2_impl_r (N.lt sidx) (CutRel (fst (step Normal c)) t (S pos)
                                                    (next_sidx Normal c sidx))); [exact Hor| |exact H2].
           intros a b Hb Hab. apply cutrel_lift; auto.
        -- constructor; [|exact Hfop]. eapply Forall_impl; [|exact Hle].
           intros a Ha. cbv beta in Ha. lia.
        -- constructor; [lia|]. eapply Forall_impl; [|exact Hle].
           intros a Ha. cbv beta in Ha. lia.
      * rewrite (cp_skip s c t pos sidx o r Hno).
        assert (Hlow : Forall (fun o' => s = Normal -> sidx < o') (o :: r)).
        { constructor.
          - intros Hs. assert (sidx <> o) by tauto. lia.
          - eapply Forall_impl; [|exact Hor]. intros a Ha _. cbv beta in Ha. lia. }
        assert (Hreach' : Forall (Reach (fst (step s c)) t (next_sidx s c sidx)) (o :: r)).
        { rewrite Forall_forall in *. intros o' Ho'. apply reach_tail; [auto|].
          intros Hs. specialize (Hlow o' Ho' Hs). lia. }
        destruct (IH _ (S pos) _ (o :: r) Hinc Hreach') as [H2 [Hfop Hle]].
        split; [|split].
        -- apply (Forall2_impl_r (fun o' => s = Normal -> sidx < o')
                                 (CutRel (fst (step s c)) t (S pos) (next_sidx s c sidx)));
             [exact Hlow| |exact H2].
           intros a b Hb Hab. apply cutrel_lift; auto.
        -- exact Hfop.
        -- eapply Forall_impl; [|exact Hle]. intros a Ha. cbv beta in Ha. lia.
Qed.

(* a proper prefix of the stripped text ends at a top-level position *)
Lemma strip_reach : forall t s u c v,
  strip_from s t = u ++ c :: v ->
  exists k, (k < length t)%nat /\ fs s t k = Normal /\ strip_from s (firstn k t) = u.
Proof.
  induction t as [|d t IH]; intros s u c v H.
  - cbn [strip_from] in H. destruct u; discriminate.
  - cbn [strip_from] in H. destruct (step s d) as [s' vis] eqn:E.
    assert (Hs' : s' = fst (step s d)) by (now rewrite E).
    destruct vis.
    + destruct u as [|x u'].
      * exists 0%nat. repeat split; [cbn [length]; lia|].
        rewrite fs_0. apply (step_visible s d). now rewrite E.
      * cbn [app] in H. inversion H as [[Hx Hrest]]. subst x.
        destruct (IH s' u' c v Hrest) as [k [Hk [Hf Hu]]]. exists (S k).
        repeat split; [cbn [length]; lia|rewrite fs_S, <- Hs'; exact Hf|].
        cbn [firstn strip_from]. rewrite E. now rewrite Hu.
    + destruct (IH s' u c v H) as [k [Hk [Hf Hu]]]. exists (S k).
      repeat split; [cbn [length]; lia|rewrite fs_S, <- Hs'; exact Hf|].
      cbn [firstn strip_from]. rewrite E. exact Hu.
Qed.

(* What unicode-linebreak guarantees about its answer [opps] for the stripped line:
   strictly increasing; each opportunity is positive and is the byte length of a
   prefix (a char boundary); the last one is the end of a non-empty line. *)
Definition OracleOK (stripped : str) (opps : list N) : Prop :=
  ForallOrdPairs N.lt opps /\
  Forall (fun o => 0 < o /\ exists u v, stripped = u ++ v /\ blen u = o) opps /\
  (stripped <> [] -> last opps 0 = blen stripped).

Lemma kept_reach line opps : OracleOK (strip line) opps ->
  Forall (Reach Normal line 0) (filter (keep_opportunity (strip line)) opps).
Proof.
  intros [_ [Hpre _]]. apply Forall_forall. intros o Ho. apply filter_In in Ho.
  destruct Ho as [Hin Hk]. apply keep_opportunity_spec in Hk. destruct Hk as [Hlt _].
  rewrite Forall_forall in Hpre. destruct (Hpre o Hin) as [_ [u [v [Hs Hb]]]].
  destruct v as [|c v'].
  - exfalso. rewrite Hs, app_nil_r in Hlt. lia.
  - unfold strip in Hs. destruct (strip_reach line Normal u c v' Hs) as [k [Hk [Hf Hu]]].
    exists k. repeat split; [exact Hk|exact Hf|]. unfold ob. rewrite Hu. lia.
Qed.

Lemma unicode_cuts_core line opps : OracleOK (strip line) opps ->
  Forall2 (CutRel Normal line 0 0)
          (cut_positions (filter (keep_opportunity (strip line)) opps) (idx_map line))
          (filter (keep_opportunity (strip line)) opps) /\
  ForallOrdPairs lt (cut_positions (filter (keep_opportunity (strip line)) opps) (idx_map line)) /\
  Forall (le 0) (cut_positions (filter (keep_opportunity (strip line)) opps) (idx_map line)).
Proof.
  intros Hok. unfold idx_map. apply cuts_spec.
  - apply FOP_filter. exact (proj1 Hok).
  - apply kept_reach. exact Hok.
Qed.

Lemma Forall_True {A} (l : list A) : Forall (fun _ => True) l.
Proof. induction l; constructor; auto. Qed.

(* E.1: every kept opportunity is found, in order, inside the line *)
Theorem unicode_cuts_found : forall line opps, OracleOK (strip line) opps ->
  let kept := filter (keep_opportunity (strip line)) opps in
  let cuts := cut_positions kept (idx_map line) in
  length cuts = length kept /\
  ForallOrdPairs lt cuts /\
  Forall (fun p => (p < length line)%nat) cuts.
Proof.
  intros line opps Hok kept cuts.
  destruct (unicode_cuts_core line opps Hok) as [H2 [Hfop _]].
  split; [exact (Forall2_len _ _ _ H2)|]. split; [exact Hfop|].
  apply (Forall2_Forall_l (fun _ : N => True) (fun p => (p < length line)%nat)
                          (CutRel Normal line 0 0) cuts kept (Forall_True kept)); [|exact H2].
  intros p o _ [k [Hp [Hk _]]]. lia.
Qed.

(* E.2: each cut position p is at top level (never inside an escape sequence), the
   stripped text before it has exactly o bytes for the matching opportunity o, and p is
   the FIRST top-level position with that property: every earlier top-level position has
   a smaller offset.  Hence an escape sequence that sits directly before the break point
   (its ESC is a top-level position with the same offset) goes to the following word. *)
Theorem unicode_cuts_top : forall line opps, OracleOK (strip line) opps ->
  let kept := filter (keep_opportunity (strip line)) opps in
  let cuts := cut_positions kept (idx_map line) in
  Forall2 (fun p o =>
             final_state Normal (firstn p line) = Normal /\
             blen (strip (firstn p line)) = o /\
             forall p', (p' < p)%nat -> final_state Normal (firstn p' line) = Normal ->
                        blen (strip (firstn p' line)) < o) cuts kept.
Proof.
  intros line opps Hok kept cuts.
  destruct (unicode_cuts_core line opps Hok) as [H2 _].
  apply (Forall2_impl_r (fun _ => True) (CutRel Normal line 0 0)); [apply Forall_True| |exact H2].
  intros p o _ [k [Hp [Hk [Hf [Ho Hfirst]]]]]. cbn [Nat.add] in Hp. subst k.
  unfold fs in Hf. unfold ob in Ho. fold (strip (firstn p line)) in Ho.
  split; [exact Hf|]. split; [lia|].
  intros p' Hp' Hf'. specialize (Hfirst p' Hp' Hf'). unfold ob in Hfirst.
  fold (strip (firstn p' line)) in Hfirst. lia.
Qed.

(* ---- consequences for the words themselves ---- *)
Section U.
Variable cw : char -> N.

Lemma pieces_begins : forall cuts start t,
  t <> [] -> Forall (fun p => (p < start + length t)%nat) cuts ->
  ForallOrdPairs lt cuts -> Forall (le start) cuts ->
  begins start (map (word_from cw) (pieces cuts start t)) = start :: cuts.
Proof.
  induction cuts as [|p r IH]; intros start t Hne Hb Hinc Hle; cbn [pieces].
  - destruct t; [congruence|reflexivity].
  - inversion Hb as [|p0 r0 Hp Hbr]; subst p0 r0.
    inversion Hinc as [|p0 r0 Hpr Hincr]; subst p0 r0.
    inversion Hle as [|p0 r0 Hsp Hler]; subst p0 r0.
    cbn [map begins]. rewrite wtext_word_from_len, firstn_length.
    replace (start + Nat.min (p - start) (length t))%nat with p by lia.
    f_equal. apply IH.
    + intros E. apply (f_equal (@length char)) in E. rewrite skipn_length in E.
      cbn [length] in E. lia.
    + rewrite skipn_length. eapply Forall_impl; [|exact Hbr].
      intros a Ha. cbv beta in Ha. lia.
    + exact Hincr.
    + eapply Forall_impl; [|exact Hpr]. intros a Ha. cbv beta in Ha. lia.
Qed.

Lemma pieces_nonempty : forall cuts start t,
  t <> [] -> Forall (fun p => (p < start + length t)%nat) cuts ->
  ForallOrdPairs lt cuts -> Forall (lt start) cuts ->
  Forall (fun x => x <> []) (pieces cuts start t).
Proof.
  induction cuts as [|p r IH]; intros start t Hne Hb Hinc Hlt; cbn [pieces].
  - destruct t; [congruence|]. constructor; [discriminate|constructor].
  - inversion Hb as [|p0 r0 Hp Hbr]; subst p0 r0.
    inversion Hinc as [|p0 r0 Hpr Hincr]; subst p0 r0.
    inversion Hlt as [|p0 r0 Hsp Hltr]; subst p0 r0.
    constructor.
    + intros E. apply (f_equal (@length char)) in E. rewrite firstn_length in E.
      cbn [length] in E. lia.
    + apply IH.
      * intros E. apply (f_equal (@length char)) in E. rewrite skipn_length in E.
        cbn [length] in E. lia.
      * rewrite skipn_length. eapply Forall_impl; [|exact Hbr].
        intros a Ha. cbv beta in Ha. lia.
      * exact Hincr.
      * exact Hpr.
Qed.

Variable lbc : str -> list N.

(* E.4 (link with D): the words after the first begin exactly at the cut positions *)
Theorem unicode_boundaries : forall line, OracleOK (strip line) (lbc (strip line)) ->
  starts (find_words_unicode cw lbc line) =
  cut_positions (filter (keep_opportunity (strip line)) (lbc (strip line))) (idx_map line).
Proof.
  intros line Hok. unfold find_words_unicode, starts. cbv zeta.
  destruct (unicode_cuts_found line _ Hok) as [_ [Hfop Hlt]]. cbv zeta in Hfop, Hlt.
  destruct (unicode_cuts_core line _ Hok) as [_ [_ Hle]].
  destruct line as [|c l].
  - destruct (cut_positions _ _) as [|p r]; [reflexivity|].
    inversion Hlt as [|p0 r0 Hp _]. cbn [length] in Hp. lia.
  - rewrite pieces_begins; [reflexivity|discriminate|exact Hlt|exact Hfop|exact Hle].
Qed.

(* every word found is non-empty as a whole (this uses "no opportunity at 0") *)
Theorem unicode_words_nonempty : forall line, OracleOK (strip line) (lbc (strip line)) ->
  Forall (fun w => w_word w ++ w_ws w <> []) (find_words_unicode cw lbc line).
Proof.
  intros line Hok. unfold find_words_unicode. cbv zeta.
  destruct (unicode_cuts_found line _ Hok) as [_ [Hfop Hlt]]. cbv zeta in Hfop, Hlt.
  destruct (unicode_cuts_core line _ Hok) as [H2 _].
  assert (Hpos : Forall (lt 0) (cut_positions (filter (keep_opportunity (strip line))
                                                      (lbc (strip line))) (idx_map line))).
  { apply (Forall2_Forall_l (fun o => 0 < o) (lt 0) (CutRel Normal line 0 0) _
                              (filter (keep_opportunity (strip line)) (lbc (strip line))));
      [| |exact H2].
    - apply Forall_filter. destruct Hok as [_ [Hpre _]].
      eapply Forall_impl; [|exact Hpre]. intros a [Ha _]. exact Ha.
    - intros p o Ho [k [Hp [_ [_ [Hob _]]]]]. destruct k as [|k]; [|lia].
      rewrite ob_0 in Hob. lia. }
  apply Forall_map. destruct line as [|c l].
  - destruct (cut_positions _ _) as [|p r]; [constructor|].
    inversion Hlt as [|p0 r0 Hp _]. cbn [length] in Hp. lia.
  - eapply Forall_impl; [|apply pieces_nonempty; [discriminate|exact Hlt|exact Hfop|exact Hpos]].
    intros a Ha. apply word_from_nonempty. exact Ha.
Qed.

End U.

(* ------------------------------------------------------------------ *)
(* F. non-vacuity                                                       *)

(* "foo  bar baz" *)
Definition ex_ascii : str := [102;111;111;32;32;98;97;114;32;98;97;122].

Example ascii_example :
  find_words_ascii (fun _ => 1) ex_ascii =
  [ mkWord [102;111;111] [32;32] [] 3; mkWord [98;97;114] [32] [] 3; mkWord [98;97;122] [] [] 3 ]
  /\ starts (find_words_ascii (fun _ => 1) ex_ascii) = [5%nat; 9%nat].
Proof. split; vm_compute; reflexivity. Qed.

(* "foo \e[1mbar\e[0m b-az": the stripped text is "foo bar b-az"; unicode-linebreak
   answers [4; 8; 10; 12].  10 (after the hyphen) and 12 (end of line) are filtered;
   the break for 4 falls BEFORE the SGR sequence \e[1m (position 4), the break for 8
   falls after the space that follows \e[0m (position 16). *)
Definition ex_uni : str :=
  [102;111;111;32; 27;91;49;109; 98;97;114; 27;91;48;109; 32; 98;45;97;122].
Definition ex_lbc : str -> list N := fun _ => [4; 8; 10; 12].

Example unicode_example :
  strip ex_uni = [102;111;111;32;98;97;114;32;98;45;97;122] /\
  filter (keep_opportunity (strip ex_uni)) (ex_lbc (strip ex_uni)) = [4; 8] /\
  cut_positions [4; 8] (idx_map ex_uni) = [4%nat; 16%nat] /\
  find_words_unicode (fun _ => 1) ex_lbc ex_uni =
  [ mkWord [102;111;111] [32] [] 3;
    mkWord [27;91;49;109; 98;97;114; 27;91;48;109] [32] [] 3;
    mkWord [98;45;97;122] [] [] 4 ].
Proof. repeat split; vm_compute; reflexivity. Qed.

(* the hypotheses of part E are satisfiable: they hold for this line and oracle *)
Example unicode_example_oracle : OracleOK (strip ex_uni) (ex_lbc (strip ex_uni)).
Proof.
  unfold ex_lbc. split; [|split].
  - repeat constructor.
  - repeat constructor.
    + exists [102;111;111;32], [98;97;114;32;98;45;97;122]. split; vm_compute; reflexivity.
    + exists [102;111;111;32;98;97;114;32], [98;45;97;122]. split; vm_compute; reflexivity.
    + exists [102;111;111;32;98;97;114;32;98;45], [97;122]. split; vm_compute; reflexivity.
    + exists [102;111;111;32;98;97;114;32;98;45;97;122], []. split; vm_compute; reflexivity.
  - intros _. vm_compute. reflexivity.
Qed.
