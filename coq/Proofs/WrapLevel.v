(* C03 / C07 at the level of [wrap] itself.

   The pinned theorems C03_wrap_level and C07_text_level speak about [run_alg] on an
   ARBITRARY word list and width list.  Here the gap is closed: the lines [wrap] returns
   for paragraph k of the text ARE (text for text) the lines reassembled from the groups
   that the algorithm forms from that paragraph's own fragments
   [pipeline_words o (k =? 0) p], measured against that paragraph's own widths
   [line_widths cw o (k =? 0)] -- only the first line of the FIRST paragraph is measured
   against the initial indent.

   W0  wrap_paragraphs_wsl   the per-paragraph decomposition of [wrap] (as C01_wrap), with
                             the lines of paragraph k pinned to [wrap_single_line o (k =? 0) p]
   W1  wsl_texts_are_groups_first_fit / _optimal_fit / wsl_texts_are_groups
                             one paragraph: texts of [wrap_single_line] = texts of
                             [group_lines] of the groups [run_alg] returns
       wsl_texts_needs_reference_oracle: for an arbitrary oracle satisfying OfitOK the
                             optimal-fit clause is FALSE (counterexample), hence (b) is
                             stated for [ofit_dp]
   W2  wrap_first_fit_groups (C07): first-fit, any oracle: groups = first_fit, Greedy,
                             unique Greedy
   W3  wrap_optimal_fit_groups (C03): optimal-fit, reference oracle: groups = slices of a
                             chain of minimum arrangement_cost
   W4  [fill]: W2 and W3 carry the conjunct  fill .. = Some (join le (map l_text ls))  for
       the same [ls] (Paragraphs.fill_is_join), so they describe the output of [fill] too
   ASCII corollaries (no TrimOK hypothesis): *_ascii
   Non-vacuity: ex_two_paragraphs_first_fit, ex_two_paragraphs_optimal_fit, ex_by_theorem.

   TrimOK is asked only of the paragraph spoken about (it is needed because the byte-length
   shortcut of wrap_single_line returns [trim_end_sp p]; Fits.unicode_needs_TrimOK);
   [cw c <= utf8_len c] is needed for the same shortcut.  Only the TEXTS of the lines are
   compared: for the empty paragraph the shortcut's Cow differs from the slow path's
   (Fits.shortcut_cow_differs_on_empty). *)
From Coq Require Import Lia ZArith.
From TW Require Import Wrap Custom.
From TW Require Import EscFacts Partition Greedy Lossless SplitBreak Bellman Paragraphs Pipeline Fits.

Arguments N.add : simpl never.
Arguments N.sub : simpl never.
Arguments N.mul : simpl never.
Arguments N.leb : simpl never.
Arguments N.ltb : simpl never.
Arguments N.eqb : simpl never.

(* ================================================================== *)
(* Definitions                                                          *)
(* ================================================================== *)

(* the lines reassembled from the groups the algorithm formed from the fragments [bws] of
   one paragraph: without fragments the single line carrying the indent, otherwise one
   line per group (Pipeline.lines_of: indent ++ body g ++ penalty of the last word) *)
Definition group_lines (o : options) (first : bool) (bws : list word)
  (groups : list (list word)) : list oline :=
  match bws with
  | [] => [indent_line o first]
  | _ :: _ => lines_of o first groups 0
  end.

(* byte offset of paragraph k in the text *)
Definition para_offset (o : options) (text : str) (k : nat) : N :=
  paras_blen (o_le o) (firstn k (split_le (o_le o) text)).

Section WrapLevel.
Variable cw : char -> N.
Variable alnum : char -> bool.
Variable lbc : str -> list N.
Variable custom_sp : str -> list N.

Notation pwords := (pipeline_words cw alnum lbc custom_sp).
Notation wsl := (wrap_single_line cw alnum lbc custom_sp).
Notation spath := (slow_path cw alnum lbc custom_sp).
Notation trimok := (TrimOK cw alnum lbc custom_sp).

(* the widths a paragraph is measured against: the initial indent counts for the first
   line of the first paragraph only *)
Lemma line_widths_para o (k : nat) :
  line_widths cw o (k =? 0)%nat =
  match k with
  | O => [o_width o - dw cw (o_ii o); o_width o - dw cw (o_si o)]
  | S _ => [o_width o - dw cw (o_si o); o_width o - dw cw (o_si o)]
  end.
Proof. destruct k; reflexivity. Qed.

Lemma line_widths_length o first : length (map Z.of_N (line_widths cw o first)) = 2%nat.
Proof. reflexivity. Qed.

(* ================================================================== *)
(* The slow path: the lines are those of the groups [run_alg] returns   *)
(* ================================================================== *)

Lemma slow_path_of_groups ofit o first p : OfitOK ofit -> SplitterOK custom_sp ->
  exists bws groups,
    pwords o first p = Some bws /\ gtext bws = p /\
    run_alg ofit (o_alg o) bws (line_widths cw o first) = Some groups /\
    concat groups = bws /\
    spath ofit o first p = Some (group_lines o first bws groups).
Proof.
  intros HO HS.
  destruct (pipeline_words_spec cw alnum lbc custom_sp o first p HS) as [bws [E1 [E2 _]]].
  destruct (run_alg_spec ofit (o_alg o) bws (line_widths cw o first) HO)
    as [groups [G1 [G2 [G3 G4]]]].
  exists bws, groups. split; [exact E1|]. split; [exact E2|]. split; [exact G1|].
  split; [exact G2|].
  rewrite slow_path_unfold, E1, G1.
  destruct bws as [|w0 bws'] eqn:Eb.
  - rewrite (G4 eq_refl). apply reassemble_degenerate.
  - cbn [group_lines]. rewrite <- Eb in *.
    assert (Hne : bws <> []) by (rewrite Eb; discriminate).
    change 0 with (blen []).
    apply (reassemble_spec o p groups [] [] first (G3 Hne)).
    rewrite G2, E2, app_nil_r. reflexivity.
Qed.

(* ================================================================== *)
(* W1: one paragraph                                                    *)
(* ================================================================== *)

(* from "the shortcut does not change the texts" *)
Lemma wsl_texts_gen ofit o first p : OfitOK ofit -> SplitterOK custom_sp ->
  texts (wsl ofit o first p) = texts (spath ofit o first p) ->
  exists bws groups,
    pwords o first p = Some bws /\ gtext bws = p /\
    run_alg ofit (o_alg o) bws (line_widths cw o first) = Some groups /\
    concat groups = bws /\
    option_map (map l_text) (wsl ofit o first p) =
      Some (map l_text (group_lines o first bws groups)).
Proof.
  intros HO HS Ht.
  destruct (slow_path_of_groups ofit o first p HO HS) as [bws [groups [E1 [E2 [E3 [E4 E5]]]]]].
  exists bws, groups. split; [exact E1|]. split; [exact E2|]. split; [exact E3|].
  split; [exact E4|].
  change (texts (wsl ofit o first p) = Some (map l_text (group_lines o first bws groups))).
  rewrite Ht, E5. reflexivity.
Qed.

Hypothesis cw_le : forall c, cw c <= utf8_len c.

(* (a) first-fit, any oracle *)
Theorem wsl_texts_are_groups_first_fit ofit o first p :
  OfitOK ofit -> SplitterOK custom_sp -> o_alg o = FirstFit -> trimok o first p ->
  exists bws groups,
    pwords o first p = Some bws /\ gtext bws = p /\
    run_alg ofit (o_alg o) bws (line_widths cw o first) = Some groups /\
    concat groups = bws /\
    option_map (map l_text) (wsl ofit o first p) =
      Some (map l_text (group_lines o first bws groups)).
Proof.
  intros HO HS Ha HT. apply wsl_texts_gen; [exact HO|exact HS|].
  exact (shortcut_texts_first_fit cw alnum lbc custom_sp cw_le ofit o first p HS Ha HT).
Qed.

(* (b) optimal-fit, the reference oracle, arbitrary penalties *)
Theorem wsl_texts_are_groups_optimal_fit P o first p :
  SplitterOK custom_sp -> o_alg o = OptimalFit P -> trimok o first p ->
  exists bws groups,
    pwords o first p = Some bws /\ gtext bws = p /\
    run_alg ofit_dp (o_alg o) bws (line_widths cw o first) = Some groups /\
    concat groups = bws /\
    option_map (map l_text) (wsl ofit_dp o first p) =
      Some (map l_text (group_lines o first bws groups)).
Proof.
  intros HS Ha HT. apply wsl_texts_gen; [exact ofit_dp_ok|exact HS|].
  exact (shortcut_texts_optimal_fit cw alnum lbc custom_sp cw_le P o first p HS Ha HT).
Qed.

(* W1 as one statement: any algorithm; the oracle is arbitrary when it is not consulted
   (first-fit) and the reference one otherwise.  For an arbitrary oracle and optimal-fit
   the statement is false: [wsl_texts_needs_reference_oracle] below. *)
Theorem wsl_texts_are_groups ofit o first p :
  OfitOK ofit -> SplitterOK custom_sp -> (o_alg o = FirstFit \/ ofit = ofit_dp) ->
  trimok o first p ->
  exists bws groups,
    pwords o first p = Some bws /\ gtext bws = p /\
    run_alg ofit (o_alg o) bws (line_widths cw o first) = Some groups /\
    concat groups = bws /\
    option_map (map l_text) (wsl ofit o first p) =
      Some (map l_text (group_lines o first bws groups)).
Proof.
  intros HO HS Hc HT. destruct (o_alg o) as [|P] eqn:Ea.
  - rewrite <- Ea. apply wsl_texts_are_groups_first_fit; assumption.
  - destruct Hc as [Hc| ->]; [discriminate|]. rewrite <- Ea.
    apply (wsl_texts_are_groups_optimal_fit P); assumption.
Qed.

(* ================================================================== *)
(* W0: the paragraph loop, with the lines pinned to wrap_single_line    *)
(* ================================================================== *)

Lemma wrap_loop_paras ofit o : OfitOK ofit -> SplitterOK custom_sp -> forall paras acc base,
  exists pls,
    wrap_loop cw alnum lbc custom_sp ofit o paras acc base = Some (acc ++ concat pls) /\
    length pls = length paras /\
    forall k p, nth_error paras k = Some p ->
    exists pl,
      wsl ofit o (match acc with [] => true | _ => false end && (k =? 0)%nat) p = Some pl /\
      ParaSpec o (match acc with [] => true | _ => false end && (k =? 0)%nat) p pl /\
      nth_error pls k =
        Some (map (shift_cow (base + paras_blen (o_le o) (firstn k paras))) pl).
Proof.
  intros HO HS. induction paras as [|p0 r IH]; intros acc base.
  - exists []. split; [cbn [wrap_loop concat]; rewrite app_nil_r; reflexivity|].
    split; [reflexivity|]. intros k p H. destruct k; discriminate.
  - cbn [wrap_loop].
    destruct (wrap_single_line_para cw alnum lbc custom_sp ofit o
                (match acc with [] => true | _ => false end) p0 HO HS) as [pl0 [E0 P0]].
    rewrite E0.
    destruct (IH (acc ++ map (shift_cow base) pl0) (base + blen p0 + blen (le_str (o_le o))))
      as [pls [E1 [E2 E3]]].
    assert (Hf : match acc ++ map (shift_cow base) pl0 with [] => true | _ => false end = false).
    { pose proof (ParaSpec_nonempty o _ p0 pl0 P0) as Hne.
      destruct pl0 as [|l0 pl']; [congruence|]. destruct acc; reflexivity. }
    exists (map (shift_cow base) pl0 :: pls). split; [|split].
    + rewrite E1. cbn [concat]. rewrite <- app_assoc. reflexivity.
    + cbn [length]. rewrite E2. reflexivity.
    + intros k p H. destruct k as [|j].
      * cbn [nth_error] in H. injection H as <-. exists pl0.
        change (0 =? 0)%nat with true. rewrite andb_true_r.
        split; [exact E0|]. split; [exact P0|].
        cbn [nth_error firstn paras_blen fold_right]. rewrite N.add_0_r. reflexivity.
      * cbn [nth_error] in H. destruct (E3 j p H) as [pl [A [B C]]].
        rewrite Hf in A, B. cbn [andb] in A, B.
        exists pl. change (S j =? 0)%nat with false. rewrite andb_false_r.
        split; [exact A|]. split; [exact B|].
        cbn [nth_error]. rewrite C. do 3 f_equal.
        cbn [firstn]. unfold paras_blen. cbn [fold_right]. lia.
Qed.

(* C01_wrap with one more conjunct: the lines of paragraph k are those of
   [wrap_single_line o (k =? 0) p], shifted by the byte offset of the paragraph.  [pls] is
   thereby determined by the text. *)
Theorem wrap_paragraphs_wsl ofit o text : OfitOK ofit -> SplitterOK custom_sp ->
  exists ls pls,
    wrap cw alnum lbc custom_sp ofit o text = Some ls /\
    text = join (le_str (o_le o)) (split_le (o_le o) text) /\
    ls = concat pls /\ length pls = length (split_le (o_le o) text) /\
    forall k p, nth_error (split_le (o_le o) text) k = Some p ->
    exists pre post pl,
      text = pre ++ p ++ post /\ blen pre = para_offset o text k /\
      wsl ofit o (k =? 0)%nat p = Some pl /\
      ParaSpec o (k =? 0)%nat p pl /\
      nth_error pls k = Some (map (shift_cow (para_offset o text k)) pl).
Proof.
  intros HO HS. unfold wrap, para_offset.
  destruct (wrap_loop_paras ofit o HO HS (split_le (o_le o) text) [] 0) as [pls [E1 [E2 E3]]].
  exists (concat pls), pls. split; [exact E1|]. split; [symmetry; apply join_split_le|].
  split; [reflexivity|]. split; [exact E2|].
  intros k p H. destruct (E3 k p H) as [pl [A [B C]]]. cbn [andb] in A, B.
  destruct (join_offset (o_le o) _ k p H) as [pre [post [J Bl]]].
  rewrite join_split_le in J.
  exists pre, post, pl. split; [exact J|]. split; [exact Bl|]. split; [exact A|].
  split; [exact B|]. rewrite C, N.add_0_l. reflexivity.
Qed.

(* the texts of the lines of paragraph k *)
Lemma para_texts ofit o (first : bool) p off pl (T : list str) :
  wsl ofit o first p = Some pl ->
  option_map (map l_text) (wsl ofit o first p) = Some T ->
  map l_text (map (shift_cow off) pl) = T.
Proof.
  intros E H. rewrite E in H. cbn [option_map] in H. injection H as <-.
  apply map_shift_cow_text.
Qed.

(* [fill] is the join of the texts of the lines of [wrap] (Paragraphs.fill_is_join) *)
Lemma fill_of_wrap ofit o text ls :
  wrap cw alnum lbc custom_sp ofit o text = Some ls ->
  fill cw alnum lbc custom_sp ofit o text = Some (join (le_str (o_le o)) (map l_text ls)).
Proof. intros E. rewrite fill_is_join, E. reflexivity. Qed.

(* ================================================================== *)
(* W2: C07 at the wrap level -- first-fit, any oracle                   *)
(* ================================================================== *)

Theorem wrap_first_fit_groups ofit o text :
  OfitOK ofit -> SplitterOK custom_sp -> o_alg o = FirstFit ->
  exists ls pls,
    wrap cw alnum lbc custom_sp ofit o text = Some ls /\
    fill cw alnum lbc custom_sp ofit o text = Some (join (le_str (o_le o)) (map l_text ls)) /\
    ls = concat pls /\ length pls = length (split_le (o_le o) text) /\
    forall k p, nth_error (split_le (o_le o) text) k = Some p ->
    trimok o (k =? 0)%nat p ->
    exists bws pl,
      (* the lines wrap returns for paragraph k *)
      nth_error pls k = Some pl /\
      option_map (map (shift_cow (para_offset o text k))) (wsl ofit o (k =? 0)%nat p) = Some pl /\
      (* the paragraph's own fragments *)
      pwords o (k =? 0)%nat p = Some bws /\ gtext bws = p /\
      (* the texts are those of the first-fit groups for the paragraph's own widths *)
      map l_text pl =
        map l_text (group_lines o (k =? 0)%nat bws
                      (first_fit word_frag bws (map Z.of_N (line_widths cw o (k =? 0)%nat)))) /\
      concat (first_fit word_frag bws (map Z.of_N (line_widths cw o (k =? 0)%nat))) = bws /\
      (* and that grouping is greedy for those widths, and the only greedy one *)
      Greedy word word_frag (map Z.of_N (line_widths cw o (k =? 0)%nat))
        (first_fit word_frag bws (map Z.of_N (line_widths cw o (k =? 0)%nat))) /\
      (forall lines, bws <> [] -> concat lines = bws -> Forall (fun l => l <> []) lines ->
         Greedy word word_frag (map Z.of_N (line_widths cw o (k =? 0)%nat)) lines ->
         lines = first_fit word_frag bws (map Z.of_N (line_widths cw o (k =? 0)%nat))).
Proof.
  intros HO HS Ha.
  destruct (wrap_paragraphs_wsl ofit o text HO HS) as [ls [pls [E1 [_ [E3 [E4 E5]]]]]].
  exists ls, pls. split; [exact E1|]. split; [exact (fill_of_wrap ofit o text ls E1)|].
  split; [exact E3|]. split; [exact E4|].
  intros k p Hk HT.
  destruct (E5 k p Hk) as [pre [post [pl [_ [_ [A [_ C]]]]]]].
  destruct (wsl_texts_are_groups_first_fit ofit o (k =? 0)%nat p HO HS Ha HT)
    as [bws [groups [G1 [G2 [G3 [G4 G5]]]]]].
  rewrite Ha in G3. cbn [run_alg] in G3. injection G3 as <-.
  exists bws, (map (shift_cow (para_offset o text k)) pl).
  split; [exact C|]. split; [rewrite A; reflexivity|]. split; [exact G1|]. split; [exact G2|].
  split; [exact (para_texts ofit o _ p _ pl _ A G5)|]. split; [exact G4|].
  split; [apply first_fit_greedy|].
  intros lines Hne Hc Hf Hg. exact (greedy_unique word word_frag bws _ lines Hne Hc Hf Hg).
Qed.

(* ================================================================== *)
(* W3: C03 at the wrap level -- optimal-fit, reference oracle           *)
(* ================================================================== *)

Theorem wrap_optimal_fit_groups P o text :
  SplitterOK custom_sp -> o_alg o = OptimalFit P ->
  exists ls pls,
    wrap cw alnum lbc custom_sp ofit_dp o text = Some ls /\
    fill cw alnum lbc custom_sp ofit_dp o text = Some (join (le_str (o_le o)) (map l_text ls)) /\
    ls = concat pls /\ length pls = length (split_le (o_le o) text) /\
    forall k p, nth_error (split_le (o_le o) text) k = Some p ->
    trimok o (k =? 0)%nat p ->
    exists bws groups pl,
      (* the lines wrap returns for paragraph k *)
      nth_error pls k = Some pl /\
      option_map (map (shift_cow (para_offset o text k))) (wsl ofit_dp o (k =? 0)%nat p) = Some pl /\
      (* the paragraph's own fragments and the groups the algorithm forms from them *)
      pwords o (k =? 0)%nat p = Some bws /\ gtext bws = p /\
      run_alg ofit_dp (OptimalFit P) bws (line_widths cw o (k =? 0)%nat) = Some groups /\
      concat groups = bws /\
      map l_text pl = map l_text (group_lines o (k =? 0)%nat bws groups) /\
      (* the groups are the slices of a chain of minimum cost for the paragraph's widths *)
      (bws <> [] ->
       exists rs, groups = map (fun '(a, b) => slice bws a b) rs /\
         chain (length bws) 0 rs /\
         forall rs', chain (length bws) 0 rs' ->
           (arrangement_cost NumZ P (map word_frag bws)
              (map Z.of_N (line_widths cw o (k =? 0)%nat)) rs
            <= arrangement_cost NumZ P (map word_frag bws)
              (map Z.of_N (line_widths cw o (k =? 0)%nat)) rs')%Z).
Proof.
  intros HS Ha.
  destruct (wrap_paragraphs_wsl ofit_dp o text ofit_dp_ok HS) as [ls [pls [E1 [_ [E3 [E4 E5]]]]]].
  exists ls, pls. split; [exact E1|]. split; [exact (fill_of_wrap ofit_dp o text ls E1)|].
  split; [exact E3|]. split; [exact E4|].
  intros k p Hk HT.
  destruct (E5 k p Hk) as [pre [post [pl [_ [_ [A [_ C]]]]]]].
  destruct (wsl_texts_are_groups_optimal_fit P o (k =? 0)%nat p HS Ha HT)
    as [bws [groups [G1 [G2 [G3 [G4 G5]]]]]].
  rewrite Ha in G3.
  exists bws, groups, (map (shift_cow (para_offset o text k)) pl).
  split; [exact C|]. split; [rewrite A; reflexivity|]. split; [exact G1|]. split; [exact G2|].
  split; [exact G3|]. split; [exact G4|].
  split; [exact (para_texts ofit_dp o _ p _ pl _ A G5)|].
  intros Hne. cbn [run_alg] in G3. unfold ofit_dp in G3.
  destruct (optimal_fit_minimal word word_frag P bws
              (map Z.of_N (line_widths cw o (k =? 0)%nat))
              ltac:(rewrite line_widths_length; lia) Hne) as [rs [H1 [H2 [_ H4]]]].
  rewrite H1 in G3. injection G3 as <-.
  exists rs. split; [reflexivity|]. split; [exact H2|exact H4].
Qed.

(* ================================================================== *)
(* The ASCII separator: TrimOK is a theorem (Fits.TrimOK_ascii)         *)
(* ================================================================== *)

Corollary wsl_texts_are_groups_ascii ofit o first p :
  OfitOK ofit -> SplitterOK custom_sp -> (o_alg o = FirstFit \/ ofit = ofit_dp) ->
  o_sep o = SepAscii ->
  exists bws groups,
    pwords o first p = Some bws /\ gtext bws = p /\
    run_alg ofit (o_alg o) bws (line_widths cw o first) = Some groups /\
    concat groups = bws /\
    option_map (map l_text) (wsl ofit o first p) =
      Some (map l_text (group_lines o first bws groups)).
Proof.
  intros HO HS Hc Hsep. apply wsl_texts_are_groups; [exact HO|exact HS|exact Hc|].
  apply TrimOK_ascii; assumption.
Qed.

Corollary wrap_first_fit_groups_ascii ofit o text :
  OfitOK ofit -> SplitterOK custom_sp -> o_alg o = FirstFit -> o_sep o = SepAscii ->
  exists ls pls,
    wrap cw alnum lbc custom_sp ofit o text = Some ls /\
    fill cw alnum lbc custom_sp ofit o text = Some (join (le_str (o_le o)) (map l_text ls)) /\
    ls = concat pls /\ length pls = length (split_le (o_le o) text) /\
    forall k p, nth_error (split_le (o_le o) text) k = Some p ->
    exists bws pl,
      nth_error pls k = Some pl /\
      option_map (map (shift_cow (para_offset o text k))) (wsl ofit o (k =? 0)%nat p) = Some pl /\
      pwords o (k =? 0)%nat p = Some bws /\ gtext bws = p /\
      map l_text pl =
        map l_text (group_lines o (k =? 0)%nat bws
                      (first_fit word_frag bws (map Z.of_N (line_widths cw o (k =? 0)%nat)))) /\
      concat (first_fit word_frag bws (map Z.of_N (line_widths cw o (k =? 0)%nat))) = bws /\
      Greedy word word_frag (map Z.of_N (line_widths cw o (k =? 0)%nat))
        (first_fit word_frag bws (map Z.of_N (line_widths cw o (k =? 0)%nat))) /\
      (forall lines, bws <> [] -> concat lines = bws -> Forall (fun l => l <> []) lines ->
         Greedy word word_frag (map Z.of_N (line_widths cw o (k =? 0)%nat)) lines ->
         lines = first_fit word_frag bws (map Z.of_N (line_widths cw o (k =? 0)%nat))).
Proof.
  intros HO HS Ha Hsep.
  destruct (wrap_first_fit_groups ofit o text HO HS Ha) as [ls [pls [E1 [E2 [E3 [E4 E5]]]]]].
  exists ls, pls. split; [exact E1|]. split; [exact E2|]. split; [exact E3|]. split; [exact E4|].
  intros k p Hk. apply (E5 k p Hk). apply TrimOK_ascii; assumption.
Qed.

Corollary wrap_optimal_fit_groups_ascii P o text :
  SplitterOK custom_sp -> o_alg o = OptimalFit P -> o_sep o = SepAscii ->
  exists ls pls,
    wrap cw alnum lbc custom_sp ofit_dp o text = Some ls /\
    fill cw alnum lbc custom_sp ofit_dp o text = Some (join (le_str (o_le o)) (map l_text ls)) /\
    ls = concat pls /\ length pls = length (split_le (o_le o) text) /\
    forall k p, nth_error (split_le (o_le o) text) k = Some p ->
    exists bws groups pl,
      nth_error pls k = Some pl /\
      option_map (map (shift_cow (para_offset o text k))) (wsl ofit_dp o (k =? 0)%nat p) = Some pl /\
      pwords o (k =? 0)%nat p = Some bws /\ gtext bws = p /\
      run_alg ofit_dp (OptimalFit P) bws (line_widths cw o (k =? 0)%nat) = Some groups /\
      concat groups = bws /\
      map l_text pl = map l_text (group_lines o (k =? 0)%nat bws groups) /\
      (bws <> [] ->
       exists rs, groups = map (fun '(a, b) => slice bws a b) rs /\
         chain (length bws) 0 rs /\
         forall rs', chain (length bws) 0 rs' ->
           (arrangement_cost NumZ P (map word_frag bws)
              (map Z.of_N (line_widths cw o (k =? 0)%nat)) rs
            <= arrangement_cost NumZ P (map word_frag bws)
              (map Z.of_N (line_widths cw o (k =? 0)%nat)) rs')%Z).
Proof.
  intros HS Ha Hsep.
  destruct (wrap_optimal_fit_groups P o text HS Ha) as [ls [pls [E1 [E2 [E3 [E4 E5]]]]]].
  exists ls, pls. split; [exact E1|]. split; [exact E2|]. split; [exact E3|]. split; [exact E4|].
  intros k p Hk. apply (E5 k p Hk). apply TrimOK_ascii; assumption.
Qed.

End WrapLevel.

(* ================================================================== *)
(* W1 (b) needs the reference oracle                                    *)
(* ================================================================== *)

(* an oracle that returns an ordered partition into non-empty groups (OfitOK) but is not
   optimal: one fragment per line *)
Definition ofit_each (P : penalties) (ws : list word) (lws : list N) : option (list (list word)) :=
  match ws with
  | [] => Some [[]]
  | _ :: _ => Some (map (fun w => [w]) ws)
  end.

Lemma ofit_each_ok : OfitOK ofit_each.
Proof.
  intros P ws lws. unfold ofit_each. destruct ws as [|w0 ws'] eqn:Ews.
  - exists [[]]. split; [reflexivity|]. split; [reflexivity|]. split; [congruence|reflexivity].
  - rewrite <- Ews. exists (map (fun w => [w]) ws). split; [reflexivity|]. split; [|split].
    + clear Ews. induction ws as [|x r IH]; [reflexivity|]. cbn [map concat app]. rewrite IH. reflexivity.
    + intros _. clear Ews. induction ws as [|x r IH]; [constructor|].
      cbn [map]. constructor; [discriminate|exact IH].
    + intros E. rewrite E in Ews. discriminate.
Qed.

Lemma pipe_cw_le : forall c, pipe_cw c <= utf8_len c.
Proof. intros c. unfold pipe_cw. apply utf8_len_pos. Qed.

(* "a b", width 10, no indent, optimal-fit: the shortcut returns the line "a b"; with
   [ofit_each] the slow path forms the groups [a ] and [b], i.e. two lines.  So the texts of
   [wrap_single_line] are NOT those of the groups the oracle forms: clause (b) of W1 cannot
   be stated for every oracle satisfying OfitOK. *)
Definition each_o := mkOptions 10 LE_LF [] [] true (OptimalFit default_penalties) SepAscii SplNone.
Definition each_p : str := [97; 32; 98].

Theorem wsl_texts_needs_reference_oracle :
  ~ (forall (cw : char -> N) alnum lbc custom_sp ofit o first p,
       (forall c, cw c <= utf8_len c) -> OfitOK ofit -> SplitterOK custom_sp ->
       TrimOK cw alnum lbc custom_sp o first p ->
       exists bws groups,
         pipeline_words cw alnum lbc custom_sp o first p = Some bws /\
         run_alg ofit (o_alg o) bws (line_widths cw o first) = Some groups /\
         option_map (map l_text) (wrap_single_line cw alnum lbc custom_sp ofit o first p) =
           Some (map l_text (group_lines o first bws groups))).
Proof.
  intros H.
  destruct (H pipe_cw pipe_alnum pipe_lbc custom3 ofit_each each_o true each_p
              pipe_cw_le ofit_each_ok custom3_splitter_ok
              (TrimOK_ascii pipe_cw pipe_alnum pipe_lbc custom3 each_o true each_p
                 custom3_splitter_ok eq_refl))
    as [bws [groups [E1 [E2 E3]]]].
  vm_compute in E1. injection E1 as <-.
  vm_compute in E2. injection E2 as <-.
  vm_compute in E3. discriminate.
Qed.

(* ================================================================== *)
(* Non-vacuity                                                          *)
(* ================================================================== *)

(* width 10, initial indent "> " (2 columns), subsequent indent "    " (4 columns); the same
   paragraph "aaa bbbb cc dd" twice.  As paragraph 0 it is measured against [8; 6], as
   paragraph 1 against [6; 6]: "aaa bbbb" (8 columns) is one line in the first paragraph and
   two lines in the second. *)
Definition wl_o1 := mkOptions 10 LE_LF [62;32] [32;32;32;32] true FirstFit SepAscii SplNone.
Definition wl_o2 :=
  mkOptions 10 LE_LF [62;32] [32;32;32;32] true (OptimalFit default_penalties) SepAscii SplNone.
Definition wl_p : str := [97;97;97;32;98;98;98;98;32;99;99;32;100;100].
Definition wl_text : str := wl_p ++ [10] ++ wl_p.
Definition wl_bws : list word :=
  [mkWord [] [] [] 0; mkWord [97;97;97] [32] [] 3; mkWord [98;98;98;98] [32] [] 4;
   mkWord [99;99] [32] [] 2; mkWord [100;100] [] [] 2].
Definition wl_lines : list str :=
  [[62;32;97;97;97;32;98;98;98;98]; [32;32;32;32;99;99;32;100;100];
   [32;32;32;32;97;97;97]; [32;32;32;32;98;98;98;98]; [32;32;32;32;99;99;32;100;100]].

Example ex_two_paragraphs_first_fit :
  split_le (o_le wl_o1) wl_text = [wl_p; wl_p] /\
  line_widths pipe_cw wl_o1 true = [8; 6] /\ line_widths pipe_cw wl_o1 false = [6; 6] /\
  pipeline_words pipe_cw pipe_alnum pipe_lbc custom3 wl_o1 true wl_p = Some wl_bws /\
  pipeline_words pipe_cw pipe_alnum pipe_lbc custom3 wl_o1 false wl_p = Some wl_bws /\
  first_fit word_frag wl_bws [8; 6]%Z =
    [firstn 3 wl_bws; skipn 3 wl_bws] /\
  first_fit word_frag wl_bws [6; 6]%Z =
    [firstn 2 wl_bws; firstn 1 (skipn 2 wl_bws); skipn 3 wl_bws] /\
  option_map (map l_text) (wrap pipe_cw pipe_alnum pipe_lbc custom3 ofit_dp wl_o1 wl_text) =
    Some (map l_text (group_lines wl_o1 true wl_bws (first_fit word_frag wl_bws [8; 6]%Z)) ++
          map l_text (group_lines wl_o1 false wl_bws (first_fit word_frag wl_bws [6; 6]%Z))) /\
  option_map (map l_text) (wrap pipe_cw pipe_alnum pipe_lbc custom3 ofit_dp wl_o1 wl_text) =
    Some wl_lines.
Proof. vm_compute. repeat split; reflexivity. Qed.

Example ex_two_paragraphs_optimal_fit :
  run_alg ofit_dp (o_alg wl_o2) wl_bws (line_widths pipe_cw wl_o2 true) =
    Some (map (fun '(a, b) => slice wl_bws a b) [(0, 3); (3, 5)]%nat) /\
  run_alg ofit_dp (o_alg wl_o2) wl_bws (line_widths pipe_cw wl_o2 false) =
    Some (map (fun '(a, b) => slice wl_bws a b) [(0, 2); (2, 3); (3, 5)]%nat) /\
  option_map (map l_text) (wrap pipe_cw pipe_alnum pipe_lbc custom3 ofit_dp wl_o2 wl_text) =
    Some (map l_text (group_lines wl_o2 true wl_bws
                        (map (fun '(a, b) => slice wl_bws a b) [(0, 3); (3, 5)]%nat)) ++
          map l_text (group_lines wl_o2 false wl_bws
                        (map (fun '(a, b) => slice wl_bws a b) [(0, 2); (2, 3); (3, 5)]%nat))) /\
  option_map (map l_text) (wrap pipe_cw pipe_alnum pipe_lbc custom3 ofit_dp wl_o2 wl_text) =
    Some wl_lines.
Proof. vm_compute. repeat split; reflexivity. Qed.

(* the theorems applied: the hypotheses are satisfiable, and the conclusion pins the texts
   of paragraph 1 to the first-fit groups for the widths [6; 6] *)
Example ex_by_theorem :
  exists ls pls,
    wrap pipe_cw pipe_alnum pipe_lbc custom3 ofit_dp wl_o1 wl_text = Some ls /\
    ls = concat pls /\
    exists pl, nth_error pls 1 = Some pl /\
      map l_text pl = [[32;32;32;32;97;97;97]; [32;32;32;32;98;98;98;98];
                       [32;32;32;32;99;99;32;100;100]].
Proof.
  destruct (wrap_first_fit_groups_ascii pipe_cw pipe_alnum pipe_lbc custom3 pipe_cw_le
              ofit_dp wl_o1 wl_text ofit_dp_ok custom3_splitter_ok eq_refl eq_refl)
    as [ls [pls [E1 [_ [E3 [_ E5]]]]]].
  exists ls, pls. split; [exact E1|]. split; [exact E3|].
  destruct (E5 1%nat wl_p eq_refl) as [bws [pl [A [_ [B [_ [C _]]]]]]].
  exists pl. split; [exact A|].
  vm_compute in B. injection B as <-. rewrite C. vm_compute. reflexivity.
Qed.

Print Assumptions slow_path_of_groups.
Print Assumptions wsl_texts_are_groups_first_fit.
Print Assumptions wsl_texts_are_groups_optimal_fit.
Print Assumptions wsl_texts_are_groups.
Print Assumptions wrap_paragraphs_wsl.
Print Assumptions wrap_first_fit_groups.
Print Assumptions wrap_optimal_fit_groups.
Print Assumptions wsl_texts_are_groups_ascii.
Print Assumptions wrap_first_fit_groups_ascii.
Print Assumptions wrap_optimal_fit_groups_ascii.
Print Assumptions wsl_texts_needs_reference_oracle.
Print Assumptions ex_two_paragraphs_first_fit.
Print Assumptions ex_two_paragraphs_optimal_fit.
Print Assumptions ex_by_theorem.
