(* The range on which the integer model IS the double-precision computation: with the
   default penalties, widths of at most 2^16 columns and at most 2^12 fragments, every cost
   the optimal-fit search stores is a non-negative integer below 2^53.  All inputs and all
   sub-terms of the cost expression are then integers of magnitude below 2^53 (each
   sub-term is bounded by the final value or by a width), and IEEE-754 double addition,
   subtraction and multiplication are exact on such operands when the exact result is again
   below 2^53 (that last fact about f64 is part of the trusted base, DESIGN.md section 4). *)
From Coq Require Import ZArith Lia List.
From TW Require Import OptFit Smawk.
From TW Require Import Bellman SmawkShape CostBound.
Import ListNotations.
Local Open Scope Z_scope.

Lemma LB_mono2 n n' W W' M : (n <= n')%nat -> 0 <= W <= W' -> 0 <= M ->
  LB n W M <= LB n' W' M.
Proof.
  intros Hn HW HM. unfold LB.
  assert (H1 : (2 * Z.of_nat n + 3) * W * M <= (2 * Z.of_nat n' + 3) * W' * M).
  { apply Z.mul_le_mono_nonneg_r; [lia|]. apply Z.mul_le_mono_nonneg; lia. }
  assert (H2 : (W + 1) * (W + 1) <= (W' + 1) * (W' + 1)) by (apply Z.mul_le_mono_nonneg; lia).
  lia.
Qed.

Theorem exact_domain eqT (fs : list (frag NumZ)) (lws : list Z) :
  Forall (frag_ok (2^16)) fs -> Forall (fun lw => 0 <= lw <= 2^16) lws ->
  (length fs <= 4096)%nat ->
  forall minima, smawk_minima NumZ eqT default_penalties fs lws = Some minima ->
  forall j i c, nth_error minima j = Some (i, c) -> 0 <= c < 2^53.
Proof.
  intros Hfs Hlws Hn minima E j i c Ej.
  assert (HP : pen_ok 2500 default_penalties).
  { unfold pen_ok, default_penalties. cbn [p_nline p_overflow p_frac p_short p_hyphen]. lia. }
  pose proof (smawk_minima_bound eqT default_penalties fs lws (2^16) 2500 ltac:(lia) HP Hfs Hlws minima E j i c Ej) as Hb.
  destruct (smawk_minima_ok NumZ eqT default_penalties fs lws minima E) as [Hlen _].
  assert (Hj : (j < length minima)%nat) by (apply nth_error_Some; rewrite Ej; discriminate).
  rewrite Hlen in Hj.
  pose proof (LB_mono2 (length fs) 4096 (2^16) (2^16) 2500 Hn ltac:(lia) ltac:(lia)) as Hm.
  pose proof (LB_nonneg (length fs) (2^16) 2500 ltac:(lia)) as H0.
  assert (Hjb : Z.of_nat j * LB (length fs) (2^16) 2500 <= 4096 * LB 4096 (2^16) 2500).
  { apply Z.mul_le_mono_nonneg; lia. }
  assert (Hc : 4096 * LB 4096 (2^16) 2500 < 2^53) by (apply Z.ltb_lt; vm_compute; reflexivity).
  lia.
Qed.
